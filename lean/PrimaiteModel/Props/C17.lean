/-
C17 — database: password-gated connections, connection-gated queries, restorable data.
Property theorems only; the model is `Model/Database.lean`, the regenerated tables are `Gen/Database.lean`.
-/
import PrimaiteModel.Model.Database
import PrimaiteModel.Lemmas.DatabaseReach
namespace Primaite.Database

/-! ## 1. The connect ladder (`_process_connect` behind `receive`) -/

/-- The status of a connect request is decided by the ladder
404 (service not running) → 503 (health not GOOD/FIXING/COMPROMISED, e.g. OVERWHELMED) → 401 (password differs) →
500 (at capacity) → 200. -/
theorem C17_connect_ladder (s : Server) (owner : Nat) (pw : Option Nat) :
    (processConnect s owner pw).2.1 =
      if s.op ≠ .running then 404
      else if healthAcceptsConnect s.health = false then 503
      else if s.password ≠ pw then 401
      else if s.maxSessions ≤ s.conns.length then 500
      else 200 := by
  unfold processConnect
  by_cases h1 : s.op ≠ .running
  · simp [h1]
  · by_cases h2 : healthAcceptsConnect s.health = false
    · simp [h1, h2]
    · by_cases h3 : s.password ≠ pw
      · simp [h1, h2, h3]
      · by_cases h4 : s.maxSessions ≤ s.conns.length
        · simp [h1, h2, h3, h4]
        · simp [h1, h2, h3, h4]

/-- 200 ⇔ running ∧ acceptable health ∧ right password ∧ below capacity. -/
theorem C17_connect_ok_iff (s : Server) (owner : Nat) (pw : Option Nat) :
    (processConnect s owner pw).2.1 = 200 ↔
      s.op = .running ∧ healthAcceptsConnect s.health = true ∧ s.password = pw ∧ s.conns.length < s.maxSessions := by
  rw [C17_connect_ladder]
  by_cases h1 : s.op = .running <;> by_cases h2 : healthAcceptsConnect s.health = true <;>
    by_cases h3 : s.password = pw <;> by_cases h4 : s.conns.length < s.maxSessions <;>
    simp [h1, h2, h3, h4] <;> omega

/-- 200 ⇔ exactly one connection, with the fresh id and the requester's address, is appended to the table and that id
is the one returned; any other status leaves the table as it was and returns no id. -/
theorem C17_connect_ok_adds_fresh (s : Server) (owner : Nat) (pw : Option Nat) :
    ((processConnect s owner pw).2.1 = 200 →
        (processConnect s owner pw).1.conns = s.conns ++ [{ id := s.nextId, owner := owner }] ∧
        (processConnect s owner pw).2.2 = some s.nextId) ∧
    ((processConnect s owner pw).2.1 ≠ 200 →
        (processConnect s owner pw).1.conns = s.conns ∧ (processConnect s owner pw).2.2 = none) := by
  unfold processConnect
  by_cases h1 : s.op ≠ .running
  · simp [h1]
  · by_cases h2 : healthAcceptsConnect s.health = false
    · simp [h1, h2]
    · by_cases h3 : s.password ≠ pw
      · simp [h1, h2, h3]
      · by_cases h4 : s.maxSessions ≤ s.conns.length
        · simp [h1, h2, h3, h4]
        · simp [h1, h2, h3, h4]

/-- Through `receive`, a connection is opened only for the correct password, while the service is RUNNING on a
powered-on node, and below capacity. -/
theorem C17_connect_only_if (s : Server) (src : Nat) (pw : Option Nat) (id : Option Nat) :
    (s.receive src (.connect pw)).2 = some (200, id) →
      s.node.st = .on ∧ s.op = .running ∧ s.password = pw ∧ s.conns.length < s.maxSessions ∧ id = some s.nextId := by
  unfold Server.receive
  by_cases hc : s.canAct = true
  · simp only [hc, Bool.not_true, Bool.false_eq_true, if_false]
    intro h
    have h200 : (processConnect s src pw).2.1 = 200 := by
      have := congrArg (fun o => o.map (·.1)) h; simpa using this
    have hid : (processConnect s src pw).2.2 = id := by
      have := congrArg (fun o => o.map (·.2)) h; simpa using this
    have hk := (C17_connect_ok_iff s src pw).mp h200
    have hf := (C17_connect_ok_adds_fresh s src pw).1 h200
    unfold Server.canAct Node.isOn at hc
    simp only [Bool.and_eq_true, beq_iff_eq] at hc
    exact ⟨hc.1, hk.1, hk.2.2.1, hk.2.2.2, by rw [← hid, hf.2]⟩
  · simp [hc]

example : (({} : Server).receive 0 (.connect none)).2 = some (200, some 0) := by decide
example : (({ password := some 1 } : Server).receive 0 (.connect none)).2 = some (401, none) := by decide

/-! ## 2. Queries are gated on the connection table -/

/-- A query is *run* (reaches `_process_sql`) iff the service can act and the id is in the connection table; otherwise the
answer is 401 (or nothing at all) and the server does not change. -/
theorem C17_query_gated (s : Server) (src : Nat) (cid : Option Nat) (q : Sql) :
    (s.canAct = true ∧ (∃ id, cid = some id ∧ s.hasConn id = true) →
        s.receive src (.sql cid q) = ((processSql s q).1, some ((processSql s q).2, none))) ∧
    (s.canAct = true ∧ ¬ (∃ id, cid = some id ∧ s.hasConn id = true) →
        s.receive src (.sql cid q) = (s, some (401, none))) ∧
    (s.canAct = false → s.receive src (.sql cid q) = (s, none)) := by
  refine ⟨?_, ?_, ?_⟩
  · rintro ⟨hc, id, rfl, hid⟩
    simp [Server.receive, hc, hid]
  · rintro ⟨hc, hn⟩
    cases cid with
    | none => simp [Server.receive, hc]
    | some id =>
      have : s.hasConn id = false := by
        cases h : s.hasConn id with
        | false => rfl
        | true => exact absurd ⟨id, rfl, h⟩ hn
      simp [Server.receive, hc, this]
  · intro hc
    simp [Server.receive, hc]

/-- The address that sends a query is irrelevant (the code checks only the id): stated so that it is visible. -/
theorem C17_query_ignores_sender (s : Server) (a b : Nat) (cid : Option Nat) (q : Sql) :
    s.receive a (.sql cid q) = s.receive b (.sql cid q) := by
  simp [Server.receive]

/-- A disconnect closes a connection only when it comes from the address that opened it; it removes exactly that id. -/
theorem C17_disconnect_owner_only (s : Server) (src id : Nat) :
    (s.receive src (.disconnect (some id))).1.conns =
      if s.canAct ∧ (∃ c ∈ s.conns, c.id = id ∧ c.owner = src) then s.conns.filter (fun c => !(c.id == id)) else s.conns := by
  unfold Server.receive
  by_cases hc : s.canAct = true
  · by_cases hx : s.conns.any (fun c => c.id == id && c.owner == src) = true
    · have : ∃ c ∈ s.conns, c.id = id ∧ c.owner = src := by
        simpa [List.any_eq_true] using hx
      simp [hc, hx, this]
    · have : ¬ ∃ c ∈ s.conns, c.id = id ∧ c.owner = src := by
        intro h; apply hx; simpa [List.any_eq_true] using h
      simp [hc, hx, this]
  · simp [hc]

example : (({ conns := [⟨0, 0⟩, ⟨1, 1⟩], nextId := 2 } : Server).receive 1 (.disconnect (some 0))).1.conns = [⟨0, 0⟩, ⟨1, 1⟩] := by decide
example : (({ conns := [⟨0, 0⟩, ⟨1, 1⟩], nextId := 2 } : Server).receive 0 (.disconnect (some 0))).1.conns = [⟨1, 1⟩] := by decide

/-! ## 3. Destructive queries and reads of damaged data -/

/-- `_process_sql` answers 200 to DELETE / ENCRYPT iff the file exists and the service is GOOD, and then the file is
COMPROMISED / CORRUPT; with any other answer nothing changes. -/
theorem C17_destructive (s : Server) :
    ((processSql s .delete).2 = 200 ↔ s.file.isSome ∧ s.health = .good) ∧
    ((processSql s .delete).2 = 200 → (processSql s .delete).1.file = some .compromised) ∧
    ((processSql s .delete).2 ≠ 200 → (processSql s .delete).1 = s) ∧
    ((processSql s .encrypt).2 = 200 ↔ s.file.isSome ∧ s.health = .good) ∧
    ((processSql s .encrypt).2 = 200 → (processSql s .encrypt).1.file = some .corrupt) ∧
    ((processSql s .encrypt).2 ≠ 200 → (processSql s .encrypt).1 = s) := by
  unfold processSql
  cases hf : s.file with
  | none => simp
  | some fh =>
    by_cases hh : s.health = .good
    · simp [hh]
    · simp [hh]

/-- Only DELETE and ENCRYPT write the file; every other query leaves the whole server unchanged. -/
theorem C17_nondestructive_unchanged (s : Server) (q : Sql) (h : q ≠ .delete ∧ q ≠ .encrypt) :
    (processSql s q).1 = s := by
  unfold processSql
  cases s.file with
  | none => rfl
  | some fh =>
    by_cases hh : s.health = .good
    · cases q <;> simp_all
    · simp [hh]

/-- A SELECT on COMPROMISED data never answers 200 … -/
theorem C17_select_fails_on_compromised (s : Server) (h : s.file = some .compromised) :
    (processSql s .select).2 ≠ 200 ∧ (processSql s .select).1 = s := by
  unfold processSql
  rw [h]
  by_cases hh : s.health = .good <;> simp [hh]

/-- … and SELECT answers 200 exactly when the file exists, is GOOD or CORRUPT, and the service is GOOD. -/
theorem C17_select_ok_iff (s : Server) :
    (processSql s .select).2 = 200 ↔ (s.file = some .good ∨ s.file = some .corrupt) ∧ s.health = .good := by
  unfold processSql
  cases hf : s.file with
  | none => simp
  | some fh =>
    by_cases hh : s.health = .good
    · cases fh <;> simp [hh]
    · simp [hh]

example : (processSql ({} : Server) .select).2 = 200 := by decide
example : (processSql (processSql ({} : Server) .delete).1 .select).2 = 404 := by decide

/-! ## 4. Backup and restore -/

/-- A successful backup stores the file's health of that moment on the backup host; an unsuccessful one stores nothing
(in particular an existing backup is never overwritten). -/
theorem C17_backup_stores (s : Server) (b : Backup) (p big : Bool) :
    ((backupDatabase s b p big).2.2 = true →
        b.stored = none ∧ s.canAct = true ∧ p = true ∧ b.serves = true ∧ big = true ∧
        s.backupConfigured = true ∧ s.ftpc = some .running ∧
        (backupDatabase s b p big).2.1.stored = s.file ∧ s.file.isSome) ∧
    ((backupDatabase s b p big).2.2 = false → (backupDatabase s b p big).2.1 = b) := by
  unfold backupDatabase ftpSendFile Server.ftpcAct
  by_cases hc : s.canAct = true
  · by_cases hb : s.backupConfigured = true
    · cases hft : s.ftpc with
      | none => simp [hc, hb]
      | some f =>
        cases hf : s.file with
        | none => simp [hc, hb]
        | some fh =>
          by_cases hp : (f == .running && p && b.serves) = true
          · cases hs : b.stored with
            | none =>
              have hp' := hp
              simp only [Bool.and_eq_true, beq_iff_eq] at hp'
              cases big <;> simp [hc, hb, hp, hs, hp'.1.1, hp'.1.2, hp'.2]
            | some x => cases big <;> simp [hc, hb, hp, hs]
          · by_cases hq : s.ftpConn = true <;> simp [hc, hb, hp, hq]
    · simp [hc, hb]
  · simp [hc]

set_option linter.unusedSimpArgs false in
/-- `restore_backup` in closed form: the three guards; then the copy arrives iff the request path is open, the backup host
serves, its link takes the file, the answer path is open and the FTP client is RUNNING (and the backup host stores a copy);
then downloads/ and the live file hold that copy and the service is GOOD; otherwise the only traces are the removed
leftover and the FTP client's connection bookkeeping. -/
theorem restoreBackup_closed (s : Server) (b : Backup) (pq pr k : Bool) :
    restoreBackup s b pq pr k =
      if !s.canAct || !s.backupConfigured || s.ftpc.isNone then (s, false)
      else match b.stored with
        | some bh =>
          if pq && b.serves && k && pr && s.ftpcAct then
            ({ s with ftpConn := true, downloads := some bh, dlFolder := true, file := some bh, folder := true, health := .good,
                      dlDeleted := s.dlDeleted ++ s.downloads.toList, fileDeleted := s.fileDeleted ++ s.file.toList }, true)
          else ({ s with downloads := none, dlDeleted := s.dlDeleted ++ s.downloads.toList,
                         ftpConn := s.ftpConn || (s.ftpcAct && pq && b.serves) }, false)
        | none => ({ s with downloads := none, dlDeleted := s.dlDeleted ++ s.downloads.toList,
                            ftpConn := s.ftpConn || (s.ftpcAct && pq && b.serves) }, false) := by
  unfold restoreBackup ftpRequestFile Server.ftpcAct
  cases hc : s.canAct <;> cases hbc : s.backupConfigured <;> cases hft : s.ftpc <;> simp [hc, hbc, hft]
  rename_i f
  cases pq <;> cases hbs : b.serves <;> cases hs : b.stored <;> cases k <;> cases hq : s.ftpConn <;> cases pr <;> cases f <;>
    simp [hbs, hs, hq]

/-- A restore reports success ONLY when the file really came over the network in this call: the service can act, a
backup server is configured, the request path is open, the backup host serves, it stores a copy, its link takes the file,
the answer path is open and the FTP client on the database host is RUNNING; and then the live database file, and the
copy under downloads/, are exactly what the backup host stores, and the service is GOOD.  Nothing in this statement
mentions what was lying under downloads/ before (`C17_restore_ignores_leftovers`). -/
theorem C17_restore_result (s : Server) (b : Backup) (pq pr k : Bool) (hok : (restoreBackup s b pq pr k).2 = true) :
    ∃ h, b.stored = some h ∧ (restoreBackup s b pq pr k).1.file = some h ∧ (restoreBackup s b pq pr k).1.health = .good ∧
      (restoreBackup s b pq pr k).1.downloads = some h ∧
      s.canAct = true ∧ s.backupConfigured = true ∧ pq = true ∧ b.serves = true ∧ k = true ∧ pr = true ∧
      s.ftpcAct = true := by
  unfold restoreBackup ftpRequestFile Server.ftpcAct at hok ⊢
  cases hc : s.canAct <;> cases hbc : s.backupConfigured <;> cases hft : s.ftpc <;> simp [hc, hbc, hft] at hok ⊢
  rename_i f
  cases pq <;> cases hbs : b.serves <;> cases hs : b.stored <;> cases k <;> cases hq : s.ftpConn <;>
    simp [hbs, hs, hq] at hok ⊢
  all_goals (cases pr <;> cases f <;> simp_all)

/-- `restore_good`: a successful restore makes the database file exactly what the backup host stores and the service
GOOD - whatever was under downloads/ before. -/
theorem C17_restore_yields_backup (s : Server) (b : Backup) (pq pr k : Bool)
    (hok : (restoreBackup s b pq pr k).2 = true) :
    (restoreBackup s b pq pr k).1.file = b.stored ∧ (restoreBackup s b pq pr k).1.health = .good := by
  obtain ⟨h, hst, hf, hg, _⟩ := C17_restore_result s b pq pr k hok
  exact ⟨by rw [hf, hst], hg⟩

/-- **Leftovers under downloads/ do not matter.**  Whatever `downloads/database.db` holds before the call (nothing, the
copy of an earlier restore, a planted or damaged file), the outcome, the database file, the service health and the copy
left under downloads/ afterwards are the same.  (Finding F-C17-2: before the repair a leftover was restored instead of
the backup.) -/
theorem C17_restore_ignores_leftovers (s : Server) (b : Backup) (pq pr k : Bool) (d : Option FHealth) (f : Bool) :
    (restoreBackup { s with downloads := d, dlFolder := f } b pq pr k).2 = (restoreBackup s b pq pr k).2 ∧
    (restoreBackup { s with downloads := d, dlFolder := f } b pq pr k).1.file = (restoreBackup s b pq pr k).1.file ∧
    (restoreBackup { s with downloads := d, dlFolder := f } b pq pr k).1.health = (restoreBackup s b pq pr k).1.health ∧
    (restoreBackup { s with downloads := d, dlFolder := f } b pq pr k).1.conns = (restoreBackup s b pq pr k).1.conns ∧
    ((restoreBackup s b pq pr k).2 = true →
      (restoreBackup { s with downloads := d, dlFolder := f } b pq pr k).1.downloads = (restoreBackup s b pq pr k).1.downloads ∧
      { (restoreBackup { s with downloads := d, dlFolder := f } b pq pr k).1 with dlDeleted := [] } =
        { (restoreBackup s b pq pr k).1 with dlDeleted := [] }) := by
  rw [restoreBackup_closed, restoreBackup_closed]
  have e1 : Server.canAct { s with downloads := d, dlFolder := f } = s.canAct := rfl
  have e2 : Server.ftpcAct { s with downloads := d, dlFolder := f } = s.ftpcAct := rfl
  simp only [e1, e2]
  cases hg : (!s.canAct || !s.backupConfigured || s.ftpc.isNone)
  · cases hs : b.stored with
    | none => simp
    | some bh => cases hx : (pq && b.serves && k && pr && s.ftpcAct) <;> simp
  · simp

/-- A restore that fails — whatever the reason: service not running, request or answer path closed, backup host off,
FTP server stopped, FTP client not running, nothing stored, a saturated link — leaves the server as it was, up to the
FTP client's connection bookkeeping and the leftover under downloads/ (which a restore that got as far as asking the
backup server has removed); in particular the live database file, the service health and the connection table are
kept.  (Finding F-33: before that repair the live file was deleted when the backup copy did not arrive.) -/
theorem C17_failed_restore_changes_nothing (s : Server) (b : Backup) (pq pr k : Bool)
    (h : (restoreBackup s b pq pr k).2 = false) :
    (restoreBackup s b pq pr k).1 = { s with ftpConn := (restoreBackup s b pq pr k).1.ftpConn,
                                             downloads := (restoreBackup s b pq pr k).1.downloads,
                                             dlDeleted := (restoreBackup s b pq pr k).1.dlDeleted } ∧
    ((restoreBackup s b pq pr k).1.downloads = s.downloads ∨ (restoreBackup s b pq pr k).1.downloads = none) := by
  revert h
  rw [restoreBackup_closed]
  cases hg : (!s.canAct || !s.backupConfigured || s.ftpc.isNone)
  · cases hs : b.stored with
    | none => simp
    | some bh => cases hx : (pq && b.serves && k && pr && s.ftpcAct) <;> simp
  · simp

/-- End to end: back up while GOOD, then let the server get into ANY state `s'` (damage, leftovers, earlier restores):
a restore that reports success makes the file GOOD again. -/
theorem C17_restore_good (s : Server) (b : Backup) (p big pq pr k : Bool) (s' : Server)
    (hgood : s.file = some .good) (hbk : (backupDatabase s b p big).2.2 = true)
    (hok : (restoreBackup s' (backupDatabase s b p big).2.1 pq pr k).2 = true) :
    (restoreBackup s' (backupDatabase s b p big).2.1 pq pr k).1.file = some .good ∧
    (restoreBackup s' (backupDatabase s b p big).2.1 pq pr k).1.health = .good := by
  have hb := (C17_backup_stores s b p big).1 hbk
  have hst : (backupDatabase s b p big).2.1.stored = some .good := by rw [hb.2.2.2.2.2.2.2.1, hgood]
  have hy := C17_restore_yields_backup s' _ pq pr k hok
  exact ⟨by rw [hy.1, hst], hy.2⟩

example :
    let s : Server := {}
    let r := backupDatabase s ({} : Backup) true
    let dmg := (processSql r.1 .delete).1
    (restoreBackup dmg r.2.1 true true) =
      ({ dmg with file := some .good, downloads := some .good, dlFolder := true, ftpConn := true,
                  fileDeleted := [.compromised] }, true) := by decide
/-- a second restore over a CORRUPT leftover still yields the (GOOD) backup -/
example :
    let s : Server := {}
    let r := backupDatabase s ({} : Backup) true
    let s1 := (restoreBackup (processSql r.1 .delete).1 r.2.1 true true).1
    let s2 := (processSql (s1.dl .corrupt).1 .delete).1
    s2.downloads = some .corrupt ∧ (restoreBackup s2 r.2.1 true true).2 = true ∧
      (restoreBackup s2 r.2.1 true true).1.file = some .good := by decide

/-- **No backup server configured** (`backup_server_ip` None): backup and restore answer False and change nothing. -/
theorem C17_unconfigured_backup_restore (s : Server) (h : s.backupConfigured = false) (b : Backup) (pq pr big k : Bool) :
    backupDatabase s b pq big = (s, b, false) ∧ restoreBackup s b pq pr k = (s, false) := by
  unfold backupDatabase restoreBackup
  cases hc : s.canAct <;> simp [h]

/-- **No FTP client on the database host** (uninstalled): backup and restore answer False and change nothing. With an
FTP client that cannot act (stopped, paused, disabled, restarting) a backup is impossible and a restore fails, too: RETR is
still sent (it does not ask the FTP client), but the answer is not stored, and no leftover is accepted in its place. -/
theorem C17_ftp_client_needed (s : Server) (b : Backup) (pq pr big k : Bool) :
    (s.ftpc = none → backupDatabase s b pq big = (s, b, false) ∧ restoreBackup s b pq pr k = (s, false)) ∧
    (s.ftpc ≠ some .running → (backupDatabase s b pq big).2.2 = false ∧ (backupDatabase s b pq big).2.1 = b) ∧
    (s.ftpc ≠ some .running → (restoreBackup s b pq pr k).2 = false) := by
  refine ⟨?_, ?_, ?_⟩
  · intro h
    unfold backupDatabase restoreBackup
    cases hc : s.canAct <;> cases hbc : s.backupConfigured <;> simp [h]
  · intro h
    have hb := C17_backup_stores s b pq big
    cases hr : (backupDatabase s b pq big).2.2 with
    | false => exact ⟨rfl, hb.2 hr⟩
    | true => exact absurd (hb.1 hr).2.2.2.2.2.2.1 h
  · intro h
    cases hr : (restoreBackup s b pq pr k).2 with
    | false => rfl
    | true =>
      obtain ⟨_, _, _, _, _, _, _, _, _, _, _, hrun⟩ := C17_restore_result s b pq pr k hr
      exfalso; apply h
      simpa [Server.ftpcAct] using hrun

/-- **Saturated link.**  When a link refuses the frame that carries the file, a backup stores nothing and answers False;
a restore whose file is refused by the backup host's own link answers False and leaves the server as it was (up to the
FTP client's connection bookkeeping and the removed leftover); refused further down it behaves like a blocked answer
path (`pr = false`). -/
theorem C17_saturated_transfer (s : Server) (b : Backup) (pq pr : Bool) :
    ((backupDatabase s b pq false).2.2 = false ∧ (backupDatabase s b pq false).2.1 = b) ∧
    ((restoreBackup s b pq pr false).2 = false ∧
      (restoreBackup s b pq pr false).1 = { s with ftpConn := (restoreBackup s b pq pr false).1.ftpConn,
                                                   downloads := (restoreBackup s b pq pr false).1.downloads,
                                                   dlDeleted := (restoreBackup s b pq pr false).1.dlDeleted }) := by
  have hb := C17_backup_stores s b pq false
  have h1 : (backupDatabase s b pq false).2.2 = false := by
    cases hr : (backupDatabase s b pq false).2.2 with
    | false => rfl
    | true => exact absurd (hb.1 hr).2.2.2.2.1 (by decide)
  have h2 : (restoreBackup s b pq pr false).2 = false := by
    cases hr : (restoreBackup s b pq pr false).2 with
    | false => rfl
    | true =>
      obtain ⟨_, _, _, _, _, _, _, _, _, hk, _⟩ := C17_restore_result s b pq pr false hr
      exact absurd hk (by decide)
  exact ⟨⟨h1, hb.2 h1⟩, h2, (C17_failed_restore_changes_nothing s b pq pr false h2).1⟩

/-! ## 5. Unavailability: service not running, node not ON, or path blocked -/

/-- With the service not RUNNING or the node not ON, no payload is answered and the server does not change. -/
theorem C17_unavailable_receive (s : Server) (h : s.canAct = false) (src : Nat) (p : Payload) :
    s.receive src p = (s, none) := by
  cases p <;> simp [Server.receive, h]

/-- … and neither backup nor restore does anything. -/
theorem C17_unavailable_backup_restore (s : Server) (h : s.canAct = false) (b : Backup) (pq pr big k : Bool) :
    backupDatabase s b pq big = (s, b, false) ∧ restoreBackup s b pq pr k = (s, false) := by
  simp [backupDatabase, restoreBackup, h]

theorem C17_canAct_iff (s : Server) : s.canAct = true ↔ s.node.st = .on ∧ s.op = .running := by
  simp [Server.canAct, Node.isOn]

/-- With the request direction closed (a NIC down on either side, or an ACL block) nothing reaches the server:
the whole state is unchanged and the client sees no answer. -/
theorem C17_blocked_send (st : State) (i : Nat) (p : Payload) (h : st.reqOpen i = false) :
    st.send i p = (st, none, none) := by
  simp [State.send, h]

/-- With the server unavailable a sent payload changes nothing either. -/
theorem C17_unavailable_send (st : State) (i : Nat) (p : Payload) (h : st.srv.canAct = false) :
    st.send i p = (st, none, none) := by
  unfold State.send
  by_cases hr : (!st.reqOpen i || !st.srv.listening) = true
  · simp [hr]
  · simp [hr, C17_unavailable_receive st.srv h]

/-- **No path, no restore.**  With the request path closed, the backup host off or its FTP server stopped, the answer path
closed (or a link on it refusing the file), or the FTP client on the database host not running, a restore FAILS -
whatever is lying under downloads/ and however many restores succeeded before - and the database file, the service
health, the connection table, every other field but the FTP bookkeeping and the (possibly removed) leftover are kept. -/
theorem C17_blocked_restore (s : Server) (b : Backup) (pq pr k : Bool)
    (h : (pq && b.serves && pr && k && s.ftpcAct) = false) :
    (restoreBackup s b pq pr k).2 = false ∧
    (restoreBackup s b pq pr k).1 = { s with ftpConn := (restoreBackup s b pq pr k).1.ftpConn,
                                             downloads := (restoreBackup s b pq pr k).1.downloads,
                                             dlDeleted := (restoreBackup s b pq pr k).1.dlDeleted } ∧
    (restoreBackup s b pq pr k).1.file = s.file ∧ (restoreBackup s b pq pr k).1.health = s.health ∧
    (restoreBackup s b pq pr k).1.conns = s.conns := by
  have h2 : (restoreBackup s b pq pr k).2 = false := by
    cases hr : (restoreBackup s b pq pr k).2 with
    | false => rfl
    | true =>
      obtain ⟨_, _, _, _, _, _, _, hpq, hbs, hk, hpr, hf⟩ := C17_restore_result s b pq pr k hr
      rw [hpq, hbs, hk, hpr, hf] at h; cases h
  have h3 := (C17_failed_restore_changes_nothing s b pq pr k h2).1
  refine ⟨h2, h3, ?_, ?_, ?_⟩ <;> rw [h3]

example : (restoreBackup ({ downloads := some .good, file := some .compromised } : Server) { stored := some .good } true false true).2 = false := by
  decide

/-- **Not listening.**  When the database service is uninstalled, or the host's (5432, tcp) port-map entry belongs to a
co-located database client (or was removed with it), nothing a client sends reaches the service. -/
theorem C17_not_listening_send (st : State) (i : Nat) (p : Payload) (h : st.srv.listening = false) :
    st.send i p = (st, none, none) := by
  simp [State.send, h]

theorem C17_listening_iff (s : Server) : s.listening = true ↔ s.installed = true ∧ s.portMine = true := by
  simp [Server.listening]

/-- A handle that was closed (or whose client is uninstalled) sends nothing: the query fails locally and the whole
state is unchanged. -/
theorem C17_inactive_handle_no_traffic (st : State) (h : Nat) (hd : Handle) (q : Sql) (hh : st.handles[h]? = some hd)
    (hi : hd.active = false ∨ st.clientInstalled hd.host = false) : st.handleQuery h q = (st, none, false) := by
  unfold State.handleQuery
  rw [hh]
  rcases hi with hi | hi <;> simp [hi]

/-! ## 6. Capacity boundary and passwords -/

/-- At the session limit a further (correctly authenticated) connect is refused with 500 and marks the service
OVERWHELMED; one below the limit it succeeds. -/
theorem C17_capacity_boundary (s : Server) (owner : Nat)
    (hr : s.op = .running) (hh : healthAcceptsConnect s.health = true) :
    (s.conns.length = s.maxSessions →
        (processConnect s owner s.password).2.1 = 500 ∧ (processConnect s owner s.password).1.health = .overwhelmed ∧
        (processConnect s owner s.password).1.conns = s.conns) ∧
    (s.conns.length + 1 = s.maxSessions →
        (processConnect s owner s.password).2.1 = 200 ∧
        (processConnect s owner s.password).1.conns.length = s.maxSessions) := by
  unfold processConnect
  constructor
  · intro h
    have : s.maxSessions ≤ s.conns.length := by omega
    simp [hr, hh, this]
  · intro h
    have : ¬ s.maxSessions ≤ s.conns.length := by omega
    simp [hr, hh, this]
    omega

/-- Once OVERWHELMED, every connect is answered 503 and every query 500 until the health changes (restore, or
compromise + fix): the code never leaves OVERWHELMED by itself, even after connections are closed. -/
theorem C17_overwhelmed_refuses (s : Server) (h : s.health = .overwhelmed) (hr : s.op = .running) (owner : Nat)
    (pw : Option Nat) (q : Sql) :
    (processConnect s owner pw).2.1 = 503 ∧ (processConnect s owner pw).1 = s ∧
    (processSql s q).2 ≠ 200 ∧ (processSql s q).1 = s := by
  refine ⟨by simp [processConnect, hr, h, healthAcceptsConnect], by simp [processConnect, hr, h, healthAcceptsConnect], ?_, ?_⟩
  · unfold processSql; cases s.file <;> simp [h]
  · unfold processSql; cases s.file <;> simp [h]

/-- Wrong then right password: a refused attempt changes nothing, so the next attempt with the right password is
decided exactly as if the wrong one had never been made. -/
theorem C17_wrong_then_right_password (s : Server) (a b : Nat) (wrong : Option Nat) (hw : s.password ≠ wrong)
    (hr : s.op = .running) (hh : healthAcceptsConnect s.health = true) :
    (processConnect s a wrong).2.1 = 401 ∧ (processConnect s a wrong).1 = s ∧
    processConnect (processConnect s a wrong).1 b s.password = processConnect s b s.password := by
  have h1 : (processConnect s a wrong).1 = s := by simp [processConnect, hr, hh, hw]
  exact ⟨by simp [processConnect, hr, hh, hw], h1, by rw [h1]⟩

/-- A client whose configured password differs from the server's gets no handle and leaves the server's table alone. -/
theorem C17_wrong_password_no_handle (st : State) (i : Nat) (c : Client) (hc : st.client? i = some c)
    (hw : st.srv.password ≠ c.serverPw) :
    (st.getNewConnection i).2.2 = none ∧ (st.getNewConnection i).1.srv.conns = st.srv.conns := by
  unfold State.getNewConnection
  simp only [hc]
  by_cases hca : c.canAct = true
  · simp only [hca, Bool.not_true, Bool.false_eq_true, if_false]
    unfold State.send
    by_cases hr : st.reqOpen i = true ∧ st.srv.listening = true
    · simp only [hr.1, hr.2, Bool.not_true, Bool.false_eq_true, Bool.or_self, if_false, Server.receive]
      by_cases hs : st.srv.canAct = true
      · simp only [hs, Bool.not_true, Bool.false_eq_true, if_false]
        have hl := C17_connect_ladder st.srv i c.serverPw
        have hne : (processConnect st.srv i c.serverPw).2.1 ≠ 200 := by
          rw [hl]; split
          · decide
          · split
            · decide
            · simp [hw]
        have hkeep := (C17_connect_ok_adds_fresh st.srv i c.serverPw).2 hne
        split
        · rename_i heq
          exfalso
          split at heq
          · split at heq <;> simp at heq
            exact hne heq.1
          · simp at heq
        · simp_all
      · simp [hs]
    · have : (!st.reqOpen i || !st.srv.listening) = true := by
        cases h1 : st.reqOpen i <;> cases h2 : st.srv.listening <;> simp_all
      simp [this]
  · simp [hca]

/-! ## 7. Ties to the regenerated tables (`Gen/Database.lean`) -/

def Health.name : Health → String
  | .unused => "UNUSED" | .good => "GOOD" | .fixing => "FIXING" | .compromised => "COMPROMISED" | .overwhelmed => "OVERWHELMED"

def SvcState.name : SvcState → String
  | .stopped => "STOPPED" | .running => "RUNNING" | .paused => "PAUSED" | .restarting => "RESTARTING" | .disabled => "DISABLED"

def FHealth.name : FHealth → String
  | .good => "GOOD" | .compromised => "COMPROMISED" | .corrupt => "CORRUPT"

def svcReqName : SvcReq → String
  | .stop => "stop" | .start => "start" | .pause => "pause" | .resume => "resume" | .restart => "restart"
  | .disable => "disable" | .enable => "enable" | .fix => "fix" | .compromise => "compromise" | .scan => "scan"

/-- The state a service request's validator demands, as modelled (`none` = no validator). -/
def modelValidator : SvcReq → Option SvcState
  | .stop => some .running | .start => some .stopped | .pause => some .running | .resume => some .paused
  | .restart => some .running | .disable => none | .enable => some .disabled | .fix => some .running | .compromise => none
  | .scan => some .running

/-- The request model agrees with its validator table: a request whose validator state differs from the current
state (or whose node is not ON) is rejected and changes nothing. -/
theorem C17_request_validated (s : Server) (r : SvcReq) :
    (s.node.st ≠ .on ∨ (∃ st, modelValidator r = some st ∧ s.op ≠ st)) → s.request r = (s, none) := by
  intro h
  unfold Server.request
  by_cases hn : s.node.isOn = true
  · have hon : s.node.st = .on := by simpa [Node.isOn] using hn
    rcases h with h | ⟨st, hv, hne⟩
    · exact absurd hon h
    · cases r <;> simp [modelValidator] at hv <;> subst hv <;> simp [hn, hne]
  · simp [hn]

/-! ## 8. All operation sequences

`Lemmas/DatabaseReach.lean` proves `run_reach`: along any operation sequence the server changes only through events that
the operations permit.  The theorems below are proved for every event (hence every event sequence) and lifted to
`run st ops` for every state `st` and every list `ops`. -/

/-- What a non-`recv` event leaves alone: the connection table, the id counter, the session limit. -/
theorem restore_frame (s : Server) (b : Backup) (pq pr k : Bool) :
    (restoreBackup s b pq pr k).1.conns = s.conns ∧ (restoreBackup s b pq pr k).1.nextId = s.nextId ∧
    (restoreBackup s b pq pr k).1.password = s.password ∧ (restoreBackup s b pq pr k).1.node = s.node ∧
    (restoreBackup s b pq pr k).1.op = s.op ∧ (restoreBackup s b pq pr k).1.maxSessions = s.maxSessions := by
  rw [restoreBackup_closed]
  cases hg : (!s.canAct || !s.backupConfigured || s.ftpc.isNone)
  · cases hs : b.stored with
    | none => simp
    | some bh => cases hx : (pq && b.serves && k && pr && s.ftpcAct) <;> simp
  · simp

theorem backup_frame (s : Server) (b : Backup) (pq big : Bool) :
    (backupDatabase s b pq big).1.conns = s.conns ∧ (backupDatabase s b pq big).1.nextId = s.nextId ∧
    (backupDatabase s b pq big).1.file = s.file ∧ (backupDatabase s b pq big).1.password = s.password ∧
    (backupDatabase s b pq big).1.maxSessions = s.maxSessions := by
  cases big <;> unfold backupDatabase ftpSendFile <;> dsimp only <;> (repeat' split) <;> first | simp | simp_all

theorem request_frame (s : Server) (r : SvcReq) :
    (s.request r).1.conns = s.conns ∧ (s.request r).1.nextId = s.nextId ∧ (s.request r).1.file = s.file ∧
    (s.request r).1.password = s.password ∧ (s.request r).1.maxSessions = s.maxSessions := by
  unfold Server.request
  split
  · simp
  · cases r <;> dsimp only <;> (repeat' split) <;> simp

theorem startUp_frame (s : Server) :
    s.startUp.conns = s.conns ∧ s.startUp.nextId = s.nextId ∧ s.startUp.file = s.file ∧ s.startUp.password = s.password ∧
    s.startUp.node = s.node ∧ s.startUp.maxSessions = s.maxSessions := by
  unfold Server.startUp; dsimp only; split <;> simp

theorem shutDown_frame (s : Server) :
    s.shutDown.conns = s.conns ∧ s.shutDown.nextId = s.nextId ∧ s.shutDown.file = s.file ∧ s.shutDown.password = s.password ∧
    s.shutDown.node = s.node ∧ s.shutDown.maxSessions = s.maxSessions := by
  unfold Server.shutDown; dsimp only; split <;> simp

theorem tickPower_frame (s : Server) :
    s.tickPower.conns = s.conns ∧ s.tickPower.nextId = s.nextId ∧ s.tickPower.file = s.file ∧
    s.tickPower.password = s.password ∧ s.tickPower.maxSessions = s.maxSessions := by
  unfold Server.tickPower
  dsimp only
  split <;> split <;>
    simp [(startUp_frame _).1, (startUp_frame _).2.1, (startUp_frame _).2.2.1, (startUp_frame _).2.2.2.1,
          (startUp_frame _).2.2.2.2.2,
          (shutDown_frame _).1, (shutDown_frame _).2.1, (shutDown_frame _).2.2.1, (shutDown_frame _).2.2.2.1,
          (shutDown_frame _).2.2.2.2.2]

theorem tickRestart_frame (s : Server) :
    s.tickRestart.conns = s.conns ∧ s.tickRestart.nextId = s.nextId ∧ s.tickRestart.file = s.file ∧
    s.tickRestart.password = s.password ∧ s.tickRestart.maxSessions = s.maxSessions := by
  unfold Server.tickRestart
  split
  · split <;> simp
  · simp

/-- the FTP client's own tick touches nothing but its two countdowns and its operating state -/
theorem tickFtpc_frame (s : Server) :
    s.tickFtpc.conns = s.conns ∧ s.tickFtpc.nextId = s.nextId ∧ s.tickFtpc.file = s.file ∧
    s.tickFtpc.password = s.password ∧ s.tickFtpc.maxSessions = s.maxSessions ∧ s.tickFtpc.health = s.health ∧
    s.tickFtpc.op = s.op ∧ s.tickFtpc.node = s.node ∧ s.tickFtpc.downloads = s.downloads := by
  unfold Server.tickFtpc
  cases s.ftpc <;> simp

theorem tickFix_frame (s : Server) (b : Backup) (pq pr k : Bool) :
    (s.tickFix b pq pr k).conns = s.conns ∧ (s.tickFix b pq pr k).nextId = s.nextId ∧
    (s.tickFix b pq pr k).password = s.password ∧ (s.tickFix b pq pr k).maxSessions = s.maxSessions := by
  unfold Server.tickFix
  split
  · split
    · have h := restore_frame { s with health := .good, fixCd := 0 } b pq pr k
      exact ⟨h.1, h.2.1, h.2.2.1, h.2.2.2.2.2⟩
    · simp
  · simp

theorem tickSvc_frame (s : Server) (b : Backup) (t : Nat) (pq pr big k : Bool) :
    (s.tickSvc b t pq pr big k).1.conns = s.conns ∧ (s.tickSvc b t pq pr big k).1.nextId = s.nextId ∧
    (s.tickSvc b t pq pr big k).1.password = s.password ∧ (s.tickSvc b t pq pr big k).1.maxSessions = s.maxSessions := by
  unfold Server.tickSvc
  dsimp only
  split
  · simp
  · split
    · have hb := backup_frame s b pq big
      have hf := tickFix_frame (backupDatabase s b pq big).1 (backupDatabase s b pq big).2.1 pq pr k
      have hr := tickRestart_frame ((backupDatabase s b pq big).1.tickFix (backupDatabase s b pq big).2.1 pq pr k)
      dsimp only
      refine ⟨?_, ?_, ?_, ?_⟩
      · rw [hr.1, hf.1, hb.1]
      · rw [hr.2.1, hf.2.1, hb.2.1]
      · rw [hr.2.2.2.1, hf.2.2.1, hb.2.2.2.1]
      · rw [hr.2.2.2.2, hf.2.2.2, hb.2.2.2.2]
    · have hf := tickFix_frame s b pq pr k
      have hr := tickRestart_frame (s.tickFix b pq pr k)
      dsimp only
      refine ⟨?_, ?_, ?_, ?_⟩
      · rw [hr.1, hf.1]
      · rw [hr.2.1, hf.2.1]
      · rw [hr.2.2.2.1, hf.2.2.1]
      · rw [hr.2.2.2.2, hf.2.2.2]

theorem serverTick_frame (s : Server) (b : Backup) (t : Nat) (pq pr big k : Bool) :
    (serverTick s b t pq pr big k).1.conns = s.conns ∧ (serverTick s b t pq pr big k).1.nextId = s.nextId ∧
    (serverTick s b t pq pr big k).1.password = s.password ∧ (serverTick s b t pq pr big k).1.maxSessions = s.maxSessions := by
  unfold serverTick
  dsimp only
  have hp := tickPower_frame s
  split
  · exact ⟨hp.1, hp.2.1, hp.2.2.2.1, hp.2.2.2.2⟩
  · split
    · have hf := tickFtpc_frame s.tickPower
      have hs := tickSvc_frame s.tickPower.tickFtpc b t pq pr big k
      refine ⟨?_, ?_, ?_, ?_⟩
      · rw [hs.1, hf.1, hp.1]
      · rw [hs.2.1, hf.2.1, hp.2.1]
      · rw [hs.2.2.1, hf.2.2.2.1, hp.2.2.2.1]
      · rw [hs.2.2.2, hf.2.2.2.2.1, hp.2.2.2.2]
    · have hs := tickSvc_frame s.tickPower b t pq pr big k
      have hf := tickFtpc_frame (s.tickPower.tickSvc b t pq pr big k).1
      dsimp only
      refine ⟨?_, ?_, ?_, ?_⟩
      · rw [hf.1, hs.1, hp.1]
      · rw [hf.2.1, hs.2.1, hp.2.1]
      · rw [hf.2.2.2.1, hs.2.2.1, hp.2.2.2.1]
      · rw [hf.2.2.2.2.1, hs.2.2.2, hp.2.2.2.2]

theorem power_frame (s : Server) :
    s.powerOn.conns = s.conns ∧ s.powerOn.nextId = s.nextId ∧ s.powerOn.file = s.file ∧
    s.powerOff.conns = s.conns ∧ s.powerOff.nextId = s.nextId ∧ s.powerOff.file = s.file ∧
    s.powerOn.maxSessions = s.maxSessions ∧ s.powerOff.maxSessions = s.maxSessions := by
  unfold Server.powerOn Server.powerOff
  dsimp only
  split <;> split <;>
    simp [(startUp_frame _).1, (startUp_frame _).2.1, (startUp_frame _).2.2.1, (startUp_frame _).2.2.2.2.2,
          (shutDown_frame _).1, (shutDown_frame _).2.1, (shutDown_frame _).2.2.1, (shutDown_frame _).2.2.2.2.2]

theorem file_frame (s : Server) :
    s.fileDelete.1.conns = s.conns ∧ s.fileDelete.1.nextId = s.nextId ∧
    s.fileCorrupt.1.conns = s.conns ∧ s.fileCorrupt.1.nextId = s.nextId ∧
    s.fileRepair.1.conns = s.conns ∧ s.fileRepair.1.nextId = s.nextId ∧
    s.folderDelete.1.conns = s.conns ∧ s.folderDelete.1.nextId = s.nextId ∧
    s.fileDelete.1.maxSessions = s.maxSessions ∧ s.fileCorrupt.1.maxSessions = s.maxSessions ∧
    s.fileRepair.1.maxSessions = s.maxSessions ∧ s.folderDelete.1.maxSessions = s.maxSessions := by
  unfold Server.fileDelete Server.fileCorrupt Server.fileRepair Server.folderDelete
  cases s.file <;> cases s.folder <;> simp

/-- Administrative changes (FTP client lifecycle / restart / fix / scan / uninstall / re-install, service uninstall,
backup-server configuration, a co-located database client) touch neither the connection table, nor the data, nor the
password, nor the service's own states. -/
theorem admin_frame (s : Server) (a : Admin) :
    (s.admin a).1.conns = s.conns ∧ (s.admin a).1.nextId = s.nextId ∧ (s.admin a).1.file = s.file ∧
    (s.admin a).1.password = s.password ∧ (s.admin a).1.op = s.op ∧ (s.admin a).1.health = s.health ∧
    (s.admin a).1.node = s.node ∧ (s.admin a).1.maxSessions = s.maxSessions := by
  cases a <;> unfold Server.admin <;> dsimp only <;> (repeat' split) <;> simp

/-- File-system operations on downloads/ touch nothing but downloads/. -/
theorem dl_frame (s : Server) (a : DlOp) :
    (s.dl a).1 = { s with downloads := (s.dl a).1.downloads, dlFolder := (s.dl a).1.dlFolder, dlDeleted := (s.dl a).1.dlDeleted } := by
  cases a <;> unfold Server.dl <;> dsimp only <;> (repeat' split) <;> rfl

/-- File-system requests touch nothing but the two folders (live file, deleted copies, folder present). -/
theorem fsr_frame (s : Server) (db : Bool) (a : FsAct) :
    (s.fsr db a).1 = { s with file := (s.fsr db a).1.file, folder := (s.fsr db a).1.folder, fileDeleted := (s.fsr db a).1.fileDeleted,
                              downloads := (s.fsr db a).1.downloads, dlFolder := (s.fsr db a).1.dlFolder,
                              dlDeleted := (s.fsr db a).1.dlDeleted } ∧
    (db = false → (s.fsr db a).1.file = s.file) := by
  unfold Server.fsr
  split
  · exact ⟨rfl, fun _ => rfl⟩
  · cases db
    · exact ⟨rfl, fun _ => rfl⟩
    · exact ⟨rfl, fun h => by cases h⟩

/-- A re-install that is refused or raises changes nothing; one that goes through yields an EMPTY connection table and
leaves the id counter alone (the new instance draws fresh uuids). -/
theorem reinstall_frame (s : Server) (cfg : Option InstCfg) :
    ((s.reinstall cfg).2 ≠ .done → (s.reinstall cfg).1 = s) ∧
    ((s.reinstall cfg).2 = .done → (s.reinstall cfg).1.conns = [] ∧ s.file = none ∧
      (s.reinstall cfg).1.file = some .good ∧ (s.reinstall cfg).1.maxSessions = 100) ∧
    (s.reinstall cfg).1.nextId = s.nextId := by
  unfold Server.reinstall
  (repeat' split) <;> simp_all

/-- How one event changes the connection table: only a `recv` (and a re-install of the service, which empties it). -/
theorem apply_conns_nonrecv (s : Server) (e : SrvEv) (h : ∀ src p, e ≠ .recv src p) (h' : ∀ cfg, e ≠ .reinstall cfg) :
    (e.apply s).conns = s.conns ∧ (e.apply s).nextId = s.nextId ∧ (e.apply s).maxSessions = s.maxSessions := by
  cases e with
  | recv src p => exact absurd rfl (h src p)
  | reinstall cfg => exact absurd rfl (h' cfg)
  | req r => exact ⟨(request_frame s r).1, (request_frame s r).2.1, (request_frame s r).2.2.2.2⟩
  | setPw pw => exact ⟨rfl, rfl, rfl⟩
  | backup b pq big => exact ⟨(backup_frame s b pq big).1, (backup_frame s b pq big).2.1, (backup_frame s b pq big).2.2.2.2⟩
  | restore b pq pr k => exact ⟨(restore_frame s b pq pr k).1, (restore_frame s b pq pr k).2.1, (restore_frame s b pq pr k).2.2.2.2.2⟩
  | fileDelete => exact ⟨(file_frame s).1, (file_frame s).2.1, (file_frame s).2.2.2.2.2.2.2.2.1⟩
  | fileCorrupt => exact ⟨(file_frame s).2.2.1, (file_frame s).2.2.2.1, (file_frame s).2.2.2.2.2.2.2.2.2.1⟩
  | fileRepair => exact ⟨(file_frame s).2.2.2.2.1, (file_frame s).2.2.2.2.2.1, (file_frame s).2.2.2.2.2.2.2.2.2.2.1⟩
  | folderDelete => exact ⟨(file_frame s).2.2.2.2.2.2.1, (file_frame s).2.2.2.2.2.2.2.1, (file_frame s).2.2.2.2.2.2.2.2.2.2.2⟩
  | admin a => exact ⟨(admin_frame s a).1, (admin_frame s a).2.1, (admin_frame s a).2.2.2.2.2.2.2⟩
  | dl a =>
    have hd := dl_frame s a
    show (s.dl a).1.conns = s.conns ∧ (s.dl a).1.nextId = s.nextId ∧ (s.dl a).1.maxSessions = s.maxSessions
    rw [hd]; exact ⟨rfl, rfl, rfl⟩
  | fsr db a =>
    have hd := (fsr_frame s db a).1
    show (s.fsr db a).1.conns = s.conns ∧ (s.fsr db a).1.nextId = s.nextId ∧ (s.fsr db a).1.maxSessions = s.maxSessions
    rw [hd]; exact ⟨rfl, rfl, rfl⟩
  | powerOn => exact ⟨(power_frame s).1, (power_frame s).2.1, (power_frame s).2.2.2.2.2.2.1⟩
  | powerOff => exact ⟨(power_frame s).2.2.2.1, (power_frame s).2.2.2.2.1, (power_frame s).2.2.2.2.2.2.2⟩
  | tick b t pq pr big k =>
    exact ⟨(serverTick_frame s b t pq pr big k).1, (serverTick_frame s b t pq pr big k).2.1, (serverTick_frame s b t pq pr big k).2.2.2⟩

/-- **Lifecycle, power, fix, backup, restore and ticks never touch the connection table**: stop/start/pause/resume/
restart/disable/enable/fix/compromise/scan requests, node power events, file damage (database/ and downloads/), backups,
restores, administrative changes and ticks leave the table, the id counter and the session limit exactly as they are (so
an id issued before a stop or a power cycle is valid after it, and none appears or disappears by itself).  The one
exception is a re-install of the service that goes through: the NEW instance starts with an empty table
(`reinstall_frame`). -/
theorem C17_table_changed_only_by_traffic (s : Server) (e : SrvEv) (h : ∀ src p, e ≠ .recv src p)
    (h' : ∀ cfg, e ≠ .reinstall cfg) :
    (e.apply s).conns = s.conns ∧ (e.apply s).nextId = s.nextId ∧ (e.apply s).maxSessions = s.maxSessions :=
  apply_conns_nonrecv s e h h'

/-- The tick that completes a fix makes the service GOOD and attempts the restore: afterwards the file is what a
successful restore yields, or — when the restore fails — what it was. -/
theorem C17_fix_completion (s : Server) (b : Backup) (pq pr k : Bool) (hf : s.health = .fixing) (hc : s.fixCd ≤ 1) :
    (s.tickFix b pq pr k).health = .good ∧
    ((restoreBackup { s with health := .good, fixCd := 0 } b pq pr k).2 = false → (s.tickFix b pq pr k).file = s.file) ∧
    ((restoreBackup { s with health := .good, fixCd := 0 } b pq pr k).2 = true → (s.tickFix b pq pr k).file = b.stored) := by
  unfold Server.tickFix
  simp only [hf, hc, if_true]
  refine ⟨?_, ?_, ?_⟩
  · cases hr : (restoreBackup { s with health := .good, fixCd := 0 } b pq pr k).2 with
    | true =>
      obtain ⟨h, _, _, hg, _⟩ := C17_restore_result _ b pq pr k hr
      exact hg
    | false =>
      rw [(C17_failed_restore_changes_nothing _ b pq pr k hr).1]
  · intro hr
    rw [(C17_failed_restore_changes_nothing _ b pq pr k hr).1]
  · intro hr
    exact (C17_restore_yields_backup _ b pq pr k hr).1

/-- `recv` of a query never touches the table; of a disconnect only shrinks it; of a connect appends at most the
fresh id. -/
theorem recv_conns (s : Server) (src : Nat) (p : Payload) :
    s.nextId ≤ ((SrvEv.recv src p).apply s).nextId ∧
    ∀ c ∈ ((SrvEv.recv src p).apply s).conns, c ∈ s.conns ∨
      (c = { id := s.nextId, owner := src } ∧ s.nextId < ((SrvEv.recv src p).apply s).nextId ∧
       ∃ pw, p = .connect pw ∧ s.password = pw ∧ s.canAct = true ∧ s.conns.length < s.maxSessions) := by
  cases p with
  | connect pw =>
    simp only [SrvEv.apply, Server.receive]
    by_cases hc : s.canAct = true
    · simp only [hc, Bool.not_true, Bool.false_eq_true, if_false]
      by_cases h200 : (processConnect s src pw).2.1 = 200
      · have hk := (C17_connect_ok_iff s src pw).mp h200
        have hf := (C17_connect_ok_adds_fresh s src pw).1 h200
        have hn : (processConnect s src pw).1.nextId = s.nextId + 1 := by
          unfold processConnect
          have h4 : ¬ s.maxSessions ≤ s.conns.length := by omega
          simp [hk.1, hk.2.1, hk.2.2.1, h4]
        refine ⟨by omega, ?_⟩
        intro c hcm
        rw [hf.1] at hcm
        rcases List.mem_append.mp hcm with h | h
        · exact Or.inl h
        · right
          refine ⟨by simpa using h, by omega, pw, rfl, hk.2.2.1, trivial, hk.2.2.2⟩
      · have hf := (C17_connect_ok_adds_fresh s src pw).2 h200
        refine ⟨?_, ?_⟩
        · unfold processConnect; (repeat' split) <;> simp
        · intro c hcm; rw [hf.1] at hcm; exact Or.inl hcm
    · simp [hc]
  | sql cid q =>
    simp only [SrvEv.apply, Server.receive]
    have key : ∀ q, (processSql s q).1.conns = s.conns ∧ (processSql s q).1.nextId = s.nextId := by
      intro q; unfold processSql; cases s.file with
      | none => simp
      | some fh => dsimp only; split
                   · simp
                   · cases q <;> simp
    split
    · simp
    · split
      · split
        · rw [(key q).1, (key q).2]; exact ⟨Nat.le_refl _, fun c h => Or.inl h⟩
        · exact ⟨Nat.le_refl _, fun c h => Or.inl h⟩
      · exact ⟨Nat.le_refl _, fun c h => Or.inl h⟩
  | disconnect cid =>
    simp only [SrvEv.apply, Server.receive]
    split
    · exact ⟨Nat.le_refl _, fun c h => Or.inl h⟩
    · split
      · split
        · exact ⟨Nat.le_refl _, fun c h => Or.inl (List.mem_filter.mp h).1⟩
        · exact ⟨Nat.le_refl _, fun c h => Or.inl h⟩
      · exact ⟨Nat.le_refl _, fun c h => Or.inl h⟩
  | junk k =>
    simp only [SrvEv.apply, Server.receive]
    split <;> exact ⟨Nat.le_refl _, fun c h => Or.inl h⟩

/-- A non-`recv` event keeps the id counter, and keeps the table or (a re-install that goes through) empties it. -/
theorem apply_conns_keep_or_empty (s : Server) (e : SrvEv) (h : ∀ src p, e ≠ .recv src p) :
    (e.apply s).nextId = s.nextId ∧ ((e.apply s).conns = s.conns ∨ (e.apply s).conns = []) := by
  by_cases h' : ∃ cfg, e = .reinstall cfg
  · obtain ⟨cfg, rfl⟩ := h'
    have hf := reinstall_frame s cfg
    refine ⟨hf.2.2, ?_⟩
    by_cases hd : (s.reinstall cfg).2 = .done
    · exact Or.inr (hf.2.1 hd).1
    · left; show (s.reinstall cfg).1.conns = s.conns; rw [hf.1 hd]
  · have := apply_conns_nonrecv s e h (fun cfg hc => h' ⟨cfg, hc⟩)
    exact ⟨this.2.1, Or.inl this.1⟩

/-- **Every connection in the table was admitted by a correctly authenticated connect.**  For every event whatsoever:
a connection present afterwards was present before, or it is the fresh id, issued to the sender of a connect request
that carried the server's current password, while the service could act (RUNNING on an ON node) below its session limit. -/
theorem C17_table_grows_only_by_authorised_connect (s : Server) (e : SrvEv) :
    ∀ c ∈ (e.apply s).conns, c ∈ s.conns ∨
      (c.id = s.nextId ∧ ∃ pw, e = .recv c.owner (.connect pw) ∧ s.password = pw ∧ s.node.st = .on ∧ s.op = .running ∧
        s.conns.length < s.maxSessions) := by
  intro c hc
  by_cases hr : ∃ src p, e = .recv src p
  · obtain ⟨src, p, rfl⟩ := hr
    rcases (recv_conns s src p).2 c hc with h | ⟨hceq, _, pw, hp, hpw, hca, hlen⟩
    · exact Or.inl h
    · right
      subst hceq hp
      have := (C17_canAct_iff s).mp hca
      exact ⟨rfl, pw, rfl, hpw, this.1, this.2, hlen⟩
  · rcases (apply_conns_keep_or_empty s e (fun src p h => hr ⟨src, p, h⟩)).2 with h | h
    · rw [h] at hc; exact Or.inl hc
    · rw [h] at hc; cases hc

/-- Issued ids are below the counter, the counter never decreases, and ids in the table are pairwise distinct. -/
def Server.WF (s : Server) : Prop := (∀ c ∈ s.conns, c.id < s.nextId) ∧ (s.conns.map (·.id)).Nodup

theorem apply_nextId_mono (s : Server) (e : SrvEv) : s.nextId ≤ (e.apply s).nextId := by
  by_cases hr : ∃ src p, e = .recv src p
  · obtain ⟨src, p, rfl⟩ := hr; exact (recv_conns s src p).1
  · rw [(apply_conns_keep_or_empty s e (fun src p h => hr ⟨src, p, h⟩)).1]; exact Nat.le_refl _

theorem apply_WF (s : Server) (e : SrvEv) (h : s.WF) : (e.apply s).WF := by
  by_cases hr : ∃ src p, e = .recv src p
  · obtain ⟨src, p, rfl⟩ := hr
    have hm := recv_conns s src p
    refine ⟨?_, ?_⟩
    · intro c hc
      rcases hm.2 c hc with h1 | ⟨rfl, hlt, _⟩
      · exact Nat.lt_of_lt_of_le (h.1 c h1) hm.1
      · exact hlt
    · -- distinctness: by cases on the payload
      cases p with
      | connect pw =>
        simp only [SrvEv.apply, Server.receive]
        by_cases hc : s.canAct = true
        · simp only [hc, Bool.not_true, Bool.false_eq_true, if_false]
          by_cases h200 : (processConnect s src pw).2.1 = 200
          · rw [((C17_connect_ok_adds_fresh s src pw).1 h200).1]
            simp only [List.map_append, List.map_cons, List.map_nil]
            refine List.nodup_append.mpr ⟨h.2, by simp, ?_⟩
            intro a ha b hb
            simp only [List.mem_singleton] at hb
            subst hb
            obtain ⟨c, hc1, rfl⟩ := List.mem_map.mp ha
            exact Nat.ne_of_lt (h.1 c hc1)
          · rw [((C17_connect_ok_adds_fresh s src pw).2 h200).1]; exact h.2
        · simp only [hc]; exact h.2
      | sql cid q =>
        have : ((SrvEv.recv src (.sql cid q)).apply s).conns = s.conns := by
          simp only [SrvEv.apply, Server.receive]
          have key : (processSql s q).1.conns = s.conns := by
            unfold processSql; cases s.file with
            | none => simp
            | some fh => dsimp only; split
                         · simp
                         · cases q <;> simp
          (repeat' split) <;> first | rfl | exact key
        rw [this]; exact h.2
      | disconnect cid =>
        simp only [SrvEv.apply, Server.receive]
        (repeat' split) <;> first | exact h.2 | exact (List.Sublist.map _ List.filter_sublist).nodup h.2
      | junk k =>
        simp only [SrvEv.apply, Server.receive]
        split <;> exact h.2
  · have := apply_conns_keep_or_empty s e (fun src p h => hr ⟨src, p, h⟩)
    rcases this.2 with hk | hk
    · exact ⟨by rw [hk, this.1]; exact h.1, by rw [hk]; exact h.2⟩
    · refine ⟨?_, ?_⟩
      · rw [hk]; intro c hc; cases hc
      · rw [hk]; exact List.nodup_nil

/-- Well-formedness of the connection table along every operation sequence. -/
theorem C17_table_wellformed_run (st : State) (ops : List Op) (h : st.srv.WF) : (run st ops).srv.WF :=
  (run_reach st ops).invariant (I := Server.WF) (fun s e _ hs => apply_WF s e hs) h

/-- **Forged ids.**  In a well-formed state an id that has not been issued (the counter has not reached it) is not in
the table, so a query carrying it — or carrying no issued id at all — is answered 401 and changes nothing. -/
theorem C17_forged_refused (s : Server) (h : s.WF) (src : Nat) (q : Sql) (cid : Option Nat)
    (hf : ∀ id, cid = some id → s.nextId ≤ id) (hc : s.canAct = true) :
    s.receive src (.sql cid q) = (s, some (401, none)) := by
  have hn : ¬ ∃ id, cid = some id ∧ s.hasConn id = true := by
    rintro ⟨id, rfl, hid⟩
    have : ∃ c ∈ s.conns, c.id = id := by simpa [Server.hasConn, List.any_eq_true] using hid
    obtain ⟨c, hcm, rfl⟩ := this
    exact absurd (h.1 c hcm) (Nat.not_lt.mpr (hf _ rfl))
  have hg := (C17_query_gated s src cid q).2.1
  exact hg ⟨hc, hn⟩

/-- **Closed ids stay closed.**  Once an issued id is absent from the table (it was closed, or never admitted), no event
brings it back … -/
theorem apply_closed_stays (s : Server) (e : SrvEv) (id : Nat) (hlt : id < s.nextId) (hno : s.hasConn id = false) :
    id < (e.apply s).nextId ∧ (e.apply s).hasConn id = false := by
  refine ⟨Nat.lt_of_lt_of_le hlt (apply_nextId_mono s e), ?_⟩
  cases hh : (e.apply s).hasConn id with
  | false => rfl
  | true =>
    exfalso
    have : ∃ c ∈ (e.apply s).conns, c.id = id := by simpa [Server.hasConn, List.any_eq_true] using hh
    obtain ⟨c, hcm, rfl⟩ := this
    rcases C17_table_grows_only_by_authorised_connect s e c hcm with h1 | ⟨h2, _⟩
    · have : s.hasConn c.id = true := by
        simp only [Server.hasConn, List.any_eq_true, beq_iff_eq]; exact ⟨c, h1, rfl⟩
      rw [this] at hno; cases hno
    · omega

/-- … along every operation sequence: queries on it are answered 401 (when answered at all) for ever. -/
theorem C17_closed_stays_closed_run (st : State) (ops : List Op) (id : Nat)
    (hlt : id < st.srv.nextId) (hno : st.srv.hasConn id = false) :
    (run st ops).srv.hasConn id = false ∧
    ∀ src q, ((run st ops).srv.receive src (.sql (some id) q)).1 = (run st ops).srv ∧
      (((run st ops).srv.receive src (.sql (some id) q)).2 = some (401, none) ∨
       ((run st ops).srv.receive src (.sql (some id) q)).2 = none) := by
  have hinv := (run_reach st ops).invariant (I := fun s => id < s.nextId ∧ s.hasConn id = false)
    (fun s e _ hs => apply_closed_stays s e id hs.1 hs.2) ⟨hlt, hno⟩
  refine ⟨hinv.2, ?_⟩
  intro src q
  by_cases hc : (run st ops).srv.canAct = true
  · have := (C17_query_gated (run st ops).srv src (some id) q).2.1 ⟨hc, by
      rintro ⟨id', h1, h2⟩; cases h1; rw [hinv.2] at h2; cases h2⟩
    rw [this]; exact ⟨rfl, Or.inl rfl⟩
  · have hc' : (run st ops).srv.canAct = false := by simpa using hc
    have := (C17_query_gated (run st ops).srv src (some id) q).2.2 hc'
    rw [this]; exact ⟨rfl, Or.inr rfl⟩

/-! ### compromised data stays unreadable until restored -/

/-- The events that can take the file out of COMPROMISED: a restore (on demand, or by a tick that completes a fix),
an ENCRYPT query, deletion of the file. -/
def IsEscape : SrvEv → Prop
  | .restore _ _ _ _ => True
  | .tick _ _ _ _ _ _ => True
  | .fileDelete => True
  | .folderDelete => True
  | .fsr true _ => True          -- file-system requests on database/ (delete, restore of a deleted copy, folder delete ...)
  | .recv _ (.sql _ .encrypt) => True
  | _ => False

theorem apply_compromised_persists (s : Server) (e : SrvEv) (hne : ¬ IsEscape e) (h : s.file = some .compromised) :
    (e.apply s).file = some .compromised := by
  cases e with
  | recv src p =>
    cases p with
    | connect pw =>
      simp only [SrvEv.apply, Server.receive]
      split
      · exact h
      · dsimp only; unfold processConnect; (repeat' split) <;> exact h
    | sql cid q =>
      simp only [SrvEv.apply, Server.receive]
      have key : (processSql s q).1.file = some .compromised := by
        cases q with
        | encrypt => exact absurd trivial hne
        | delete => unfold processSql; rw [h]; dsimp only; split <;> simp [h]
        | select => rw [C17_nondestructive_unchanged s .select (by decide)]; exact h
        | insert => rw [C17_nondestructive_unchanged s .insert (by decide)]; exact h
        | pgstat => rw [C17_nondestructive_unchanged s .pgstat (by decide)]; exact h
        | other => rw [C17_nondestructive_unchanged s .other (by decide)]; exact h
      (repeat' split) <;> first | exact h | exact key
    | disconnect cid =>
      simp only [SrvEv.apply, Server.receive]
      (repeat' split) <;> exact h
    | junk k =>
      simp only [SrvEv.apply, Server.receive]
      split <;> exact h
  | dl a => rw [show (SrvEv.dl a).apply s = (s.dl a).1 from rfl, dl_frame s a]; exact h
  | fsr db a =>
    cases db with
    | true => exact absurd trivial hne
    | false => rw [show (SrvEv.fsr false a).apply s = (s.fsr false a).1 from rfl, (fsr_frame s false a).2 rfl]; exact h
  | reinstall cfg =>
    -- a re-install goes through only while there is no live file: COMPROMISED data makes the constructor raise
    have hf := reinstall_frame s cfg
    by_cases hd : (s.reinstall cfg).2 = .done
    · rw [(hf.2.1 hd).2.1] at h; cases h
    · show (s.reinstall cfg).1.file = _; rw [hf.1 hd]; exact h
  | req r => rw [show (SrvEv.req r).apply s = (s.request r).1 from rfl, (request_frame s r).2.2.1]; exact h
  | setPw pw => exact h
  | backup b pq big => rw [show (SrvEv.backup b pq big).apply s = (backupDatabase s b pq big).1 from rfl, (backup_frame s b pq big).2.2.1]; exact h
  | restore b pq pr k => exact absurd trivial hne
  | fileDelete => exact absurd trivial hne
  | folderDelete => exact absurd trivial hne
  | admin a => rw [show (SrvEv.admin a).apply s = (s.admin a).1 from rfl, (admin_frame s a).2.2.1]; exact h
  | fileCorrupt => simp [SrvEv.apply, Server.fileCorrupt, h]
  | fileRepair => simp [SrvEv.apply, Server.fileRepair, h]
  | powerOn => rw [show SrvEv.powerOn.apply s = s.powerOn from rfl, (power_frame s).2.2.1]; exact h
  | powerOff => rw [show SrvEv.powerOff.apply s = s.powerOff from rfl, (power_frame s).2.2.2.2.2.1]; exact h
  | tick b t pq pr big k => exact absurd trivial hne

/-- Operations that cannot produce an escaping event. -/
def Op.keepsCompromised : Op → Bool
  | .restore _ _ => false
  | .tick _ _ _ => false
  | .fileDelete => false
  | .folderDelete => false
  | .fsr true _ => false
  | .dm _ .encrypt _ _ _ => false
  | .ransomReq _ .encrypt => false
  | .rawQuery _ _ .encrypt => false
  | .hQuery _ .encrypt => false
  | .nQuery _ .encrypt => false
  | .ransom _ .encrypt => false
  | _ => true

theorem not_escape_connect {e : SrvEv} (h : IsConnect e) : ¬ IsEscape e := by
  obtain ⟨j, pw, rfl⟩ := h; exact id

theorem not_escape_disc {e : SrvEv} (h : IsDisc e) : ¬ IsEscape e := by
  obtain ⟨j, cid, rfl⟩ := h; exact id

theorem not_escape_sql {e : SrvEv} {q : Sql} (h : IsSql q e) (hq : q ≠ .encrypt) : ¬ IsEscape e := by
  obtain ⟨j, cid, rfl⟩ := h
  cases q <;> first | exact id | exact absurd rfl hq

theorem keepsCompromised_no_escape (op : Op) (h : op.keepsCompromised = true) (e : SrvEv) (ha : OpAllows op e) :
    ¬ IsEscape e := by
  cases op with
  | connect i => exact not_escape_connect ha
  | nConnect i => exact not_escape_connect ha
  | rawQuery i cid q => exact not_escape_sql ha (by intro hq; subst hq; simp [Op.keepsCompromised] at h)
  | hQuery hd q => exact not_escape_sql ha (by intro hq; subst hq; simp [Op.keepsCompromised] at h)
  | nQuery i q => exact not_escape_sql ha (by intro hq; subst hq; simp [Op.keepsCompromised] at h)
  | rawDisconnect i cid => exact not_escape_disc ha
  | rawJunk i k => obtain ⟨j, k', rfl⟩ := ha; exact id
  | dl a => simp only [OpAllows] at ha; subst ha; exact id
  | fsr db a =>
    simp only [OpAllows] at ha; subst ha
    cases db with
    | true => simp [Op.keepsCompromised] at h
    | false => exact id
  | svcInstall cfg => simp only [OpAllows] at ha; subst ha; exact id
  | co k => exact absurd ha id
  | hDisconnect hd => exact not_escape_disc ha
  | nDisconnect i => exact not_escape_disc ha
  | uninstall i => exact not_escape_disc ha
  | execute i =>
    rcases ha with ha | ha
    · exact not_escape_connect ha
    · exact not_escape_sql ha (by decide)
  | ransom i q =>
    rcases ha with ha | ha
    · exact not_escape_connect ha
    · exact not_escape_sql ha (by intro hq; subst hq; simp [Op.keepsCompromised] at h)
  | svc r => simp only [OpAllows] at ha; subst ha; exact id
  | setPw pw => simp only [OpAllows] at ha; subst ha; exact id
  | backup big => obtain ⟨b, pq, g, rfl⟩ := ha; exact id
  | restore d k => simp [Op.keepsCompromised] at h
  | fileDelete => simp [Op.keepsCompromised] at h
  | folderDelete => simp [Op.keepsCompromised] at h
  | admin a => simp only [OpAllows] at ha; subst ha; exact id
  | bkDelete => exact absurd ha id
  | dm i q sc ak via =>
    rcases ha with ha | ha
    · exact not_escape_connect ha
    · exact not_escape_sql ha (by intro hq; subst hq; simp [Op.keepsCompromised] at h)
  | ransomReq i q =>
    rcases ha with ha | ha
    · exact not_escape_connect ha
    · exact not_escape_sql ha (by intro hq; subst hq; simp [Op.keepsCompromised] at h)
  | fileCorrupt => simp only [OpAllows] at ha; subst ha; exact id
  | fileRepair => simp only [OpAllows] at ha; subst ha; exact id
  | power who on => obtain ⟨_, rfl⟩ := ha; cases on <;> exact id
  | tick g d k => simp [Op.keepsCompromised] at h
  | install i => exact absurd ha id
  | appRun i => exact absurd ha id
  | appClose i => exact absurd ha id
  | clientPw i pw => exact absurd ha id
  | ftps b => exact absurd ha id
  | block w on => exact absurd ha id

/-- What the client application sees of an answer is what the server sent. -/
theorem send_seen (st : State) (i : Nat) (p : Payload) (a : Nat × Option Nat) (h : (st.send i p).2.2 = some a) :
    (st.srv.receive i p).2 = some a := by
  unfold State.send at h
  split at h
  · simp at h
  · dsimp only at h
    split at h
    · simp at h
    · rename_i a' heq
      dsimp only at h
      split at h
      · split at h
        · simp only [Option.some.injEq] at h; rw [heq, h]
        · simp at h
      · simp at h

theorem receive_select_compromised (s : Server) (h : s.file = some .compromised) (src : Nat) (cid : Option Nat)
    (a : Nat × Option Nat) (ha : (s.receive src (.sql cid .select)).2 = some a) : a.1 ≠ 200 := by
  have hsel := C17_select_fails_on_compromised s h
  simp only [Server.receive] at ha
  split at ha
  · simp at ha
  · split at ha
    · split at ha
      · simp only [Option.some.injEq] at ha; rw [← ha]; exact hsel.1
      · simp only [Option.some.injEq] at ha; rw [← ha]; decide
    · simp only [Option.some.injEq] at ha; rw [← ha]; decide

/-- **Reads of compromised data fail until it is restored.**  Along any operation sequence that contains no restore,
no tick (a tick may complete a fix, which restores), no ENCRYPT and no deletion of the file, the file stays
COMPROMISED, and every SELECT — from any client, on any connection — is not answered 200. -/
theorem C17_compromised_until_restored_run (st : State) (ops : List Op)
    (hops : ∀ op ∈ ops, op.keepsCompromised = true) (h : st.srv.file = some .compromised) :
    (run st ops).srv.file = some .compromised ∧
    ∀ i cid, ((run st ops).rawQuery i cid .select).2.2 = false := by
  have hfile := (run_reach st ops).invariant (I := fun s => s.file = some .compromised)
    (fun s e ⟨op, hm, ha⟩ hs => apply_compromised_persists s e (keepsCompromised_no_escape op (hops op hm) e ha) hs) h
  refine ⟨hfile, ?_⟩
  intro i cid
  generalize run st ops = st' at hfile
  unfold State.rawQuery
  dsimp only
  cases hs : (st'.send i (.sql cid .select)).2.2 with
  | none => rfl
  | some a =>
    have h1 := receive_select_compromised st'.srv hfile i cid a (send_seen st' i _ a hs)
    obtain ⟨code, oid⟩ := a
    split
    · rename_i heq; simp only [Option.some.injEq, Prod.mk.injEq] at heq; exact absurd heq.1 h1
    · rfl

/-! ### unavailability along sequences -/

/-- While the service cannot act, client traffic, backup and restore events leave the server exactly as it is. -/
theorem apply_unavailable (s : Server) (e : SrvEv) (h : s.canAct = false)
    (he : (∃ src p, e = .recv src p) ∨ (∃ b pq g, e = .backup b pq g) ∨ (∃ b pq pr k, e = .restore b pq pr k)) :
    e.apply s = s := by
  rcases he with ⟨src, p, rfl⟩ | ⟨b, pq, g, rfl⟩ | ⟨b, pq, pr, k, rfl⟩
  · simp [SrvEv.apply, C17_unavailable_receive s h]
  · simp [SrvEv.apply, (C17_unavailable_backup_restore s h b pq true g true).1]
  · simp [SrvEv.apply, (C17_unavailable_backup_restore s h b pq pr true k).2]

/-- Operations by which clients (and red applications) talk to the server, plus backup and restore. -/
def Op.isTraffic : Op → Bool
  | .connect _ | .rawQuery _ _ _ | .rawDisconnect _ _ | .rawJunk _ _ | .hQuery _ _ | .hDisconnect _ | .nConnect _ | .nQuery _ _
  | .nDisconnect _ | .execute _ | .uninstall _ | .ransom _ _ | .backup _ | .restore _ _ | .dm _ _ _ _ _
  | .ransomReq _ _ => true
  | _ => false

theorem traffic_events (op : Op) (h : op.isTraffic = true) (e : SrvEv) (ha : OpAllows op e) :
    (∃ src p, e = .recv src p) ∨ (∃ b pq g, e = .backup b pq g) ∨ (∃ b pq pr k, e = .restore b pq pr k) := by
  have hc : ∀ {e}, IsConnect e → ∃ src p, e = SrvEv.recv src p := fun ⟨j, pw, h⟩ => ⟨j, _, h⟩
  have hq : ∀ {q e}, IsSql q e → ∃ src p, e = SrvEv.recv src p := fun ⟨j, cid, h⟩ => ⟨j, _, h⟩
  have hd : ∀ {e}, IsDisc e → ∃ src p, e = SrvEv.recv src p := fun ⟨j, cid, h⟩ => ⟨j, _, h⟩
  cases op with
  | connect i => exact Or.inl (hc ha)
  | nConnect i => exact Or.inl (hc ha)
  | rawQuery i cid q => exact Or.inl (hq ha)
  | hQuery hd' q => exact Or.inl (hq ha)
  | nQuery i q => exact Or.inl (hq ha)
  | rawDisconnect i cid => exact Or.inl (hd ha)
  | hDisconnect hd' => exact Or.inl (hd ha)
  | nDisconnect i => exact Or.inl (hd ha)
  | uninstall i => exact Or.inl (hd ha)
  | execute i =>
    rcases ha with ha | ha
    · exact Or.inl (hc ha)
    · exact Or.inl (hq ha)
  | ransom i q =>
    rcases ha with ha | ha
    · exact Or.inl (hc ha)
    · exact Or.inl (hq ha)
  | backup g => exact Or.inr (Or.inl ha)
  | restore d k => exact Or.inr (Or.inr ha)
  | dm i q sc ak via =>
    rcases ha with ha | ha
    · exact Or.inl (hc ha)
    · exact Or.inl (hq ha)
  | ransomReq i q =>
    rcases ha with ha | ha
    · exact Or.inl (hc ha)
    · exact Or.inl (hq ha)
  | rawJunk i k => obtain ⟨j, k', hj⟩ := ha; exact Or.inl ⟨j, _, hj⟩
  | dl a => simp [Op.isTraffic] at h
  | fsr db a => simp [Op.isTraffic] at h
  | svcInstall cfg => simp [Op.isTraffic] at h
  | co k => simp [Op.isTraffic] at h
  | folderDelete => simp [Op.isTraffic] at h
  | admin a => simp [Op.isTraffic] at h
  | bkDelete => simp [Op.isTraffic] at h
  | svc r => simp [Op.isTraffic] at h
  | setPw pw => simp [Op.isTraffic] at h
  | fileDelete => simp [Op.isTraffic] at h
  | fileCorrupt => simp [Op.isTraffic] at h
  | fileRepair => simp [Op.isTraffic] at h
  | power who on => simp [Op.isTraffic] at h
  | tick g d k => simp [Op.isTraffic] at h
  | install i => simp [Op.isTraffic] at h
  | appRun i => simp [Op.isTraffic] at h
  | appClose i => simp [Op.isTraffic] at h
  | clientPw i pw => simp [Op.isTraffic] at h
  | ftps b => simp [Op.isTraffic] at h
  | block w on => simp [Op.isTraffic] at h

/-- **Unavailability.**  While the service is not RUNNING or its node is not ON, no sequence of connects, queries,
disconnects, executes, uninstalls, ransomware attacks, backups and restores — by any clients — changes the server. -/
theorem C17_unavailable_run (st : State) (ops : List Op) (hops : ∀ op ∈ ops, op.isTraffic = true)
    (h : st.srv.canAct = false) : (run st ops).srv = st.srv := by
  have := (run_reach st ops).invariant (I := fun s => s = st.srv)
    (fun s e ⟨op, hm, ha⟩ hs => by
      subst hs
      exact apply_unavailable _ e h (traffic_events op (hops op hm) e ha)) rfl
  exact this

/-- … and in such a state (or with the request path closed) a connect yields no handle and a query fails, leaving the
*whole* state unchanged. -/
theorem C17_unavailable_connect_query (st : State) (i : Nat)
    (h : st.srv.canAct = false ∨ st.reqOpen i = false ∨ st.srv.listening = false) :
    (st.getNewConnection i).2.2 = none ∧ (st.getNewConnection i).1 = st ∧
    ∀ cid q, (st.rawQuery i cid q).2.2 = false ∧ (st.rawQuery i cid q).1 = st := by
  have hs : ∀ p, st.send i p = (st, none, none) := by
    intro p
    rcases h with h | h | h
    · exact C17_unavailable_send st i p h
    · exact C17_blocked_send st i p h
    · exact C17_not_listening_send st i p h
  refine ⟨?_, ?_, ?_⟩
  · unfold State.getNewConnection
    split
    · rfl
    · split
      · rfl
      · simp [hs]
  · unfold State.getNewConnection
    split
    · rfl
    · split
      · rfl
      · simp [hs]
  · intro cid q
    simp [State.rawQuery, hs]

/-! ## 9. (the theorems about the translated source are in Props/C17Recv.lean, C17Ftp.lean, C17Client.lean) -/

/-- The freshness hypothesis holds in every well-formed state, hence (`C17_table_wellformed_run`) along every run. -/
theorem C17_tr_fresh_of_wf (s : Server) (h : s.WF) : s.hasConn s.nextId = false := by
  cases hh : s.hasConn s.nextId with
  | false => rfl
  | true =>
    have : ∃ c ∈ s.conns, c.id = s.nextId := by simpa [Server.hasConn, List.any_eq_true] using hh
    obtain ⟨c, hcm, hid⟩ := this
    exact absurd (h.1 c hcm) (by omega)

/-! ## 10. Deepening: shut-down duration 0, the data-manipulation bot -/

/-- With shut-down duration 0 a power-off takes the database host straight to OFF and stops the service at once: from
that moment the service cannot act (so `C17_unavailable_*` apply); table and data are untouched. -/
theorem C17_power_off_immediate (s : Server) (h : s.node.downDur = 0) :
    s.powerOff.node.st = .off ∧ s.powerOff.canAct = false ∧ s.powerOff.conns = s.conns ∧ s.powerOff.file = s.file := by
  unfold Server.powerOff Node.powerOff Server.shutDown Server.canAct Node.isOn
  simp only [h, if_true]
  by_cases hi : s.installed = true <;> simp [hi]

/-- The bot reaches stage PORT_SCAN only from PORT_SCAN, or from NOT_STARTED / LOGON with a successful port-scan trial. -/
theorem C17_dm_stage (stage : Nat) (scan : Bool) :
    (dmAdvance stage scan = 2 ↔ (stage = 2 ∨ ((stage = 0 ∨ stage = 1) ∧ scan = true))) := by
  unfold dmAdvance
  by_cases h0 : stage = 0
  · subst h0; cases scan <;> simp
  · by_cases h1 : stage = 1
    · subst h1; cases scan <;> simp
    · cases scan <;> simp [h0, h1]

/-- **Kill chain gating.**  `DataManipulationBot.attack()` sends nothing to the database unless the stage machine is in
PORT_SCAN after this call's logon / port-scan steps AND the data-manipulation trial succeeds; otherwise the server is
unchanged.  (When it does send, it is one `get_new_connection` and one `handle.query`: `dmAttack_reach`, so every
sequence theorem above covers the bot.) -/
theorem C17_dm_gated (st : State) (i : Nat) (q : Sql) (scan atk : Bool) (c : Client) (hc : st.client? i = some c)
    (h : ¬ (dmAdvance c.dmStage scan = 2 ∧ atk = true)) : (st.dmAttack i q scan atk).1.srv = st.srv := by
  unfold State.dmAttack
  simp only [hc]
  split
  · rfl
  · split
    · rfl
    · split
      · rfl
      · simp [h]

example : (run ({ clients := [{ dmInstalled := true, dmApp := .running }] } : State)
    [.dm 0 .delete true true false]).srv.file = some .compromised := by decide
example : (run ({ clients := [{ dmInstalled := true, dmApp := .running }] } : State)
    [.dm 0 .delete false true false, .dm 0 .delete true false false]).srv.file = some .good := by decide
example : (run ({ srv := { node := { downDur := 0 } }, clients := [{}] } : State) [.power 0 false, .connect 0]).srv.conns = [] := by decide
example : (run ({ srv := { backupConfigured := false } } : State) [.backup true, .restore true true]).bk.stored = none := by decide
example : (run ({ clients := [{}] } : State) [.admin .coInstall, .connect 0]).srv.conns = [] := by decide
example : (run ({ clients := [{}] } : State) [.backup true, .rawQuery 0 none .select, .admin (.ftpc .stop), .restore true true]).srv.downloads = none := by decide

example : ({ srv := { op := .stopped }, clients := [{}] } : State).srv.canAct = false := by decide
example : (run ({ srv := { op := .stopped }, clients := [{}] } : State) [.connect 0, .rawQuery 0 (some 0) .delete, .restore true true]).srv
    = ({ op := .stopped } : Server) := by decide

end Primaite.Database
