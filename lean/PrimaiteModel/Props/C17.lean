/-
C17 — database: password-gated connections, connection-gated queries, restorable data.
Property theorems only; the model is `Model/Database.lean`, the regenerated tables are `Gen/Database.lean`.
-/
import PrimaiteModel.Model.Database
import PrimaiteModel.Gen.Database
namespace Primaite.Database

/-! ## 1. The connect ladder (`_process_connect` behind `receive`) -/

/-- The status of a connect request is decided by the ladder
404 (service not running) → 503 (health not GOOD/FIXING/COMPROMISED, e.g. OVERWHELMED) → 401 (password differs) →
500 (at capacity) → 200. -/
theorem C17_connect_ladder (s : Server) (owner : Nat) (pw : Option Nat) :
    (processConnect s owner pw).2.1 =
      if s.op ≠ .running then 404
      else if healthAcceptsConnect s.health = false then 503
      else if s.password ≠ pw then 401
      else if s.maxSessions ≤ s.conns.length then 500
      else 200 := by
  unfold processConnect
  by_cases h1 : s.op ≠ .running
  · simp [h1]
  · by_cases h2 : healthAcceptsConnect s.health = false
    · simp [h1, h2]
    · by_cases h3 : s.password ≠ pw
      · simp [h1, h2, h3]
      · by_cases h4 : s.maxSessions ≤ s.conns.length
        · simp [h1, h2, h3, h4]
        · simp [h1, h2, h3, h4]

/-- 200 ⇔ running ∧ acceptable health ∧ right password ∧ below capacity. -/
theorem C17_connect_ok_iff (s : Server) (owner : Nat) (pw : Option Nat) :
    (processConnect s owner pw).2.1 = 200 ↔
      s.op = .running ∧ healthAcceptsConnect s.health = true ∧ s.password = pw ∧ s.conns.length < s.maxSessions := by
  rw [C17_connect_ladder]
  by_cases h1 : s.op = .running <;> by_cases h2 : healthAcceptsConnect s.health = true <;>
    by_cases h3 : s.password = pw <;> by_cases h4 : s.conns.length < s.maxSessions <;>
    simp [h1, h2, h3, h4] <;> omega

/-- 200 ⇔ exactly one connection, with the fresh id and the requester's address, is appended to the table and that id
is the one returned; any other status leaves the table as it was and returns no id. -/
theorem C17_connect_ok_adds_fresh (s : Server) (owner : Nat) (pw : Option Nat) :
    ((processConnect s owner pw).2.1 = 200 →
        (processConnect s owner pw).1.conns = s.conns ++ [{ id := s.nextId, owner := owner }] ∧
        (processConnect s owner pw).2.2 = some s.nextId) ∧
    ((processConnect s owner pw).2.1 ≠ 200 →
        (processConnect s owner pw).1.conns = s.conns ∧ (processConnect s owner pw).2.2 = none) := by
  unfold processConnect
  by_cases h1 : s.op ≠ .running
  · simp [h1]
  · by_cases h2 : healthAcceptsConnect s.health = false
    · simp [h1, h2]
    · by_cases h3 : s.password ≠ pw
      · simp [h1, h2, h3]
      · by_cases h4 : s.maxSessions ≤ s.conns.length
        · simp [h1, h2, h3, h4]
        · simp [h1, h2, h3, h4]

/-- Through `receive`, a connection is opened only for the correct password, while the service is RUNNING on a
powered-on node, and below capacity. -/
theorem C17_connect_only_if (s : Server) (src : Nat) (pw : Option Nat) (id : Option Nat) :
    (s.receive src (.connect pw)).2 = some (200, id) →
      s.node.st = .on ∧ s.op = .running ∧ s.password = pw ∧ s.conns.length < s.maxSessions ∧ id = some s.nextId := by
  unfold Server.receive
  by_cases hc : s.canAct = true
  · simp only [hc, Bool.not_true, Bool.false_eq_true, if_false]
    intro h
    have h200 : (processConnect s src pw).2.1 = 200 := by
      have := congrArg (fun o => o.map (·.1)) h; simpa using this
    have hid : (processConnect s src pw).2.2 = id := by
      have := congrArg (fun o => o.map (·.2)) h; simpa using this
    have hk := (C17_connect_ok_iff s src pw).mp h200
    have hf := (C17_connect_ok_adds_fresh s src pw).1 h200
    unfold Server.canAct Node.isOn at hc
    simp only [Bool.and_eq_true, beq_iff_eq] at hc
    exact ⟨hc.1, hk.1, hk.2.2.1, hk.2.2.2, by rw [← hid, hf.2]⟩
  · simp [hc]

example : (({} : Server).receive 0 (.connect none)).2 = some (200, some 0) := by decide
example : (({ password := some 1 } : Server).receive 0 (.connect none)).2 = some (401, none) := by decide

/-! ## 2. Queries are gated on the connection table -/

/-- A query is *run* (reaches `_process_sql`) iff the service can act and the id is in the connection table; otherwise the
answer is 401 (or nothing at all) and the server does not change. -/
theorem C17_query_gated (s : Server) (src : Nat) (cid : Option Nat) (q : Sql) :
    (s.canAct = true ∧ (∃ id, cid = some id ∧ s.hasConn id = true) →
        s.receive src (.sql cid q) = ((processSql s q).1, some ((processSql s q).2, none))) ∧
    (s.canAct = true ∧ ¬ (∃ id, cid = some id ∧ s.hasConn id = true) →
        s.receive src (.sql cid q) = (s, some (401, none))) ∧
    (s.canAct = false → s.receive src (.sql cid q) = (s, none)) := by
  refine ⟨?_, ?_, ?_⟩
  · rintro ⟨hc, id, rfl, hid⟩
    simp [Server.receive, hc, hid]
  · rintro ⟨hc, hn⟩
    cases cid with
    | none => simp [Server.receive, hc]
    | some id =>
      have : s.hasConn id = false := by
        cases h : s.hasConn id with
        | false => rfl
        | true => exact absurd ⟨id, rfl, h⟩ hn
      simp [Server.receive, hc, this]
  · intro hc
    simp [Server.receive, hc]

/-- The address that sends a query is irrelevant (the code checks only the id): stated so that it is visible. -/
theorem C17_query_ignores_sender (s : Server) (a b : Nat) (cid : Option Nat) (q : Sql) :
    s.receive a (.sql cid q) = s.receive b (.sql cid q) := by
  simp [Server.receive]

/-- A disconnect closes a connection only when it comes from the address that opened it; it removes exactly that id. -/
theorem C17_disconnect_owner_only (s : Server) (src id : Nat) :
    (s.receive src (.disconnect (some id))).1.conns =
      if s.canAct ∧ (∃ c ∈ s.conns, c.id = id ∧ c.owner = src) then s.conns.filter (fun c => !(c.id == id)) else s.conns := by
  unfold Server.receive
  by_cases hc : s.canAct = true
  · by_cases hx : s.conns.any (fun c => c.id == id && c.owner == src) = true
    · have : ∃ c ∈ s.conns, c.id = id ∧ c.owner = src := by
        simpa [List.any_eq_true] using hx
      simp [hc, hx, this]
    · have : ¬ ∃ c ∈ s.conns, c.id = id ∧ c.owner = src := by
        intro h; apply hx; simpa [List.any_eq_true] using h
      simp [hc, hx, this]
  · simp [hc]

example : (({ conns := [⟨0, 0⟩, ⟨1, 1⟩], nextId := 2 } : Server).receive 1 (.disconnect (some 0))).1.conns = [⟨0, 0⟩, ⟨1, 1⟩] := by decide
example : (({ conns := [⟨0, 0⟩, ⟨1, 1⟩], nextId := 2 } : Server).receive 0 (.disconnect (some 0))).1.conns = [⟨1, 1⟩] := by decide

/-! ## 3. Destructive queries and reads of damaged data -/

/-- `_process_sql` answers 200 to DELETE / ENCRYPT iff the file exists and the service is GOOD, and then the file is
COMPROMISED / CORRUPT; with any other answer nothing changes. -/
theorem C17_destructive (s : Server) :
    ((processSql s .delete).2 = 200 ↔ s.file.isSome ∧ s.health = .good) ∧
    ((processSql s .delete).2 = 200 → (processSql s .delete).1.file = some .compromised) ∧
    ((processSql s .delete).2 ≠ 200 → (processSql s .delete).1 = s) ∧
    ((processSql s .encrypt).2 = 200 ↔ s.file.isSome ∧ s.health = .good) ∧
    ((processSql s .encrypt).2 = 200 → (processSql s .encrypt).1.file = some .corrupt) ∧
    ((processSql s .encrypt).2 ≠ 200 → (processSql s .encrypt).1 = s) := by
  unfold processSql
  cases hf : s.file with
  | none => simp
  | some fh =>
    by_cases hh : s.health = .good
    · simp [hh]
    · simp [hh]

/-- Only DELETE and ENCRYPT write the file; every other query leaves the whole server unchanged. -/
theorem C17_nondestructive_unchanged (s : Server) (q : Sql) (h : q ≠ .delete ∧ q ≠ .encrypt) :
    (processSql s q).1 = s := by
  unfold processSql
  cases s.file with
  | none => rfl
  | some fh =>
    by_cases hh : s.health = .good
    · cases q <;> simp_all
    · simp [hh]

/-- A SELECT on COMPROMISED data never answers 200 … -/
theorem C17_select_fails_on_compromised (s : Server) (h : s.file = some .compromised) :
    (processSql s .select).2 ≠ 200 ∧ (processSql s .select).1 = s := by
  unfold processSql
  rw [h]
  by_cases hh : s.health = .good <;> simp [hh]

/-- … and SELECT answers 200 exactly when the file exists, is GOOD or CORRUPT, and the service is GOOD. -/
theorem C17_select_ok_iff (s : Server) :
    (processSql s .select).2 = 200 ↔ (s.file = some .good ∨ s.file = some .corrupt) ∧ s.health = .good := by
  unfold processSql
  cases hf : s.file with
  | none => simp
  | some fh =>
    by_cases hh : s.health = .good
    · cases fh <;> simp [hh]
    · simp [hh]

example : (processSql ({} : Server) .select).2 = 200 := by decide
example : (processSql (processSql ({} : Server) .delete).1 .select).2 = 404 := by decide

/-! ## 4. Backup and restore -/

/-- A successful backup stores the file's health of that moment on the backup host; an unsuccessful one stores nothing
(in particular an existing backup is never overwritten). -/
theorem C17_backup_stores (s : Server) (b : Backup) (p : Bool) :
    ((backupDatabase s b p).2.2 = true →
        b.stored = none ∧ s.canAct = true ∧ p = true ∧ b.serves = true ∧
        (backupDatabase s b p).2.1.stored = s.file ∧ s.file.isSome) ∧
    ((backupDatabase s b p).2.2 = false → (backupDatabase s b p).2.1 = b) := by
  unfold backupDatabase
  by_cases hc : s.canAct = true
  · by_cases hb : s.backupConfigured = true
    · cases hf : s.file with
      | none => simp [hc, hb]
      | some fh =>
        by_cases hp : (p && b.serves) = true
        · cases hs : b.stored with
          | none =>
            have hp' := hp
            simp only [Bool.and_eq_true] at hp'
            simp [hc, hb, hp, hs, hp'.1, hp'.2]
          | some x => simp [hc, hb, hp, hs]
        · by_cases hq : s.ftpConn = true <;> simp [hc, hb, hp, hq]
    · simp [hc, hb]
  · simp [hc]

/-- `restore_good`: a successful restore, over an open answer path, with no stale file under downloads/, makes the
database file exactly what the backup host stores and the service GOOD. -/
theorem C17_restore_yields_backup (s : Server) (b : Backup) (pq : Bool)
    (hd : s.downloads = none) (hok : (restoreBackup s b pq true).2 = true) :
    (restoreBackup s b pq true).1.file = b.stored ∧ (restoreBackup s b pq true).1.health = .good := by
  unfold restoreBackup at hok ⊢
  by_cases hc : s.canAct = true
  · by_cases hp : (pq && b.serves) = true
    · cases hs : b.stored with
      | none => simp [hc, hp, hs] at hok
      | some bh => simp [hc, hp, hs, hd]
    · by_cases hq : s.ftpConn = true <;> simp [hc, hp, hq] at hok
  · simp [hc] at hok

/-- In general the restored content is the (never overwritten) file under downloads/ if there is one, else the backup. -/
theorem C17_restore_result (s : Server) (b : Backup) (pq pr : Bool) (hok : (restoreBackup s b pq pr).2 = true) :
    ∃ h, (restoreBackup s b pq pr).1.file = some h ∧ (restoreBackup s b pq pr).1.health = .good ∧
      (s.downloads = some h ∨ (s.downloads = none ∧ pr = true ∧ b.stored = some h)) := by
  unfold restoreBackup at hok ⊢
  by_cases hc : s.canAct = true
  · by_cases hp : (pq && b.serves) = true
    · cases hs : b.stored with
      | none => simp [hc, hp, hs] at hok
      | some bh =>
        cases hd : s.downloads with
        | some d => exact ⟨d, by simp [hc, hp, hs, hd]⟩
        | none =>
          cases pr with
          | true => exact ⟨bh, by simp [hc, hp, hs, hd]⟩
          | false => simp [hc, hp, hs, hd] at hok
    · by_cases hq : s.ftpConn = true <;> simp [hc, hp, hq] at hok
  · simp [hc] at hok

/-- End to end: back up while GOOD, damage the data in any way the model knows, restore: GOOD again. -/
theorem C17_restore_good (s : Server) (b : Backup) (p pq : Bool) (s' : Server)
    (hgood : s.file = some .good) (hbk : (backupDatabase s b p).2.2 = true)
    (hdl : s'.downloads = none ∨ s'.downloads = some .good)
    (hok : (restoreBackup s' (backupDatabase s b p).2.1 pq true).2 = true) :
    (restoreBackup s' (backupDatabase s b p).2.1 pq true).1.file = some .good := by
  have hb := (C17_backup_stores s b p).1 hbk
  have hst : (backupDatabase s b p).2.1.stored = some .good := by rw [hb.2.2.2.2.1, hgood]
  obtain ⟨h, hf, _, hsrc⟩ := C17_restore_result s' _ pq true hok
  rw [hf]
  rcases hsrc with hsrc | ⟨_, _, hsrc⟩
  · rcases hdl with hdl | hdl
    · rw [hdl] at hsrc; cases hsrc
    · rw [hdl] at hsrc; exact hsrc.symm
  · rw [hst] at hsrc; exact hsrc.symm

example :
    let s : Server := {}
    let r := backupDatabase s ({} : Backup) true
    let dmg := (processSql r.1 .delete).1
    (restoreBackup dmg r.2.1 true true) = ({ dmg with file := some .good, downloads := some .good, ftpConn := true }, true) := by decide

/-! ## 5. Unavailability: service not running, node not ON, or path blocked -/

/-- With the service not RUNNING or the node not ON, no payload is answered and the server does not change. -/
theorem C17_unavailable_receive (s : Server) (h : s.canAct = false) (src : Nat) (p : Payload) :
    s.receive src p = (s, none) := by
  cases p <;> simp [Server.receive, h]

/-- … and neither backup nor restore does anything. -/
theorem C17_unavailable_backup_restore (s : Server) (h : s.canAct = false) (b : Backup) (pq pr : Bool) :
    backupDatabase s b pq = (s, b, false) ∧ restoreBackup s b pq pr = (s, false) := by
  simp [backupDatabase, restoreBackup, h]

theorem C17_canAct_iff (s : Server) : s.canAct = true ↔ s.node.st = .on ∧ s.op = .running := by
  simp [Server.canAct, Node.isOn]

/-- With the request direction closed (a NIC down on either side, or an ACL block) nothing reaches the server:
the whole state is unchanged and the client sees no answer. -/
theorem C17_blocked_send (st : State) (i : Nat) (p : Payload) (h : st.reqOpen i = false) :
    st.send i p = (st, none, none) := by
  simp [State.send, h]

/-- With the server unavailable a sent payload changes nothing either. -/
theorem C17_unavailable_send (st : State) (i : Nat) (p : Payload) (h : st.srv.canAct = false) :
    st.send i p = (st, none, none) := by
  unfold State.send
  by_cases hr : st.reqOpen i = true
  · simp [hr, C17_unavailable_receive st.srv h]
  · simp [hr]

/-- Restore over a closed request path (or with the backup host off / its FTP server stopped) fails and changes
nothing but the FTP client's bookkeeping. -/
theorem C17_blocked_restore (s : Server) (b : Backup) (pq pr : Bool) (h : (pq && b.serves) = false) :
    (restoreBackup s b pq pr).2 = false ∧ (restoreBackup s b pq pr).1 = s := by
  unfold restoreBackup
  by_cases hc : s.canAct = true
  · by_cases hq : s.ftpConn = true
    · simp [hc, h, hq]
      cases s; simp_all
    · simp [hc, h, hq]
      cases s; simp_all
  · simp [hc]

/-! ## 6. Capacity boundary and passwords -/

/-- At the session limit a further (correctly authenticated) connect is refused with 500 and marks the service
OVERWHELMED; one below the limit it succeeds. -/
theorem C17_capacity_boundary (s : Server) (owner : Nat)
    (hr : s.op = .running) (hh : healthAcceptsConnect s.health = true) :
    (s.conns.length = s.maxSessions →
        (processConnect s owner s.password).2.1 = 500 ∧ (processConnect s owner s.password).1.health = .overwhelmed ∧
        (processConnect s owner s.password).1.conns = s.conns) ∧
    (s.conns.length + 1 = s.maxSessions →
        (processConnect s owner s.password).2.1 = 200 ∧
        (processConnect s owner s.password).1.conns.length = s.maxSessions) := by
  unfold processConnect
  constructor
  · intro h
    have : s.maxSessions ≤ s.conns.length := by omega
    simp [hr, hh, this]
  · intro h
    have : ¬ s.maxSessions ≤ s.conns.length := by omega
    simp [hr, hh, this]
    omega

/-- Once OVERWHELMED, every connect is answered 503 and every query 500 until the health changes (restore, or
compromise + fix): the code never leaves OVERWHELMED by itself, even after connections are closed. -/
theorem C17_overwhelmed_refuses (s : Server) (h : s.health = .overwhelmed) (hr : s.op = .running) (owner : Nat)
    (pw : Option Nat) (q : Sql) :
    (processConnect s owner pw).2.1 = 503 ∧ (processConnect s owner pw).1 = s ∧
    (processSql s q).2 ≠ 200 ∧ (processSql s q).1 = s := by
  refine ⟨by simp [processConnect, hr, h, healthAcceptsConnect], by simp [processConnect, hr, h, healthAcceptsConnect], ?_, ?_⟩
  · unfold processSql; cases s.file <;> simp [h]
  · unfold processSql; cases s.file <;> simp [h]

/-- Wrong then right password: a refused attempt changes nothing, so the next attempt with the right password is
decided exactly as if the wrong one had never been made. -/
theorem C17_wrong_then_right_password (s : Server) (a b : Nat) (wrong : Option Nat) (hw : s.password ≠ wrong)
    (hr : s.op = .running) (hh : healthAcceptsConnect s.health = true) :
    (processConnect s a wrong).2.1 = 401 ∧ (processConnect s a wrong).1 = s ∧
    processConnect (processConnect s a wrong).1 b s.password = processConnect s b s.password := by
  have h1 : (processConnect s a wrong).1 = s := by simp [processConnect, hr, hh, hw]
  exact ⟨by simp [processConnect, hr, hh, hw], h1, by rw [h1]⟩

/-- A client whose configured password differs from the server's gets no handle and leaves the server's table alone. -/
theorem C17_wrong_password_no_handle (st : State) (i : Nat) (c : Client) (hc : st.client? i = some c)
    (hw : st.srv.password ≠ c.serverPw) :
    (st.getNewConnection i).2.2 = none ∧ (st.getNewConnection i).1.srv.conns = st.srv.conns := by
  unfold State.getNewConnection
  simp only [hc]
  by_cases hca : c.canAct = true
  · simp only [hca, Bool.not_true, Bool.false_eq_true, if_false]
    unfold State.send
    by_cases hr : st.reqOpen i = true
    · simp only [hr, Bool.not_true, Bool.false_eq_true, if_false, Server.receive]
      by_cases hs : st.srv.canAct = true
      · simp only [hs, Bool.not_true, Bool.false_eq_true, if_false]
        have hl := C17_connect_ladder st.srv i c.serverPw
        have hne : (processConnect st.srv i c.serverPw).2.1 ≠ 200 := by
          rw [hl]; split
          · decide
          · split
            · decide
            · simp [hw]
        have hkeep := (C17_connect_ok_adds_fresh st.srv i c.serverPw).2 hne
        split
        · rename_i heq
          exfalso
          split at heq
          · split at heq <;> simp at heq
            exact hne heq.1
          · simp at heq
        · simp_all
      · simp [hs]
    · simp [hr]
  · simp [hca]

/-! ## 7. Ties to the regenerated tables (`Gen/Database.lean`) -/

def Health.name : Health → String
  | .unused => "UNUSED" | .good => "GOOD" | .fixing => "FIXING" | .compromised => "COMPROMISED" | .overwhelmed => "OVERWHELMED"

def SvcState.name : SvcState → String
  | .stopped => "STOPPED" | .running => "RUNNING" | .paused => "PAUSED" | .restarting => "RESTARTING" | .disabled => "DISABLED"

def FHealth.name : FHealth → String
  | .good => "GOOD" | .compromised => "COMPROMISED" | .corrupt => "CORRUPT"

/-- The model's ladder uses the status codes, the health set, the password operator and the capacity operator the
source has now. -/
theorem C17_gen_connect :
    Gen.Database.connectNotRunning = 404 ∧ Gen.Database.connectUnavailable = 503 ∧ Gen.Database.connectUnauthorised = 401 ∧
    Gen.Database.connectAddFailed = 500 ∧ Gen.Database.connectOk = 200 ∧ Gen.Database.connectDefault = 500 ∧
    Gen.Database.connectPasswordOp = "==" ∧ Gen.Database.capacityOp = ">=" ∧
    Gen.Database.connectIdGeneratedBeforeAdd = true ∧
    (∀ h : Health, healthAcceptsConnect h = Gen.Database.connectHealthAccept.contains h.name) ∧
    (∀ h : Health, (h.name, match h with | .unused => 0 | .good => 1 | .fixing => 2 | .compromised => 3 | .overwhelmed => 4)
        ∈ Gen.Database.healthValues) ∧ Gen.Database.healthValues.length = 5 := by
  refine ⟨by decide, by decide, by decide, by decide, by decide, by decide, by decide, by decide, by decide, ?_, ?_, by decide⟩
  · intro h; cases h <;> decide
  · intro h; cases h <;> decide

/-- `_process_sql` and the gate in `receive`. -/
theorem C17_gen_sql :
    Gen.Database.receiveGuardFirst = true ∧ Gen.Database.sqlUnknownConnection = 401 ∧ Gen.Database.receiveDefault = 500 ∧
    Gen.Database.sqlMissingFile = (processSql { file := none } .select).2 ∧
    Gen.Database.sqlUnhealthy = (processSql { health := .compromised } .select).2 ∧
    Gen.Database.selectGood = (processSql {} .select).2 ∧
    Gen.Database.selectCorrupt = (processSql { file := some .corrupt } .select).2 ∧
    Gen.Database.selectElse = (processSql { file := some .compromised } .select).2 ∧
    Gen.Database.deleteStatus = (processSql {} .delete).2 ∧
    some Gen.Database.deleteSets = (processSql {} .delete).1.file.map FHealth.name ∧
    Gen.Database.encryptStatus = (processSql {} .encrypt).2 ∧
    some Gen.Database.encryptSets = (processSql {} .encrypt).1.file.map FHealth.name ∧
    Gen.Database.insertStatus = (processSql {} .insert).2 ∧
    Gen.Database.pgstatStatus = (processSql {} .pgstat).2 ∧
    Gen.Database.unknownQueryStatus = (processSql {} .other).2 ∧
    Gen.Database.sqlBranchOrder = ["SELECT", "DELETE", "ENCRYPT", "INSERT", "SELECT * FROM pg_stat_activity"] := by
  decide

def svcReqName : SvcReq → String
  | .stop => "stop" | .start => "start" | .pause => "pause" | .resume => "resume" | .restart => "restart"
  | .disable => "disable" | .enable => "enable" | .fix => "fix" | .compromise => "compromise"

/-- The state a service request's validator demands, as modelled (`none` = no validator). -/
def modelValidator : SvcReq → Option SvcState
  | .stop => some .running | .start => some .stopped | .pause => some .running | .resume => some .paused
  | .restart => some .running | .disable => none | .enable => some .disabled | .fix => some .running | .compromise => none

/-- Validators of the service request manager, defaults, fix acceptance, the tick at which the backup is taken. -/
theorem C17_gen_lifecycle :
    (∀ r : SvcReq, r ≠ .compromise →
        (svcReqName r, match modelValidator r with | some st => st.name | none => "-") ∈ Gen.Database.requestValidators) ∧
    Gen.Database.fixAccepts = ["COMPROMISED", "GOOD"] ∧
    Gen.Database.fixingDurationDefault = ({} : Server).fixDur ∧
    Gen.Database.restartDurationDefault = ({} : Server).restartDur ∧
    Gen.Database.maxSessionsDefault = ({} : Server).maxSessions ∧
    Gen.Database.backupAtTimestep = 1 ∧ Gen.Database.restoreWhenFixCompletes = true ∧
    Gen.Database.methodGuards = [("stop", ["RUNNING", "PAUSED"], "STOPPED"), ("pause", ["RUNNING"], "PAUSED"),
      ("resume", ["PAUSED"], "RUNNING"), ("restart", ["RUNNING", "PAUSED"], "RESTARTING"), ("enable", ["DISABLED"], "STOPPED"),
      ("start", ["STOPPED"], "RUNNING")] := by
  refine ⟨?_, by decide, by decide, by decide, by decide, by decide, by decide, by decide⟩
  intro r hr; cases r <;> first | decide | exact absurd rfl hr

/-- The request model agrees with its validator table: a request whose validator state differs from the current
state (or whose node is not ON) is rejected and changes nothing. -/
theorem C17_request_validated (s : Server) (r : SvcReq) :
    (s.node.st ≠ .on ∨ (∃ st, modelValidator r = some st ∧ s.op ≠ st)) → s.request r = (s, none) := by
  intro h
  unfold Server.request
  by_cases hn : s.node.isOn = true
  · have hon : s.node.st = .on := by simpa [Node.isOn] using hn
    rcases h with h | ⟨st, hv, hne⟩
    · exact absurd hon h
    · cases r <;> simp [modelValidator] at hv <;> subst hv <;> simp [hn, hne]
  · simp [hn]

end Primaite.Database
