/-
C20 — the closed form of the loader (`declared`, proved equal to `build` in Props/C20.lean) meets the specification written from
the documentation alone (`spec`, Model/Config.lean): software as a SET of names each with the options of the last entry that
names it, extra NICs as "NIC number k carries the entry under key k". `declared` shares the list of install requests and the
NIC sort with `build`; `spec` shares neither, so a mistake in a shared helper breaks a theorem of this file.
-/
import PrimaiteModel.Props.C20
namespace Primaite.Config
open Primaite.Acl

theorem nodup_of_map_nodup {α β} (f : α → β) : ∀ (l : List α), (l.map f).Nodup → l.Nodup := by
  intro l
  induction l with
  | nil => intro _; exact List.nodup_nil
  | cons a t ih =>
    intro h
    simp only [List.map_cons, List.nodup_cons] at h
    exact List.nodup_cons.mpr ⟨fun hm => h.1 (List.mem_map_of_mem hm), ih h.2⟩

/-! ### extra NICs: NIC number = key -/

/-- the keys of `network_interfaces` are 2, 3, …, m + 1 in some order (every shipped file; the NIC numbers they stand for) -/
def NicKeysOk (m : Assoc Nat IfCfg) : Prop := (keys m).Nodup ∧ ∀ k, k ∈ keys m ↔ (2 ≤ k ∧ k ≤ m.length + 1)

theorem sortByKey_of_sorted {α} : ∀ l : List (Nat × α), l.Pairwise (fun a b => a.1 ≤ b.1) → sortByKey l = l := by
  intro l
  induction l with
  | nil => intro _; rfl
  | cons a t ih =>
    intro h
    rw [List.pairwise_cons] at h
    have : sortByKey (a :: t) = insertByKey a (sortByKey t) := rfl
    rw [this, ih h.2]
    cases t with
    | nil => rfl
    | cons x r =>
      have := h.1 x (by simp)
      simp [insertByKey, this]

/-- the entries in NIC order: position j holds the entry under key j + 2 -/
def canonNics (m : Assoc Nat IfCfg) : List (Nat × IfCfg) :=
  (List.range m.length).map fun j => (j + 2, (alookup (j + 2) m).getD blankIf)

theorem canonNics_pairwise (m : Assoc Nat IfCfg) : (canonNics m).Pairwise (fun a b => a.1 < b.1) := by
  unfold canonNics
  rw [List.pairwise_map]
  exact List.pairwise_lt_range.imp (fun h => by simpa using h)

theorem perm_canonNics (m : Assoc Nat IfCfg) (h : NicKeysOk m) : m.Perm (canonNics m) := by
  obtain ⟨hn, hk⟩ := h
  have hmn : m.Nodup := by
    have : (m.map (·.1)).Nodup := by simpa [keys] using hn
    exact nodup_of_map_nodup _ _ this
  have hcn : (canonNics m).Nodup := by
    rw [List.nodup_iff_pairwise_ne]
    exact (canonNics_pairwise m).imp (fun h e => by rw [e] at h; exact Nat.lt_irrefl _ h)
  rw [List.perm_ext_iff_of_nodup hmn hcn]
  intro e
  obtain ⟨k, v⟩ := e
  constructor
  · intro he
    have hkk : k ∈ keys m := by simpa [keys] using List.mem_map_of_mem (f := (·.1)) he
    have hb := (hk k).mp hkk
    have hl := alookup_of_mem m hn k v he
    unfold canonNics
    rw [List.mem_map]
    refine ⟨k - 2, by rw [List.mem_range]; omega, ?_⟩
    have : k - 2 + 2 = k := by omega
    rw [this, hl]
    rfl
  · intro he
    unfold canonNics at he
    rw [List.mem_map] at he
    obtain ⟨j, hj, hje⟩ := he
    rw [List.mem_range] at hj
    simp only [Prod.mk.injEq] at hje
    obtain ⟨rfl, rfl⟩ := hje
    have hkk : j + 2 ∈ keys m := (hk (j + 2)).mpr (by omega)
    obtain ⟨e, he, hek⟩ := List.mem_map.mp (by simpa [keys] using hkk : j + 2 ∈ m.map (·.1))
    obtain ⟨k', v'⟩ := e
    simp only at hek
    subst hek
    rw [alookup_of_mem m hn _ v' he]
    exact he

/-- **NIC number = key**: with keys 2 … m + 1 (in any order in the file), the loader's ascending-key order puts under NIC number
k exactly the entry the file gives under key k. -/
theorem C20_nics_by_key (m : Assoc Nat IfCfg) (h : NicKeysOk m) : declaredNics m = specNics m := by
  have hs : sortByKey m = canonNics m := by
    rw [C20_site_network_interfaces_items (perm_canonNics m h) (by simpa [keys] using h.1)]
    exact sortByKey_of_sorted _ ((canonNics_pairwise m).imp (fun h => Nat.le_of_lt h))
  unfold declaredNics specNics
  rw [hs, canonNics, List.map_map]
  rfl

/-! ### software: the set of names, each with the options of the last entry that names it -/

/-- the last request for `name` -/
def lastOf (name : String) (l : List SoftReq) : Option SoftReq := l.reverse.find? (·.name = name)

theorem lastOf_cons (name : String) (a : SoftReq) (t : List SoftReq) :
    lastOf name (a :: t) = (lastOf name t).or (if a.name = name then some a else none) := by
  unfold lastOf
  rw [List.reverse_cons, List.find?_append]
  congr 1
  by_cases h : a.name = name <;> simp [h]

theorem lastOf_append (name : String) (l₁ l₂ : List SoftReq) :
    lastOf name (l₁ ++ l₂) = (lastOf name l₂).or (lastOf name l₁) := by
  unfold lastOf
  rw [List.reverse_append, List.find?_append]

theorem lastOf_name (name : String) (l : List SoftReq) (r : SoftReq) (h : lastOf name l = some r) : r.name = name := by
  unfold lastOf at h
  have := List.find?_some h
  simpa using this

theorem lastOf_none_iff (name : String) (l : List SoftReq) : lastOf name l = none ↔ ∀ x ∈ l, x.name ≠ name := by
  unfold lastOf
  rw [List.find?_eq_none]
  simp

theorem mem_lastReqs_iff : ∀ (l : List SoftReq) (r : SoftReq), r ∈ lastReqs l ↔ lastOf r.name l = some r := by
  intro l
  induction l with
  | nil => intro r; simp [lastReqs, lastOf]
  | cons a t ih =>
    intro r
    rw [lastOf_cons]
    unfold lastReqs
    by_cases hany : t.any (fun x => decide (x.name = a.name)) = true
    · simp only [hany, if_true]
      rw [ih r]
      cases hl : lastOf r.name t with
      | some x => simp [Option.or]
      | none =>
        simp only [Option.or]
        have hnone := (lastOf_none_iff r.name t).mp hl
        by_cases har : a.name = r.name
        · exfalso
          obtain ⟨x, hx, hxe⟩ := List.any_eq_true.mp hany
          exact hnone x hx (by rw [← har]; simpa using hxe)
        · simp [har]
    · simp only [hany, Bool.false_eq_true, if_false, List.mem_cons]
      have hno : ∀ x ∈ t, x.name ≠ a.name := by
        intro x hx e
        exact hany (List.any_eq_true.mpr ⟨x, hx, by simpa using e⟩)
      rw [ih r]
      cases hl : lastOf r.name t with
      | some x =>
        simp only [Option.or]
        constructor
        · rintro (rfl | h)
          · have := lastOf_name _ _ _ hl
            exact absurd this (hno x (by
              unfold lastOf at hl
              have := List.mem_of_find?_eq_some hl
              simpa using this))
          · exact h
        · intro h; right; exact h
      | none =>
        simp only [Option.or]
        constructor
        · rintro (rfl | h)
          · simp
          · cases h
        · intro h
          by_cases har : a.name = r.name
          · simp only [har, if_true, Option.some.injEq] at h
            left; exact h.symm
          · simp [har] at h

/-- what the closed form says about one install request -/
def invOf (p : Power) (r : SoftReq) : SoftInv :=
  { name := r.name, isApp := r.isApp, live := 1, opts := r.opts.map (fun e => (e.1, some e.2)),
    imposedFix := r.imposedFix, imposedRestart := r.imposedRestart, running := decide (p = .on),
    health := if p = .on ∧ r.health0 = .unused then .good else r.health0 }

theorem declaredSoftware_eq (d : DefaultsCfg) (p : Power) (k : Kind) (n : NodeCfg) :
    declaredSoftware d p k n = (lastReqs (installRequests d k n)).map (invOf p) := rfl

theorem lastCfg_cons (name : String) (c : SwCfg) (t : List SwCfg) :
    lastCfg name (c :: t) = (lastCfg name t).or (if c.type = name then some c else none) := by
  unfold lastCfg
  rw [List.reverse_cons, List.find?_append]
  congr 1
  by_cases h : c.type = name <;> simp [h]

theorem lastOf_map (name : String) (f : SwCfg → SoftReq) (hf : ∀ c, (f c).name = c.type) (l : List SwCfg) :
    lastOf name (l.map f) = (lastCfg name l).map f := by
  unfold lastOf lastCfg
  rw [← List.map_reverse, List.find?_map]
  congr 1
  · congr 1
    funext c
    simp [Function.comp, hf]

theorem lastCfg_none_iff (name : String) (l : List SwCfg) : lastCfg name l = none ↔ ∀ c ∈ l, c.type ≠ name := by
  unfold lastCfg
  rw [List.find?_eq_none]
  simp

/-- **the `services:` loop**: the last request for a name is the request of the last entry of that type; the FTP client a
database service brings along counts only when the file has no FTP-client entry of its own and none was there before. -/
theorem lastOf_installServices (d : DefaultsCfg) (name : String) : ∀ (l : List SwCfg) (seen : List String),
    lastOf name (installServices d seen l) =
      match lastCfg name l with
      | some c => some (svcReq d c)
      | none => if name = "ftp-client" ∧ l.any (·.type = "database-service") = true ∧ "ftp-client" ∉ seen then some ftpAuto else none := by
  intro l
  induction l with
  | nil => intro seen; simp [installServices, lastOf, lastCfg]
  | cons c rest ih =>
    intro seen
    rw [lastCfg_cons]
    by_cases hdb : c.type = "database-service" ∧ "ftp-client" ∉ seen
    · have hne : ¬ c.type = "ftp-client" := by rw [hdb.1]; decide
      have e : installServices d seen (c :: rest)
          = svcReq d c :: ftpAuto :: installServices d ("ftp-client" :: c.type :: seen) rest := by
        rw [installServices, if_pos hdb]
      rw [e, lastOf_cons, lastOf_cons, ih]
      cases hl : lastCfg name rest with
      | some x => simp [Option.or]
      | none =>
        simp only [Option.or, List.mem_cons, true_or, not_true_eq_false, and_false, if_false]
        by_cases hn : name = "ftp-client"
        · subst hn
          have h1 : (ftpAuto.name = "ftp-client") := rfl
          have h2 : ¬ (svcReq d c).name = "ftp-client" := hne
          simp [h1, h2, hne, hdb.1, hdb.2]
        · have h1 : ¬ ftpAuto.name = name := fun e => hn e.symm
          by_cases hc : c.type = name
          · have : (svcReq d c).name = name := hc
            simp [h1, this, hc]
          · have : ¬ (svcReq d c).name = name := hc
            simp [h1, this, hc, hn]
    · have e : installServices d seen (c :: rest) = svcReq d c :: installServices d (c.type :: seen) rest := by
        rw [installServices, if_neg hdb]
      rw [e, lastOf_cons, ih]
      cases hl : lastCfg name rest with
      | some x => simp [Option.or]
      | none =>
        simp only [Option.or]
        by_cases hc : c.type = name
        · have h0 : (svcReq d c).name = name := hc
          have : ¬ (name = "ftp-client" ∧ rest.any (fun x => decide (x.type = "database-service")) = true ∧
              "ftp-client" ∉ c.type :: seen) := by
            rintro ⟨h1, _, h3⟩
            exact h3 (by rw [hc, h1]; simp)
          rw [if_neg this, if_pos h0, if_pos hc]
        · have h0 : ¬ (svcReq d c).name = name := hc
          simp only [h0, hc, if_false, List.any_cons, List.mem_cons, not_or]
          by_cases hn : name = "ftp-client"
          · subst hn
            have hcf : ¬ "ftp-client" = c.type := fun e => hc e.symm
            by_cases hr : rest.any (fun x => decide (x.type = "database-service")) = true
            · by_cases hs : "ftp-client" ∈ seen
              · simp [hr, hs]
              · simp [hr, hs, hcf]
            · have hcd : ¬ (c.type = "database-service" ∧ "ftp-client" ∉ seen) := hdb
              by_cases hs : "ftp-client" ∈ seen
              · simp [hr, hs]
              · have : ¬ c.type = "database-service" := fun e => hcd ⟨e, hs⟩
                simp [hr, hs, this]
          · simp [hn]

/-- the system software table of every node type names each piece once -/
theorem systemSoftware_nodup (k : Kind) : ((systemSoftware k).map (·.1)).Nodup := by cases k <;> decide

theorem lastOf_system (k : Kind) (name : String) :
    lastOf name ((systemSoftware k).map sysReq) = (alookup name (systemSoftware k)).map (fun b => sysReq (name, b)) := by
  have hn := systemSoftware_nodup k
  generalize systemSoftware k = sys at hn
  induction sys with
  | nil => simp [lastOf, alookup]
  | cons e t ih =>
    obtain ⟨nm, b⟩ := e
    simp only [List.map_cons, List.nodup_cons] at hn
    rw [List.map_cons, lastOf_cons, ih hn.2]
    simp only [alookup, sysReq]
    by_cases h : nm = name
    · subst h
      have : alookup nm t = none := alookup_none_of_not_mem nm t (by simpa [keys] using hn.1)
      simp [this, Option.or]
    · cases alookup name t <;> simp [h, Option.or]

/-- every name the node is asked to carry -/
theorem mem_specNames (k : Kind) (n : NodeCfg) (name : String) :
    name ∈ specNames k n ↔ (name ∈ (systemSoftware k).map (·.1) ∨ name ∈ (n.services ++ n.applications).map (·.type) ∨
      (name = "ftp-client" ∧ n.services.any (·.type = "database-service") = true)) := by
  have hd : ∀ l : List String, name ∈ dedupNames l ↔ name ∈ l := by
    intro l
    induction l with
    | nil => simp [dedupNames]
    | cons a t ih =>
      unfold dedupNames
      split
      · rename_i h
        rw [ih]
        constructor
        · intro h'; exact List.mem_cons_of_mem _ h'
        · intro h'
          rcases List.mem_cons.mp h' with rfl | h'
          · exact h
          · exact h'
      · rw [List.mem_cons, List.mem_cons, ih]
  unfold specNames
  rw [hd]
  simp only [List.mem_append]
  constructor
  · rintro ((h | h) | h)
    · left; exact h
    · right; left; simpa using h
    · right; right
      split at h
      · rename_i hh
        simp only [List.mem_singleton] at h
        exact ⟨h, hh⟩
      · simp at h
  · rintro (h | h | ⟨h1, h2⟩)
    · left; left; exact h
    · left; right; simpa using h
    · right; simp [h2, h1]

theorem specNames_nodup (k : Kind) (n : NodeCfg) : (specNames k n).Nodup := by
  have hd : ∀ l : List String, (dedupNames l).Nodup ∧ ∀ x, x ∈ dedupNames l → x ∈ l := by
    intro l
    induction l with
    | nil => simp [dedupNames]
    | cons a t ih =>
      unfold dedupNames
      split
      · exact ⟨ih.1, fun x hx => List.mem_cons_of_mem _ (ih.2 x hx)⟩
      · rename_i h
        refine ⟨List.nodup_cons.mpr ⟨fun hm => h (ih.2 a hm), ih.1⟩, ?_⟩
        intro x hx
        rcases List.mem_cons.mp hx with rfl | hx
        · exact List.mem_cons_self
        · exact List.mem_cons_of_mem _ (ih.2 x hx)
  exact (hd _).1

theorem lastCfg_type (name : String) (l : List SwCfg) (c : SwCfg) (h : lastCfg name l = some c) : c.type = name ∧ c ∈ l := by
  unfold lastCfg at h
  have h1 := List.mem_of_find?_eq_some h
  have h2 := List.find?_some h
  exact ⟨by simpa using h2, by simpa using h1⟩

/-- the core of the comparison: for EVERY name, the last install request for it (if any) is what the specification says about
that name, and there is one exactly when the specification lists the name. -/
theorem lastOf_requests (d : DefaultsCfg) (p : Power) (k : Kind) (n : NodeCfg) (name : String) :
    (lastOf name (installRequests d k n)).map (invOf p) =
      if name ∈ specNames k n then some (specSoftwareOf d p k n name) else none := by
  have hA := lastOf_system k name
  have hB := lastOf_installServices d name n.services ((systemSoftware k).map (·.1))
  have hC := lastOf_map name appReq (fun _ => rfl) n.applications
  have hL : lastOf name (installRequests d k n) = (lastOf name (n.applications.map appReq)).or
      ((lastOf name (installServices d ((systemSoftware k).map (·.1)) n.services)).or
        (lastOf name ((systemSoftware k).map sysReq))) := by
    unfold installRequests
    rw [lastOf_append, lastOf_append]
  have hmem := mem_specNames k n name
  cases ha : lastCfg name n.applications with
  | some c =>
    obtain ⟨hct, hcm⟩ := lastCfg_type name _ c ha
    have hm : name ∈ specNames k n := hmem.mpr (Or.inr (Or.inl (List.mem_map.mpr ⟨c, by simp [hcm], hct⟩)))
    rw [if_pos hm, hL, hC, ha]
    simp [Option.or, specSoftwareOf, ha, invOf, appReq, hct]
  | none =>
    have hna := (lastCfg_none_iff name _).mp ha
    rw [ha] at hC
    cases hs : lastCfg name n.services with
    | some c =>
      obtain ⟨hct, hcm⟩ := lastCfg_type name _ c hs
      have hm : name ∈ specNames k n := hmem.mpr (Or.inr (Or.inl (List.mem_map.mpr ⟨c, by simp [hcm], hct⟩)))
      rw [hs] at hB
      rw [if_pos hm, hL, hC, hB]
      simp [Option.or, specSoftwareOf, ha, hs, invOf, svcReq, hct]
    | none =>
      have hns := (lastCfg_none_iff name _).mp hs
      rw [hs] at hB
      have hnot : ¬ name ∈ (n.services ++ n.applications).map (·.type) := by
        intro h
        obtain ⟨c, hc, hct⟩ := List.mem_map.mp h
        rcases List.mem_append.mp hc with hc | hc
        · exact hns c hc hct
        · exact hna c hc hct
      rw [hL, hC, hB, hA]
      by_cases hf : name = "ftp-client" ∧ n.services.any (fun x => decide (x.type = "database-service")) = true ∧
          "ftp-client" ∉ (systemSoftware k).map (·.1)
      · obtain ⟨rfl, hdb, hsys⟩ := hf
        have hnone : alookup "ftp-client" (systemSoftware k) = none := alookup_none_of_not_mem _ _ (by simpa [keys] using hsys)
        have hm : "ftp-client" ∈ specNames k n := hmem.mpr (Or.inr (Or.inr ⟨rfl, hdb⟩))
        rw [if_pos hm]
        simp [Option.or, hdb, hsys, hnone, specSoftwareOf, ha, hs, invOf, ftpAuto]
      · rw [if_neg hf]
        cases hsys : alookup name (systemSoftware k) with
        | some b =>
          have hin : name ∈ (systemSoftware k).map (·.1) :=
            List.mem_map.mpr ⟨(name, b), mem_of_alookup name b _ hsys, rfl⟩
          have hm : name ∈ specNames k n := hmem.mpr (Or.inl hin)
          rw [if_pos hm]
          simp [Option.or, specSoftwareOf, ha, hs, hsys, invOf, sysReq]
        | none =>
          have hin : ¬ name ∈ (systemSoftware k).map (·.1) := by
            intro h
            obtain ⟨e, he, hen⟩ := List.mem_map.mp h
            obtain ⟨nm, b⟩ := e
            simp only at hen
            subst hen
            have := alookup_of_mem _ (by simpa [keys] using systemSoftware_nodup k) nm b he
            rw [this] at hsys
            cases hsys
          have hm : ¬ name ∈ specNames k n := by
            intro h
            rcases hmem.mp h with h | h | ⟨h1, h2⟩
            · exact hin h
            · exact hnot h
            · exact hf ⟨h1, h2, h1 ▸ hin⟩
          rw [if_neg hm]
          simp [Option.or]

/-- **software as a set**: for EVERY node entry (any declared state, any defaults section, any number of repeated entries) the
software the loader leaves on the node is, up to order, exactly: one piece per name the node is asked to carry, each with the
options of the last entry that names it. -/
theorem C20_software_meets_spec (d : DefaultsCfg) (p : Power) (k : Kind) (n : NodeCfg) :
    (declaredSoftware d p k n).Perm (specSoftware d p k n) := by
  rw [declaredSoftware_eq]
  unfold specSoftware
  have hname : ∀ nm, (specSoftwareOf d p k n nm).name = nm := by
    intro nm
    unfold specSoftwareOf
    split
    · rfl
    · split <;> rfl
  have hn1 : ((lastReqs (installRequests d k n)).map (invOf p)).Nodup := by
    have h := lastRequests_nodup ((installRequests d k n).map (newInstance .on))
    rw [lastRequests_map _ (newInstance_name .on)] at h
    have h' : (List.map (·.name) ((lastReqs (installRequests d k n)).map (invOf p))).Nodup := by
      simpa [List.map_map, Function.comp_def, invOf, newInstance_name] using h
    exact nodup_of_map_nodup _ _ h'
  have hn2 : ((specNames k n).map (specSoftwareOf d p k n)).Nodup := by
    have h' : (List.map (·.name) ((specNames k n).map (specSoftwareOf d p k n))).Nodup := by
      have : List.map (·.name) ((specNames k n).map (specSoftwareOf d p k n)) = specNames k n := by
        rw [List.map_map]
        exact (List.map_congr_left (fun nm _ => hname nm)).trans (List.map_id _)
      rw [this]
      exact specNames_nodup k n
    exact nodup_of_map_nodup _ _ h'
  rw [List.perm_ext_iff_of_nodup hn1 hn2]
  intro x
  constructor
  · intro hx
    obtain ⟨r, hr, rfl⟩ := List.mem_map.mp hx
    have hl := (mem_lastReqs_iff _ r).mp hr
    have := lastOf_requests d p k n r.name
    rw [hl] at this
    simp only [Option.map_some] at this
    by_cases hm : r.name ∈ specNames k n
    · rw [if_pos hm] at this
      rw [Option.some.inj this]
      exact List.mem_map.mpr ⟨r.name, hm, rfl⟩
    · rw [if_neg hm] at this
      cases this
  · intro hx
    obtain ⟨nm, hnm, rfl⟩ := List.mem_map.mp hx
    have := lastOf_requests d p k n nm
    rw [if_pos hnm] at this
    cases hl : lastOf nm (installRequests d k n) with
    | none => rw [hl] at this; cases this
    | some r =>
      rw [hl] at this
      simp only [Option.map_some, Option.some.injEq] at this
      rw [← this]
      have hrn := lastOf_name _ _ _ hl
      refine List.mem_map.mpr ⟨r, (mem_lastReqs_iff _ r).mpr (by rw [hrn]; exact hl), rfl⟩

/-! ### the whole inventory -/

/-- two node inventories that agree on everything, the software being the same set -/
def NodeEquiv (a b : NodeInv) : Prop := { a with software := [] } = { b with software := [] } ∧ a.software.Perm b.software

/-- two inventories that agree on everything, each node's software being the same set -/
def InvEquiv (a b : Inventory) : Prop :=
  a.links = b.links ∧ a.agents = b.agents ∧ a.game = b.game ∧ a.airspace = b.airspace ∧ Rel₂ NodeEquiv a.nodes b.nodes

/-! ### ACL rules at their stated positions, router ports, users, folders: the closed form meets the lookup specification -/

/-- **router ACL**: the closed form of the `add_rule` loop over the router's base ACL is, position by position, "the rule the file
lists under that key, else ARP at 22 / ICMP at 23, else nothing", implicit action deny. -/
theorem C20_router_acl_by_position (m : Assoc Nat Rule) : declaredAcl routerBaseAcl m = specAclOf .deny routerDefaultAt m := by
  have hlen : routerBaseAcl.rules.length = aclSlots := by simp [routerBaseAcl, aclSlots]
  have hdef : ∀ i ∈ List.range aclSlots, (routerBaseAcl.rules[i]?).join = routerDefaultAt i := by decide
  unfold declaredAcl specAclOf
  rw [hlen]
  have e : ∀ A B : List (Option Rule), A = B →
      ({ routerBaseAcl with rules := A } : Acl) = { rules := B, implicit := .deny } := by intro A B h; subst h; rfl
  apply e
  apply List.map_congr_left
  intro i hi
  rw [hdef i hi]

/-- **firewall ACLs**: an ACL that starts empty holds, position by position, the rule the file lists under that key, else nothing -/
theorem C20_empty_acl_by_position (imp : Action) (m : Assoc Nat Rule) :
    declaredAcl (Acl.empty aclSlots imp) m = specAclOf imp noDefaultAt m := by
  unfold declaredAcl specAclOf Acl.empty
  simp only [List.length_replicate]
  have e : ∀ A B : List (Option Rule), A = B →
      ({ ({ rules := List.replicate aclSlots none, implicit := imp } : Acl) with rules := A } : Acl) = { rules := B, implicit := imp } := by
    intro A B h; subst h; rfl
  apply e
  apply List.map_congr_left
  intro i hi
  have hi' : i < aclSlots := List.mem_range.mp hi
  simp [List.getElem?_replicate, hi', noDefaultAt]

theorem declaredAcls_meet_spec (n : NodeCfg) :
    (match n.kind with
      | .router | .wirelessRouter => [("acl", declaredAcl routerBaseAcl n.acl)]
      | .firewall => ("acl", routerBaseAcl) :: declaredFwAcls n
      | _ => []) = specAcls n := by
  have hbase : routerBaseAcl = specAclOf .deny routerDefaultAt [] := by
    have := C20_router_acl_by_position []
    rw [← this]
    decide
  have hfw : declaredFwAcls n = specFwAcls.map fun e =>
      (e.1, specAclOf e.2 noDefaultAt (if n.fwAclPresent then (alookup e.1 n.fwAcl).getD [] else [])) := by
    unfold declaredFwAcls
    have : specFwAcls = fwAclNames.map (fun e => (e.1, e.2.1)) := by decide
    rw [this, List.map_map]
    apply List.map_congr_left
    intro e _
    obtain ⟨nm, imp, mand⟩ := e
    simp [C20_empty_acl_by_position]
  unfold specAcls
  cases n.kind <;> simp [C20_router_acl_by_position, hfw, ← hbase]

/-- **router ports by number**: port k carries the address the file gives under key k -/
theorem C20_ports_by_number (num : Nat) (m : Assoc Nat IfCfg) : declaredPorts num m = specPorts num m := by
  unfold declaredPorts specPorts
  rw [List.range'_eq_map_range, List.map_map]
  apply List.map_congr_left
  intro i _
  simp only [Function.comp, Nat.add_comm 1 i]
  cases alookup (i + 1) m <;> rfl

theorem find?_key_of_nodup {α} (key : α → String) : ∀ (l : List α), (l.map key).Nodup → ∀ x ∈ l,
    l.find? (fun y => decide (key y = key x)) = some x := by
  intro l
  induction l with
  | nil => intro _ x hx; simp at hx
  | cons a t ih =>
    intro hn x hx
    simp only [List.map_cons, List.nodup_cons] at hn
    rcases List.mem_cons.mp hx with rfl | hx
    · simp
    · have hne : ¬ key a = key x := fun e => hn.1 (e ▸ List.mem_map_of_mem (f := key) hx)
      simp only [List.find?_cons, hne, decide_false]
      exact ih hn.2 x hx

/-- reading a list of named entries back BY NAME gives the list, when names are not repeated -/
theorem lookup_by_name {α β} (key : α → String) (g : String → α → β) (l : List α) (hn : (l.map key).Nodup) :
    (l.map key).filterMap (fun k => (l.find? (fun y => decide (key y = k))).map (g k)) = l.map (fun x => g (key x) x) := by
  rw [List.filterMap_map]
  have : ∀ (l' : List α), (∀ x ∈ l', x ∈ l) →
      l'.filterMap ((fun k => (l.find? (fun y => decide (key y = k))).map (g k)) ∘ key) = l'.map (fun x => g (key x) x) := by
    intro l'
    induction l' with
    | nil => intro _; rfl
    | cons a t ih =>
      intro h
      have ha := find?_key_of_nodup key l hn a (h a (by simp))
      simp only [List.filterMap_cons, Function.comp, ha, Option.map_some, List.map_cons]
      rw [← ih (fun x hx => h x (by simp [hx]))]
  exact this l (fun x hx => hx)

/-- **users by name** -/
theorem C20_users_by_name (n : NodeCfg) (h : ("admin" :: n.users.map (·.name)).Nodup) : declaredUsers n = specUsers n := by
  unfold declaredUsers specUsers
  have hn : (n.users.map (·.name)).Nodup := (List.nodup_cons.mp h).2
  rw [lookup_by_name (·.name) (fun nm u => ({ name := nm, password := u.password, admin := u.admin.getD false } : UserInv)) n.users hn]
  rfl

/-- **folders and files by name** -/
theorem C20_folders_by_name (n : NodeCfg) (h : FoldersOk n.folders) : n.folders = specFolders n := by
  obtain ⟨hn, hf⟩ := h
  unfold specFolders
  rw [lookup_by_name (·.name) (fun nm (fd : FolderCfg) =>
    ({ name := nm, files := (fd.files.map (·.name)).filterMap fun fnm => fd.files.find? (·.name = fnm) } : FolderCfg)) n.folders hn]
  symm
  have : ∀ fd ∈ n.folders, (FolderCfg.mk fd.name ((fd.files.map (·.name)).filterMap fun fnm => fd.files.find? (·.name = fnm))) = fd := by
    intro fd hfd
    have := lookup_by_name (·.name) (fun _ (f : FileCfg) => f) fd.files (hf fd hfd)
    simp only [Option.map_id', List.map_id'] at this
    have e : (fd.files.map (·.name)).filterMap (fun fnm => fd.files.find? (·.name = fnm)) = fd.files := by
      exact this
    rw [e]
  exact (List.map_congr_left this).trans (List.map_id _)

/-- what the specification additionally asks of one node entry: NIC keys are the NIC numbers, user names, folder names and the
file names of a folder are not repeated -/
def NodeSpecOk (n : NodeCfg) : Prop :=
  NicKeysOk n.nics ∧ ("admin" :: n.users.map (·.name)).Nodup ∧ FoldersOk n.folders

def SpecWF (s : Scenario) : Prop := ∀ n ∈ s.nodes, NodeSpecOk n

theorem declaredNode_meets_spec (d : DefaultsCfg) (n : NodeCfg) (h : NodeSpecOk n) :
    NodeEquiv (declaredNode d n) (specNode d n) := by
  obtain ⟨hnic, hu, hf⟩ := h
  constructor
  · have hacl := declaredAcls_meet_spec n
    unfold specNode
    simp only [← C20_users_by_name n hu, ← C20_folders_by_name n hf, ← hacl]
    cases hk : n.kind <;> simp [declaredNode, hk, C20_nics_by_key n.nics hnic, C20_ports_by_number]
  · have : (specNode d n).software = (specSoftware d (n.power.getD .on) n.kind n).map (declaredOuter n) := by unfold specNode; rfl
    rw [this]
    exact (C20_software_meets_spec d _ _ n).map _

theorem wiring_equiv (links : List LinkCfg) (a b : NodeInv) (h : NodeEquiv a b) :
    NodeEquiv (declaredWiring links a) (declaredWiring links b) := by
  obtain ⟨h1, h2⟩ := h
  refine ⟨?_, h2⟩
  have : ({ (declaredWiring links a) with software := [] } : NodeInv) = declaredWiring links { a with software := [] } := rfl
  rw [this]
  have : ({ (declaredWiring links b) with software := [] } : NodeInv) = declaredWiring links { b with software := [] } := rfl
  rw [this, h1]

theorem rel₂_map {α β} (R : β → β → Prop) (f g : α → β) (l : List α) (h : ∀ x ∈ l, R (f x) (g x)) :
    Rel₂ R (l.map f) (l.map g) := by
  induction l with
  | nil => exact .nil
  | cons a t ih => exact .cons (h a (by simp)) (ih (fun x hx => h x (by simp [hx])))

theorem rel₂_append {α} (R : α → α → Prop) {a b c d : List α} (h1 : Rel₂ R a b) (h2 : Rel₂ R c d) : Rel₂ R (a ++ c) (b ++ d) := by
  induction h1 with
  | nil => exact h2
  | cons h _ ih => exact .cons h ih

theorem rel₂_flatMap {α β} (R : β → β → Prop) (f g : α → List β) (l : List α) (h : ∀ x ∈ l, Rel₂ R (f x) (g x)) :
    Rel₂ R (l.flatMap f) (l.flatMap g) := by
  induction l with
  | nil => exact .nil
  | cons a t ih =>
    simp only [List.flatMap_cons]
    exact rel₂_append R (h a (by simp)) (ih (fun x hx => h x (by simp [hx])))

theorem officeNode_nics (c : OfficeCfg) (o : ONode) : NodeSpecOk (officeNodeCfg c o) := by
  have h0 : NicKeysOk ([] : Assoc Nat IfCfg) := ⟨by simp [keys], by intro k; simp [keys]; omega⟩
  have hw := officeNode_wf c o
  refine ⟨?_, hw.users, hw.folders⟩
  cases hk : o.kind <;> simpa [officeNodeCfg, hk] using h0

/-- **the closed form of the loader meets the specification**: for every scenario whose `network_interfaces` keys are the NIC
numbers, `declared` and `spec` agree on every item; the software of each node is the same set. -/
theorem C20_declared_meets_spec (s : Scenario) (h : SpecWF s) : InvEquiv (declared s) (spec s) := by
  refine ⟨rfl, rfl, rfl, rfl, ?_⟩
  show Rel₂ NodeEquiv ((declaredNodes s).map _) ((specNodes s).map _)
  have hnodes : Rel₂ NodeEquiv (declaredNodes s) (specNodes s) := by
    unfold declaredNodes specNodes
    apply rel₂_append
    · exact rel₂_map _ _ _ _ (fun n hn => declaredNode_meets_spec _ n (h n hn))
    · apply rel₂_flatMap
      intro c _
      exact rel₂_map _ _ _ _ (fun o _ => declaredNode_meets_spec _ _ (officeNode_nics c o))
  generalize declaredNodes s = A at hnodes
  generalize specNodes s = B at hnodes
  induction hnodes with
  | nil => exact .nil
  | cons hab _ ih => exact .cons (wiring_equiv _ _ _ hab) ih

/-- **the simulation built from a scenario file is what the file says** (modelled loader, specification from the documentation):
for every well-formed scenario the loader succeeds and what it builds agrees with `spec` on every item, each node's software
being the same set. -/
theorem C20_build_meets_spec (s : Scenario) (wf : WellFormed s) (h : SpecWF s) :
    ∃ inv, build s = .ok inv ∧ InvEquiv inv (spec s) :=
  ⟨declared s, C20_build_eq_declared s wf, C20_declared_meets_spec s h⟩

/-! ### the adder wires by object reference, the model by hostname: when the two coincide -/

/-- **by name = by reference under unique hostnames**: attaching a link to interface `port` of "the node named like the i-th node"
touches exactly the i-th node — which is what the adder does when it holds that node object. -/
theorem C20_wiring_by_name_is_by_reference : ∀ (nodes : List NodeInv) (i : Nat) (n : NodeInv) (port : Nat),
    (nodes.map (·.hostname)).Nodup → nodes[i]? = some n →
    plugAt nodes n.hostname port = nodes.modify i (fun m => plugNode m port) := by
  intro nodes
  induction nodes with
  | nil => intro i n port _ h; simp at h
  | cons a t ih =>
    intro i n port hn h
    simp only [List.map_cons, List.nodup_cons] at hn
    cases i with
    | zero =>
      simp only [List.getElem?_cons_zero, Option.some.injEq] at h
      subst h
      simp [plugAt]
    | succ k =>
      simp only [List.getElem?_cons_succ] at h
      have hmem : n ∈ t := List.mem_of_getElem? h
      have hne : ¬ a.hostname = n.hostname := fun e => hn.1 (e ▸ List.mem_map_of_mem (f := (·.hostname)) hmem)
      simp [plugAt, hne, ih k n port hn.2 h]

/-- without uniqueness they differ: with two nodes of one hostname the name reaches the FIRST, the adder's reference the second
(the real loader accepts such a file silently and builds both nodes; `WellFormed` excludes it) -/
theorem C20_wiring_by_name_needs_unique_hostnames :
    ∃ (nodes : List NodeInv) (n : NodeInv), nodes[1]? = some n ∧
      plugAt nodes n.hostname 1 ≠ nodes.modify 1 (fun m => plugNode m 1) := by
  refine ⟨[declaredNode {} exHost, declaredNode {} exHost], declaredNode {} exHost, rfl, ?_⟩
  decide

/-! ### non-vacuity, and what a mistake in a shared helper would look like -/

/-- a decidable form of `NicKeysOk` for concrete mappings -/
def nicKeysOkB (m : Assoc Nat IfCfg) : Bool :=
  decide (keys m).Nodup && (keys m).all (fun k => decide (2 ≤ k ∧ k ≤ m.length + 1)) &&
    (List.range m.length).all (fun j => decide (j + 2 ∈ keys m))

theorem nicKeysOk_of_B (m : Assoc Nat IfCfg) (h : nicKeysOkB m = true) : NicKeysOk m := by
  simp only [nicKeysOkB, Bool.and_eq_true, decide_eq_true_eq, List.all_eq_true, List.mem_range] at h
  obtain ⟨⟨h1, h2⟩, h3⟩ := h
  refine ⟨h1, fun k => ⟨fun hk => h2 k hk, fun hk => ?_⟩⟩
  have := h3 (k - 2) (by omega)
  have e : k - 2 + 2 = k := by omega
  rwa [e] at this

/-- the scenario of Props/C20.lean (router, server with NICs declared under keys 3 then 2, wireless router, node set, defaults,
game, airspace) meets the specification's extra condition, so everything above applies to it -/
theorem exFull_specwf : SpecWF exFull := by
  intro n hn
  simp only [exFull, exScenario, List.mem_cons, List.not_mem_nil, or_false] at hn
  rcases hn with rfl | rfl | rfl <;> exact ⟨nicKeysOk_of_B _ (by decide), by decide, by decide⟩

example : ∃ inv, build exFull = .ok inv ∧ InvEquiv inv (spec exFull) := C20_build_meets_spec _ exFull_wf exFull_specwf

/-- NIC 2 of the server is the entry under key 2 although the file lists key 3 first -/
example : (specNics exHost.nics).map (·.ip) = [some 0xC0A80B0A#32, some 0xAC100105#32] := by decide

/-- the database server carries its FTP client (brought along, bare), and the configured database service with its options -/
example : ((specSoftware {} .on .server exHost).map (·.name)).length = 11 ∧
    "ftp-client" ∈ (specSoftware {} .on .server exHost).map (·.name) := by decide

/-- the router of the running example, read by position: the deny rule at 3, HTTP at 21, ARP (default) at 22, the file's ICMP
rule at 23, nothing elsewhere; implicit deny -/
example : ((specAclOf .deny routerDefaultAt exRouter.acl).rules.zipIdx.filterMap fun (r, i) => r.map fun _ => i) = [3, 21, 22, 23] := by
  decide

/-- a loader that shifted every rule by one position would not meet the position-by-position reading -/
theorem C20_shifted_acl_does_not_meet_spec :
    declaredAcl routerBaseAcl (exRouter.acl.map fun e => (e.1 + 1, e.2)) ≠ specAclOf .deny routerDefaultAt exRouter.acl := by decide

example : specUsers exHost = [⟨"admin", "admin", true⟩, ⟨"alice", "pw", true⟩] := by decide
example : specFolders exHost = exHost.folders := by decide

/-- what a mistake in a helper that `build` and `declared` share would look like: were the NICs NOT sorted by key (the loader
before F-52), `declared` would follow — and disagree with the specification. -/
theorem C20_unsorted_nics_do_not_meet_spec : (exHost.nics.map fun e => nicOf e.2) ≠ specNics exHost.nics := by decide

/-- and were the install requests to forget that a later entry replaces an earlier one (F-22), the software would not be the
set the specification describes. -/
theorem C20_all_requests_do_not_meet_spec :
    ¬ ((installRequests {} .computer exShadowNode).map (invOf .on)).Perm (specSoftware {} .on .computer exShadowNode) := by
  intro h
  have := h.length_eq
  revert this
  decide

end Primaite.Config
