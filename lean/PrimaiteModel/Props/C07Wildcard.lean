/-
C07, round 3 — wildcard masks as users read them.  `C07_wildcard_spec` (Props/C07.lean) is the bitwise meaning of
`ip_matches_masked_range`; here: the INTERVAL reading for contiguous masks (`0.0.0.255` ⇒ the /24 the base lies in), the
two extreme masks, the irrelevance of the base's masked-out bits, and the degenerate address fields as the code treats them
(mask without address: ignored; address without mask: exact match; `ALL`: no constraint).
-/
import PrimaiteModel.Props.C07
namespace Primaite.Acl

/-- a contiguous ("suffix") wildcard mask: the low `k` bits set — `0.0.0.255` is `lowMask 8`, `0.0.255.255` is `lowMask 16` -/
def lowMask (k : Nat) : Ip := BitVec.ofNat 32 (2 ^ k - 1)

theorem lowMask_bit (k i : Nat) (hi : i < 32) : (lowMask k).getLsbD i = decide (i < k) := by
  unfold lowMask
  rw [BitVec.getLsbD_ofNat, Nat.testBit_two_pow_sub_one]
  simp [hi]

/-- **Contiguous masks select the aligned block the base lies in**: with the low `k` bits wild, an address matches iff it
agrees with the base on everything above bit `k`, i.e. iff the two addresses have the same quotient by `2^k`. -/
theorem C07_wildcard_contiguous (k : Nat) (ip base : Ip) :
    ipMatches ip base (lowMask k) = true ↔ ip.toNat / 2 ^ k = base.toNat / 2 ^ k := by
  rw [C07_wildcard_spec]
  constructor
  · intro h
    apply Nat.eq_of_testBit_eq
    intro j
    rw [Nat.testBit_div_two_pow, Nat.testBit_div_two_pow]
    by_cases hj : j + k < 32
    · have := h (j + k) hj (by rw [lowMask_bit k (j + k) hj]; simp)
      simpa [BitVec.getLsbD] using this
    · have h1 : ip.toNat.testBit (j + k) = false :=
        Nat.testBit_lt_two_pow (Nat.lt_of_lt_of_le ip.isLt (Nat.pow_le_pow_right (by omega) (by omega)))
      have h2 : base.toNat.testBit (j + k) = false :=
        Nat.testBit_lt_two_pow (Nat.lt_of_lt_of_le base.isLt (Nat.pow_le_pow_right (by omega) (by omega)))
      rw [h1, h2]
  · intro h i hi hw
    rw [lowMask_bit k i hi] at hw
    have hk : k ≤ i := by simpa using hw
    have e := congrArg (fun v => v.testBit (i - k)) h
    simp only [Nat.testBit_div_two_pow] at e
    have : i - k + k = i := by omega
    rw [this] at e
    simpa [BitVec.getLsbD] using e

/-- The interval reading: the matching addresses are exactly the `2^k` consecutive ones starting at the base rounded down
to a multiple of `2^k` — whatever low bits the base itself carries. -/
theorem C07_wildcard_interval (k : Nat) (ip base : Ip) :
    ipMatches ip base (lowMask k) = true ↔
      base.toNat / 2 ^ k * 2 ^ k ≤ ip.toNat ∧ ip.toNat < base.toNat / 2 ^ k * 2 ^ k + 2 ^ k := by
  rw [C07_wildcard_contiguous]
  have hp : 0 < 2 ^ k := Nat.two_pow_pos k
  constructor
  · intro h
    rw [← h]
    exact ⟨Nat.div_mul_le_self _ _, Nat.lt_div_mul_add hp⟩
  · rintro ⟨h1, h2⟩
    have hle : base.toNat / 2 ^ k ≤ ip.toNat / 2 ^ k := (Nat.le_div_iff_mul_le hp).mpr h1
    have hlt : ip.toNat / 2 ^ k < base.toNat / 2 ^ k + 1 := by
      rw [Nat.div_lt_iff_lt_mul hp, Nat.add_mul, Nat.one_mul]; exact h2
    omega

/-- `0.0.0.255`: the /24 network of the base — `192.168.1.77 / 0.0.0.255` means `192.168.1.0 … 192.168.1.255`. -/
theorem C07_wildcard_slash24 (ip base : Ip) :
    ipMatches ip base 0x000000FF#32 = true ↔
      base.toNat / 256 * 256 ≤ ip.toNat ∧ ip.toNat < base.toNat / 256 * 256 + 256 := by
  have h : (0x000000FF#32 : Ip) = lowMask 8 := by decide
  rw [h]; exact C07_wildcard_interval 8 ip base

/-- `0.0.255.255`: the /16 of the base -/
theorem C07_wildcard_slash16 (ip base : Ip) :
    ipMatches ip base 0x0000FFFF#32 = true ↔
      base.toNat / 65536 * 65536 ≤ ip.toNat ∧ ip.toNat < base.toNat / 65536 * 65536 + 65536 := by
  have h : (0x0000FFFF#32 : Ip) = lowMask 16 := by decide
  rw [h]; exact C07_wildcard_interval 16 ip base

/-- mask `0.0.0.0` is the exact match; mask `255.255.255.255` matches every address (the docs' "deny all" rule uses it) -/
theorem C07_wildcard_extremes (ip base : Ip) :
    (ipMatches ip base 0#32 = true ↔ ip = base) ∧ ipMatches ip base 0xFFFFFFFF#32 = true := by
  constructor
  · rw [C07_wildcard_spec]
    constructor
    · intro h
      apply BitVec.eq_of_getLsbD_eq
      intro i hi
      exact h i hi (by simp)
    · rintro rfl i _ _; rfl
  · rw [C07_wildcard_spec]
    intro i hi hw
    have : (0xFFFFFFFF#32 : Ip).getLsbD i = true := by
      have : (0xFFFFFFFF#32 : Ip) = lowMask 32 := by decide
      rw [this, lowMask_bit 32 i hi]; simpa using hi
    rw [this] at hw; exact absurd hw (by simp)

/-- the base's masked-out bits are irrelevant: any base inside the range denotes the same range -/
theorem C07_wildcard_base_free (ip base base' wc : Ip)
    (h : ∀ i : Nat, i < 32 → wc.getLsbD i = false → base'.getLsbD i = base.getLsbD i) :
    ipMatches ip base' wc = ipMatches ip base wc := by
  have e : (ipMatches ip base' wc = true) ↔ (ipMatches ip base wc = true) := by
    rw [C07_wildcard_spec, C07_wildcard_spec]
    constructor
    · intro hh i hi hw; rw [hh i hi hw, h i hi hw]
    · intro hh i hi hw; rw [hh i hi hw, h i hi hw]
  cases h1 : ipMatches ip base' wc <;> cases h2 : ipMatches ip base wc <;> simp_all

/-- NOT every mask is an interval: with `0.0.255.0` the matching set has holes (why "shift away the wild bits" — the
seeded change C07-a — is wrong): `10.0.3.9` is outside `10.0.0.5 / 0.0.255.0` although it lies between two members. -/
theorem C07_wildcard_noncontiguous_example :
    ipMatches 0x0A000305#32 0x0A000005#32 0x0000FF00#32 = true ∧
    ipMatches 0x0A000309#32 0x0A000005#32 0x0000FF00#32 = false ∧
    ipMatches 0x0A00FF05#32 0x0A000005#32 0x0000FF00#32 = true := by decide

/-! ### degenerate address fields, as the code treats them -/

/-- `src_ip = ALL` (no address): the field matches everything, and a wildcard mask given WITHOUT an address is ignored;
an address WITHOUT a mask (`NONE`) is an exact match; with both, the masked range. -/
theorem C07_addr_field_cases (ip base wc : Ip) (owc : Option Ip) :
    addrMatches none owc ip = true ∧
    (addrMatches (some base) none ip = true ↔ ip = base) ∧
    addrMatches (some base) (some wc) ip = ipMatches ip base wc := by
  refine ⟨rfl, ?_, rfl⟩
  simp [addrMatches]

/-- non-vacuity of the interval reading on the documentation's own example (192.168.1.0 / 0.0.0.255) -/
example : ipMatches 0xC0A80117#32 0xC0A80100#32 0x000000FF#32 = true ∧
    ipMatches 0xC0A80217#32 0xC0A80100#32 0x000000FF#32 = false := by decide

end Primaite.Acl
