/-
C17, round 7 second shift — what the property SAYS about `_process_sql`, stated directly on the TRANSLATED method
(Gen/DatabaseTr.lean), branch by branch, for every server state.  `C17_tr_process_sql` (Props/C17Recv.lean) is the equality with the
model; these are the property's own sentences ("destructive queries change the stored file's health (delete: compromised, encrypt:
corrupt) and reads of compromised data fail"), so that a change of ONE branch is refuted by the theorem that names it, and
`Props/C17SqlCm.lean` prints the server on which it fails (the counter-model search, 120 cells = the whole domain of the method).
-/
import PrimaiteModel.Model.Database
import PrimaiteModel.Gen.DatabaseTr
namespace Primaite.Database
open Primaite.Gen

/-- ENCRYPT on a live file of a healthy service: the file is CORRUPT afterwards WHATEVER its health was (also COMPROMISED, also
already CORRUPT), nothing else of the server changes, answer 200 with the query's uuid. -/
theorem C17_gen_process_sql_encrypt (s : Server) (fh : FHealth) (hf : s.file = some fh) (hh : s.health = .good) :
    DatabaseTr.processSql s .encrypt = ({ s with file := some .corrupt }, 200, true) := by
  unfold DatabaseTr.processSql
  cases fh <;> simp [hf, hh]

/-- DELETE: the file is COMPROMISED afterwards whatever its health was; 200 with the uuid. -/
theorem C17_gen_process_sql_delete (s : Server) (fh : FHealth) (hf : s.file = some fh) (hh : s.health = .good) :
    DatabaseTr.processSql s .delete = ({ s with file := some .compromised }, 200, true) := by
  unfold DatabaseTr.processSql
  cases fh <;> simp [hf, hh]

/-- SELECT never writes; it fails (404, no uuid) exactly on COMPROMISED data. -/
theorem C17_gen_process_sql_select (s : Server) (fh : FHealth) (hf : s.file = some fh) (hh : s.health = .good) :
    DatabaseTr.processSql s .select = (s, if fh = .compromised then 404 else 200, !(fh == .compromised)) := by
  unfold DatabaseTr.processSql
  cases fh <;> simp [hf, hh]

/-- INSERT, the pg_stat query and an unknown query never write; 200 / 200 / 500. -/
theorem C17_gen_process_sql_insert (s : Server) (fh : FHealth) (hf : s.file = some fh) (hh : s.health = .good) :
    DatabaseTr.processSql s .insert = (s, 200, true) ∧ DatabaseTr.processSql s .pgstat = (s, 200, true) ∧
    (DatabaseTr.processSql s .other).1 = s ∧ (DatabaseTr.processSql s .other).2.1 = 500 := by
  unfold DatabaseTr.processSql
  cases fh <;> simp [hf, hh]

/-- no live file, or a service whose health is not GOOD: nothing is written, whatever the query (404 / 500, no uuid). -/
theorem C17_gen_process_sql_refuses (s : Server) (q : Sql) (h : s.file = none ∨ s.health ≠ .good) :
    DatabaseTr.processSql s q = (s, if s.file = none then 404 else 500, false) := by
  unfold DatabaseTr.processSql
  cases hf : s.file with
  | none => simp
  | some fh =>
    have hh : s.health ≠ .good := by
      cases h with
      | inl h => rw [hf] at h; cases h
      | inr h => exact h
    simp [hh]

end Primaite.Database
