/-
C06, deepening: the cut theorem for *frame classes*.

* class-specific router rules (source exact / range, destination, protocol, port): `routerDenyC` — the router's list
  denies every packet of the class that circulates on the attacker side;
* firewall second-stage blocks: `fwDenyC` — on every attacker-facing port either the first list denies the class, or
  every second entry point the frame can be handed to either denies the class or is covered by an explicit hypothesis
  on what the firewall does there (forwarding into a zone that is not protected);
* the decidable scan `denyClassCheck` and the class-aware certificate `certifyC` are proved sound;
* a router's handling of genuine ARP packets (the only frames exempt from its list) is modelled concretely
  (`routerArpSoft`) and proved to stay on the attacker side — the `hex` hypothesis of the router roles is discharged;
* `ARP.send_arp_request` targets only an address of a local subnet or the default gateway (second half of
  `host_emits_own_src`), and the session manager stamps the ARP sender address.
-/
import PrimaiteModel.Model.FilterClass
import PrimaiteModel.Props.C06
import PrimaiteModel.Gen.FilterSoft
namespace Primaite.Cut

variable {N Port F S : Type} [DecidableEq N]

/-- the interface-send layer commutes with sequencing -/
theorem guard_bind (en : S → Port → Bool) :
    ∀ (a : Act S Port F) (k : S → Act S Port F),
      guardSends en (a.bind k) = (guardSends en a).bind (fun s => guardSends en (k s)) := by
  intro a
  induction a with
  | done s => intro k; rfl
  | send s q g k' ih =>
    intro k
    cases h : en s q
    · simp only [Act.bind, guardSends, h, Bool.false_eq_true, if_false]; exact ih s k
    · simp only [Act.bind, guardSends, h, if_true]
      congr 1
      funext s'
      exact ih s' k

end Primaite.Cut

namespace Primaite.Filter
open Primaite Primaite.Acl Primaite.Cut

variable {W : Type}

/-! ## 1. the class scan is sound -/

theorem coversOpt_cases {α : Type} [DecidableEq α] (r c : Option α) (h : coversOpt r c = true) : r = none ∨ r = c := by
  unfold coversOpt at h
  cases r with
  | none => exact Or.inl rfl
  | some x => right; simpa using h

theorem covers_sound (r c : Rule) (p : Packet) (h : covers r c = true) (hc : c.hits? p = true) : r.hits? p = true := by
  simp only [covers, Bool.and_eq_true] at h
  obtain ⟨⟨⟨⟨h1, h2⟩, h3⟩, h4⟩, h5⟩ := h
  simp only [Rule.hits?, Bool.and_eq_true] at hc ⊢
  obtain ⟨⟨⟨⟨c1, c2⟩, c3⟩, c4⟩, c5⟩ := hc
  have addr : ∀ (rIp rWc cIp cWc : Option Ip) (x : Ip), (rIp.isNone || (rIp == cIp && rWc == cWc)) = true →
      addrMatches cIp cWc x = true → addrMatches rIp rWc x = true := by
    intro rIp rWc cIp cWc x hh hm
    cases rIp with
    | none => rfl
    | some b =>
      simp only [Option.isNone_some, Bool.false_or, Bool.and_eq_true, beq_iff_eq] at hh
      rw [hh.1, hh.2]; exact hm
  refine ⟨⟨⟨⟨?_, addr _ _ _ _ _ h2 c2⟩, addr _ _ _ _ _ h3 c3⟩, ?_⟩, ?_⟩
  · rcases coversOpt_cases _ _ h1 with h | h <;> rw [h]
    · rfl
    · exact c1
  · rcases coversOpt_cases _ _ h4 with h | h <;> rw [h]
    · rfl
    · exact c4
  · rcases coversOpt_cases _ _ h5 with h | h <;> rw [h]
    · rfl
    · exact c5

theorem denyScan_sound (c : Rule) (p : Packet) (hc : c.hits? p = true) (imp : Action) :
    ∀ (rules : List (Option Rule)) (off : Nat), denyScan c rules imp = true →
      match firstMatch p rules off with
      | some (_, r) => r.action = .deny
      | none => imp = .deny := by
  intro rules
  induction rules with
  | nil => intro off h; simpa [denyScan, firstMatch] using h
  | cons x rest ih =>
    intro off h
    cases x with
    | none => simpa [firstMatch] using ih (off + 1) (by simpa [denyScan] using h)
    | some r =>
      simp only [denyScan, Bool.and_eq_true, Bool.or_eq_true, beq_iff_eq] at h
      simp only [firstMatch]
      by_cases hm : r.hits? p = true
      · simp only [hm, if_true]; exact h.1
      · simp only [hm, Bool.false_eq_true, if_false]
        rcases h.2 with hcov | hrest
        · exact absurd (covers_sound r c p hcov hc) hm
        · exact ih (off + 1) hrest

/-- **Soundness of the class scan**: a list that passes `denyClassCheck cs` denies every packet some pattern of
`cs` describes — whatever else the list holds behind the covering DENY rules. -/
theorem C06_denyClassCheck_sound (cs : List Rule) (a : Acl) (h : denyClassCheck cs a = true) :
    DeniesClass (fun p => clsHolds cs p = true) a := by
  intro p hp
  simp only [clsHolds, List.any_eq_true] at hp
  obtain ⟨c, hcm, hc⟩ := hp
  have hs := List.all_eq_true.mp h c hcm
  have := denyScan_sound c p hc a.implicit a.rules 0 hs
  unfold isPermitted
  cases hf : firstMatch p a.rules 0 with
  | none => simp only [hf] at this; simp [this]
  | some ir => obtain ⟨i, r⟩ := ir; simp only [hf] at this; simp [this]

/-- the pattern with no field specified describes every packet: the any-any certificate is the special case -/
theorem clsHolds_any (p : Packet) : clsHolds [anyPattern] p = true := by
  simp [clsHolds, anyPattern, Rule.hits?, protoMatches, addrMatches, portMatches]

/-- rule shapes the scan accepts: a DENY rule in the first non-empty slot that *is* the pattern (source exact or range,
destination exact or range, protocol, ports — any combination) -/
theorem C06_denyScan_first_is_pattern (k : Nat) (c : Rule) (rest : List (Option Rule)) (imp : Action)
    (hd : c.action = .deny) : denyScan c (List.replicate k none ++ some c :: rest) imp = true := by
  induction k with
  | zero =>
    simp only [List.replicate_zero, List.nil_append, denyScan, hd, beq_self_eq_true, Bool.true_and, Bool.or_eq_true]
    left
    simp [covers, coversOpt]
  | succ k ih => simpa [List.replicate_succ, denyScan] using ih

/-! ## 2. gate facts -/

theorem ifaceRx_up (k : Kind) (ifs : List Iface) (i : Iface) (f f' : Frame) (h : ifaceRx k ifs i f = .up f') :
    f' = { f with ttl := f.ttl - 1 } ∧ i.enabled = true := by
  unfold ifaceRx at h
  cases he : i.enabled
  · simp [he] at h
  · simp only [he, Bool.not_true, Bool.false_eq_true, if_false] at h
    refine ⟨?_, rfl⟩
    split at h
    · cases h
    · cases k <;> simp only at h
      · -- host
        split at h
        · split at h
          · injection h with h; exact h.symm
          · cases h
        · split at h
          · injection h with h; exact h.symm
          · cases h
      · injection h with h; exact h.symm
      · split at h
        · injection h with h; exact h.symm
        · cases h
      · split at h
        · injection h with h; exact h.symm
        · cases h

theorem ifaceRx_router_mac (ifs : List Iface) (i : Iface) (f f' : Frame) (h : ifaceRx .router ifs i f = .up f') :
    f.dstMac = i.mac ∨ f.dstMac = bcastMac := by
  unfold ifaceRx at h
  cases he : i.enabled
  · simp [he] at h
  · simp only [he, Bool.not_true, Bool.false_eq_true, if_false] at h
    by_cases ht : f.ttl - 1 < 1
    · simp [ht] at h
    · by_cases hm : (f.dstMac == i.mac || f.dstMac == bcastMac) = true
      · simpa using hm
      · simp [ht, hm] at h

theorem subjectToAcl_ttl (f : Frame) (x : Nat) : subjectToAcl { f with ttl := x } = subjectToAcl f := rfl

theorem secondEntry_mem (soft : Soft W) (e : FwEntry) (s : Node W) (f : Frame) (e2 : FwEntry)
    (h : secondEntry soft e s f = some e2) : e2 ∈ nextEntries e := by
  cases e <;> simp only [secondEntry] at h
  · injection h with h; subst h; split <;> simp [nextEntries]
  · cases h
  · cases h
  · injection h with h; subst h; split <;> simp [nextEntries]
  · cases h
  · split at h
    · cases h
    · split at h
      · split at h
        · injection h with h; subst h; simp [nextEntries]
        · split at h
          · injection h with h; subst h; simp [nextEntries]
          · cases h
      · cases h

/-! ## 3. the cut theorem with a frame class -/

section cutC
variable {N : Type} [DecidableEq N]

/-- frames admitted at `(n, p)`: arrived over a wire from the attacker side **and** in the class -/
def FromSideC (sys : Sys N Nat Frame (Node W)) (side : N → Bool) (Cl : N → Nat → Frame → Prop)
    (n : N) (p : Nat) (f : Frame) : Prop := SideFacing sys side n p ∧ Cl n p f

/-- every frame a script puts on a wire is in the class at the other end -/
def EmitsCl (sys : Sys N Nat Frame (Node W)) (Cl : N → Nat → Frame → Prop) (n : N) (a : Script W) : Prop :=
  Emits (fun _ q g => ∀ m r, sys.wire n q = some (m, r) → Cl m r g) a

inductive RoleC (W : Type)
  /-- all wires stay on the attacker side; the node may do anything *as long as what it emits is in the class* -/
  | interior
  | ifaceDown (soft : Soft W)
  | routerOff (soft : Soft W)
  /-- a router whose list denies every packet of class `Cp`; `ifs` = its (fixed) interfaces -/
  | routerDenyC (soft : Soft W) (Cp : Packet → Prop) (ifs : List Iface)
  /-- a firewall; `D` = the entry points whose list denies every packet of class `Cp`; `Z` = the second entry points
      for which the forwarding hypothesis is asked instead (zones that do not lead to the protected side) -/
  | fwDenyC (soft : Soft W) (Cp : Packet → Prop) (D : FwEntry → Bool) (Z : FwEntry → Prop)
  | frozen (soft : Soft W) (s0 : Node W)
  /-- an attacker-side PrimAITE element with *modelled* software (a host behind its session manager, a switch — see
      Props/C06Net.lean): it keeps invariant `J` (e.g. "these are my interfaces") and, from a `J`-state, turns class frames
      into class frames; nothing is assumed, the condition is `SafeAct` itself and is PROVED for the host / switch models -/
  | interiorI (soft : Soft W) (J : Node W → Prop)

def invC (sys : Sys N Nat Frame (Node W)) (side : N → Bool) (role : N → RoleC W) (n : N) (s : Node W) : Prop :=
  match role n with
  | .interior => True
  | .ifaceDown _ => BoundaryDown sys side n s
  | .routerOff _ => s.kind = .router ∧ s.on = false
  | .routerDenyC _ Cp ifs => s.kind = .router ∧ DeniesClass Cp (s.acls .router) ∧ s.ifaces = ifs
  | .fwDenyC _ Cp D _ => s.kind = .firewall ∧ ∀ e, D e = true → DeniesClass Cp (s.acls (entryAcl e))
  | .frozen _ s0 => s = s0 ∧ ∀ p, SideFacing sys side n p → portEnabled s0 p = false
  | .interiorI _ J => J s

/-- what remains a hypothesis at a firewall port whose *first* list does not deny the class -/
structure FwSecondOK (sys : Sys N Nat Frame (Node W)) (side : N → Bool) (Cl : N → Nat → Frame → Prop)
    (role : N → RoleC W) (n : N) (soft : Soft W) (Cp : Packet → Prop) (D : FwEntry → Bool) (Z : FwEntry → Prop)
    (p : Nat) (e : FwEntry) : Prop where
  /-- frames addressed to an open port of the firewall itself: its own software's answers stay on the attacker side -/
  session : ∀ s f, invC sys side role n s → Cp f.pkt →
    SafeAct sys side (FromSideC sys side Cl) (invC sys side role) n (guardSends portEnabled (soft.session s p f))
  /-- the ARP / route look-ups of the DMZ-outbound entry point emit nothing towards the protected side -/
  lookup : e = .dmzOut → ∀ s f, invC sys side role n s → Cp f.pkt →
    SafeAct sys side (FromSideC sys side Cl) (invC sys side role) n (guardSends portEnabled (soft.dmzLookup s p f))
  /-- a second entry point whose list does not deny the class: what the firewall does there (verdict, `process_frame`)
      stays on the attacker side — i.e. a frame resolved to a zone is forwarded into that zone only (C08's concern) -/
  final : ∀ s f e2, invC sys side role n s → Cp f.pkt → secondEntry soft e s f = some e2 → D e2 = false → Z e2 →
    SafeAct sys side (FromSideC sys side Cl) (invC sys side role) n (guardSends portEnabled (fwFinal soft e2 s p f))

def RoleOKC (sys : Sys N Nat Frame (Node W)) (side : N → Bool) (Cl : N → Nat → Frame → Prop)
    (role : N → RoleC W) (n : N) : Prop :=
  match role n with
  | .interior => (∀ q m r, sys.wire n q = some (m, r) → side m = true) ∧
      ∀ s p f, SideFacing sys side n p → Cl n p f → EmitsCl sys Cl n (sys.handler n s p f)
  | .ifaceDown soft => sys.handler n = nodeRx soft ∧ SoftKeeps soft (BoundaryDown sys side n) ∧
      ∀ s p f, SideFacing sys side n p → Cl n p f → EmitsCl sys Cl n (nodeRx soft s p f)
  | .routerOff soft => sys.handler n = nodeRx soft
  | .routerDenyC soft Cp _ => sys.handler n = nodeRx soft ∧
      (∀ p f, Cl n p f → subjectToAcl f = some true → Cp f.pkt) ∧
      -- the frames that skip the list (genuine ARP packets): discharged for `routerArpSoft` by `C06_router_arp_safe`
      ∀ s p i f f', invC sys side role n s → SideFacing sys side n p → Cl n p f → s.ifaces[p]? = some i →
        ifaceRx s.kind s.ifaces i f = .up f' → subjectToAcl f' = some false →
        SafeAct sys side (FromSideC sys side Cl) (invC sys side role) n (guardSends portEnabled (permitted soft s p f'))
  | .fwDenyC soft Cp D Z => sys.handler n = nodeRx soft ∧ (∀ p f, Cl n p f → Cp f.pkt) ∧
      ∀ p e, SideFacing sys side n p → portEntry p = some e →
        D e = true ∨ (FwSecondOK sys side Cl role n soft Cp D Z p e ∧ ∀ e2 ∈ nextEntries e, D e2 = true ∨ Z e2)
  | .frozen soft _ => sys.handler n = nodeRx soft
  | .interiorI soft J => sys.handler n = nodeRx soft ∧
      ∀ s p f, J s → SideFacing sys side n p → Cl n p f →
        SafeAct sys side (FromSideC sys side Cl) (invC sys side role) n (nodeRx soft s p f)

omit [DecidableEq N] in
theorem safe_of_interior_emits (sys : Sys N Nat Frame (Node W)) (side : N → Bool) (Cl : N → Nat → Frame → Prop)
    (I : N → Node W → Prop) (n : N) (hn : side n = true) (hI : ∀ s, I n s)
    (hw : ∀ q m r, sys.wire n q = some (m, r) → side m = true) :
    ∀ a : Script W, EmitsCl sys Cl n a → SafeAct sys side (FromSideC sys side Cl) I n a := by
  intro a
  induction a with
  | done s => intro _; exact SafeAct.done (hI s)
  | send s q g k ih =>
    intro h
    cases h with
    | send hq hk =>
      exact SafeAct.send (hI s) (fun m r hwq => ⟨hw q m r hwq, ⟨n, q, hn, hwq⟩, hq m r hwq⟩) (fun s' _ => ih s' (hk s'))

omit [DecidableEq N] in
theorem safe_of_guard_emits (sys : Sys N Nat Frame (Node W)) (side : N → Bool) (Cl : N → Nat → Frame → Prop)
    (I : N → Node W → Prop) (n : N) (hn : side n = true)
    (hw : ∀ s q m r, I n s → portEnabled s q = true → sys.wire n q = some (m, r) → side m = true) :
    ∀ a : Script W, Pres (I n) a → EmitsCl sys Cl n (guardSends portEnabled a) →
      SafeAct sys side (FromSideC sys side Cl) I n (guardSends portEnabled a) := by
  intro a
  induction a with
  | done s => intro h _; cases h with | done hp => exact SafeAct.done hp
  | send s q g k ih =>
    intro hp hE
    cases hp with
    | send hp hk =>
      unfold EmitsCl at hE
      simp only [guardSends] at hE ⊢
      split
      · rename_i hen
        simp only [hen, if_true] at hE
        cases hE with
        | send hq hE' =>
          exact SafeAct.send hp (fun m r hwq => ⟨hw s q m r hp hen hwq, ⟨n, q, hn, hwq⟩, hq m r hwq⟩)
            (fun s' hs' => ih s' (hk s' hs') (hE' s'))
      · rename_i hen
        simp only [hen, if_false] at hE
        exact ih s (hk s hp) hE

/-- a script that emits nothing is in every class -/
theorem emitsCl_done (sys : Sys N Nat Frame (Node W)) (Cl : N → Nat → Frame → Prop) (n : N) (s : Node W) :
    EmitsCl sys Cl n (.done s) := Emits.done

/-- **Cut theorem with a frame class.**  `Cl` = the frames that circulate on the attacker side.  If every attacker-side
node meets its role's condition — blocking elements need only deny *the class* — the system is a cut for the frames
of the class. -/
theorem C06_cut_class (sys : Sys N Nat Frame (Node W)) (side : N → Bool) (Cl : N → Nat → Frame → Prop)
    (role : N → RoleC W) (hroles : ∀ n, side n = true → RoleOKC sys side Cl role n) :
    IsCut sys side (FromSideC sys side Cl) (invC sys side role) := by
  constructor
  intro n s p f hn hI hK
  have hok := hroles n hn
  unfold RoleOKC at hok
  cases hr : role n with
  | interior =>
    simp only [hr] at hok
    exact safe_of_interior_emits sys side Cl _ n hn (fun s => by simp [invC, hr]) hok.1 _ (hok.2 s p f hK.1 hK.2)
  | ifaceDown soft =>
    simp only [hr] at hok
    obtain ⟨hh, hkeeps, hcl⟩ := hok
    have hinv : ∀ s', invC sys side role n s' ↔ BoundaryDown sys side n s' := by intro s'; simp [invC, hr]
    have hfun : invC sys side role n = BoundaryDown sys side n := by funext s'; exact propext (hinv s')
    have hI' : BoundaryDown sys side n s := (hinv s).mp hI
    have hE := hcl s p f hK.1 hK.2
    rw [hh]
    cases hi : s.ifaces[p]? with
    | none => simp only [nodeRx, hi]; exact SafeAct.done hI
    | some i =>
      cases hg : ifaceRx s.kind s.ifaces i f with
      | up f' =>
        simp only [nodeRx, hi, hg] at hE ⊢
        apply safe_of_guard_emits sys side Cl _ n hn
        · intro s' q m r hs' hen hw
          cases hsm : side m with
          | true => rfl
          | false =>
            have := (hinv s').mp hs' q m r hw hsm
            rw [this] at hen; cases hen
        · rw [hfun]
          exact nodeLayer_pres soft (BoundaryDown sys side n) (boundaryDown_sw sys side n)
            (boundaryDown_acl sys side n) hkeeps s p f' hI'
        · exact hE
      | disabled => simp only [nodeRx, hi, hg]; exact SafeAct.done hI
      | ttlExpired => simp only [nodeRx, hi, hg]; exact SafeAct.done hI
      | notAddressed => simp only [nodeRx, hi, hg]; exact SafeAct.done hI
  | routerOff soft =>
    simp only [hr] at hok
    have hI' : s.kind = .router ∧ s.on = false := by simpa [invC, hr] using hI
    rw [hok, C06_router_off_inert soft s p f hI'.1 hI'.2]
    exact SafeAct.done hI
  | routerDenyC soft Cp ifs =>
    simp only [hr] at hok
    obtain ⟨hh, hcls, hex⟩ := hok
    have hI' : s.kind = .router ∧ DeniesClass Cp (s.acls .router) ∧ s.ifaces = ifs := by simpa [invC, hr] using hI
    rw [hh]
    unfold nodeRx
    split
    · exact SafeAct.done hI
    · rename_i i hi
      split
      · rename_i f' hg
        have hf' := (ifaceRx_up _ _ _ _ _ hg).1
        have hnl : nodeLayer soft s p f' = routerRxWith subjectToAcl soft s p f' := by
          simp [nodeLayer, hI'.1, routerRx]
        rw [hnl]
        simp only [routerRxWith]
        split
        · exact SafeAct.done hI
        · split
          · exact SafeAct.done hI
          · rename_i hsub
            exact hex s p i f f' hI hK.1 hK.2 hi hg hsub
          · rename_i hsub
            have hsub0 : subjectToAcl f = some true := by rw [hf', subjectToAcl_ttl] at hsub; exact hsub
            have hcp : Cp f'.pkt := by rw [hf']; exact hcls p f hK.2 hsub0
            have hd : (isPermitted (s.acls .router) f'.pkt).1 = false := hI'.2.1 f'.pkt hcp
            simp only [hd, Bool.not_false, if_true, guardSends]
            apply SafeAct.done
            simp only [invC, hr]
            refine ⟨hI'.1, ?_, hI'.2.2⟩
            simp only [Node.setAcl, if_true]
            exact deniesClass_stable _ _ _ hI'.2.1
      · exact SafeAct.done hI
  | fwDenyC soft Cp D Z =>
    simp only [hr] at hok
    obtain ⟨hh, hcls, hports⟩ := hok
    have hinv : ∀ s', invC sys side role n s' ↔
        (s'.kind = .firewall ∧ ∀ e, D e = true → DeniesClass Cp (s'.acls (entryAcl e))) := by
      intro s'; simp [invC, hr]
    -- the invariant survives counter bumps and software-state updates
    have hbump : ∀ (s' : Node W) (e : FwEntry) (q : Packet), invC sys side role n s' →
        invC sys side role n (s'.setAcl (entryAcl e) (isPermitted (s'.acls (entryAcl e)) q).2.2) := by
      intro s' e q hs'
      have h' := (hinv s').mp hs'
      refine (hinv _).mpr ⟨h'.1, ?_⟩
      intro e' hD
      by_cases hee : entryAcl e' = entryAcl e
      · simp only [Node.setAcl, hee, if_true]
        exact deniesClass_stable _ _ _ (hee ▸ h'.2 e' hD)
      · simp only [Node.setAcl, hee, if_false]
        exact h'.2 e' hD
    have hsw : ∀ (s' : Node W) (x : W), invC sys side role n s' → invC sys side role n { s' with sw := x } := by
      intro s' x hs'
      exact (hinv _).mpr ((hinv s').mp hs')
    have hI' := (hinv s).mp hI
    rw [hh]
    unfold nodeRx
    split
    · exact SafeAct.done hI
    · split
      · rename_i f' hg
        have hf' := (ifaceRx_up _ _ _ _ _ hg).1
        have hcp : Cp f'.pkt := by rw [hf']; exact hcls p f hK.2
        have hnl : nodeLayer soft s p f' = fwRx soft s p f' := by simp [nodeLayer, hI'.1]
        rw [hnl]
        simp only [fwRx]
        cases hpe : portEntry p with
        | none => exact SafeAct.done hI
        | some e =>
          -- a second entry point: denies the class, or is covered by the hypothesis
          have hfinal : ∀ (ok : FwSecondOK sys side Cl role n soft Cp D Z p e ∧ ∀ e2 ∈ nextEntries e, D e2 = true ∨ Z e2)
              (e2 : FwEntry) (s' : Node W),
              invC sys side role n s' → secondEntry soft e s' f' = some e2 →
              SafeAct sys side (FromSideC sys side Cl) (invC sys side role) n
                (guardSends portEnabled (fwFinal soft e2 s' p f')) := by
            intro ok e2 s' hs' hsec
            cases hD2 : D e2 with
            | true =>
              have hd : (isPermitted (s'.acls (entryAcl e2)) f'.pkt).1 = false := ((hinv s').mp hs').2 e2 hD2 f'.pkt hcp
              simp only [fwFinal, hd, Bool.not_false, if_true, guardSends]
              exact SafeAct.done (hbump s' e2 f'.pkt hs')
            | false =>
              rcases ok.2 e2 (secondEntry_mem soft e s' f' e2 hsec) with h | h
              · rw [hD2] at h; cases h
              · exact ok.1.final s' f' e2 hs' hcp hsec hD2 h
          have hI1 := hbump s e f'.pkt hI
          rcases hports p e hK.1 hpe with hD | ok
          · have hd : (isPermitted (s.acls (entryAcl e)) f'.pkt).1 = false := hI'.2 e hD f'.pkt hcp
            simp only [fwFirst, hd, Bool.not_false, if_true, guardSends]
            exact SafeAct.done hI1
          · simp only [fwFirst]
            cases hv : (isPermitted (s.acls (entryAcl e)) f'.pkt).1 with
            | false => simp only [Bool.not_false, if_true, guardSends]; exact SafeAct.done hI1
            | true =>
              simp only [Bool.not_true, Bool.false_eq_true, if_false]
              have hI2 := hsw _ (soft.learn (s.setAcl (entryAcl e) (isPermitted (s.acls (entryAcl e)) f'.pkt).2.2) p f') hI1
              split
              · exact ok.1.session _ f' hI2 hcp
              · cases e with
                | extIn =>
                  simp only [fwNext]
                  split
                  · rename_i hz; exact hfinal ok .dmzIn _ hI2 (by simp [secondEntry, hz])
                  · rename_i hz; exact hfinal ok .intIn _ hI2 (by simp [secondEntry, hz])
                | intOut =>
                  simp only [fwNext]
                  split
                  · rename_i hz; exact hfinal ok .dmzIn _ hI2 (by simp [secondEntry, hz])
                  · rename_i hz; exact hfinal ok .extOut _ hI2 (by simp [secondEntry, hz])
                | dmzOut =>
                  simp only [fwNext]
                  by_cases hb : (f'.dstMac == bcastMac) = true
                  · simp only [hb, if_true, guardSends]; exact SafeAct.done hI2
                  simp only [hb, Bool.false_eq_true, if_false]
                  rw [guard_bind]
                  refine safe_bind sys side _ _ n _ _ (ok.1.lookup rfl _ f' hI2 hcp) ?_
                  intro s3 hs3
                  cases hq : soft.dmzOutNic s3 f' with
                  | none => simp only [guardSends]; exact SafeAct.done hs3
                  | some q =>
                    simp only
                    by_cases h1 : q = extPort
                    · simp only [h1, if_true]
                      exact hfinal ok .extOut s3 hs3 (by simp [secondEntry, hb, hq, h1])
                    · by_cases h2 : q = intPort
                      · simp only [h2, if_true, extPort, intPort]
                        exact hfinal ok .intIn s3 hs3 (by simp [secondEntry, hb, hq, h2, extPort, intPort])
                      · simp only [h1, h2, if_false, guardSends]
                        exact SafeAct.done hs3
                | extOut => simp only [fwNext, guardSends]; exact SafeAct.done hI2
                | intIn => simp only [fwNext, guardSends]; exact SafeAct.done hI2
                | dmzIn => simp only [fwNext, guardSends]; exact SafeAct.done hI2
      · exact SafeAct.done hI
  | frozen soft s0 =>
    simp only [hr] at hok
    have hI' : s = s0 ∧ ∀ p, SideFacing sys side n p → portEnabled s0 p = false := by simpa [invC, hr] using hI
    rw [hok, C06_iface_disabled_inert_rx soft s p f (by rw [hI'.1]; exact hI'.2 p hK.1)]
    exact SafeAct.done hI
  | interiorI soft J =>
    simp only [hr] at hok
    rw [hok.1]
    exact hok.2 s p f (by simpa [invC, hr] using hI) hK.1 hK.2

/-- **C06 for a frame class.**  In a class cut, any sequence of admissible operations on the attacker side (their
emissions in the class) leaves every protected node's state exactly as it was. -/
theorem C06_blocked_unchanged_class (sys : Sys N Nat Frame (Node W)) (side : N → Bool) (Cl : N → Nat → Frame → Prop)
    (role : N → RoleC W) (hroles : ∀ n, side n = true → RoleOKC sys side Cl role n)
    (ops : List (Nat × Op N Nat Frame (Node W)))
    (hops : ∀ o ∈ ops, SafeOp sys side (FromSideC sys side Cl) (invC sys side role) o.2)
    (σ : St N (Node W)) (hσ : ∀ n, side n = true → invC sys side role n (σ n)) :
    ∀ t, side t = false → runOps sys σ ops t = σ t :=
  (runOps_good sys side _ _ (C06_cut_class sys side Cl role hroles) ops σ hops hσ).2

/-- an operation on an interior node is admissible when what it emits is in the class — for a *source* class that is
`C06_host_emits_own_src` (below: `C06_localOp_src_class`) -/
theorem C06_safeOp_interior_class (sys : Sys N Nat Frame (Node W)) (side : N → Bool) (Cl : N → Nat → Frame → Prop)
    (role : N → RoleC W) (o : Op N Nat Frame (Node W)) (hn : side o.node = true) (hr : role o.node = .interior)
    (hw : ∀ q m r, sys.wire o.node q = some (m, r) → side m = true)
    (hcl : ∀ s, EmitsCl sys Cl o.node (o.script s)) :
    SafeOp sys side (FromSideC sys side Cl) (invC sys side role) o :=
  ⟨hn, fun s _ => safe_of_interior_emits sys side Cl _ o.node hn (fun s => by simp [invC, hr]) hw _ (hcl s)⟩

end cutC

/-! ## 4. a denying router and genuine ARP packets (the frames its list never sees) -/

theorem firstEnabledIn_some (ip : Ip) : ∀ (ifs : List Iface) (k q : Nat), firstEnabledIn ifs ip k = some q →
    k ≤ q ∧ ∃ j, ifs[q - k]? = some j ∧ j.inNet ip = true ∧ j.enabled = true := by
  intro ifs
  induction ifs with
  | nil => intro k q h; simp [firstEnabledIn] at h
  | cons i rest ih =>
    intro k q h
    simp only [firstEnabledIn] at h
    split at h
    · rename_i hc
      injection h with h
      subst h
      simp only [Bool.and_eq_true] at hc
      exact ⟨Nat.le_refl _, i, by simp, hc.1, hc.2⟩
    · obtain ⟨hle, j, hj, h1, h2⟩ := ih (k + 1) q h
      refine ⟨by omega, j, ?_, h1, h2⟩
      have : q - k = (q - (k + 1)) + 1 := by omega
      rw [this]; simpa using hj

theorem firstEnabledIn_ne_none (ip : Ip) : ∀ (ifs : List Iface) (k p : Nat) (i : Iface), ifs[p]? = some i →
    i.inNet ip = true → i.enabled = true → firstEnabledIn ifs ip k ≠ none := by
  intro ifs
  induction ifs with
  | nil => intro k p i h; simp at h
  | cons x rest ih =>
    intro k p i h h1 h2
    simp only [firstEnabledIn]
    split
    · simp
    · cases p with
      | zero =>
        simp only [List.getElem?_cons_zero, Option.some.injEq] at h
        subst h
        rename_i hc
        simp [h1, h2] at hc
      | succ p => exact ih (k + 1) p i (by simpa using h) h1 h2

section arp
variable {N : Type} [DecidableEq N]

/-- **A denying router's ARP handling stays on the attacker side** (was a rig-validated hypothesis).
For the router software as modelled (`routerArpSoft`: session manager → ARP service → `_process_arp_request /
_process_arp_reply`, reply sent through `resolve_outbound_network_interface(sender address)`; `process_frame` drops
layer-2 broadcasts and frames for an own address), every genuine ARP packet that arrives on an attacker-facing
interface is handled without anything leaving through a boundary interface, provided
* ARP requests on the attacker side are broadcasts whose sender address lies in the network of the interface they
  arrive on, and ARP replies addressed to an interface's MAC are addressed to its IP (what `send_arp_request` /
  `generate_reply` build — `C06_arp_request_local`, `C06_localOp_stamps_arp_sender`),
* no boundary interface's network meets the network of an attacker-facing interface (`netsDisjoint`, checked by the
  certificate).
No hypothesis on the opaque parts of the software (`RouterArp`) at all. -/
theorem C06_router_arp_safe (sys : Sys N Nat Frame (Node W)) (side : N → Bool) (Cl : N → Nat → Frame → Prop)
    (role : N → RoleC W) (n : N) (r : RouterArp W) (base : Soft W) (Cp : Packet → Prop) (ifs : List Iface)
    (hr : role n = .routerDenyC (routerArpSoft r base) Cp ifs)
    (harp : ∀ p i f, SideFacing sys side n p → Cl n p f → subjectToAcl f = some false → ifs[p]? = some i →
      (f.arpReq = true → f.dstMac = bcastMac ∧ i.inNet f.arpSnd = true) ∧
      (f.arpReq = false → f.dstMac = i.mac → f.pkt.dstIp = i.ip))
    (hdisj : ∀ p i q j ip, SideFacing sys side n p → ifs[p]? = some i → ifs[q]? = some j → i.inNet ip = true →
      j.inNet ip = true → ∀ m r', sys.wire n q = some (m, r') → side m = true)
    (hreply : ∀ p f x q o i m r', SideFacing sys side n p → Cl n p f → subjectToAcl f = some false → f.arpReq = true →
      sys.wire n q = some (m, r') → Cl m r' (arpReplyFrame o i { f with ttl := x }))
    (hn : side n = true) :
    ∀ s p i f f', invC sys side role n s → SideFacing sys side n p → Cl n p f → s.ifaces[p]? = some i →
      ifaceRx s.kind s.ifaces i f = .up f' → subjectToAcl f' = some false →
      SafeAct sys side (FromSideC sys side Cl) (invC sys side role) n
        (guardSends portEnabled (permitted (routerArpSoft r base) s p f')) := by
  intro s p i f f' hI hsf hcl hi hg hsub
  have hinv : ∀ s', invC sys side role n s' ↔
      (s'.kind = .router ∧ DeniesClass Cp (s'.acls .router) ∧ s'.ifaces = ifs) := by intro s'; simp [invC, hr]
  have hI' := (hinv s).mp hI
  have hsw : ∀ (s' : Node W) (x : W), invC sys side role n s' → invC sys side role n { s' with sw := x } :=
    fun s' x hs' => (hinv _).mpr ((hinv s').mp hs')
  obtain ⟨hf', hen⟩ := ifaceRx_up _ _ _ _ _ hg
  have hsub0 : subjectToAcl f = some false := by rw [hf', subjectToAcl_ttl] at hsub; exact hsub
  have hex : isArpExempt f' = true := by simp [isArpExempt, hsub]
  have hi' : ifs[p]? = some i := by rw [← hI'.2.2]; exact hi
  obtain ⟨hreq, hrep⟩ := harp p i f hsf hcl hsub0 hi'
  have hmac : f.dstMac = i.mac ∨ f.dstMac = bcastMac := by
    rw [hI'.1] at hg; exact ifaceRx_router_mac _ _ _ _ hg
  have e1 : f'.arpReq = f.arpReq := by rw [hf']
  have e2 : f'.arpSnd = f.arpSnd := by rw [hf']
  have e3 : f'.dstMac = f.dstMac := by rw [hf']
  have e4 : f'.pkt = f.pkt := by rw [hf']
  simp only [permitted]
  generalize hs1 : ({ s with sw := (routerArpSoft r base).learn s p f' } : Node W) = s1
  have hI1 : invC sys side role n s1 := by rw [← hs1]; exact hsw s _ hI
  have hifs1 : s1.ifaces = ifs := ((hinv s1).mp hI1).2.2
  split
  · -- session manager → ARP service
    simp only [routerArpSoft, hex, if_true, arpSession]
    generalize hs2 : ({ s1 with sw := r.sessRx s1 p f' } : Node W) = s2
    have hI2 : invC sys side role n s2 := by rw [← hs2]; exact hsw s1 _ hI1
    have hifs2 : s2.ifaces = ifs := ((hinv s2).mp hI2).2.2
    split
    · simp only [guardSends]; exact SafeAct.done hI2
    · split
      · simp only [guardSends]; exact SafeAct.done hI2
      · rename_i hq
        split
        · simp only [guardSends]; exact SafeAct.done hI2
        · rename_i i2 hi2
          split
          · simp only [guardSends]; exact SafeAct.done hI2
          · split
            · simp only [guardSends]; exact SafeAct.done hI2
            · rename_i q hres
              split
              · simp only [guardSends]; exact SafeAct.done hI2
              · rename_i o ho
                have hk1 := (hinv s1).mp hI1
                have hI3 : invC sys side role n { s1 with sw := r.sent s2 q } := (hinv _).mpr ⟨hk1.1, hk1.2.1, hk1.2.2⟩
                simp only [guardSends]
                split
                · refine SafeAct.send hI3 ?_ (fun s' hs' => SafeAct.done hs')
                  intro m r' hw
                  -- the reply leaves through an interface whose network contains the requester's address
                  have hreq' : f.arpReq = true := by
                    rw [← e1]; cases h : f'.arpReq <;> simp_all
                  have hin := (hreq hreq').2
                  have hfe : firstEnabledIn s2.ifaces f'.arpSnd 0 = some q := by
                    unfold routerResolveOut at hres
                    cases hfe : firstEnabledIn s2.ifaces f'.arpSnd 0 with
                    | some q' => simp only [hfe, Option.some.injEq] at hres; rw [hres]
                    | none =>
                      exact absurd hfe (firstEnabledIn_ne_none _ _ 0 p i (by rw [hifs2]; exact hi') (by rw [e2]; exact hin) hen)
                  obtain ⟨_, j, hj, hjin, _⟩ := firstEnabledIn_some _ _ 0 q hfe
                  simp only [Nat.sub_zero] at hj
                  rw [hifs2] at hj
                  rw [e2] at hjin
                  exact ⟨hdisj p i q j f.arpSnd hsf hi' hj hin hjin m r' hw, ⟨n, q, hn, hw⟩,
                    by rw [hf']; exact hreply p f _ q o i2 m r' hsf hcl hsub0 hreq' hw⟩
                · exact SafeAct.done hI3
  · -- `process_frame`: broadcast or addressed to the router itself → dropped
    rename_i hts
    simp only [routerArpSoft, hex, if_true]
    split
    · simp only [guardSends]; exact SafeAct.done hI1
    · rename_i hb
      split
      · simp only [guardSends]; exact SafeAct.done hI1
      · rename_i hown
        exfalso
        have hnb : f.dstMac ≠ bcastMac := by rw [← e3]; simpa using hb
        have hm : f.dstMac = i.mac := by rcases hmac with h | h; exact h; exact absurd h hnb
        cases hq : f.arpReq with
        | true => exact hnb (hreq hq).1
        | false =>
          have hip := hrep hq hm
          apply hown
          rw [hifs1, List.any_eq_true]
          exact ⟨i, List.mem_of_getElem? hi', by rw [e4, hip]; simp⟩

end arp

/-! ## 5. what hosts emit: own source, own ARP sender, ARP targets -/

/-- the session manager stamps the outbound interface's address also as the ARP sender of a request it frames -/
def ownArp (s : Node W) (q : Nat) (g : Frame) : Frame :=
  match s.ifaces[q]? with
  | some i => if g.arp && g.arpReq then { ownSrc s q g with arpSnd := i.ip } else ownSrc s q g
  | none => g

/-- **`host_emits_own_src`, ARP half (1)**: every ARP request a node's software puts on a wire carries the outbound
interface's own address as sender, so it lies in that interface's network. -/
theorem C06_localOp_stamps_arp_sender (a : Script W) :
    Emits (fun s q g => ∀ i, s.ifaces[q]? = some i → g.arp = true → g.arpReq = true → g.arpSnd = i.ip ∧ i.inNet g.arpSnd = true)
      (guardSends portEnabled (stampSends ownArp a)) := by
  induction a with
  | done s => exact Emits.done
  | send s q g k ih =>
    simp only [stampSends, guardSends]
    split
    · refine Emits.send ?_ (fun s' => ih s')
      intro i hi ha hq
      have ha' : g.arp = true := by
        simp only [ownArp, hi] at ha; split at ha <;> simpa [ownSrc, hi] using ha
      have hq' : g.arpReq = true := by
        simp only [ownArp, hi] at hq; split at hq <;> simpa [ownSrc, hi] using hq
      simp [ownArp, hi, ha', hq', Iface.inNet]
    · exact ih s

/-- **`host_emits_own_src`, ARP half (2)**: the address `ARP.send_arp_request` really asks for is in the network of
one of the node's interfaces, or is the configured default gateway; for a cached address nothing is sent. -/
theorem C06_arp_request_local (ifaces : List Iface) (gw : Option Ip) (cached : Bool) (t t' : Ip)
    (h : arpRequestTarget ifaces gw cached t = some t') :
    cached = false ∧ ((∃ i ∈ ifaces, i.inNet t' = true) ∨ gw = some t') := by
  unfold arpRequestTarget at h
  cases cached with
  | true => simp at h
  | false =>
    refine ⟨rfl, ?_⟩
    simp only [Bool.false_eq_true, if_false] at h
    split at h
    · rename_i hany
      injection h with h
      subst h
      obtain ⟨i, hi, hin⟩ := List.any_eq_true.mp hany
      exact Or.inl ⟨i, hi, hin⟩
    · exact Or.inr h

/-- the request frame built for outbound interface `o` is a genuine (ACL-exempt) ARP packet, a broadcast, with `o`'s
own address as source and sender; when the target is in `o`'s network so is the whole exchange -/
theorem C06_arp_request_frame (o : Iface) (t : Ip) :
    subjectToAcl (arpRequestFrame o t) = some false ∧ (arpRequestFrame o t).dstMac = bcastMac ∧
    (arpRequestFrame o t).pkt.srcIp = o.ip ∧ (arpRequestFrame o t).arpSnd = o.ip ∧ o.inNet (arpRequestFrame o t).arpSnd = true := by
  refine ⟨by simp [subjectToAcl, arpRequestFrame], rfl, rfl, rfl, ?_⟩
  simp [arpRequestFrame, Iface.inNet]

/-- source classes are closed under what hosts emit: when every interface address of the node (at the moment of
sending) satisfies the source part of the class, so does the source of the frame that leaves -/
theorem C06_localOp_src_class (srcOk : Ip → Prop) (a : Script W) :
    Emits (fun s _ g => (∀ i ∈ s.ifaces, srcOk i.ip) → srcOk g.pkt.srcIp) (localOp a) := by
  unfold localOp
  induction a with
  | done s => exact Emits.done
  | send s q g k ih =>
    simp only [stampSends, guardSends]
    split
    · rename_i hen
      refine Emits.send ?_ (fun s' => ih s')
      intro hp
      unfold portEnabled at hen
      cases hi : s.ifaces[q]? with
      | none => simp [hi] at hen
      | some i => simp only [ownSrc, hi]; exact hp i (List.mem_of_getElem? hi)
    · exact ih s

/-! ## 6. the class-aware certificate is sound -/

theorem netsDisjoint_sound (i j : Iface) (ip : Ip) (h : netsDisjoint i j = true) (h1 : i.inNet ip = true)
    (h2 : j.inNet ip = true) : False := by
  simp only [netsDisjoint, bne_iff_ne, ne_eq] at h
  apply h
  simp only [Iface.inNet, beq_iff_eq] at h1 h2
  apply BitVec.eq_of_getLsbD_eq
  intro k _
  have a1 := congrArg (fun x => x.getLsbD k) h1
  have a2 := congrArg (fun x => x.getLsbD k) h2
  simp only [BitVec.getLsbD_and, BitVec.getLsbD_xor, BitVec.getLsbD_zero] at a1 a2 ⊢
  revert a1 a2
  cases ip.getLsbD k <;> cases i.ip.getLsbD k <;> cases j.ip.getLsbD k <;> cases i.mask.getLsbD k <;>
    cases j.mask.getLsbD k <;> simp

section certifyC
variable (t : TopoC) (softs : Nat → Soft W) (hInt : Nat → Node W → Nat → Frame → Script W)

def topoSysC : Sys Nat Nat Frame (Node W) :=
  { handler := fun n => match t.role n with
      | .interior => hInt n
      | _ => nodeRx (softs n),
    wire := t.wire }

/-- the packets of the topology's class -/
def clsP (p : Packet) : Prop := clsHolds t.cls p = true

/-- the frames that circulate on the attacker side of a certified topology: packets of the class, and — when the
topology says so — genuine ARP packets -/
def ClT (_ : Nat) (_ : Nat) (f : Frame) : Prop :=
  clsHolds t.cls f.pkt = true ∨ (t.arpExempt = true ∧ subjectToAcl f = some false)

def topoRoleC (σ : St Nat (Node W)) (n : Nat) : RoleC W :=
  match t.role n with
  | .interior => .interior
  | .ifaceDown => .ifaceDown (softs n)
  | .routerOff => .routerOff (softs n)
  | .routerDenyC => .routerDenyC (softs n) (clsP t) (σ n).ifaces
  | .fwDenyC => .fwDenyC (softs n) (clsP t) (fun e => denyClassCheck t.cls ((σ n).acls (entryAcl e)))
      (fun e2 => t.finalToProtected n e2 = false)
  | .frozen => .frozen (softs n) (σ n)

theorem wire_memC (n q m r : Nat) (h : t.wire n q = some (m, r)) : ((n, q), (m, r)) ∈ t.wires := by
  unfold TopoC.wire at h
  cases hf : t.wires.find? (fun w => w.1.1 == n && w.1.2 == q) with
  | none => simp [hf] at h
  | some w =>
    simp only [hf, Option.map_some, Option.some.injEq] at h
    have hp := List.find?_some hf
    have hmem := List.mem_of_find?_eq_some hf
    simp only [Bool.and_eq_true, beq_iff_eq] at hp
    obtain ⟨⟨a, b⟩, c⟩ := w
    simp only at hp h
    obtain ⟨rfl, rfl⟩ := hp
    subst h
    exact hmem

theorem certifyC_node (σ : St Nat (Node W)) (hc : certifyC t σ = true) (n : Nat) (hn : t.side n = true) :
    certifyNodeC t n (σ n) = true := by
  have hlt : n < t.nodes.length := by
    unfold TopoC.side at hn
    cases hx : t.nodes[n]? with
    | none => simp [hx] at hn
    | some x => exact (List.getElem?_eq_some_iff.mp hx).1
  unfold certifyC at hc
  have := List.all_eq_true.mp hc n (List.mem_range.mpr hlt)
  simpa [hn] using this

/-- **Soundness of the class-aware certificate**: if `certifyC` accepts, every attacker-side node satisfies its role's
invariant; interior nodes have no wire leaving the attacker side; a class-denying router's boundary networks are
disjoint from its attacker-facing ones; at a firewall every attacker-facing port either has a class-denying first list
or every second entry point it can select has a class-denying list or guards a zone port with no wire to the protected
side — and no ARP exemption is assumed. -/
theorem C06_certifyC_sound (σ : St Nat (Node W)) (hc : certifyC t σ = true) (n : Nat) (hn : t.side n = true) :
    invC (topoSysC t softs hInt) t.side (topoRoleC t softs σ) n (σ n) ∧
    (t.role n = .interior → ∀ q m r, t.wire n q = some (m, r) → t.side m = true) ∧
    (t.role n = .routerDenyC → ∀ p i q j ip, SideFacing (topoSysC t softs hInt) t.side n p → (σ n).ifaces[p]? = some i →
      (σ n).ifaces[q]? = some j → i.inNet ip = true → j.inNet ip = true → ∀ m r', t.wire n q = some (m, r') → t.side m = true) ∧
    (t.role n = .fwDenyC → t.arpExempt = false ∧
      ∀ p e, SideFacing (topoSysC t softs hInt) t.side n p → portEntry p = some e →
        denyClassCheck t.cls ((σ n).acls (entryAcl e)) = true ∨
        ∀ e2 ∈ nextEntries e, denyClassCheck t.cls ((σ n).acls (entryAcl e2)) = true ∨ t.finalToProtected n e2 = false) := by
  have hcn := certifyC_node t σ hc n hn
  unfold certifyNodeC at hcn
  cases hr : t.role n with
  | interior =>
    simp only [hr] at hcn
    refine ⟨by simp [invC, topoRoleC, hr], fun _ q m r hw => ?_, (fun h => nomatch h), (fun h => nomatch h)⟩
    have := List.all_eq_true.mp hcn _ (wire_memC t n q m r hw)
    simpa using this
  | ifaceDown =>
    simp only [hr] at hcn
    refine ⟨?_, (fun h => nomatch h), (fun h => nomatch h), (fun h => nomatch h)⟩
    simp only [invC, topoRoleC, hr]
    intro q m r hw hm
    have := List.all_eq_true.mp hcn _ (wire_memC t n q m r hw)
    simpa [hm] using this
  | routerOff =>
    simp only [hr] at hcn
    refine ⟨?_, (fun h => nomatch h), (fun h => nomatch h), (fun h => nomatch h)⟩
    simp only [invC, topoRoleC, hr]
    simpa using hcn
  | routerDenyC =>
    simp only [hr, Bool.and_eq_true, beq_iff_eq] at hcn
    refine ⟨?_, (fun h => nomatch h), fun _ => ?_, (fun h => nomatch h)⟩
    · simp only [invC, topoRoleC, hr]
      exact ⟨hcn.1.1, C06_denyClassCheck_sound _ _ hcn.1.2, trivial⟩
    · intro p i q j ip hsf hi hj h1 h2 m r' hw
      obtain ⟨n', q', hs', hw'⟩ := hsf
      cases hsm : t.side m with
      | true => rfl
      | false =>
        exfalso
        have ha := List.all_eq_true.mp hcn.2 _ (wire_memC t n' q' n p hw')
        simp only [bne_self_eq_false, hs', Bool.not_true, Bool.false_or] at ha
        have hb := List.all_eq_true.mp ha _ (wire_memC t n q m r' hw)
        simp only [bne_self_eq_false, hsm, Bool.false_or, hi, hj] at hb
        exact netsDisjoint_sound i j ip hb h1 h2
  | fwDenyC =>
    simp only [hr, Bool.and_eq_true, beq_iff_eq, Bool.not_eq_true'] at hcn
    refine ⟨?_, (fun h => nomatch h), (fun h => nomatch h), fun _ => ⟨hcn.1.2, ?_⟩⟩
    · simp only [invC, topoRoleC, hr]
      exact ⟨hcn.1.1, fun e he => C06_denyClassCheck_sound _ _ he⟩
    · intro p e hsf hpe
      obtain ⟨n', q', hs', hw'⟩ := hsf
      have ha := List.all_eq_true.mp hcn.2 _ (wire_memC t n' q' n p hw')
      simp only [bne_self_eq_false, hs', Bool.not_true, Bool.false_or, hpe, fwDenySet, Bool.or_eq_true,
        List.all_eq_true, Bool.not_eq_true'] at ha
      exact ha
  | frozen =>
    simp only [hr] at hcn
    refine ⟨?_, (fun h => nomatch h), (fun h => nomatch h), (fun h => nomatch h)⟩
    simp only [invC, topoRoleC, hr, true_and]
    intro p hsf
    obtain ⟨n', q, hs', hw⟩ := hsf
    have := List.all_eq_true.mp hcn _ (wire_memC t n' q n p hw)
    simpa [hs'] using this

/-- **C06 for a scenario certified for a frame class.**  If `certifyC` accepts, then — for all software of the blocking
elements that keeps boundary interfaces down (`SoftKeeps`, see `C06_gen_enable_sites`), whose handling of a router's
ACL-exempt ARP packets stays on the attacker side (proved for `routerArpSoft`: `C06_router_arp_safe`), and, at a
firewall port whose first list lets the class pass, whose session replies, DMZ look-ups and forwarding *into zones that
have no wire to the protected side* stay on the attacker side — and for all attacker-side nodes that emit only frames
of the class, any sequence of operations on interior nodes leaves every protected node (and every frozen one) exactly
as in `σ`. -/
theorem C06_certifiedC_unchanged (σ : St Nat (Node W)) (hc : certifyC t σ = true)
    (hclosed : ∀ n, t.side n = true → (t.role n = .interior ∨ t.role n = .ifaceDown) → ∀ s p f,
      SideFacing (topoSysC t softs hInt) t.side n p → ClT t n p f →
      EmitsCl (topoSysC t softs hInt) (ClT t) n ((topoSysC t softs hInt).handler n s p f))
    (hkeep : ∀ n, t.side n = true → t.role n = .ifaceDown →
      SoftKeeps (softs n) (BoundaryDown (topoSysC t softs hInt) t.side n))
    (hexempt : ∀ n, t.side n = true → t.role n = .routerDenyC → ∀ s p i f f',
      invC (topoSysC t softs hInt) t.side (topoRoleC t softs σ) n s → SideFacing (topoSysC t softs hInt) t.side n p →
      ClT t n p f → s.ifaces[p]? = some i → ifaceRx s.kind s.ifaces i f = .up f' → subjectToAcl f' = some false →
      SafeAct (topoSysC t softs hInt) t.side (FromSideC (topoSysC t softs hInt) t.side (ClT t))
        (invC (topoSysC t softs hInt) t.side (topoRoleC t softs σ)) n (guardSends portEnabled (permitted (softs n) s p f')))
    (hfw : ∀ n, t.side n = true → t.role n = .fwDenyC → ∀ p e, SideFacing (topoSysC t softs hInt) t.side n p →
      portEntry p = some e → denyClassCheck t.cls ((σ n).acls (entryAcl e)) = false →
      FwSecondOK (topoSysC t softs hInt) t.side (ClT t) (topoRoleC t softs σ) n (softs n) (clsP t)
        (fun e => denyClassCheck t.cls ((σ n).acls (entryAcl e))) (fun e2 => t.finalToProtected n e2 = false) p e)
    (ops : List (Nat × Op Nat Nat Frame (Node W)))
    (hops : ∀ o ∈ ops, t.side o.2.node = true ∧ t.role o.2.node = .interior ∧
      ∀ s, EmitsCl (topoSysC t softs hInt) (ClT t) o.2.node (o.2.script s)) :
    ∀ m, (t.side m = false ∨ t.role m = .frozen) → runOps (topoSysC t softs hInt) σ ops m = σ m := by
  have hroles : ∀ n, t.side n = true → RoleOKC (topoSysC t softs hInt) t.side (ClT t) (topoRoleC t softs σ) n := by
    intro n hn
    have hs := C06_certifyC_sound t softs hInt σ hc n hn
    unfold RoleOKC
    cases hr : t.role n with
    | interior =>
      simp only [topoRoleC, hr]
      exact ⟨hs.2.1 hr, hclosed n hn (Or.inl hr)⟩
    | ifaceDown =>
      simp only [topoRoleC, hr]
      refine ⟨by simp [topoSysC, hr], hkeep n hn hr, ?_⟩
      intro s p f hsf hcl
      have := hclosed n hn (Or.inr hr) s p f hsf hcl
      simpa [topoSysC, hr] using this
    | routerOff => simp only [topoRoleC, hr]; simp [topoSysC, hr]
    | routerDenyC =>
      simp only [topoRoleC, hr]
      refine ⟨by simp [topoSysC, hr], ?_, hexempt n hn hr⟩
      intro p f hcl hsub
      rcases hcl with h | ⟨_, h⟩
      · exact h
      · rw [hsub] at h; cases h
    | fwDenyC =>
      simp only [topoRoleC, hr]
      obtain ⟨harp, hports⟩ := hs.2.2.2 hr
      refine ⟨by simp [topoSysC, hr], ?_, ?_⟩
      · intro p f hcl
        rcases hcl with h | ⟨h, _⟩
        · exact h
        · rw [harp] at h; cases h
      · intro p e hsf hpe
        cases hD : denyClassCheck t.cls ((σ n).acls (entryAcl e)) with
        | true => exact Or.inl rfl
        | false =>
          right
          refine ⟨hfw n hn hr p e hsf hpe hD, ?_⟩
          rcases hports p e hsf hpe with h | h
          · rw [hD] at h; cases h
          · exact h
    | frozen => simp only [topoRoleC, hr]; simp [topoSysC, hr]
  have hσ : ∀ n, t.side n = true → invC (topoSysC t softs hInt) t.side (topoRoleC t softs σ) n (σ n) :=
    fun n hn => (C06_certifyC_sound t softs hInt σ hc n hn).1
  have hops' : ∀ o ∈ ops, SafeOp (topoSysC t softs hInt) t.side (FromSideC (topoSysC t softs hInt) t.side (ClT t))
      (invC (topoSysC t softs hInt) t.side (topoRoleC t softs σ)) o.2 := by
    intro o ho
    obtain ⟨h1, h2, h3⟩ := hops o ho
    exact C06_safeOp_interior_class _ _ _ _ o.2 h1 (by simp [topoRoleC, h2])
      ((C06_certifyC_sound t softs hInt σ hc o.2.node h1).2.1 h2) h3
  intro m hm
  cases hsm : t.side m with
  | false => exact C06_blocked_unchanged_class _ _ _ _ hroles ops hops' σ hσ m hsm
  | true =>
    rcases hm with hm | hm
    · rw [hsm] at hm; cases hm
    · have h := (runOps_good _ t.side _ _ (C06_cut_class _ t.side (ClT t) _ hroles) ops σ hops' hσ).1 m hsm
      have h0 := hσ m hsm
      simp only [invC, topoRoleC, hm] at h h0
      rw [h.1]

end certifyC

/-- the class-aware certificate generalises the any-any one: a list that passes `denyAllCheck` passes the class scan
for the pattern that describes every packet -/
theorem C06_denyAll_is_class_any (a : Acl) (h : denyAllCheck a = true) : denyClassCheck [anyPattern] a = true := by
  unfold denyAllCheck at h
  simp only [denyClassCheck, List.all_cons, List.all_nil, Bool.and_true]
  have key : ∀ rules : List (Option Rule),
      (match firstSome rules with | some r => anyAnyDeny r | none => a.implicit == .deny) = true →
      denyScan anyPattern rules a.implicit = true := by
    intro rules
    induction rules with
    | nil => intro h; simpa [firstSome, denyScan] using h
    | cons x rest ih =>
      cases x with
      | none => intro h; simpa [denyScan] using ih (by simpa [firstSome] using h)
      | some r =>
        intro h
        simp only [firstSome, anyAnyDeny, Bool.and_eq_true, beq_iff_eq, Option.isNone_iff_eq_none] at h
        obtain ⟨⟨⟨⟨⟨h1, h2⟩, h3⟩, h4⟩, h5⟩, h6⟩ := h
        simp [denyScan, h1, covers, coversOpt, h2, h3, h4, h5, h6]
  exact key a.rules h


/-! ## 7. `SoftKeeps` for the modelled software, and the ties of this file to the source -/

/-- **The modelled router software never re-enables an interface**: `routerArpSoft` writes only states that differ from
the one it was given in the opaque software part, so every predicate that does not read `sw` (e.g. "the boundary
interfaces are disabled") is kept whenever the base software keeps it. -/
theorem C06_routerArpSoft_keeps (r : RouterArp W) (base : Soft W) (P : Node W → Prop)
    (hsw : ∀ s x, P s → P { s with sw := x }) (hb : SoftKeeps base P) : SoftKeeps (routerArpSoft r base) P := by
  refine ⟨?_, ?_, hb.dmzLookup, hb.switchFwd⟩
  · intro s p f hs
    simp only [routerArpSoft]
    split
    · simp only [arpSession]
      have h1 := hsw s (r.sessRx s p f) hs
      split
      · exact Pres.done h1
      · split
        · exact Pres.done h1
        · split
          · exact Pres.done h1
          · split
            · exact Pres.done h1
            · split
              · exact Pres.done h1
              · split
                · exact Pres.done h1
                · exact Pres.send (hsw s _ hs) (fun s' hs' => Pres.done hs')
    · exact hb.session s p f hs
  · intro s p f hs
    simp only [routerArpSoft]
    split
    · split
      · exact Pres.done hs
      · split
        · exact Pres.done hs
        · exact hb.process s p f hs
    · exact hb.process s p f hs

/-- **No software re-enables an interface while processing frames** (the `SoftKeeps` hypothesis, tied to the source):
the regenerated list of every `enable()` / `enable_port()` / `.enabled = True` site is the known one, and none of them
sits in a function reachable from a `receive_frame` (name-based call graph over simulator/, an over-approximation)
without passing the request dispatcher.  The dispatcher IS reachable (Terminal / C2 command execution): an attacker
who can log into the blocking element and issue requests is the application-level relay DESIGN excludes. -/
theorem C06_gen_enable_sites :
    Gen.FilterSoft.enableSitesOnFramePath = [] ∧ Gen.FilterSoft.requestDispatchOnFramePath = true ∧
    Gen.FilterSoft.enableSites = knownEnableSites := by decide

/-- `ARP.send_arp_request` has the shape `arpRequestTarget` / `arpRequestFrame` model: cached → nothing; an address in no
interface network is replaced by the default gateway (or nothing is sent); network and broadcast addresses are refused;
the packet's sender is the outbound interface. -/
theorem C06_gen_send_arp_request : Gen.FilterSoft.sendArpRequest = sendArpRequestOrder := by decide

/-- `RouterARP._process_arp_request`, `ARP.send_arp_reply`, `RouterSessionManager.resolve_outbound_network_interface` and
the first two guards of `Router.process_frame` have the shape `routerArpSoft` models. -/
theorem C06_gen_router_arp : Gen.FilterSoft.routerArp = routerArpOrder := by decide


/-! ## 8. non-vacuity -/

section examples

def exSrcRange : Rule := { anyPattern with srcIp := some 0x0A000100#32, srcWc := some 0x000000FF#32 }
def exPermitAny : Rule := { anyPattern with action := .permit }

/-- a 24-slot list: source-range DENY at position 3, PERMIT any-any at position 10 (the shape R-net builds) -/
def exClassAcl : Acl :=
  { rules := List.replicate 3 none ++ [some exSrcRange] ++ List.replicate 6 none ++ [some exPermitAny] ++ List.replicate 13 none,
    implicit := .deny }

def exPktFromA : Packet := { proto := .tcp, srcIp := 0x0A00010A#32, dstIp := 0x0A000214#32, ports := some (5432, 5432) }
def exPktFromB : Packet := { proto := .tcp, srcIp := 0x0A000214#32, dstIp := 0x0A00010A#32, ports := some (5432, 5432) }

/-- the scan accepts the list for the source-range class, a packet of A is in the class and is denied, a packet from B
is not in the class and is permitted (so the list is NOT a deny-everything list: the old certificate rejects it) -/
example : denyClassCheck [exSrcRange] exClassAcl = true ∧ clsHolds [exSrcRange] exPktFromA = true ∧
    (isPermitted exClassAcl exPktFromA).1 = false ∧ clsHolds [exSrcRange] exPktFromB = false ∧
    (isPermitted exClassAcl exPktFromB).1 = true ∧ denyAllCheck exClassAcl = false := by decide

/-- a PERMIT rule ahead of the DENY rule, or a class wider than the rule, fails the scan -/
example : denyClassCheck [exSrcRange] { exClassAcl with rules := [some exPermitAny] ++ exClassAcl.rules } = false ∧
    denyClassCheck [anyPattern] exClassAcl = false := by decide

def exIfA : Iface := { enabled := true, mac := 11, ip := 0x0A000101#32, mask := 0xFFFFFF00#32 }
def exIfB : Iface := { enabled := true, mac := 12, ip := 0x0A000201#32, mask := 0xFFFFFF00#32 }

def exRouterC : Node Unit :=
  { kind := .router, on := true, ifaces := [exIfA, exIfB], acls := fun _ => exClassAcl, sw := () }
def exHost (ip : Ip) : Node Unit :=
  { kind := .host, on := true, ifaces := [{ enabled := true, mac := 5, ip := ip, mask := 0xFFFFFF00#32 }],
    acls := fun _ => Acl.empty 0 .deny, sw := () }

/-- A (0) — R (1) — B (2), R's list as above -/
def exTopoC : TopoC :=
  { nodes := [(true, .interior), (true, .routerDenyC), (false, .interior)],
    wires := [((0, 0), (1, 0)), ((1, 0), (0, 0)), ((1, 1), (2, 0)), ((2, 0), (1, 1))],
    cls := [exSrcRange], arpExempt := true }
def exStatesC : Nat → Node Unit := fun n => if n = 1 then exRouterC else exHost (if n = 0 then 0x0A00010A#32 else 0x0A000214#32)

/-- the class-aware certificate accepts it; it rejects the same network when the rule is missing, when B's network
overlaps A's (the ARP condition), and when the router is declared interior -/
example : certifyC exTopoC exStatesC = true ∧
    certifyC exTopoC (fun n => if n = 1 then { exRouterC with acls := fun _ => Acl.empty 24 .permit } else exStatesC n) = false ∧
    certifyC exTopoC (fun n => if n = 1 then { exRouterC with ifaces := [exIfA, { exIfB with ip := 0x0A000102#32 }] } else exStatesC n) = false ∧
    certifyC { exTopoC with nodes := [(true, .interior), (true, .interior), (false, .interior)] } exStatesC = false := by decide

def exArpReq : Frame :=
  { srcMac := 5, dstMac := bcastMac, pkt := { proto := .udp, srcIp := 0x0A00010A#32, dstIp := 0x0A000101#32, ports := some (219, 219) },
    ttl := 63, arp := true, tag := 0, arpReq := true, arpSnd := 0x0A00010A#32, arpTgt := 0x0A000101#32 }

def exRouterArp : RouterArp Unit :=
  { arpOpen := fun _ => true, arpRuns := fun _ => true, sessRx := fun _ _ _ => (), route := fun _ _ => none, sent := fun _ _ => () }

/-- the ARP path is not vacuous: the frame skips the list (which would deny it), is handed to the ARP service, and the
router answers — on the port the request came from, not towards B -/
example : subjectToAcl exArpReq = some false ∧ (isPermitted exClassAcl exArpReq.pkt).1 = false ∧
    permitted (routerArpSoft exRouterArp exEchoSoft) exRouterC 0 exArpReq =
      .send exRouterC 0 (arpReplyFrame exIfA exIfA exArpReq) (fun s' => .done s') := by
  refine ⟨by decide, by decide, ?_⟩
  simp [permitted, routerArpSoft, isArpExempt, subjectToAcl, exArpReq, arpPort, exRouterC, exRouterArp, arpSession,
    routerResolveOut, firstEnabledIn, exIfA, exIfB, Iface.inNet, exEchoSoft]

/-- `send_arp_request`: an off-subnet target is replaced by the gateway; a cached one sends nothing -/
example : arpRequestTarget [exIfA] (some 0x0A0001FE#32) false 0x0A000214#32 = some 0x0A0001FE#32 ∧
    arpRequestTarget [exIfA] (some 0x0A0001FE#32) false 0x0A000107#32 = some 0x0A000107#32 ∧
    arpRequestTarget [exIfA] none false 0x0A000214#32 = none ∧
    arpRequestTarget [exIfA] (some 0x0A0001FE#32) true 0x0A000107#32 = none := by decide

end examples


end Primaite.Filter
