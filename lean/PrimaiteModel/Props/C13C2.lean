/-
C13 (round 6) — C2 beacon ↔ server: configured → established → lost after missed keep-alives; only a RUNNING instance keeps
the connection alive; commands need an established connection; the beacon closes itself on loss.
-/
import PrimaiteModel.Model.C13C2
import PrimaiteModel.Gen.SoftwareRecv
namespace Primaite.C13
open Primaite.C2

/-- **Only a RUNNING, healthy instance with an active connection does anything at a tick**: otherwise the connection state
is untouched, no keep-alive is sent, nothing is closed — beacon and server alike. -/
theorem C13_c2_idle_unless_running (running good reply : Bool) (c : Link) (h : (running && good && c.active) = false) :
    beaconTick running good reply c = { link := c, sent := 0, closed := false } ∧ serverTick running good c = c := by
  simp [beaconTick, serverTick, h]

/-- **One beacon tick, characterised**: the inactivity counter goes up by one; the keep-alive is sent exactly on the tick at
which it reaches the configured frequency; answered → the counter is back at 0 and the connection stays; unanswered → the
connection is reset (inactive, no remote) and the beacon calls `close()`. -/
theorem C13_c2_beacon_tick (reply : Bool) (c : Link) (ha : c.active = true) :
    beaconTick true true reply c =
      if c.inact + 1 = c.freq then
        (if reply then { link := { c with inact := 0, active := true, attempted := false }, sent := 1, closed := false }
         else { link := { c with active := false, remote := false, inact := 0, attempted := false }, sent := 1, closed := true })
      else { link := { c with inact := c.inact + 1, attempted := false }, sent := 0, closed := false } := by
  rcases c with ⟨active, remote, inact, freq, attempted⟩
  simp only at ha
  subst ha
  by_cases h : inact + 1 = freq
  · cases reply <;> simp [beaconTick, h, Link.reset]
    omega
  · simp [beaconTick, h]

/-- before the keep-alive is due nothing is sent and the connection stands: after `k < freq - inact` ticks the counter is
`inact + k` -/
theorem beacon_quiet_ticks (k : Nat) (replies : List Bool) (c : Link) (ha : c.active = true) (hl : replies.length = k)
    (hk : c.inact + k < c.freq) :
    beaconRun true true replies c = ({ c with inact := c.inact + k, attempted := if k = 0 then c.attempted else false }, 0, false) := by
  induction k generalizing replies c with
  | zero =>
    cases replies with
    | nil => simp [beaconRun]
    | cons _ _ => simp at hl
  | succ k ih =>
    cases replies with
    | nil => simp at hl
    | cons r rs =>
      have hne : ¬ c.inact + 1 = c.freq := by omega
      have ht := C13_c2_beacon_tick r c ha
      rw [if_neg hne] at ht
      simp only [beaconRun, ht, Bool.false_eq_true, if_false]
      have := ih rs { c with inact := c.inact + 1, attempted := false } ha (by simpa using hl) (by simp only; omega)
      rw [this]
      rcases c with ⟨active, remote, inact, freq, attempted⟩
      simp only [Nat.zero_add, Prod.mk.injEq, and_true, Link.mk.injEq, true_and]
      refine ⟨by omega, ?_⟩
      cases k <;> simp

/-- **Established → lost after a missed keep-alive, with the configured timing.**  An established connection with the counter
at 0 and frequency `f ≥ 1`, the beacon RUNNING and healthy throughout: for `f - 1` ticks nothing is sent; on tick `f` exactly one
keep-alive goes out; if it is answered the beacon is back in the very same state (so an always-answered beacon stays established
for ever: `C13_c2_beacon_stays`); if it is not, the connection is reset and the beacon closes itself — on that tick, not
before, not later. -/
theorem C13_c2_beacon_period (quiet : List Bool) (reply : Bool) (c : Link) (ha : c.active = true) (h0 : c.inact = 0)
    (hf : 1 ≤ c.freq) (hl : quiet.length + 1 = c.freq) :
    beaconRun true true (quiet ++ [reply]) c =
      if reply then ({ c with inact := 0, attempted := false }, 1, false)
      else ({ c with active := false, remote := false, inact := 0, attempted := false }, 1, true) := by
  have key : ∀ (rs : List Bool) (d : Link), d.active = true → d.inact + rs.length + 1 = d.freq →
      beaconRun true true (rs ++ [reply]) d =
        if reply then ({ d with inact := 0, attempted := false }, 1, false)
        else ({ d with active := false, remote := false, inact := 0, attempted := false }, 1, true) := by
    intro rs
    induction rs with
    | nil =>
      intro d hd he
      have ht := C13_c2_beacon_tick reply d hd
      rw [if_pos (by simpa using he)] at ht
      rcases d with ⟨a, b, i, f, t⟩
      simp only at hd
      subst hd
      cases reply <;> simp [beaconRun, ht]
    | cons r rs ih =>
      intro d hd he
      have hne : ¬ d.inact + 1 = d.freq := by simp only [List.length_cons] at he; omega
      have ht := C13_c2_beacon_tick r d hd
      rw [if_neg hne] at ht
      simp only [List.cons_append, beaconRun, ht, Bool.false_eq_true, if_false]
      rw [ih { d with inact := d.inact + 1, attempted := false } hd (by simp only [List.length_cons] at he ⊢; omega)]
      cases reply <;> simp
  have := key quiet c ha (by rw [h0]; omega)
  rw [this]

/-- an always-answered beacon stays established: after any number of full periods it is in the same state, having sent one
keep-alive per period and never closed -/
theorem C13_c2_beacon_stays (n : Nat) (c : Link) (ha : c.active = true) (h0 : c.inact = 0) (hat : c.attempted = false)
    (hf : 1 ≤ c.freq) :
    beaconRun true true (List.replicate (n * c.freq) true) c = (c, n, false) := by
  induction n with
  | zero => simp [beaconRun]
  | succ n ih =>
    have hsplit : List.replicate ((n + 1) * c.freq) true =
        (List.replicate (c.freq - 1) true ++ [true]) ++ List.replicate (n * c.freq) true := by
      have h1 : List.replicate (c.freq - 1) true ++ [true] = List.replicate c.freq true := by
        have : c.freq = (c.freq - 1) + 1 := by omega
        conv => rhs; rw [this]
        rw [List.replicate_succ']
      rw [h1, List.replicate_append_replicate]
      congr 1
      rw [Nat.succ_mul, Nat.add_comm]
    have hp := C13_c2_beacon_period (List.replicate (c.freq - 1) true) true c ha h0 hf (by simp; omega)
    simp only [if_true] at hp
    have hc : ({ c with inact := 0, attempted := false } : Link) = c := by
      rcases c with ⟨a, b, i, f, t⟩
      simp only at h0 hat
      simp [h0, hat]
    rw [hc] at hp
    -- run over a concatenation
    have happ : ∀ (l1 l2 : List Bool) (d d1 : Link) (s1 : Nat), beaconRun true true l1 d = (d1, s1, false) →
        beaconRun true true (l1 ++ l2) d =
          ((beaconRun true true l2 d1).1, s1 + (beaconRun true true l2 d1).2.1, (beaconRun true true l2 d1).2.2) := by
      intro l1
      induction l1 with
      | nil => intro l2 d d1 s1 h; simp [beaconRun] at h; obtain ⟨rfl, rfl⟩ := h; simp
      | cons r rs ih2 =>
        intro l2 d d1 s1 h
        simp only [beaconRun, List.cons_append] at h ⊢
        by_cases hcl : (beaconTick true true r d).closed = true
        · simp [hcl] at h
        · simp only [hcl, if_false] at h ⊢
          simp only [Bool.false_eq_true, if_false, Prod.mk.injEq] at h
          obtain ⟨h1, h2, h3⟩ := h
          have := ih2 l2 (beaconTick true true r d).link d1 (beaconRun true true rs (beaconTick true true r d).link).2.1
            (by rw [← h1, ← h3])
          rw [this]
          simp [← h2, Nat.add_assoc]
    rw [hsplit, happ _ _ c c 1 hp, ih]
    simp [Nat.add_comm]

/-- **The server considers the beacon dead after more than `keep_alive_frequency` silent ticks**: from an established
connection with the counter at 0, RUNNING and healthy, without any keep-alive: after `k ≤ f` ticks it is still established with
the counter at `k`; after `f + 1` ticks the connection is reset — inactive, no remote, commands rejected. -/
theorem C13_c2_server_timeout (c : Link) (ha : c.active = true) (h0 : c.inact = 0) :
    (∀ k, k ≤ c.freq → serverRun true true k c = { c with inact := k }) ∧
    serverRun true true (c.freq + 1) c = { c with active := false, remote := false, inact := 0 } ∧
    (∀ canNet, commandAllowed canNet (serverRun true true (c.freq + 1) c) = false) := by
  have step : ∀ k (d : Link), d.active = true → d.inact + k ≤ d.freq → serverRun true true k d = { d with inact := d.inact + k } := by
    intro k
    induction k with
    | zero => intro d _ _; simp [serverRun]
    | succ k ih =>
      intro d hd hk
      have : serverTick true true d = { d with inact := d.inact + 1 } := by
        have : ¬ d.inact + 1 > d.freq := by omega
        simp [serverTick, hd, this]
      simp only [serverRun, this]
      have h2 := ih { d with inact := d.inact + 1 } hd (by simp only; omega)
      rw [h2]
      simp [Nat.add_assoc, Nat.add_comm 1 k]
  have h1 : ∀ k, k ≤ c.freq → serverRun true true k c = { c with inact := k } := by
    intro k hk
    rw [step k c ha (by omega), h0, Nat.zero_add]
  have h2 : serverRun true true (c.freq + 1) c = { c with active := false, remote := false, inact := 0 } := by
    have hs : ∀ n (d : Link), serverRun true true (n + 1) d = serverTick true true (serverRun true true n d) := by
      intro n
      induction n with
      | zero => intro d; simp [serverRun]
      | succ n ih => intro d; simp only [serverRun] at ih ⊢; rw [ih]
    rw [hs, h1 c.freq (Nat.le_refl _)]
    simp [serverTick, ha, Link.reset]
  exact ⟨h1, h2, fun canNet => by rw [h2]; simp [commandAllowed]⟩

/-- **Commands need an established connection**: `_check_connection` lets a command out iff the application can use the network
and has a remote; a keep-alive establishes it (server: active, remote, counter 0, the beacon's frequency adopted); a reset
(timeout, or the beacon's missed reply) withdraws it. -/
theorem C13_c2_command_needs_connection (canNet : Bool) (c : Link) (f : Nat) :
    (commandAllowed canNet c = true ↔ canNet = true ∧ c.remote = true) ∧
    commandAllowed canNet c.reset = false ∧
    commandAllowed canNet (serverKeepAlive f c) = canNet ∧
    (serverKeepAlive f c).active = true ∧ (serverKeepAlive f c).inact = 0 ∧ (serverKeepAlive f c).freq = f := by
  simp [commandAllowed, Link.reset, serverKeepAlive]

/-- the beacon side of a keep-alive exchange: the first keep-alive is resolved (frequency adopted, exchange marked attempted),
the second confirms; either way the connection is active with the counter at 0 -/
theorem C13_c2_beacon_keep_alive (f : Nat) (c : Link) :
    (beaconKeepAlive f c).active = true ∧ (beaconKeepAlive f c).inact = 0 ∧ (beaconKeepAlive f c).attempted = !c.attempted ∧
    (beaconKeepAlive f c).remote = c.remote := by
  unfold beaconKeepAlive
  cases c.attempted <;> simp

/-- non-vacuity: frequency 3 — two quiet ticks, keep-alive on the third; unanswered: lost and closed on that tick -/
example :
    beaconRun true true [true, true, false] { active := true, remote := true, freq := 3 } =
      ({ active := false, remote := false, inact := 0, freq := 3 }, 1, true) ∧
    serverRun true true 3 { active := true, remote := true, freq := 3 } = { active := true, remote := true, inact := 3, freq := 3 } ∧
    serverRun true true 4 { active := true, remote := true, freq := 3 } = { active := false, remote := false, inact := 0, freq := 3 } := by
  decide

/-- the connection handling of the C2 suite reads, statement for statement (logging dropped), as the model assumes: the tick
guard `RUNNING ∧ GOOD ∧ connection active` in front of the counter and of `_confirm_remote_connection`; the beacon sends when the
counter EQUALS the frequency, resets and `close()`s when it is still non-zero afterwards; the server resets when the counter
EXCEEDS the frequency; `_reset_c2_connection` clears active / remote / counter (and writes the stray `keep_alive_frequency`
attribute, not the configured value); `_check_connection` = network usable ∧ remote set; `receive` behind the running-guard. -/
theorem C13_gen_c2_bodies : Gen.SoftwareRecv.c2Bodies = [
  ("AbstractC2.apply_timestep", ["if self.operating_state is ApplicationOperatingState.RUNNING and self.health_state_actual is SoftwareHealthState.GOOD and (self.c2_connection_active is True) { self.keep_alive_inactivity += 1; self._confirm_remote_connection(timestep) }", "return super().apply_timestep(timestep=timestep)"]),
  ("AbstractC2._reset_c2_connection", ["self.c2_connection_active = False", "self.c2_session = None", "self.keep_alive_inactivity = 0", "self.keep_alive_frequency = 5", "self.c2_remote_connection = None", "self.config.masquerade_port = PORT_LOOKUP['HTTP']", "self.config.masquerade_protocol = PROTOCOL_LOOKUP['TCP']"]),
  ("AbstractC2._resolve_keep_alive", ["if not is_valid_port(payload.masquerade_port) or not is_valid_protocol(payload.masquerade_protocol) { return False }", "self.config.masquerade_port = payload.masquerade_port", "self.config.masquerade_protocol = payload.masquerade_protocol", "self.config.keep_alive_frequency = payload.keep_alive_frequency", "if self.c2_remote_connection is None { self.c2_remote_connection = IPv4Address(self.c2_session.with_ip_address) }", "self.c2_connection_active = True", "self.keep_alive_inactivity = 0", "return True"]),
  ("AbstractC2._check_connection", ["if not self._can_perform_network_action() { return (False, RequestResponse(status='failure', data={'Reason': 'Unable to access networking resources. Unable to send command.'})) }", "if self.c2_remote_connection is None { return (False, RequestResponse(status='failure', data={'Reason': 'C2 Application has yet to establish connection. Unable to send command.'})) }", "return (True, RequestResponse(status='success', data={'Reason': 'C2 Application is able to send connections.'}))"]),
  ("AbstractC2.receive", ["if not super().receive(payload=payload, session_id=session_id, **kwargs) { return False }", "if not isinstance(payload, C2Packet) { return False }", "return self._handle_c2_payload(payload, session_id)"]),
  ("C2Beacon._confirm_remote_connection", ["self.keep_alive_attempted = False", "if self.keep_alive_inactivity == self.config.keep_alive_frequency { self._send_keep_alive(session_id=self.c2_session.uuid); if self.keep_alive_inactivity != 0 { self._reset_c2_connection(); self.close(); return False } }", "return True"]),
  ("C2Beacon._handle_keep_alive", ["if self.keep_alive_attempted is True { self.c2_connection_active = True; self.keep_alive_inactivity = 0; self.c2_session = self.software_manager.session_manager.sessions_by_uuid[session_id]; self.keep_alive_attempted = False; return True }", "if self._resolve_keep_alive(payload, session_id) is False { return False }", "self.keep_alive_attempted = True", "return self._send_keep_alive(session_id)"]),
  ("C2Server._confirm_remote_connection", ["if self.keep_alive_inactivity > self.config.keep_alive_frequency { self._reset_c2_connection(); return False }", "return True"]),
  ("C2Server._handle_keep_alive", ["self.c2_connection_active = True", "self.c2_session = self.software_manager.session_manager.sessions_by_uuid[session_id]", "if self._resolve_keep_alive(payload, session_id) == False { return False }", "return self._send_keep_alive(session_id)"])] := by
  rfl

/-- **Command table**: every `C2Command` has exactly one handler in `C2Beacon._handle_command_input` and nothing else is
dispatched; the three payload kinds; the keep-alive frequency defaults to the model's default and is at least 1. -/
theorem C13_gen_c2_tables :
    Gen.SoftwareRecv.c2Commands.map (·.1) = ["RANSOMWARE_CONFIGURE", "RANSOMWARE_LAUNCH", "DATA_EXFILTRATION", "TERMINAL"] ∧
    Gen.SoftwareRecv.c2Dispatch = [("RANSOMWARE_CONFIGURE", "_command_ransomware_config"),
      ("RANSOMWARE_LAUNCH", "_command_ransomware_launch"), ("TERMINAL", "_command_terminal"),
      ("DATA_EXFILTRATION", "_command_data_exfiltration")] ∧
    (∀ c ∈ Gen.SoftwareRecv.c2Commands.map (·.1), (Gen.SoftwareRecv.c2Dispatch.filter (·.1 == c)).length = 1) ∧
    (∀ d ∈ Gen.SoftwareRecv.c2Dispatch.map (·.1), d ∈ Gen.SoftwareRecv.c2Commands.map (·.1)) ∧
    Gen.SoftwareRecv.c2Payloads.map (·.1) = ["KEEP_ALIVE", "INPUT", "OUTPUT"] ∧
    Gen.SoftwareRecv.c2KeepAliveDefault = ({} : Link).freq ∧ Gen.SoftwareRecv.c2KeepAliveMin = 1 := by
  decide

end Primaite.C13
