/-
C06 — a block that is in force DURING a transitional power state.

`Inv`: a node that is not ON has every interface disabled.  It is preserved by every power operation (programs of
Model/FilterPower.lean = the translated method bodies), every timestep, every interface / link / software / rule-list operation,
for all durations and countdown values (`C06_power_inv_run`).  Hence at EVERY moment of any history at which the node is not ON —
SHUTTING_DOWN, BOOTING, OFF, the whole reset window — the element of Model/Filter.lean, whatever its kind, ignores every frame on
every port: nothing forwarded, nothing handed to software, no state change (`C06_not_on_inert`, `C06_transitional_inert`).
The window theorems say that the node IS not-ON at every tick of a countdown, for every positive duration.
-/
import PrimaiteModel.Model.FilterPower
import PrimaiteModel.Props.C06
import PrimaiteModel.Gen.FilterPower
import PrimaiteModel.Gen.FilterSenders
namespace Primaite.FilterPower
open Primaite Primaite.Filter Primaite.Cut

variable {W : Type}

def AllDown (n : PNode W) : Prop := ∀ i ∈ n.nd.ifaces, i.enabled = false

/-- not ON ⇒ every interface disabled -/
def Inv (n : PNode W) : Prop := n.st ≠ .on → AllDown n

theorem disableAll_allDown (n : PNode W) : AllDown (disableAll n) := by
  intro i hi
  simp only [disableAll, List.mem_map] at hi
  obtain ⟨j, _, rfl⟩ := hi
  rfl

theorem enableAll_notOn (n : PNode W) (h : n.st ≠ .on) : enableAll n = n := by
  simp [enableAll, h]

theorem enableAll_st (n : PNode W) : (enableAll n).st = n.st := by
  unfold enableAll; split <;> rfl

/-- the software part of a hook -/
def withSw (n : PNode W) (g : W → W) : PNode W := { n with nd := { n.nd with sw := g n.nd.sw } }

/-- `power_on` in closed form -/
def powerOnF (hk : SoftCall → W → W) (n : PNode W) : PNode W :=
  if n.upDur ≤ 0 then enableAll { withSw n (fun w => hk .appRun (hk .svcStart w)) with st := .on }
  else if n.st = .off then { n with st := .booting, upCd := n.upDur }
  else n

theorem powerOn_eq (hk : SoftCall → W → W) (n : PNode W) : (exec hk powerOnProg n).1 = powerOnF hk n := by
  by_cases hc : n.upDur ≤ 0
  · simp [powerOnProg, startUpProg, seqs, exec, evalCond, hc, powerOnF, withSw]
  · by_cases hs : n.st = .off
    · simp [powerOnProg, startUpProg, seqs, exec, evalCond, hc, hs, powerOnF]
    · simp [powerOnProg, startUpProg, seqs, exec, evalCond, hc, hs, powerOnF]

theorem powerOn_inv (hk : SoftCall → W → W) (n : PNode W) (h : Inv n) : Inv (exec hk powerOnProg n).1 := by
  rw [powerOn_eq]; unfold powerOnF
  split
  · intro hne; simp [enableAll_st] at hne
  · split
    · rename_i hs; intro _; exact h (by simp [hs])
    · exact h

/-- OFF reached: `_shut_down_actions`, then (if resetting) `power_on` again -/
def restartF (hk : SoftCall → W → W) (n1 : PNode W) : PNode W :=
  if n1.resetting then powerOnF hk { n1 with resetting := false } else n1

def offNow (hk : SoftCall → W → W) (n : PNode W) : PNode W :=
  { withSw n (fun w => hk .appClose (hk .svcStop w)) with st := .off }

/-- `power_off` in closed form -/
def powerOffF (hk : SoftCall → W → W) (n : PNode W) : PNode W :=
  if n.downDur ≤ 0 then restartF hk (offNow hk (disableAll n))
  else if n.st = .on then { disableAll n with st := .shuttingDown, downCd := n.downDur }
  else n

theorem powerOff_eq (hk : SoftCall → W → W) (n : PNode W) : (exec hk powerOffProg n).1 = powerOffF hk n := by
  by_cases hc : n.downDur ≤ 0
  · by_cases hr : n.resetting = true
    · have := powerOn_eq hk { withSw (disableAll n) (fun w => hk .appClose (hk .svcStop w)) with st := .off, resetting := false }
      simp [powerOffProg, shutDownProg, seqs, exec, evalCond, hc, hr, powerOffF, withSw, disableAll, restartF, offNow] at this ⊢
      exact this
    · simp [powerOffProg, shutDownProg, seqs, exec, evalCond, hc, hr, powerOffF, withSw, disableAll, restartF, offNow]
  · by_cases hs : n.st = .on
    · simp [powerOffProg, shutDownProg, seqs, exec, evalCond, hc, hs, powerOffF, disableAll]
    · simp [powerOffProg, shutDownProg, seqs, exec, evalCond, hc, hs, powerOffF]

theorem powerOnF_inv (hk : SoftCall → W → W) (n : PNode W) (h : Inv n) : Inv (powerOnF hk n) := by
  rw [← powerOn_eq]; exact powerOn_inv hk n h

theorem allDown_inv {n : PNode W} (h : AllDown n) : Inv n := fun _ => h

theorem powerOff_inv (hk : SoftCall → W → W) (n : PNode W) (_h : Inv n) : Inv (exec hk powerOffProg n).1 := by
  rw [powerOff_eq]; unfold powerOffF
  split
  · have hd : AllDown (offNow hk (disableAll n)) := disableAll_allDown n
    unfold restartF
    split
    · exact powerOnF_inv hk _ (allDown_inv hd)
    · exact allDown_inv hd
  · split
    · exact allDown_inv (disableAll_allDown n)
    · exact _h

theorem reset_eq (hk : SoftCall → W → W) (n : PNode W) :
    (exec hk resetProg n).1 = powerOffF hk { n with resetting := true } := by
  have := powerOff_eq hk { n with resetting := true }
  simp [resetProg, seqs, exec, evalCond] at this ⊢
  exact this

theorem reset_inv (hk : SoftCall → W → W) (n : PNode W) (h : Inv n) : Inv (exec hk resetProg n).1 := by
  rw [reset_eq, ← powerOff_eq]; exact powerOff_inv hk _ h

/-- first countdown block in closed form -/
def tickUpF (hk : SoftCall → W → W) (n : PNode W) : PNode W :=
  if n.upCd > 0 then { n with upCd := n.upCd - 1 }
  else if n.st = .booting then withSw (enableAll { n with st := .on }) (fun w => hk .appRun (hk .svcStart w))
  else n

theorem tickUp_eq (hk : SoftCall → W → W) (n : PNode W) : (exec hk tickUpProg n).1 = tickUpF hk n := by
  by_cases hc : n.upCd > 0
  · simp [tickUpProg, startUpProg, seqs, exec, evalCond, hc, tickUpF]
  · by_cases hs : n.st = .booting
    · simp [tickUpProg, startUpProg, seqs, exec, evalCond, hc, hs, tickUpF, withSw]
    · simp [tickUpProg, startUpProg, seqs, exec, evalCond, hc, hs, tickUpF]

/-- second countdown block in closed form -/
def tickDownF (hk : SoftCall → W → W) (n : PNode W) : PNode W :=
  if n.downCd > 0 then { n with downCd := n.downCd - 1 }
  else if n.st = .shuttingDown then restartF hk (offNow hk n)
  else n

theorem tickDown_eq (hk : SoftCall → W → W) (n : PNode W) : (exec hk tickDownProg n).1 = tickDownF hk n := by
  by_cases hc : n.downCd > 0
  · simp [tickDownProg, seqs, exec, evalCond, hc, tickDownF]
  · by_cases hs : n.st = .shuttingDown
    · by_cases hr : n.resetting = true
      · have := powerOn_eq hk { withSw n (fun w => hk .appClose (hk .svcStop w)) with st := .off, resetting := false }
        simp [tickDownProg, shutDownProg, seqs, exec, evalCond, hc, hs, hr, tickDownF, withSw, restartF, offNow] at this ⊢
        exact this
      · simp [tickDownProg, shutDownProg, seqs, exec, evalCond, hc, hs, hr, tickDownF, withSw, restartF, offNow]
    · simp [tickDownProg, seqs, exec, evalCond, hc, hs, tickDownF]

theorem tick_eq (hk : SoftCall → W → W) (n : PNode W) : (exec hk tickProg n).1 = tickDownF hk (tickUpF hk n) := by
  have h1 := tickUp_eq hk n
  have h2 := tickDown_eq hk (tickUpF hk n)
  have hnone : (exec hk tickUpProg n).2 = none := by
    by_cases hc : n.upCd > 0
    · simp [tickUpProg, exec, evalCond, hc]
    · by_cases hs : n.st = .booting
      · simp [tickUpProg, startUpProg, seqs, exec, evalCond, hc, hs]
      · simp [tickUpProg, exec, evalCond, hc, hs]
  simp only [tickProg, exec]
  rcases hx : exec hk tickUpProg n with ⟨n1, r⟩
  rw [hx] at h1 hnone
  simp only at h1 hnone
  subst hnone; subst h1
  exact h2

theorem tickUpF_inv (hk : SoftCall → W → W) (n : PNode W) (h : Inv n) : Inv (tickUpF hk n) := by
  unfold tickUpF
  split
  · exact h
  · split
    · intro hne; simp [withSw, enableAll_st] at hne
    · exact h

theorem tickDownF_inv (hk : SoftCall → W → W) (n : PNode W) (h : Inv n) : Inv (tickDownF hk n) := by
  unfold tickDownF
  split
  · exact h
  · split
    · rename_i hs
      have hd : AllDown (offNow hk n) := h (by simp [hs])
      unfold restartF
      split
      · exact powerOnF_inv hk _ (allDown_inv hd)
      · exact allDown_inv hd
    · exact h

theorem tick_inv (hk : SoftCall → W → W) (n : PNode W) (h : Inv n) : Inv (exec hk tickProg n).1 := by
  rw [tick_eq]; exact tickDownF_inv hk _ (tickUpF_inv hk n h)

theorem setIface_false_inv (n : PNode W) (p : Nat) (h : Inv n) : Inv (setIface n p false) := by
  intro hne i hi
  simp only [setIface, List.mem_mapIdx] at hi
  obtain ⟨q, hq, rfl⟩ := hi
  split
  · rfl
  · exact h hne _ (List.getElem_mem hq)

theorem inv_of_on {n : PNode W} (h : n.st = .on) : Inv n := fun hne => absurd h hne

/-- every operation keeps "not ON ⇒ every interface disabled" -/
theorem step_inv (hk : SoftCall → W → W) (n : PNode W) (o : POp W) (h : Inv n) : Inv (step hk n o) := by
  cases o with
  | powerOn => exact powerOn_inv hk n h
  | powerOff => exact powerOff_inv hk n h
  | reset => exact reset_inv hk n h
  | tick => exact tick_inv hk n h
  | ifEnable p =>
    simp only [step]
    split
    · rename_i hc
      simp only [Bool.and_eq_true, beq_iff_eq] at hc
      exact inv_of_on (n := setIface n p true) hc.1
    · exact h
  | ifDisable p => exact setIface_false_inv n p h
  | plug p =>
    simp only [step]
    split
    · exact h
    · split
      · rename_i hc
        simp only [beq_iff_eq] at hc
        exact inv_of_on (n := setIface _ p true) hc
      · exact h
  | unplug p => exact setIface_false_inv _ p h
  | soft g => exact h
  | acl a x => exact h

/-- **for every history** of power requests, timesteps, interface / link operations, software and rule-list changes, all durations and
countdown values: a node that is not ON has every interface disabled -/
theorem C06_power_inv_run (hk : SoftCall → W → W) (n : PNode W) (ops : List (POp W)) (h : Inv n) : Inv (run hk n ops) := by
  induction ops generalizing n with
  | nil => exact h
  | cons o rest ih => exact ih _ (step_inv hk n o h)

/-- **A device that is not ON — OFF, SHUTTING_DOWN or BOOTING — forwards nothing and hands nothing to software**: whatever its kind
(host, switch, router, firewall), rule lists and software, a frame arriving on any port leaves it as it is and nothing is emitted. -/
theorem C06_not_on_inert (soft : Soft W) (n : PNode W) (h : Inv n) (hne : n.st ≠ .on) (p : Nat) (f : Frame) :
    nodeRx soft n.view p f = .done n.view := by
  apply C06_iface_disabled_inert_rx
  unfold portEnabled
  cases hi : n.view.ifaces[p]? with
  | none => rfl
  | some i => exact h hne i (List.mem_of_getElem? hi)

/-- … and whatever its own software attempts to send is dropped at the interface-send layer as long as the interfaces stay down -/
theorem C06_not_on_sends_nothing (n : PNode W) (h : Inv n) (hne : n.st ≠ .on) (q : Nat) : portEnabled n.view q = false := by
  unfold portEnabled
  cases hi : n.view.ifaces[q]? with
  | none => rfl
  | some i => exact h hne i (List.mem_of_getElem? hi)

/-- the two together over histories: at EVERY moment of ANY history at which the node is in a transitional or off state -/
theorem C06_transitional_inert (hk : SoftCall → W → W) (soft : Soft W) (n : PNode W) (ops : List (POp W)) (h : Inv n)
    (hne : (run hk n ops).st ≠ .on) (p : Nat) (f : Frame) :
    nodeRx soft (run hk n ops).view p f = .done (run hk n ops).view :=
  C06_not_on_inert soft _ (C06_power_inv_run hk n ops h) hne p f

/-! ### the windows: the node IS not-ON at every tick of a countdown, for every positive duration -/

theorem step_tick (hk : SoftCall → W → W) (n : PNode W) : step hk n .tick = tickDownF hk (tickUpF hk n) := tick_eq hk n

theorem ticks_add (hk : SoftCall → W → W) (a b : Nat) (n : PNode W) : ticks hk (a + b) n = ticks hk b (ticks hk a n) := by
  induction a generalizing n with
  | zero => simp [ticks]
  | succ a ih => rw [Nat.add_right_comm]; exact ih _

/-- one tick of a SHUTTING_DOWN node whose countdown is positive -/
theorem tick_shutting (hk : SoftCall → W → W) (n : PNode W) (hs : n.st = .shuttingDown) (hpos : 0 < n.downCd) :
    (step hk n .tick).st = .shuttingDown ∧ (step hk n .tick).downCd = n.downCd - 1 ∧
    (step hk n .tick).resetting = n.resetting ∧ (step hk n .tick).upDur = n.upDur := by
  rw [step_tick]
  have h1 : (tickUpF hk n).st = .shuttingDown ∧ (tickUpF hk n).downCd = n.downCd ∧ (tickUpF hk n).resetting = n.resetting ∧
      (tickUpF hk n).upDur = n.upDur := by
    unfold tickUpF
    split
    · exact ⟨hs, rfl, rfl, rfl⟩
    · simp [hs]
  obtain ⟨a, b, c, d⟩ := h1
  have hp : (tickUpF hk n).downCd > 0 := by rw [b]; exact hpos
  simp only [tickDownF, hp, if_true]
  exact ⟨a, by rw [b], c, d⟩

theorem shutting_ticks (hk : SoftCall → W → W) (k : Nat) (n : PNode W) (hs : n.st = .shuttingDown) (hle : (k : Int) ≤ n.downCd) :
    (ticks hk k n).st = .shuttingDown ∧ (ticks hk k n).downCd = n.downCd - k ∧
    (ticks hk k n).resetting = n.resetting ∧ (ticks hk k n).upDur = n.upDur := by
  induction k generalizing n with
  | zero => simp [ticks, hs]
  | succ k ih =>
    obtain ⟨a, b, c, d⟩ := tick_shutting hk n hs (by omega)
    obtain ⟨a', b', c', d'⟩ := ih (step hk n .tick) a (by rw [b]; omega)
    simp only [ticks]
    exact ⟨a', by rw [b', b]; omega, by rw [c', c], by rw [d', d]⟩

/-- one tick of a BOOTING node whose countdown is positive -/
theorem tick_booting (hk : SoftCall → W → W) (n : PNode W) (hs : n.st = .booting) (hpos : 0 < n.upCd) :
    (step hk n .tick).st = .booting ∧ (step hk n .tick).upCd = n.upCd - 1 := by
  rw [step_tick]
  have h1 : tickUpF hk n = { n with upCd := n.upCd - 1 } := by simp [tickUpF, hpos]
  rw [h1]
  unfold tickDownF
  split
  · exact ⟨hs, rfl⟩
  · simp [hs]

theorem booting_ticks (hk : SoftCall → W → W) (k : Nat) (n : PNode W) (hs : n.st = .booting) (hle : (k : Int) ≤ n.upCd) :
    (ticks hk k n).st = .booting ∧ (ticks hk k n).upCd = n.upCd - k := by
  induction k generalizing n with
  | zero => simp [ticks, hs]
  | succ k ih =>
    obtain ⟨a, b⟩ := tick_booting hk n hs (by omega)
    obtain ⟨a', b'⟩ := ih (step hk n .tick) a (by rw [b]; omega)
    simp only [ticks]
    exact ⟨a', by rw [b', b]; omega⟩

theorem powerOff_timed (hk : SoftCall → W → W) (n : PNode W) (hon : n.st = .on) (hd : 0 < n.downDur) :
    step hk n .powerOff = { disableAll n with st := .shuttingDown, downCd := n.downDur } := by
  have : ¬ n.downDur ≤ 0 := by omega
  simp [step, powerOff_eq, powerOffF, this, hon]

/-- **shutdown window**: an ON node with `shut_down_duration = d > 0` that accepts a shutdown is SHUTTING_DOWN in the step of the
request and after each of the next `d` ticks -/
theorem C06_shutdown_window (hk : SoftCall → W → W) (n : PNode W) (d : Nat) (hon : n.st = .on) (hd : n.downDur = d) (hpos : 0 < d)
    (k : Nat) (hk' : k ≤ d) : (ticks hk k (step hk n .powerOff)).st = .shuttingDown := by
  rw [powerOff_timed hk n hon (by omega)]
  exact (shutting_ticks hk k _ rfl (by simp only [hd]; omega)).1

theorem powerOn_timed (hk : SoftCall → W → W) (n : PNode W) (hoff : n.st = .off) (hu : 0 < n.upDur) :
    step hk n .powerOn = { n with st := .booting, upCd := n.upDur } := by
  have : ¬ n.upDur ≤ 0 := by omega
  simp [step, powerOn_eq, powerOnF, this, hoff]

/-- **boot window**: an OFF node with `start_up_duration = u > 0` that accepts a startup is BOOTING in the step of the request and
after each of the next `u` ticks -/
theorem C06_boot_window (hk : SoftCall → W → W) (n : PNode W) (u : Nat) (hoff : n.st = .off) (hu : n.upDur = u) (hpos : 0 < u)
    (k : Nat) (hk' : k ≤ u) : (ticks hk k (step hk n .powerOn)).st = .booting := by
  rw [powerOn_timed hk n hoff (by omega)]
  exact (booting_ticks hk k _ rfl (by simp only [hu]; omega)).1

/-- the tick at which a resetting node's shut-down countdown has run out: OFF is passed through, the node is BOOTING -/
theorem tick_reset_turn (hk : SoftCall → W → W) (n : PNode W) (hs : n.st = .shuttingDown) (hc : n.downCd = 0) (hr : n.resetting = true)
    (hu : 0 < n.upDur) : (step hk n .tick).st = .booting ∧ (step hk n .tick).upCd = n.upDur := by
  rw [step_tick]
  have h1 : (tickUpF hk n).st = .shuttingDown ∧ (tickUpF hk n).downCd = 0 ∧ (tickUpF hk n).resetting = true ∧
      (tickUpF hk n).upDur = n.upDur := by
    unfold tickUpF
    split
    · exact ⟨hs, hc, hr, rfl⟩
    · simp [hs, hc, hr]
  obtain ⟨a, b, c, d⟩ := h1
  have hnp : ¬ (tickUpF hk n).downCd > 0 := by omega
  have hnu : ¬ n.upDur ≤ 0 := by omega
  simp [tickDownF, hnp, a, restartF, offNow, withSw, c, powerOnF, hnu, d]

/-- **reset window**: an ON node with positive durations `d`, `u` that accepts a reset is not ON in the step of the request and
after each of the next `d + u + 1` ticks (SHUTTING_DOWN for `d` ticks, then BOOTING) -/
theorem C06_reset_window (hk : SoftCall → W → W) (n : PNode W) (d u : Nat) (hon : n.st = .on) (hd : n.downDur = d) (hu : n.upDur = u)
    (hdp : 0 < d) (hup : 0 < u) (k : Nat) (hk' : k ≤ d + u + 1) : (ticks hk k (step hk n .reset)).st ≠ .on := by
  have h0 : step hk n .reset = { disableAll n with st := .shuttingDown, downCd := n.downDur, resetting := true } := by
    have : ¬ n.downDur ≤ 0 := by omega
    simp [step, reset_eq, powerOffF, this, hon, disableAll]
  rw [h0]
  by_cases hkd : k ≤ d
  · rw [(shutting_ticks hk k _ rfl (by simp only [hd]; omega)).1]; decide
  · obtain ⟨j, rfl⟩ : ∃ j, k = d + (1 + j) := ⟨k - d - 1, by omega⟩
    rw [ticks_add, ticks_add]
    obtain ⟨a, b, c, e⟩ := shutting_ticks hk d ({ disableAll n with st := .shuttingDown, downCd := n.downDur, resetting := true } : PNode W)
      rfl (by simp only [hd]; omega)
    obtain ⟨a', b'⟩ := tick_reset_turn hk _ a (by rw [b]; simp only [hd]; omega) (by rw [c]) (by rw [e]; simp only [disableAll, hu]; omega)
    have : ticks hk 1 (ticks hk d ({ disableAll n with st := .shuttingDown, downCd := n.downDur, resetting := true } : PNode W)) =
        step hk (ticks hk d ({ disableAll n with st := .shuttingDown, downCd := n.downDur, resetting := true } : PNode W)) .tick := rfl
    rw [this]
    rw [(booting_ticks hk j _ a' (by rw [b', e]; simp only [disableAll, hu]; omega)).1]; decide

/-- the windows and the invariant together: during the whole shut-down countdown the device ignores every frame on every port -/
theorem C06_shutdown_window_inert (hk : SoftCall → W → W) (soft : Soft W) (n : PNode W) (d : Nat) (hon : n.st = .on) (hd : n.downDur = d)
    (hpos : 0 < d) (k : Nat) (hk' : k ≤ d) (p : Nat) (f : Frame) :
    nodeRx soft (ticks hk k (step hk n .powerOff)).view p f = .done (ticks hk k (step hk n .powerOff)).view := by
  have hrun : ∀ (k : Nat) (m : PNode W), Inv m → Inv (ticks hk k m) := by
    intro k; induction k with
    | zero => intro m h; exact h
    | succ k ih => intro m h; exact ih _ (step_inv hk m .tick h)
  apply C06_not_on_inert soft _ (hrun k _ (step_inv hk n .powerOff (inv_of_on hon)))
  rw [C06_shutdown_window hk n d hon hd hpos k hk']; decide

/-! ### tie to the source -/

/-- the programs the theorems above are about ARE the method bodies of `Node` as the extractor translates them statement by statement
(assignments of `operating_state`, the interface loops, countdown arming / decrementing, `is_resetting`, the hooks' software loops,
inlined calls, every `if` and `return`; logging dropped) -/
theorem C06_gen_power_programs :
    Gen.FilterPower.startUp = startUpProg ∧ Gen.FilterPower.shutDown = shutDownProg ∧ Gen.FilterPower.powerOn = powerOnProg ∧
    Gen.FilterPower.powerOff = powerOffProg ∧ Gen.FilterPower.reset = resetProg ∧ Gen.FilterPower.tickUp = tickUpProg ∧
    Gen.FilterPower.tickDown = tickDownProg := by decide

/-- `enable()` of a wired and of a wireless interface refuses while the node is not ON (the guard sits before `self.enabled = True`),
`disable()` always clears the flag; no subclass of `Node` redefines a translated method -/
theorem C06_gen_power_interfaces :
    Gen.FilterPower.wiredEnable = ["guard:self.enabled", "guard:not self._connected_node",
      "guard:self._connected_node.operating_state != NodeOperatingState.ON", "guard:not self._connected_link", "set:enabled"] ∧
    Gen.FilterPower.wirelessEnable = ["guard:self.enabled", "guard:not self._connected_node",
      "guard:self._connected_node.operating_state != NodeOperatingState.ON", "set:enabled"] ∧
    Gen.FilterPower.wiredDisable = ["guard:not self.enabled", "set:disabled"] ∧
    Gen.FilterPower.wirelessDisable = ["guard:not self.enabled", "set:disabled"] ∧
    Gen.FilterPower.definers = ["Node._shut_down_actions", "Node._start_up_actions", "Node.power_off", "Node.power_on", "Node.reset"] := by
  decide

/-! ### non-vacuity, and what the moved loop looks like -/

def exIf (en : Bool) : Iface := { enabled := en, mac := 7, ip := 0x0A000202#32, mask := 0xFFFFFF00#32 }

/-- a switch that is ON with two linked, enabled ports; `shut_down_duration = start_up_duration = 3` -/
def exSwitch : PNode Unit :=
  { nd := { kind := .switch, on := true, ifaces := [exIf true, exIf true], acls := fun _ => Acl.Acl.empty 0 .deny, sw := () },
    st := .on, upCd := 0, downCd := 0, upDur := 3, downDur := 3, resetting := false, linked := fun _ => true }

def noHooks : SoftCall → Unit → Unit := fun _ _ => ()

def flags (n : PNode Unit) : List Bool := n.nd.ifaces.map (·.enabled)

example : Inv exSwitch := inv_of_on rfl
/-- the accepted shutdown takes both ports down at once, they stay down through the countdown, OFF after the 4th tick -/
example : (List.range 6).map (fun k => ((ticks noHooks k (step noHooks exSwitch .powerOff)).st, flags (ticks noHooks k (step noHooks exSwitch .powerOff))))
    = [(.shuttingDown, [false, false]), (.shuttingDown, [false, false]), (.shuttingDown, [false, false]), (.shuttingDown, [false, false]),
       (.off, [false, false]), (.off, [false, false])] := by decide
/-- reset: 4 moments SHUTTING_DOWN, 4 moments BOOTING, then ON with the ports up again -/
example : (List.range 10).map (fun k => (ticks noHooks k (step noHooks exSwitch .reset)).st)
    = [.shuttingDown, .shuttingDown, .shuttingDown, .shuttingDown, .booting, .booting, .booting, .booting, .on, .on] := by decide
example : flags (ticks noHooks 8 (step noHooks exSwitch .reset)) = [true, true] := by decide

/-- `power_off` with the interface loop moved into `_shut_down_actions` (the shape of seeded change C06-f) -/
def powerOffMovedProg : Stmt :=
  seqs [.ite .downDurLe0
          (seqs [.scope (seqs [.disableAll, .soft .svcStop, .soft .appClose]), .setSt .off,
                 .ite .resetting (seqs [.setResetting false, .scope powerOnProg]) .skip, .ret true]) .skip,
        .ite (.stIs .on) (seqs [.setSt .shuttingDown, .armDown, .ret true]) .skip,
        .ret false]

/-- … breaks the invariant: the switch is SHUTTING_DOWN with both ports still enabled, so `switchRx` runs on every frame -/
theorem C06_moved_interface_loop_counterexample :
    Inv exSwitch ∧ ¬ Inv (exec noHooks powerOffMovedProg exSwitch).1 := by
  refine ⟨inv_of_on rfl, fun h => ?_⟩
  have := h (by decide) (exIf true) (by decide)
  exact absurd this (by decide)

set_option maxRecDepth 8000 in
/-- wireless: the access point of a `WirelessRouter` receives exactly as a `RouterInterface` does (so a wireless router is an element of
kind `router`: `routerRx`, its power guard and its rule list apply unchanged); the airspace hands a frame to the OTHER, ENABLED interfaces OF
THE SENDER'S FREQUENCY only (two access points on one frequency = a wire, another frequency = no wire); a disabled wireless interface
sends nothing -/
theorem C06_gen_wireless :
    Gen.FilterPower.wapReceiveIsRouterInterfaceReceive = true ∧
    Gen.FilterPower.airTransmit =
      ["self.bandwidth_load[sender_network_interface.frequency.frequency_hz] += frame.size_Mbits",
       "for wireless_interface in self.wireless_interfaces_by_frequency.get(sender_network_interface.frequency.frequency_hz, []):",
       "if wireless_interface != sender_network_interface and wireless_interface.enabled:",
       "wireless_interface.receive_frame(frame)"] ∧
    Gen.FilterPower.wirelessSendGuard = ["if not self.enabled:", "return False"] := by decide

/-! ### emissions made INSIDE a power operation (`default_gateway_hello` on `enable()`, what services / applications send from the hooks)

In the code these are ordinary software emissions: they pass `SessionManager → interface.send_frame`, i.e. they are `localOp` scripts
(Model/Filter.lean) run at the point of the power method where the hook / `enable()` is called.  Two cases:
* the node is not ON, or all its interfaces are down, at that point (`_shut_down_actions` always: the interfaces were disabled before, or
  the node has just become OFF with `Inv`; `_start_up_actions` in `power_on`'s instant branch: it runs BEFORE the interface loop): every
  attempt is dropped at the interface-send layer — `C06_power_hook_silent`;
* the node is ON with interfaces up (`default_gateway_hello`, `_start_up_actions` at the end of the boot countdown): the emission is a
  local operation of an ON node, which the cut theorems already quantify over (`runOps` takes ARBITRARY scripts at attacker-side nodes;
  a blocking element that has been powered on is no longer a block, a protected node's own emissions are not A's). -/

/-- all ports read disabled at the interface-send layer -/
def PortsDown (s : Node W) : Prop := ∀ q, portEnabled s q = false

/-- **a script run while every interface is down, and which itself leaves the flags alone (`Pres PortsDown`: every state it writes, given
that re-entrant states do, has all ports down), puts NOTHING on any wire**: behind the interface-send layer it is a plain state change -/
theorem C06_power_hook_silent (a : Script W) (h : Pres (PortsDown (W := W)) a) :
    ∃ s', PortsDown s' ∧ guardSends portEnabled a = .done s' := by
  induction h with
  | done hs => exact ⟨_, hs, rfl⟩
  | @send s q g k hs _ ih =>
    obtain ⟨s', hs', he⟩ := ih s hs
    refine ⟨s', hs', ?_⟩
    simp only [guardSends, hs q]
    exact he

/-- the premise holds of a not-ON node under `Inv` (so: of the hooks run by `power_off`, by the OFF-reaching tick and by `power_on`'s
instant branch from any not-ON state) -/
theorem C06_not_on_portsDown (n : PNode W) (h : Inv n) (hne : n.st ≠ .on) : PortsDown n.view :=
  fun q => C06_not_on_sends_nothing n h hne q

/-- and of a node whose interfaces `power_off` has just taken down, whatever its state -/
theorem C06_disabled_portsDown (n : PNode W) : PortsDown (disableAll n).view := by
  intro q
  unfold portEnabled
  cases hi : (disableAll n).view.ifaces[q]? with
  | none => rfl
  | some i => exact disableAll_allDown n i (List.mem_of_getElem? hi)

/-! ### the software layer: every emitter goes through the session manager -/

/-- what a call site of the software layer may call to hand a payload to the network -/
def sanctionedSend : List String := ["self.send", "super.send", "sm.send_payload", "sess.receive_payload", "parent_terminal.send"]

set_option maxRecDepth 8000 in
/-- **no side channel in the software layer (syntactic inventory, regenerated every run)**: EVERY call site under
system/applications, system/services, software.py, core/software_manager.py that sends is `self.send` / `super().send` (→ `IOSoftware.send`),
the software's OWN `software_manager.send_payload_to_session_manager`, its own session manager's `receive_payload_from_software_manager`
(ARP, ICMP, NTP) or a connection's `parent_terminal.send`; `IOSoftware.send` only guards and calls the software manager, which only calls
the session manager (whose single `send_frame` site and single `Frame(..)` construction are `Gen.Filter`'s); nothing there calls a
frame-level method, a `send` on another receiver, or touches `network`, `get_node_by_hostname`, `nodes`, `links`, `airspace`,
`_connected_node`, `_connected_link`, `endpoint_a/b` — so every emission of every application and service of A is a `localOp`
(stamped with the outbound interface's own source, behind the interface-send layer), which is what the cut theorems quantify over -/
theorem C06_gen_senders :
    Gen.FilterSenders.sendSites.all (fun s => sanctionedSend.contains s.2) = true ∧
    30 ≤ Gen.FilterSenders.sendSites.length ∧
    Gen.FilterSenders.foreign = [] ∧
    Gen.FilterSenders.chain =
      ["IOSoftware.send: guard:not self._can_perform_action() | return:self.software_manager.send_payload_to_session_manager",
       "SoftwareManager.send_payload_to_session_manager: return:self.session_manager.receive_payload_from_software_manager"] := by
  decide
