/-
C08, part 12 — learned forwarding state follows topology changes: a switch re-points a MAC to the port it was last seen on.
-/
import PrimaiteModel.Props.C08Cold
namespace Primaite.Forward

/-- **After a frame from MAC `m` arrived on port `p`, the table maps `m` to `p` — whatever it held before** (absent, the same
port, or ANOTHER port: a re-cabled station). -/
theorem C08_switch_learns_last_port (nd : Node) (m : Mac) (p : Nat) : (nd.learnMac m p).macPort m = some p :=
  macPort_learn_self nd m p

/-- learning one station does not disturb what is known about the others. -/
theorem C08_switch_learning_is_local (nd : Node) (m m' : Mac) (p : Nat) (h : m' ≠ m) :
    (nd.learnMac m p).macPort m' = nd.macPort m' := macPort_learn_other nd m m' p h

/-- the reception itself: `Switch.receive_frame` learns BEFORE it reads the table and unconditionally, so right after a frame
from `m` was received on port `p` (switch table arbitrary before, e.g. `m ↦ old port`), the switch's node is `learnMac m p` of
what it was; … -/
theorem C08_switch_receive_learns_first (fuel : Nat) (st : St) (s p : Nat) (f : Frame) :
    switchRecv (fuel + 1) st s p f =
      (let st' := st.modNode s (fun nd => nd.learnMac f.srcMac p)
       match st'.node? s with
       | none => (st', f)
       | some nd =>
         match nd.macPort f.dstMac with
         | some q => if f.dstMac != bcastMac then sendFrame fuel st' s q f else floodPorts fuel st' s p f (List.range nd.ifaces.length)
         | none => floodPorts fuel st' s p f (List.range nd.ifaces.length)) := by
  simp only [switchRecv]
  rfl

/-- … and a unicast frame for `m` arriving afterwards on any other port `j` (from a different station `m'`) LEAVES THROUGH `p`:
the stale entry of a station that moved is gone with the first frame the station sends. -/
theorem C08_switch_forwards_to_last_port (fuel : Nat) (X : St) (s j p : Nat) (nd : Node) (ifc : Iface) (g : Frame) (m : Mac)
    (hn : X.node? s = some (nd.learnMac m p)) (hk : nd.kind = .switch) (hi : nd.ifaces[j]? = some ifc) (httl : 2 ≤ g.ttl)
    (hd : g.dstMac = m) (hb : m ≠ bcastMac) (hs : g.srcMac ≠ m) :
    ifaceRecv (fuel + 3) X s j g =
      sendFrame (fuel + 1) ((X.emit (.rx s j g.id g.ttl)).modNode s (fun nd => nd.learnMac g.srcMac j)) s p g.dec :=
  switch_known_step fuel X s j p (nd.learnMac m p) ifc g hn (by rw [learnMac_kind]; exact hk) (by rw [learnMac_ifaces]; exact hi) httl
    (by rw [hd]; exact hb)
    (by rw [hd, macPort_learn_other _ _ _ _ (Ne.symm hs)]; exact macPort_learn_self nd m p)

/-- Gen obligation: the shape of `Switch.receive_frame` / `_add_mac_table_entry` in the source. -/
theorem C08_gen_switch_learning : Gen.Forward.switchLearnsUnconditionallyAndRepoints = true := by decide

/-- non-vacuity: a table that points B (MAC 12) at port 3; a frame from 12 on port 1 re-points it. -/
example : (clSwitch.macPort 12, (clSwitch.learnMac 12 1).macPort 12) = (some 3, some 1) := by decide

end Primaite.Forward
