import PrimaiteModel.Model.Reward
import PrimaiteModel.Lemmas.RewardGraphTop
namespace Primaite.Reward
open Primaite.RewardGraph

theorem C10_has_cycle_sound_complete (g : Graph Name) : hasCycle g = true ↔ ¬ Acyclic g :=
  hasCycle_iff_not_acyclic g

end Primaite.Reward
