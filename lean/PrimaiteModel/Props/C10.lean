/-
C10 — reward = weighted sum of components; shared rewards use same-step values irrespective of declaration order;
cyclic sharing rejected at load; sticky vs non-sticky components; episode total = sum of step rewards.

Models: Model/RewardGraph.lean (`graph_has_cycle`, `topological_sort` as written), Model/Reward.lean (components,
`RewardFunction.update`, `setup_reward_sharing`, `update_agents`, the reward-relevant part of a step).
Proof developments: Lemmas/RewardGraphTopo, RewardGraphCycle, RewardGraphTop, RewardGame, RewardConfig.
Every theorem is for all graphs / configurations / weights / states / step sequences; none is a sample.
-/
import PrimaiteModel.Lemmas.RewardConfig
import PrimaiteModel.Gen.Reward
namespace Primaite.Reward
open Primaite.RewardGraph

/-! ## 1. `graph_has_cycle` and `topological_sort` -/

/-- `graph_has_cycle` answers `True` exactly when some node reaches itself along "shares from" arcs. -/
theorem C10_has_cycle_sound_complete {α : Type} [DecidableEq α] (g : Graph α) :
    hasCycle g = true ↔ ∃ u, Path g u u := by
  rw [hasCycle_iff_not_acyclic]
  unfold Acyclic
  constructor
  · intro h
    apply Classical.byContradiction
    intro hn
    exact h (fun u p => hn ⟨u, p⟩)
  · intro ⟨u, p⟩ h; exact h u p

/-- On an accepted (acyclic) graph, `topological_sort` lists every key, and each dependency of a listed node sits at a
strictly smaller index. -/
theorem C10_topo_deps_first {α : Type} [DecidableEq α] (g : Graph α) (h : hasCycle g = false) :
    (∀ k ∈ keys g, k ∈ topoSort g) ∧
    (∀ u v, u ∈ topoSort g → v ∈ nbrs g u → v ∈ topoSort g ∧ (topoSort g).idxOf v < (topoSort g).idxOf u) := by
  have hac := (hasCycle_false_iff g).mp h
  obtain ⟨hd, hk⟩ := topoSort_depsFirst' g hac
  exact ⟨hk, fun u v hu hv => ⟨hd.nbr_mem hu hv, hd.idx_lt hu hv⟩⟩

/-- No node is listed twice (an agent listed twice would have its reward added to its total twice), for every graph;
and with unique keys the list mentions exactly the nodes of the graph. -/
theorem C10_topo_nodup {α : Type} [DecidableEq α] (g : Graph α) :
    (topoSort g).Nodup ∧ (∀ x ∈ topoSort g, x ∈ univ g) ∧
    (hasCycle g = false → (keys g).Nodup → ∀ x, x ∈ topoSort g ↔ x ∈ univ g) :=
  ⟨(topoSort_nodup g).1, (topoSort_nodup g).2,
   fun h hk x => topoSort_mem_iff g ((hasCycle_false_iff g).mp h) hk x⟩

/-- Neither function's verdict depends on the order of the keys or of the neighbour collections: two graphs with the
same arcs are both rejected or both accepted, and the order computed for one is dependencies-first for the other. -/
theorem C10_graph_order_irrelevant (g g' : Graph Name) (h : ∀ u v, v ∈ nbrs g u ↔ v ∈ nbrs g' u) :
    hasCycle g = hasCycle g' ∧ (hasCycle g = false → DepsFirst g' (topoSort g)) := by
  have hac := Acyclic_congr h
  constructor
  · cases hb : hasCycle g' with
    | true => rw [hasCycle_iff_not_acyclic] at hb ⊢; exact fun x => hb (hac.mp x)
    | false => rw [hasCycle_false_iff] at hb ⊢; exact hac.mpr hb
  · intro hb
    exact DepsFirst_of_nbrs_sub (fun u v hv => (h u v).mpr hv) (topoSort_depsFirst' g ((hasCycle_false_iff g).mp hb)).1

theorem perm_of_nodup_mem_iff {l₁ l₂ : List Name} (h₁ : l₁.Nodup) (h₂ : l₂.Nodup) (h : ∀ x, x ∈ l₁ ↔ x ∈ l₂) :
    l₁.Perm l₂ := by
  rw [List.perm_iff_count]
  intro a
  rw [h₁.count, h₂.count]
  simp only [h a]

/-- In a loaded game the evaluation order is a permutation of the agents. -/
theorem C10_order_perm_agents (g : Game) (wf : WF g) : g.order.Perm (agentKeys g.agents) :=
  perm_of_nodup_mem_iff wf.orderNodup wf.keysNodup wf.orderMem

/-! ## 2. Loading: cyclic sharing is rejected, acyclic sharing over the agents is accepted -/

theorem foldE_updOne_ne_cycle (s : SimState) (l : List Name) :
    ∀ g, foldE (updOne s) g l ≠ .error .cycle := by
  induction l with
  | nil => intro g h; cases h
  | cons n l ih =>
    intro g
    simp only [foldE]
    cases hone : updOne s g n with
    | ok g' => exact ih g'
    | error e =>
      intro h
      have : e = .cycle := by cases h; rfl
      subst this
      unfold updOne at hone
      split at hone
      · cases hone
      · split at hone
        · split at hone
          · cases hone
          · split at hone <;> cases hone
        · cases hone

/-- `from_config` raises the cyclic-sharing error exactly when the "shares from" relation between the configured
agents has a cycle — whatever the iteration order of the neighbour sets. -/
theorem C10_cyclic_rejected (σ : List Name → List Name) (hσ : SetLike σ) (cfgs : List AgentCfg) :
    fromConfig σ cfgs = .error .cycle ↔ ∃ u, Path (depGraph (buildAgents cfgs)) u u := by
  have hac : Acyclic (sharingGraph σ (buildAgents cfgs)) ↔ Acyclic (depGraph (buildAgents cfgs)) :=
    Acyclic_congr (sharingGraph_nbrs_iff σ hσ _)
  have hex : (¬ Acyclic (depGraph (buildAgents cfgs))) ↔ ∃ u, Path (depGraph (buildAgents cfgs)) u u := by
    unfold Acyclic
    constructor
    · intro h; apply Classical.byContradiction; intro hn; exact h (fun u p => hn ⟨u, p⟩)
    · intro ⟨u, p⟩ h; exact h u p
  rw [← hex, ← hac, ← hasCycle_iff_not_acyclic]
  constructor
  · intro h
    cases hb : hasCycle (sharingGraph σ (buildAgents cfgs)) with
    | true => rfl
    | false =>
      unfold fromConfig at h
      simp only [hb, Bool.false_eq_true, if_false] at h
      exact absurd h (foldE_updOne_ne_cycle _ _ _)
  · exact (fromConfig_spec σ hσ cfgs).1

/-- Every acyclic sharing graph over the agents is accepted; the loaded game holds the configured agents and is
well-formed: the evaluation order lists each agent once, dependencies first. -/
theorem C10_acyclic_accepted (σ : List Name → List Name) (hσ : SetLike σ) (cfgs : List AgentCfg)
    (hac : ∀ u, ¬ Path (depGraph (buildAgents cfgs)) u u) (hc : Closed (buildAgents cfgs)) :
    ∃ g, fromConfig σ cfgs = .ok g ∧ g.agents = buildAgents cfgs ∧ g.stepCounter = 0 ∧ WF g := by
  have h : hasCycle (sharingGraph σ (buildAgents cfgs)) = false := by
    rw [hasCycle_false_iff]
    exact (Acyclic_congr (sharingGraph_nbrs_iff σ hσ _)).mpr hac
  obtain ⟨e, wf⟩ := (fromConfig_spec σ hσ cfgs).2 h hc
  exact ⟨_, e, rfl, rfl, wf⟩

/-- A configuration whose sharing names an agent that does not exist is refused too (acyclic or not): the model's
`from_config` answers `KeyError` — the name enters the evaluation order and the first `update_agents` looks it up. So
*only* sharing graphs over the agents load, and the loaded ones are exactly the acyclic ones. -/
theorem C10_dangling_rejected (σ : List Name → List Name) (hσ : SetLike σ) (cfgs : List AgentCfg)
    (hnc : ¬ Closed (buildAgents cfgs)) :
    fromConfig σ cfgs = .error .cycle ∨ fromConfig σ cfgs = .error .keyError := by
  cases hb : hasCycle (sharingGraph σ (buildAgents cfgs)) with
  | true => exact Or.inl ((fromConfig_spec σ hσ cfgs).1 hb)
  | false => exact Or.inr (fromConfig_dangling σ hσ cfgs hb hnc)

/-! ## 3. The step reward: weighted sum, shared components read the same step's values -/

/-- `RewardFunction.update`: `current_reward = Σ wᵢ · cᵢ`, each `cᵢ` evaluated on the post-step state `s`, the agent's
own latest history item `it`, and (for shared components) the callback `cur`. -/
theorem C10_weighted_sum (s : SimState) (it : Item) (cur : Name → Val) (comps : List (Comp × Val)) :
    (updateComps s it cur 0 comps).1 = (comps.map (fun cw => cw.2 * (calcComp s it cur cw.1).1)).sum := by
  rw [updateComps_fst]
  simp [weighted, Rat.zero_add]

/-- **The step.** From any well-formed game (in particular any loaded one, after any number of steps), a step
succeeds and, for every agent `n`: its new `current_reward` is the weighted sum of its components evaluated on the
post-step state `s`, on *its own* new history item `items n`, with every shared component answering from the game
*after* the step; its total grows by exactly that reward; its component memories advance by `calcComp`. -/
theorem C10_step (g : Game) (wf : WF g) (items : Name → Item) (s : SimState) :
    ∃ g', gameStep g items s = .ok g' ∧ WF g' ∧ g'.stepCounter = g.stepCounter + 1 ∧
      ∀ n a, g.agents.lookup n = some a → ∃ a', g'.agents.lookup n = some a' ∧
        a'.current = (a.comps.map (fun cw => cw.2 * (calcComp s (items n) (curOf g'.agents) cw.1).1)).sum ∧
        a'.total = a.total + a'.current ∧
        a'.comps = a.comps.map (fun cw => ((calcComp s (items n) (curOf g'.agents) cw.1).2, cw.2)) ∧
        a'.hist = (items n, some a'.current) :: a.hist := by
  obtain ⟨g', hok, wf', _, hs, _, hf⟩ := gameStep_spec g wf items s
  refine ⟨g', hok, wf', hs, ?_⟩
  intro n a ha
  refine ⟨_, hf n a ha, ?_, ?_, ?_, ?_⟩
  · rw [updAgent_pushItem]; exact C10_weighted_sum _ _ _ _
  · rw [updAgent_pushItem]
  · rw [updAgent_pushItem]; exact updateComps_snd _ _ _ _ _
  · rw [updAgent_pushItem]

theorem mem_sharedNames_of_mem {comps : List (Comp × Val)} {v : Name} {w : Val}
    (h : (Comp.shared v, w) ∈ comps) : v ∈ sharedNames comps := by
  induction comps with
  | nil => simp at h
  | cons cw rest ih =>
    obtain ⟨c, w'⟩ := cw
    rcases List.mem_cons.mp h with h' | h'
    · cases h'; simp [sharedNames]
    · exact sharedNames_cons_mem (ih h')

/-- **Same-step values.** The value a shared component of agent `n` on agent `v` contributes in a step is `v`'s
`current_reward` after that step (not a stale one), for every well-formed game. -/
theorem C10_shared_same_step (g : Game) (wf : WF g) (items : Name → Item) (s : SimState) (g' : Game)
    (hok : gameStep g items s = .ok g') (n v : Name) (a : Agent) (w : Val)
    (ha : g.agents.lookup n = some a) (hv : (Comp.shared v, w) ∈ a.comps) :
    ∃ av', g'.agents.lookup v = some av' ∧
      (calcComp s (items n) (curOf g'.agents) (.shared v)).1 = av'.current := by
  obtain ⟨g'', hok', _, _, _, hk, _⟩ := gameStep_spec g wf items s
  rw [hok] at hok'; cases hok'
  have hvs : v ∈ sharedNames a.comps := mem_sharedNames_of_mem hv
  have hvk : v ∈ agentKeys g'.agents := by
    rw [hk]; exact (wf.orderMem v).mp (shared_mem_order wf ha hvs).1
  obtain ⟨av', hav⟩ := mem_keys_lookup hvk
  exact ⟨av', hav, by simp [calcComp, curOf, hav]⟩

/-- **Evaluation order is irrelevant.** Two well-formed games holding the same agents — in any dictionary orders, with
any two dependencies-first evaluation orders — hold the same agents after `update_agents`. -/
theorem C10_evaluation_order_irrelevant (s : SimState) (g1 g2 : Game) (wf1 : WF g1) (wf2 : WF g2)
    (same : SameAgents g1 g2) (hpos1 : 0 < g1.stepCounter) (hpos2 : 0 < g2.stepCounter)
    (hhist : ∀ n a, g1.agents.lookup n = some a → a.hist ≠ []) :
    ∃ g1' g2', updateAgents s g1 = .ok g1' ∧ updateAgents s g2 = .ok g2' ∧ SameAgents g1' g2' :=
  updateAgents_order_irrelevant s g1 g2 wf1 wf2 same hpos1 hpos2 hhist

/-- **Declaration order is irrelevant** (`topo_order_irrelevant`). Two configurations listing the same agents in any
two orders, under any two iteration orders of the neighbour sets: both rejected as cyclic, or both loaded and then
every run of steps leaves the same rewards, totals, histories and memories for every agent. -/
theorem C10_declaration_order_irrelevant (σ σ' : List Name → List Name) (hσ : SetLike σ) (hσ' : SetLike σ')
    (cfgs cfgs' : List AgentCfg) (hp : cfgs.Perm cfgs') (hn : (cfgs.map (·.ref)).Nodup)
    (hc : Closed (buildAgents cfgs)) :
    (fromConfig σ cfgs = .error .cycle ∧ fromConfig σ' cfgs' = .error .cycle) ∨
    (∃ g g', fromConfig σ cfgs = .ok g ∧ fromConfig σ' cfgs' = .ok g' ∧ WF g ∧ WF g' ∧
      ∀ steps, ∃ h h', run g steps = .ok h ∧ run g' steps = .ok h' ∧ SameAgents h h') :=
  fromConfig_order_irrelevant σ σ' hσ hσ' cfgs cfgs' hp hn hc

/-! ## 3b. Agents with several shared-reward components; the driver's set-iteration oracle; weights 0 and omitted -/

/-- **Every share is an arc.** The graph handed to `graph_has_cycle` / `topological_sort` has, for every agent, exactly the
names of its shared-reward components as neighbours — the first, a middle and the last one alike, repeated names once or
more — whatever the iteration order of the set. (A graph that records only some of an agent's shares is not this graph:
the rig compares the real dictionary with the declared shares on every load.) -/
theorem C10_every_share_is_an_arc (σ : List Name → List Name) (hσ : SetLike σ) (as : List (Name × Agent))
    (u : Name) (a : Agent) (ha : as.lookup u = some a) (v : Name) :
    v ∈ nbrs (sharingGraph σ as) u ↔ ∃ w, (Comp.shared v, w) ∈ a.comps := by
  rw [nbrs_sharingGraph, ha]
  simp only
  rw [hσ]
  constructor
  · intro h
    generalize a.comps = comps at h
    induction comps with
    | nil => simp [sharedNames] at h
    | cons cw rest ih =>
      obtain ⟨c, w'⟩ := cw
      cases c <;> simp only [sharedNames, List.mem_cons] at h
      case shared b =>
        rcases h with h | h
        · subst h; exact ⟨w', by simp⟩
        · obtain ⟨w, hw⟩ := ih h; exact ⟨w, List.mem_cons_of_mem _ hw⟩
      all_goals (obtain ⟨w, hw⟩ := ih h; exact ⟨w, List.mem_cons_of_mem _ hw⟩)
  · intro ⟨w, hw⟩; exact mem_sharedNames_of_mem hw

/-- **Every share is evaluated first.** In a game loaded by `from_config` (any neighbour-set order), and after any run of
steps, an agent with any number of shared-reward components is evaluated after *each* of the agents it shares from —
not only after the one named by its last component. -/
theorem C10_every_share_evaluated_before (σ : List Name → List Name) (hσ : SetLike σ) (cfgs : List AgentCfg) (g : Game)
    (hload : fromConfig σ cfgs = .ok g) (hc : Closed (buildAgents cfgs))
    (n v : Name) (a : Agent) (w : Val) (ha : g.agents.lookup n = some a) (hv : (Comp.shared v, w) ∈ a.comps) :
    v ∈ g.order ∧ n ∈ g.order ∧ g.order.idxOf v < g.order.idxOf n := by
  have hb : hasCycle (sharingGraph σ (buildAgents cfgs)) = false := by
    cases hb : hasCycle (sharingGraph σ (buildAgents cfgs)) with
    | false => rfl
    | true => rw [(fromConfig_spec σ hσ cfgs).1 hb] at hload; cases hload
  obtain ⟨e, wf⟩ := (fromConfig_spec σ hσ cfgs).2 hb hc
  rw [e] at hload; cases hload
  have h := shared_mem_order wf ha (mem_sharedNames_of_mem hv)
  exact ⟨h.1, (wf.orderMem n).mpr (List.mem_map.mpr ⟨(n, a), mem_of_lookup_agents ha, rfl⟩), h.2⟩

/-- The oracle the driver hands to `fromConfig` is `SetLike` for EVERY table of observations the rig may send, so each
model run the implementation is compared with lies inside the hypotheses of the theorems above: an observed neighbour
collection that is not the set of the agent's shares is never copied into the model. -/
theorem C10_sigmaOf_setLike (table : List (List Name × List Name)) : SetLike (sigmaOf table) := by
  intro l x
  unfold sigmaOf
  split
  · split
    · rename_i o _ h
      simp only [Bool.and_eq_true, List.all_eq_true, decide_eq_true_eq] at h
      exact ⟨fun hx => h.1 x hx, fun hx => h.2 x hx⟩
    · exact List.mem_eraseDups
  · exact List.mem_eraseDups

/-- A component configured with weight 0 is switched off: it contributes nothing to the step reward, whatever it
evaluates to (its memory still advances). Negative weights are covered by `C10_weighted_sum` like any other. -/
theorem C10_zero_weight_contributes_nothing (s : SimState) (it : Item) (cur : Name → Val) (c : Comp)
    (pre post : List (Comp × Val)) :
    (updateComps s it cur 0 (pre ++ (c, 0) :: post)).1 = (updateComps s it cur 0 (pre ++ post)).1 := by
  rw [C10_weighted_sum, C10_weighted_sum]
  simp [Rat.zero_mul, Rat.zero_add]

/-! ### The accumulation over an arbitrary carrier (why the theorems speak of exact arithmetic, and what floats keep) -/

/-- `total = 0.0; for (w, c): total += w * c` over an arbitrary carrier with arbitrary `add` / `mul` -/
def weightedFold {V : Type} (add mul : V → V → V) (zero : V) (wcs : List (V × V)) : V :=
  wcs.foldl (fun acc wc => add acc (mul wc.1 wc.2)) zero

theorem updateComps_fst_eq_foldl (s : SimState) (it : Item) (cur : Name → Val) (comps : List (Comp × Val)) (acc : Val) :
    (updateComps s it cur acc comps).1 =
      (comps.map (fun cw => (cw.2, (calcComp s it cur cw.1).1))).foldl (fun a wc => a + wc.1 * wc.2) acc := by
  induction comps generalizing acc with
  | nil => rfl
  | cons cw rest ih =>
    obtain ⟨c, w⟩ := cw
    simp only [updateComps, List.map_cons, List.foldl_cons]
    exact ih _

/-- The model's accumulation is literally the left fold the code performs, in the code's order of operations
(`C10_gen_update`, Props/C10Calc.lean, proves that the translated source of `RewardFunction.update` computes it). -/
theorem C10_update_is_left_fold (s : SimState) (it : Item) (cur : Name → Val) (comps : List (Comp × Val)) :
    (updateComps s it cur 0 comps).1 =
      weightedFold (· + ·) (· * ·) (0 : Val) (comps.map (fun cw => (cw.2, (calcComp s it cur cw.1).1))) :=
  updateComps_fst_eq_foldl s it cur comps 0

/-- **Weighted sum over any lawful arithmetic.** In every carrier whose addition is associative with a two-sided zero
(any ordered field in particular; no law of `mul` is needed) that left fold equals the sum `w₁·c₁ + (w₂·c₂ + (… + 0))`.
IEEE doubles are not such a carrier (addition is not associative): for them the rig checks that the fold the code computes
lies within the forward rounding bound of this sum. -/
theorem C10_weighted_sum_any_arithmetic {V : Type} (add mul : V → V → V) (zero : V)
    (add_assoc : ∀ a b c, add (add a b) c = add a (add b c)) (zero_add : ∀ a, add zero a = a)
    (add_zero : ∀ a, add a zero = a) (wcs : List (V × V)) :
    weightedFold add mul zero wcs = (wcs.map (fun wc => mul wc.1 wc.2)).foldr add zero := by
  unfold weightedFold
  have h : ∀ (l : List (V × V)) (acc : V),
      l.foldl (fun acc wc => add acc (mul wc.1 wc.2)) acc = add acc ((l.map (fun wc => mul wc.1 wc.2)).foldr add zero) := by
    intro l
    induction l with
    | nil => intro acc; simp [add_zero]
    | cons x r ih => intro acc; simp only [List.foldl_cons, List.map_cons, List.foldr_cons]; rw [ih, add_assoc]
  rw [h, zero_add]

/-- the associativity hypothesis is needed: with a non-associative `add` (truncated subtraction) the two differ -/
example : weightedFold (fun a b : Nat => a - b) (· * ·) 5 [(1, 2), (1, 3)]
    ≠ ([(1, 2), (1, 3)].map (fun wc : Nat × Nat => wc.1 * wc.2)).foldr (fun a b => a - b) 5 := by decide

/-! ## 4. Episode total = sum of step rewards -/

/-- From a loaded game, after any run of steps: every agent has one history item per step, each carrying that step's
reward, the newest equal to `current_reward`, and `total_reward` is their sum. -/
theorem C10_total_is_sum (σ : List Name → List Name) (hσ : SetLike σ) (cfgs : List AgentCfg) (g : Game)
    (hload : fromConfig σ cfgs = .ok g) (hc : Closed (buildAgents cfgs))
    (steps : List ((Name → Item) × SimState)) :
    ∃ g', run g steps = .ok g' ∧ g'.stepCounter = steps.length ∧
      ∀ n, n ∈ agentKeys g.agents → ∃ a', g'.agents.lookup n = some a' ∧
        a'.hist.length = steps.length ∧ (∀ e ∈ a'.hist, e.2 ≠ none) ∧
        a'.total = (histRewards a').sum ∧ (steps ≠ [] → (histRewards a').head? = some a'.current) := by
  have hb : hasCycle (sharingGraph σ (buildAgents cfgs)) = false := by
    cases hb : hasCycle (sharingGraph σ (buildAgents cfgs)) with
    | false => rfl
    | true => rw [(fromConfig_spec σ hσ cfgs).1 hb] at hload; cases hload
  obtain ⟨e, wf⟩ := (fromConfig_spec σ hσ cfgs).2 hb hc
  rw [e] at hload; cases hload
  obtain ⟨_, hfresh⟩ := buildAgents_inv cfgs
  have hbooked : ∀ n a, (buildAgents cfgs).lookup n = some a → Booked a ∧ a.hist = [] := by
    intro n a ha
    obtain ⟨_, ht, hh⟩ := hfresh (n, a) (mem_of_lookup_agents ha)
    simp only at ht hh
    exact ⟨⟨by rw [hh]; simp, by rw [ht]; simp [histRewards, hh], by rw [hh]; simp⟩, hh⟩
  obtain ⟨g', hrun, _, hs, _, hf⟩ := run_spec steps _ wf (fun n a h => (hbooked n a h).1)
  refine ⟨g', hrun, by rw [hs]; simp, ?_⟩
  intro n hn
  obtain ⟨a, ha⟩ := mem_keys_lookup hn
  obtain ⟨a', ha', hb', hl'⟩ := hf n a ha
  refine ⟨a', ha', by rw [hl', (hbooked n a ha).2]; simp, hb'.allSaved, hb'.total, ?_⟩
  intro hne
  apply hb'.current
  intro h0
  rw [h0, (hbooked n a ha).2] at hl'
  simp at hl'
  exact hne (List.eq_nil_of_length_eq_zero hl'.symm)

/-! ## 5. Sticky and non-sticky components

The memory cell shared by the three sticky components: a step either carries a *qualifying event* with a fresh value
(`some v`) or not (`none`). -/

def stickyStep (sticky : Bool) (mem : Val) : Option Val → Val
  | some v => v
  | none => if sticky then mem else 0

def stickyRun (sticky : Bool) : Val → List (Option Val) → Val
  | m, [] => m
  | m, e :: es => stickyRun sticky (stickyStep sticky m e) es

theorem stickyRun_append (sticky : Bool) (m : Val) (es fs : List (Option Val)) :
    stickyRun sticky m (es ++ fs) = stickyRun sticky (stickyRun sticky m es) fs := by
  induction es generalizing m with
  | nil => rfl
  | cons e es ih => simp only [List.cons_append, stickyRun]; exact ih _

/-- a sticky component keeps its last value through any number of steps without qualifying event -/
theorem C10_sticky_holds (m : Val) (es : List (Option Val)) (k : Nat) :
    stickyRun true m (es ++ List.replicate k none) = stickyRun true m es := by
  rw [stickyRun_append]
  induction k with
  | zero => rfl
  | succ k ih => simp only [List.replicate_succ, stickyRun, stickyStep, if_true]; exact ih

/-- the next qualifying event replaces the value, sticky or not, whatever was remembered -/
theorem C10_sticky_event (sticky : Bool) (m : Val) (es : List (Option Val)) (v : Val) :
    stickyRun sticky m (es ++ [some v]) = v := by
  rw [stickyRun_append]; rfl

/-- a non-sticky component is back at zero after any step without qualifying event -/
theorem C10_nonsticky_zero (m : Val) (es : List (Option Val)) :
    stickyRun false m (es ++ [none]) = 0 := by
  rw [stickyRun_append]; rfl

/-- qualifying event of `GreenAdminDatabaseUnreachablePenalty`: the agent's latest request is the database-client
execute on the configured node; fresh value ±1 by the response status -/
def greenDbEvent (it : Item) (node : Name) : Option Val :=
  if it.requestIs (dbClientRequest node) then some (if it.ok then 1 else -1) else none

theorem C10_greenDb_is_sticky_cell (it : Item) (node : Name) (sticky : Bool) (mem : Val) :
    calcGreenDb it node sticky mem = stickyStep sticky mem (greenDbEvent it node) := by
  unfold calcGreenDb greenDbEvent stickyStep
  by_cases h : it.requestIs (dbClientRequest node) = true
  · simp [h]
  · cases sticky <;> simp [h]

/-- qualifying event of `WebpageUnavailablePenalty` (as repaired), given the leaf `access state location_in_state` and the
value the recomputation yields when it does not raise: the agent's latest request is the web-browser execute on the
configured node; a browser that is absent from the state also resets the cell to 0 -/
def webpageEvent (leaf : PyVal) (it : Item) (node : Name) (fresh : Val) : Option Val :=
  if it.requestIs (browserRequest node) then some fresh
  else if leaf.isNotPresent then some 0 else none

theorem C10_webpage_is_sticky_cell (s : SimState) (it : Item) (node : Name) (sticky : Bool) (mem : Val) (leaf : PyVal)
    (hleaf : PyVal.access s (webpageLoc node) = .ok leaf) (fresh : Val)
    (hfresh : it.requestIs (browserRequest node) = true → webpageFreshE leaf it = .ok fresh) :
    calcWebpageE s it node sticky mem = .ok (stickyStep sticky mem (webpageEvent leaf it node fresh)) := by
  unfold calcWebpageE webpageEvent stickyStep
  rw [hleaf]
  by_cases h : it.requestIs (browserRequest node) = true
  · simp [h, hfresh h]
  · cases hb : leaf.isNotPresent <;> cases sticky <;> simp [h, hb]

/-- `WebServer404Penalty` while the service is present in the state with a `response_codes_this_timestep` of an accepted
shape: qualifying event = truthy codes; value and memory coincide and follow the cell -/
def web404Event (codes : PyVal) (avg : Val) : Option Val := if codes.truthy then some avg else none

theorem C10_web404_is_sticky_cell (s : SimState) (node service : Name) (sticky : Bool) (mem : Val) (leaf codes : PyVal)
    (hleaf : PyVal.access s (web404Loc node service) = .ok leaf) (hp : leaf.isNotPresent = false)
    (hc : leaf.get "response_codes_this_timestep" = .ok codes) (avg : Val)
    (havg : codes.truthy = true → PyVal.avgTable status2rewTable 0 codes = .ok avg) :
    calcWeb404E s node service sticky mem =
      .ok (stickyStep sticky mem (web404Event codes avg), stickyStep sticky mem (web404Event codes avg)) := by
  unfold calcWeb404E web404Event stickyStep
  rw [hleaf]
  simp only [hp, Bool.false_eq_true, if_false, hc]
  by_cases h : codes.truthy = true
  · simp [h, havg h]
  · cases sticky <;> simp [h]

/-- … and while the service is absent from the state (not installed): the value is 0 and the memory is untouched -/
theorem C10_web404_absent (s : SimState) (node service : Name) (sticky : Bool) (mem : Val)
    (hp : PyVal.access s (web404Loc node service) = .ok .notPresent) : calcWeb404E s node service sticky mem = .ok (0, mem) := by
  unfold calcWeb404E; rw [hp]; rfl

/-- the three components' memories are threaded through the steps by `calcCompE` exactly as the cells above:
value returned = memory stored (for the two request-driven components always; for the 404 component when present) -/
theorem C10_component_memory (s : SimState) (it : Item) (cur : Name → Val) :
    (∀ n st m, calcCompE s it cur (.greenDb n st m) =
        .ok (stickyStep st m (greenDbEvent it n), .greenDb n st (stickyStep st m (greenDbEvent it n)))) ∧
    (∀ n st m v, calcWebpageE s it n st m = .ok v → calcCompE s it cur (.webpage n st m) = .ok (v, .webpage n st v)) ∧
    (∀ n sv st m r, calcWeb404E s n sv st m = .ok r → calcCompE s it cur (.web404 n sv st m) = .ok (r.1, .web404 n sv st r.2)) := by
  refine ⟨?_, ?_, ?_⟩
  · intro n st m; simp [calcCompE, C10_greenDb_is_sticky_cell]
  · intro n st m v h; simp [calcCompE, h, Except.map]
  · intro n sv st m r h; simp [calcCompE, h, Except.map]

/-- F-18, the code before the repair: a non-sticky `WebpageUnavailablePenalty` that showed 1.0 does *not* return to 0 on a
step without a new request — it re-reads the browser's last outcome (stays 1.0), and turns −1.0 when the unrelated action
of that step fails. (Witness replayed on the implementation by corpus/C10/f18_0.json.) -/
theorem C10_F18_asWritten_counterexample :
    let s : SimState := .dict [(.str "network", .dict [(.str "nodes", .dict [(.str "pc1", .dict [(.str "applications",
      .dict [(.str "web-browser", .dict [(.str "history", .list [.dict [(.str "url", .str "http://x"), (.str "outcome", .int 200)]])])])])])])]
    let idle : Item := { action := "do-nothing", request := .list [.str "do-nothing"], status := "success" }
    let failing : Item := { action := "x", request := .list [.str "network", .str "node", .str "pc2", .str "service",
      .str "dns-server", .str "stop"], status := "failure" }
    (calcWebpageAsWrittenE s idle "pc1" false 1).toOption = some 1 ∧
    (calcWebpageAsWrittenE s failing "pc1" false 1).toOption = some (-1) ∧
    (calcWebpageE s idle "pc1" false 1).toOption = some 0 := by
  decide

/-! ## 6. Translator tie: the regenerated tables agree with the model
(the semantic tie of the seven `calculate` bodies is in Props/C10Calc.lean) -/

/-- literal defaults the model and the driver use: sticky flags, initial memories, `ActionPenalty`'s penalties, the start
values of `current_reward` / `total_reward`, and the registry of component types (a new registered component class is a
component the model does not know) -/
theorem C10_gen_defaults :
    Gen.Reward.stickyDefaults = [("WebServer404Penalty", true), ("WebpageUnavailablePenalty", true),
                                 ("GreenAdminDatabaseUnreachablePenalty", true)] ∧
    Gen.Reward.memoryDefaults.all (fun p => p.2 == 0) = true ∧
    Gen.Reward.actionPenaltyDefaults = [("action_penalty", -1), ("do_nothing_penalty", 0)] ∧
    Gen.Reward.rewardStarts = [("current_reward", ({ comps := [] } : Agent).current), ("total_reward", ({ comps := [] } : Agent).total)] ∧
    Gen.Reward.componentTypes = [("DummyReward", "dummy"), ("DatabaseFileIntegrity", "database-file-integrity"),
      ("WebServer404Penalty", "web-server-404-penalty"), ("WebpageUnavailablePenalty", "webpage-unavailable-penalty"),
      ("GreenAdminDatabaseUnreachablePenalty", "green-admin-database-unreachable-penalty"), ("SharedReward", "shared-reward"),
      ("ActionPenalty", "action-penalty")] := by
  decide

/-- text-shape flag of the two one-line agent methods (recomputed from the source on every run; deliberately blunt — their
semantic tie is the differential rig) -/
theorem C10_gen_shape : Gen.Reward.agentRewardPlumbing = true := by
  decide

/-- with exactly one `add` per shared component, the names added to an agent's set are its shared names in component order -/
theorem insertedNames_eq (ops : List SOp) (h : ∀ a : Name, addsOf a ops = [a]) (comps : List (Comp × Val)) :
    insertedNames ops comps = sharedNames comps := by
  induction comps with
  | nil => rfl
  | cons c rest ih =>
    obtain ⟨c, w⟩ := c
    cases c <;> simp [insertedNames, sharedNames, ih, h]

/-- **`setup_reward_sharing` as extracted from the source IS the model's**: for every set-iteration oracle `σ` and every dict of
agents, running the extracted statements (one set per agent; for every `SharedReward` component the extracted `add` / callback
statements; then the extracted tail) raises the cycle error exactly when `hasCycle (sharingGraph σ as)`, otherwise leaves
`topoSort (sharingGraph σ as)` in `_reward_calculation_order` — what `fromConfig` does; and every shared component gets the
callback reading `current_reward`. -/
theorem C10_gen_setup_reward_sharing (σ : List Name → List Name) (as : List (Name × Agent)) :
    setupProg σ Gen.Reward.setupSharingProgram as =
      (if hasCycle (sharingGraph σ as) then .error .cycle else .ok (topoSort (sharingGraph σ as))) ∧
    SOp.setCallback ∈ Gen.Reward.setupSharingProgram.perShared := by
  have hadds : ∀ a : Name, addsOf a Gen.Reward.setupSharingProgram.perShared = [a] := by
    intro a; simp [Gen.Reward.setupSharingProgram, addsOf]
  have hg : progGraph σ Gen.Reward.setupSharingProgram as = sharingGraph σ as := by
    simp only [progGraph, sharingGraph, insertedNames_eq _ hadds]
  refine ⟨?_, by decide⟩
  simp only [setupProg, hg]
  cases hc : hasCycle (sharingGraph σ as) <;> simp [Gen.Reward.setupSharingProgram, runTail, hc]

/-- the same, as `fromConfig` uses it -/
theorem C10_gen_setup_reward_sharing_fromConfig (σ : List Name → List Name) (cfgs : List AgentCfg) :
    fromConfig σ cfgs =
      match setupProg σ Gen.Reward.setupSharingProgram (buildAgents cfgs) with
      | .error e => .error e
      | .ok order => updateAgents (.dict []) { agents := buildAgents cfgs, order := order, stepCounter := 0 } := by
  rw [(C10_gen_setup_reward_sharing σ (buildAgents cfgs)).1]
  simp only [fromConfig]
  cases hasCycle (sharingGraph σ (buildAgents cfgs)) <;> simp

/-! a program that is NOT `setup_reward_sharing` is told apart: no cycle check (a 2-cycle loads); two `add`s are harmless (a set) only
through `σ`; the order never assigned -/
example : (setupProg id { perShared := [.addArc, .setCallback], tail := [.assignOrder] }
    [("a", { comps := [(.shared "b", 1)] }), ("b", { comps := [(.shared "a", 1)] })]).toOption = some ["b", "a"] := by decide
example : (match setupProg id { perShared := [.addArc, .setCallback], tail := [.raiseIfCycle] }
    [("a", { comps := [(.shared "b", 1)] }), ("b", { comps := [] })] with | .error e => some e | .ok _ => none) = some .attributeError := by decide

/-! The two graph functions of science.py are no longer text-pinned: they are translated statement by statement and proved equal to
`topoSort` / `hasCycle` for every graph in Props/C10Graph.lean (`C10_gen_topological_sort`, `C10_gen_graph_has_cycle`). -/

/-- **the three `step` methods, as extracted on this run, compute the rewards on the post-step state and return them**: in the
first step of an episode and in every later one there is exactly one simulator tick, `update_agents` runs exactly once and on a
`get_sim_state()` snapshot taken AFTER that tick, and the two environments return `current_reward` (not the total), read once and
AFTER `update_agents` (`pipeOK`, Model/Reward.lean). -/
theorem C10_gen_step_pipelines :
    Gen.Reward.stepPipelines.map (·.1) = ["PrimaiteGame.step", "PrimaiteGymEnv.step", "PrimaiteRayMARLEnv.step"] ∧
    Gen.Reward.stepPipelines.map (·.2.1) = [false, true, true] ∧
    Gen.Reward.stepPipelines.all (fun p => pipeOK p.2.1 p.2.2) = true := by
  decide

/-! `pipeOK` tells the wrong pipelines apart: rewards on the snapshot taken before the tick; the returned reward read before
`update_agents`; the total returned; `update_agents` only in the first step. -/
example : pipeOK false [(false, .applyActions), (false, .getState "s"), (false, .advance), (false, .updateAgents "s")] = false := by decide
example : pipeOK true [(false, .advance), (false, .getState "s"), (false, .readReward false), (false, .updateAgents "s")] = false := by decide
example : pipeOK true [(false, .advance), (false, .getState "s"), (false, .updateAgents "s"), (false, .readReward true)] = false := by decide
example : pipeOK false [(false, .advance), (true, .getState "s"), (true, .updateAgents "s")] = false := by decide
example : pipeOK false [(true, .getState "s0"), (false, .advance), (false, .getState "s"), (false, .updateAgents "s0")] = false := by decide

/-- a component whose configuration omits `weight` is registered with the model's default, and `RewardFunction.__init__`
passes the configured weight to `register_component` unchanged -/
theorem C10_gen_default_weight :
    Gen.Reward.defaultWeight = some defaultWeight ∧ Gen.Reward.registerDefaultWeight = some defaultWeight ∧
    Gen.Reward.weightPassedUnchanged = true := by
  decide

/-! ## 7. Non-vacuity: concrete non-trivial instances of the hypotheses used above -/

def exCfgs : List AgentCfg :=
  [ { ref := "blue", comps := [(.shared "g1", 1), (.shared "g2", 1/2), (.actionPenalty (-1) (1/4), 1)] },
    { ref := "g2", comps := [(.webpage "pc2" false 0, 1), (.shared "g1", 1/4)] },
    { ref := "g1", comps := [(.greenDb "pc1" true 0, 3/4), (.web404 "srv" "web-server" true 0, 1)] } ]

/-- `SetLike` is inhabited by the identity and by reversal (a different iteration order). -/
example : SetLike id ∧ SetLike List.reverse := ⟨fun _ _ => Iff.rfl, fun _ _ => List.mem_reverse⟩

/-- the example configuration is closed, acyclic, has distinct refs; it loads, dependants declared first, and the
evaluation order puts dependencies first -/
example : (exCfgs.map (·.ref)).Nodup := by decide
example : (fromConfig id exCfgs).toOption.map (·.order) = some ["g1", "g2", "blue"] := by decide
example : (fromConfig List.reverse exCfgs.reverse).toOption.map (·.order) = some ["g1", "g2", "blue"] := by decide
example : hasCycle (sharingGraph id (buildAgents exCfgs)) = false := by decide

/-- a cyclic configuration (g1 shares from blue as well) is rejected -/
example : (match fromConfig id (exCfgs ++ [{ ref := "g1", comps := [(.shared "blue", 1)] }]) with
    | .error .cycle => true | _ => false) = true := by decide

/-- a step on the loaded example: g1 queries the database successfully (+1 · 3/4, and 404s average −1), g2 does nothing,
blue acts; blue's reward uses g1's and g2's rewards *of this step*: 1·(−1/4) + 1/2·(−1/16) + 1·(−1) -/
example :
    ((fromConfig id exCfgs).toOption.bind (fun g =>
      (gameStepE g (fun n => if n = "g1" then { action := "x", request := PyVal.strs (dbClientRequest "pc1"), status := "success" }
                            else if n = "blue" then { action := "y", request := .list [.str "y"], status := "success" }
                            else { action := "do-nothing", request := .list [.str "do-nothing"], status := "success" })
        (.dict [(.str "network", .dict [(.str "nodes", .dict [
          (.str "srv", .dict [(.str "services", .dict [(.str "web-server", .dict [(.str "response_codes_this_timestep", .list [.int 404, .int 404])])])]),
          (.str "pc2", .dict [(.str "applications", .dict [(.str "web-browser", .dict [(.str "history", .list [])])])])])])])).toOption)).map
      (fun g => g.agents.map (fun p => (p.1, p.2.current)))
      = some [("blue", -41/32), ("g2", -1/16), ("g1", -1/4)] := by decide +kernel

/-- an agent with three shared-reward components, the same agent named twice, declared before everything it shares
from: every share is an arc, the order puts all of them first, and a cycle through the FIRST-listed share is rejected -/
def exMulti : List AgentCfg :=
  [ { ref := "hub", comps := [(.shared "x", 1/2), (.actionPenalty (-1) (1/4), 1), (.shared "y", -1), (.shared "x", 1/4), (.shared "z", 0)] },
    { ref := "z", comps := [(.actionPenalty (-1/2) (1/8), defaultWeight)] },
    { ref := "y", comps := [(.shared "z", 1)] },
    { ref := "x", comps := [(.shared "y", 3/4)] } ]
example : (fromConfig (sigmaOf []) exMulti).toOption.map (·.order) = some ["z", "y", "x", "hub"] := by decide
example : (fromConfig (sigmaOf [(["x", "y", "x", "z"], ["z", "x", "y"])]) exMulti).toOption.map (·.order)
    = some ["z", "y", "x", "hub"] := by decide
/-- an observation that lost a name is not followed (the order still has `x` before `hub`) -/
example : sigmaOf [(["x", "y", "x", "z"], ["z"])] ["x", "y", "x", "z"] = ["x", "y", "z"] := by decide
example : (match fromConfig (sigmaOf []) (exMulti ++ [{ ref := "x", comps := [(.shared "hub", 1)] }]) with
    | .error .cycle => true | _ => false) = true := by decide

end Primaite.Reward
