/-
C19, part 8 (round 6): LIVENESS of the schedules (the safety half — gaps inside frequency ± variance — is in C19.lean /
C19Sched.lean), and "the start node is drawn once".

* PeriodicAgent tests `timestep == next_execution_timestep`: a slot that is not STRICTLY later than the current step is never
  reached again.  The settings schema's guard `variance < frequency` (`PeriodicCfg.valid`; comparison operator pinned by
  `C19_gen_guards`: the validator rejects `variance >= frequency`) is exactly what makes every next slot strictly later;
  with it the agent acts again after at most `frequency + variance` steps while executions are left — for every draw
  sequence; without it (`variance = frequency`, seeded change C19-e) it can fall silent for good: counterexample proved.
* DataManipulationAgent and both TAPs test `timestep < next_execution_timestep`: no guard is needed (and `AbstractTAP` has
  none on its variance): the next slot is `max (t+1) (t + frequency + d)`.
-/
import PrimaiteModel.Props.C19More
namespace Primaite.Agents

/-! ## 26. Liveness of the schedule -/

/-- Draws of the start node stay inside `possible_start_nodes` (what `random.choice` guarantees). -/
def NodeDrawsIn (c : PeriodicCfg) (ins : List PIn) : Prop := ∀ i ∈ ins, i.k < c.nStartNodes

/-- While the clock has not reached `next_execution_timestep` the periodic agent idles and nothing changes. -/
theorem periodic_idle_before (c : PeriodicCfg) (s : PeriodicState) (t d : Int) (k : Nat) (hd : s.dead = false)
    (hlt : t < s.next) : periodicStep c s t d k = (s, .doNothing) := by
  have : ¬ (t = s.next ∧ s.numExec < c.maxExecutions) := by intro h; omega
  simp [periodicStep, hd, this]

/-- At `next_execution_timestep`, with executions left, a live agent whose draws are in range executes. -/
theorem periodic_fires (c : PeriodicCfg) (s : PeriodicState) (d : Int) (k : Nat) (hd : s.dead = false)
    (hleft : s.numExec < c.maxExecutions) (hv : 0 ≤ c.variance) (hk : k < c.nStartNodes) :
    ∃ n, (periodicStep c s s.next d k).2 = .execute n ∧ (periodicStep c s s.next d k).1.dead = false ∧
      (periodicStep c s s.next d k).1.next = s.next + c.frequency + d ∧
      (periodicStep c s s.next d k).1.numExec = s.numExec + 1 := by
  rcases periodicStep_tri c s s.next d k with ⟨he, _, _, hn⟩ | ⟨n, he, _, _, _, hnext, hnum, hdead, _, _, _⟩ | ⟨he, hdead⟩
  · exact absurd ⟨rfl, hleft⟩ hn
  · exact ⟨n, he, hdead, hnext, hnum⟩
  · exfalso
    have hr : randintOk c.variance = true := by simp [randintOk, hv]
    cases hs : s.startNode with
    | some m => simp [periodicStep, hd, hleft, hr, hs] at he
    | none => simp [periodicStep, hd, hleft, hr, hs, hk] at he

/-- **The schedule reaches its next slot.**  From tick `t ≤ next_execution_timestep` a live periodic agent with executions
left idles exactly until `next_execution_timestep` and executes there — provided the run is long enough. -/
theorem periodic_reaches_next (c : PeriodicCfg) (hv : 0 ≤ c.variance) : ∀ (ins : List PIn) (s : PeriodicState) (t : Int),
    s.dead = false → t ≤ s.next → s.numExec < c.maxExecutions → NodeDrawsIn c ins → (s.next - t).toNat < ins.length →
    (∀ j, j < (s.next - t).toNat → (runFrom (periodicStep c) s t ins)[j]? = some .doNothing) ∧
    ∃ n, (runFrom (periodicStep c) s t ins)[(s.next - t).toNat]? = some (.execute n) := by
  intro ins
  induction ins with
  | nil => intro s t _ _ _ _ hlen; simp at hlen
  | cons i is ih =>
    intro s t hd hle hleft hk hlen
    have hki := hk i List.mem_cons_self
    have hk' : NodeDrawsIn c is := fun j hj => hk j (List.mem_cons_of_mem i hj)
    by_cases heq : t = s.next
    · subst heq
      obtain ⟨n, he, _, _, _⟩ := periodic_fires c s i.d i.k hd hleft hv hki
      simp only [Int.sub_self, Int.toNat_zero]
      exact ⟨fun j hj => absurd hj (Nat.not_lt_zero j), n, by simp [runFrom, he]⟩
    · have hlt : t < s.next := by omega
      have hstep := periodic_idle_before c s t i.d i.k hd hlt
      have e : (s.next - t).toNat = (s.next - (t + 1)).toNat + 1 := by omega
      have := ih s (t + 1) hd (by omega) hleft hk' (by simp only [List.length_cons] at hlen; omega)
      simp only [runFrom, hstep]
      rw [e]
      refine ⟨?_, ?_⟩
      · intro j hj
        cases j with
        | zero => simp
        | succ j => simpa using this.1 j (by omega)
      · obtain ⟨n, hn⟩ := this.2
        exact ⟨n, by simpa using hn⟩

/-- **Every slot is strictly later than the previous one** under the guard of the settings schema (`variance < frequency`,
`C19_gen_guards`: the validator rejects `variance >= frequency`) and a draw in range. -/
theorem C19_periodic_next_strictly_later (c : PeriodicCfg) (hvalid : c.valid = true) (t d : Int)
    (hd : -c.variance ≤ d ∧ d ≤ c.variance) : t < t + c.frequency + d ∧ t + c.frequency + d ≤ t + c.frequency + c.variance := by
  have : c.variance < c.frequency := by simpa [PeriodicCfg.valid] using hvalid
  omega

/-- **Liveness of the periodic schedule (run level).**  For every configuration the validator accepts, every state, every
draw sequence in range and every continuation of the run: if the agent acts at tick `t` and has executions left afterwards,
it idles for exactly `frequency + d − 1` ticks and acts again at tick `t + frequency + d`, i.e. after at least 1 and at most
`frequency + variance` steps (when the run goes on that long).  It never falls silent while `max_executions` is not reached. -/
theorem C19_periodic_acts_again (c : PeriodicCfg) (hvalid : c.valid = true) (hv : 0 ≤ c.variance)
    (s : PeriodicState) (t : Int) (i : PIn) (rest : List PIn) (n : Nat)
    (hact : (periodicStep c s t i.d i.k).2 = .execute n)
    (hd : -c.variance ≤ i.d ∧ i.d ≤ c.variance) (hleft : s.numExec + 1 < c.maxExecutions)
    (hk : NodeDrawsIn c rest) (hlen : (c.frequency + i.d).toNat ≤ rest.length) :
    1 ≤ c.frequency + i.d ∧ c.frequency + i.d ≤ c.frequency + c.variance ∧
    (∀ j, j + 1 < (c.frequency + i.d).toNat →
      (runFrom (periodicStep c) (periodicStep c s t i.d i.k).1 (t + 1) rest)[j]? = some .doNothing) ∧
    ∃ n', (runFrom (periodicStep c) (periodicStep c s t i.d i.k).1 (t + 1) rest)[(c.frequency + i.d).toNat - 1]? =
      some (.execute n') := by
  have hlater := C19_periodic_next_strictly_later c hvalid t i.d hd
  rcases periodicStep_tri c s t i.d i.k with ⟨he, _⟩ | ⟨n0, _, _, _, _, hnext, hnum, hdead, _, _, _⟩ | ⟨he, _⟩
  · rw [he] at hact; cases hact
  · have hgap : ((periodicStep c s t i.d i.k).1.next - (t + 1)).toNat = (c.frequency + i.d).toNat - 1 := by
      rw [hnext]; omega
    have := periodic_reaches_next c hv rest (periodicStep c s t i.d i.k).1 (t + 1) hdead (by rw [hnext]; omega)
      (by rw [hnum]; exact hleft) hk (by rw [hgap]; omega)
    rw [hgap] at this
    refine ⟨by omega, by omega, fun j hj => this.1 j (by omega), this.2⟩
  · rw [he] at hact; cases hact

/-- An agent whose `next_execution_timestep` lies in the past never acts again (`==` gate). -/
theorem periodic_silent_after (c : PeriodicCfg) : ∀ (ins : List PIn) (s : PeriodicState) (t : Int), s.next < t →
    ∀ o ∈ runFrom (periodicStep c) s t ins, o = .doNothing ∨ o = .raised := by
  intro ins
  induction ins with
  | nil => intro s t _ o ho; simp [runFrom] at ho
  | cons i is ih =>
    intro s t hlt o ho
    have hstep : periodicStep c s t i.d i.k = (s, .doNothing) ∨ periodicStep c s t i.d i.k = (s, .raised) := by
      cases hd : s.dead with
      | true => right; simp [periodicStep, hd]
      | false =>
        left
        have : ¬ (t = s.next ∧ s.numExec < c.maxExecutions) := by intro h; omega
        simp [periodicStep, hd, this]
    simp only [runFrom, List.mem_cons] at ho
    rcases hstep with h | h <;> rw [h] at ho <;> rcases ho with rfl | ho
    · exact Or.inl rfl
    · exact ih s (t + 1) (by omega) o ho
    · exact Or.inr rfl
    · exact ih s (t + 1) (by omega) o ho

/-- The statement the schedule would have to satisfy WITHOUT the schema's guard … -/
def C19_PeriodicLivenessWithoutGuard : Prop :=
  ∀ (c : PeriodicCfg) (s : PeriodicState) (t : Int) (i : PIn) (rest : List PIn) (n : Nat), 0 ≤ c.variance →
    (periodicStep c s t i.d i.k).2 = .execute n → (-c.variance ≤ i.d ∧ i.d ≤ c.variance) →
    s.numExec + 1 < c.maxExecutions → NodeDrawsIn c rest → (c.frequency + c.variance).toNat ≤ rest.length →
    ∃ n', .execute n' ∈ runFrom (periodicStep c) (periodicStep c s t i.d i.k).1 (t + 1) rest

/-- … and its refutation for `variance = frequency` (what seeded change C19-e lets through the validator): with the draw
`−variance` the next slot is the current step, the `==` gate never fires again and the agent is silent for good although
`max_executions` is far away. -/
theorem C19_periodic_variance_eq_frequency_counterexample : ¬ C19_PeriodicLivenessWithoutGuard := by
  intro h
  let c : PeriodicCfg := { startStep := 0, startVariance := 0, frequency := 2, variance := 2, maxExecutions := 10, nodes := ["n0"] }
  let s : PeriodicState := { next := 0, numExec := 0, startNode := none }
  obtain ⟨n', hn'⟩ := h c s 0 { d := -2, k := 0 } (List.replicate 4 { d := 0, k := 0 }) 0 (by decide) (by decide) (by decide)
    (by decide) (by intro i hi; simp [List.mem_replicate] at hi; rw [hi]; decide) (by decide)
  have hs := periodic_silent_after c (List.replicate 4 { d := 0, k := 0 }) (periodicStep c s 0 (-2) 0).1 1 (by decide) _ hn'
  rcases hs with hs | hs <;> cases hs

/-- DataManipulationAgent (threshold gate `<`): it acts in EVERY tick from `next_execution_timestep` on, so after acting at
`t` it acts again at `max (t+1) (t + frequency + d)` whatever the settings — no guard is needed for liveness. -/
theorem C19_dm_fires_at_or_after_next (c : PeriodicCfg) (s : PeriodicState) (t d : Int) (k : Nat) (hd : s.dead = false)
    (hge : s.next ≤ t) (hv : 0 ≤ c.variance) (hk : k < c.nStartNodes) : ∃ n, (dmStep c s t d k).2 = .execute n := by
  rcases dmStep_tri c s t d k with ⟨_, _, _, hlt⟩ | ⟨n, he, _⟩ | ⟨he, _⟩
  · omega
  · exact ⟨n, he⟩
  · exfalso
    have hr : randintOk c.variance = true := by simp [randintOk, hv]
    have hnl : ¬ t < s.next := by omega
    cases hs : s.startNode with
    | some m => simp [dmStep, hd, hnl, hr, hs] at he
    | none => simp [dmStep, hd, hnl, hr, hs, hk] at he


namespace Tap1

/-- An idle tick of a reachable live TAP001 keeps it alive and changes neither the schedule nor `actions_concluded`. -/
theorem idle_step (c : Cfg) (s : St) (t : Int) (i : In) (hw : WF c s t) (hd : s.dead = false) (hex : executes s t = false) :
    (step c s t i).1.dead = false ∧ (step c s t i).1.nextExec = s.nextExec ∧ (step c s t i).1.concluded = s.concluded := by
  have hga := C19_tap1_idle_tick c s t i hex
  unfold step
  rw [if_neg (by simp [hd]), hga, if_neg (by simp [hw.err])]
  exact ⟨hd, rfl, rfl⟩

/-- **The TAP001 schedule reaches its next slot** — for every variance ≥ 0 (the threshold gate `timestep <
next_execution_timestep` needs no `variance < frequency` guard, and `AbstractTAP` has none): a live, not concluded agent
waits exactly until `max t next_execution_timestep` and that tick is an execution slot. -/
theorem C19_tap1_next_slot (c : Cfg) : ∀ (w : List In) (s : St) (t : Int), WF c s t → s.dead = false →
    s.concluded = false → (w.length : Int) = max t s.nextExec - t →
    (after c s t w).dead = false ∧ (after c s t w).concluded = false ∧ (after c s t w).nextExec = s.nextExec ∧
    executes (after c s t w) (t + w.length) = true := by
  intro w
  induction w with
  | nil =>
    intro s t _ hd hc hlen
    simp only [List.length_nil] at hlen
    refine ⟨hd, hc, rfl, ?_⟩
    have : s.nextExec ≤ t := by omega
    simp [after, executes, hc]; omega
  | cons i is ih =>
    intro s t hw hd hc hlen
    simp only [List.length_cons] at hlen
    have hex : executes s t = false := by
      have : t < s.nextExec := by omega
      simp [executes, this]
    obtain ⟨h1, h2, h3⟩ := idle_step c s t i hw hd hex
    have := ih (step c s t i).1 (t + 1) (wf_step c s t i hw) h1 (by rw [h3]; exact hc) (by rw [h2]; omega)
    simp only [after, List.length_cons]
    rw [h2] at this
    have e : t + ((is.length + 1 : Nat) : Int) = t + 1 + (is.length : Int) := by omega
    rw [e]; exact this

/-- **Liveness of the TAP001 schedule (run level).**  After an execution slot at tick `t` that neither raised nor concluded
the agent, the next execution slot is the tick `max (t+1) (t + frequency + d)` for one of the tick's two schedule draws `d`
— at most `max 1 (frequency + variance)` steps later when the draws are in range; the agent never falls silent. -/
theorem C19_tap1_slot_liveness (c : Cfg) (s : St) (t : Int) (i : In) (w : List In) (hw : WF c s t) (hd : s.dead = false)
    (hex : executes s t = true) (hd' : (step c s t i).1.dead = false) (hc' : (step c s t i).1.concluded = false)
    (hlen : (w.length : Int) = max (t + 1) (step c s t i).1.nextExec - (t + 1)) :
    ((step c s t i).1.nextExec = t + c.frequency + i.d1 ∨ (step c s t i).1.nextExec = t + c.frequency + i.d2) ∧
    executes (after c (step c s t i).1 (t + 1) w) (t + 1 + w.length) = true ∧
    (after c (step c s t i).1 (t + 1) w).dead = false := by
  have hfire := step_fire c s t i hd hex hw.var
  rcases hfire with h | h
  · rw [h] at hd'; cases hd'
  · have := C19_tap1_next_slot c w _ (t + 1) (wf_step c s t i hw) hd' hc' hlen
    exact ⟨h, this.2.2.2, this.1⟩

end Tap1

namespace Tap3

/-- An idle tick of a reachable live TAP003 either raises in a pre-guard response handler or changes neither the schedule
nor `actions_concluded`. -/
theorem idle_step (c : Cfg) (s : St) (t : Int) (i : In) (hd : s.dead = false) (hex : executes s t = false) :
    (step c s t i).1.dead = true ∨
    ((step c s t i).1.dead = false ∧ (step c s t i).1.nextExec = s.nextExec ∧ (step c s t i).1.concluded = s.concluded) := by
  have hga := getAction_idle c s t i hex
  have hp := preGuard_fields c s
  unfold step
  rw [if_neg (by simp [hd])]
  split
  · exact Or.inl rfl
  · right
    rw [hga]
    exact ⟨by simp only []; rw [dd_preGuard]; exact hd, hp.2.2.2, hp.2.2.1⟩

/-- **The TAP003 schedule reaches its next slot** (any variance ≥ 0), unless a pre-guard response handler raises on the way. -/
theorem C19_tap3_next_slot (c : Cfg) : ∀ (w : List In) (s : St) (t : Int), s.dead = false →
    s.concluded = false → (w.length : Int) = max t s.nextExec - t →
    (after c s t w).dead = true ∨
    ((after c s t w).concluded = false ∧ (after c s t w).nextExec = s.nextExec ∧
     executes (after c s t w) (t + w.length) = true) := by
  intro w
  induction w with
  | nil =>
    intro s t _ hc hlen
    simp only [List.length_nil] at hlen
    refine Or.inr ⟨hc, rfl, ?_⟩
    have : s.nextExec ≤ t := by omega
    simp [after, executes, hc]; omega
  | cons i is ih =>
    intro s t hd hc hlen
    simp only [List.length_cons] at hlen
    have hex : executes s t = false := by
      have : t < s.nextExec := by omega
      simp [executes, this]
    simp only [after, List.length_cons]
    rcases idle_step c s t i hd hex with hdead | ⟨h1, h2, h3⟩
    · left; rw [after_dead c is _ _ hdead]; exact hdead
    · have := ih (step c s t i).1 (t + 1) h1 (by rw [h3]; exact hc) (by rw [h2]; omega)
      rw [h2] at this
      have e : t + ((is.length + 1 : Nat) : Int) = t + 1 + (is.length : Int) := by omega
      rw [e]; exact this

end Tap3

/-! ## 27. The start node is drawn once per agent (`cached_property`) -/

/-- Once `start_node` has been read, `get_action` ignores the `random.choice` draw: the cached node is used. -/
theorem periodic_ignores_draw (c : PeriodicCfg) (s : PeriodicState) (t d : Int) (k k' : Nat) (n : Nat)
    (h : s.startNode = some n) : periodicStep c s t d k = periodicStep c s t d k' := by
  unfold periodicStep
  simp only [h]

theorem dm_ignores_draw (c : PeriodicCfg) (s : PeriodicState) (t d : Int) (k k' : Nat) (n : Nat)
    (h : s.startNode = some n) : dmStep c s t d k = dmStep c s t d k' := by
  unfold dmStep
  simp only [h]

/-- … and the draw is consumed only by a call that acts: a call that returns do-nothing leaves `start_node` unread. -/
theorem C19_periodic_draw_only_when_acting (c : PeriodicCfg) (s : PeriodicState) (t d : Int) (k : Nat)
    (h : (periodicStep c s t d k).2 = .doNothing) : (periodicStep c s t d k).1.startNode = s.startNode := by
  rcases periodicStep_tri c s t d k with ⟨_, hs, _⟩ | ⟨n, he, _⟩ | ⟨he, _⟩
  · rw [hs]
  · rw [he] at h; cases h
  · rw [he] at h; cases h

/-- After the first action of a run every later output is independent of the later `random.choice` draws: the node was
drawn ONCE (run level: two runs that differ only in the draws `k` after the first `execute` give the same outputs). -/
theorem C19_periodic_start_node_drawn_once (c : PeriodicCfg) : ∀ (ins ins' : List PIn) (s : PeriodicState) (t : Int) (n : Nat),
    s.startNode = some n → ins.map (·.d) = ins'.map (·.d) →
    runFrom (periodicStep c) s t ins = runFrom (periodicStep c) s t ins' := by
  intro ins
  induction ins with
  | nil => intro ins' s t n _ h; cases ins' with
    | nil => rfl
    | cons _ _ => simp at h
  | cons i is ih =>
    intro ins' s t n hs h
    cases ins' with
    | nil => simp at h
    | cons i' is' =>
      simp only [List.map_cons, List.cons.injEq] at h
      have e : periodicStep c s t i.d i.k = periodicStep c s t i'.d i'.k := by
        rw [h.1]; exact periodic_ignores_draw c s t i'.d i.k i'.k n hs
      simp only [runFrom, e]
      have hs' : ∃ m, (periodicStep c s t i'.d i'.k).1.startNode = some m := by
        rcases periodicStep_tri c s t i'.d i'.k with ⟨_, hs2, _⟩ | ⟨m, _, _, _, _, _, _, _, hsn, _⟩ | ⟨he, hdead⟩
        · exact ⟨n, by rw [hs2]; exact hs⟩
        · exact ⟨m, hsn⟩
        · -- raised: the state keeps or sets the node; either way runs from a dead state agree
          cases hd : s.dead with
          | true => exact ⟨n, by simp [periodicStep, hd, hs]⟩
          | false =>
            by_cases hc : t = s.next ∧ s.numExec < c.maxExecutions
            · by_cases hv : randintOk c.variance = true
              · simp [periodicStep, hd, hc, hv, hs] at he
              · exact ⟨n, by simp [periodicStep, hd, hc, hv, hs]⟩
            · simp [periodicStep, hd, hc] at he
      obtain ⟨m, hm⟩ := hs'
      rw [ih is' _ (t + 1) m hm h.2]

/-! ## 28. TAP003: an empty `malicious_acls` (the default) completes EXPLOIT instead of raising -/

/-- With no malicious ACL configured the EXPLOIT stage returns do-nothing, does not raise and hands over to SUCCEEDED
(repair of F-C19-7: before it `malicious_acls[0]` raised IndexError — for the schema's DEFAULT value of the list). -/
theorem C19_tap3_exploit_empty_acls (c : Tap3.Cfg) (s : Tap3.St) (h : c.acls = []) (hn : s.nxt = .succeeded) :
    (Tap3.exploitBody c s).cur = .succeeded ∧ (Tap3.exploitBody c s).err = s.err ∧
    (Tap3.exploitBody c s).chosen = Tap3.Act.nothing := by
  unfold Tap3.exploitBody
  rw [if_pos (by rw [h]; rfl)]
  unfold Tap3.progress
  simp [hn]

theorem C19_gen_tap3_exploit_empty_guard : Gen.Agents.tap3ExploitEmptyGuard = tap3ExploitEmptyGuard := rfl

end Primaite.Agents
