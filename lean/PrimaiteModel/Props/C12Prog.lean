/-
C12 — the power methods, tied to the source BY MEANING.

`Gen/PowerProg.lean` holds the bodies of `Node.power_on`, `Node.power_off`, `Node.reset`, the part of `Node.apply_timestep`
outside the software block, `Node._start_up_actions` and `Node._shut_down_actions`, translated statement by statement from
the source on every run.  The theorems below say: for EVERY node, running the translated body (interpreter `exec` of
Model/PowerProg.lean) gives the node and the answer of the model's function, about which everything else in C12 is proved.
The callees of a body are bound to the translated bodies themselves (`genProcs`), bottom-up along the call graph
reset → power_off → power_on → actions, which `C12_gen_call_graph` shows to be acyclic.
-/
import PrimaiteModel.Model.PowerProg
import PrimaiteModel.Gen.PowerProg
set_option linter.unusedSimpArgs false
namespace Primaite.Power
open Primaite.Gen.PowerProg

theorem bindR_running (n : Node) (k : Node → Node × Ret) : bindR (n, none) k = k n := rfl
theorem bindR_returned (n : Node) (v : Option Bool) (k : Node → Node × Ret) : bindR (n, some v) k = (n, some v) := rfl
theorem bindR_ite (c : Prop) {inst : Decidable c} (a b : Node × Ret) (k : Node → Node × Ret) :
    bindR (@ite _ c inst a b) k = @ite _ c inst (bindR a k) (bindR b k) := by split <;> rfl

theorem intLe_eq (a b : Int) : intLe a b = decide (a ≤ b) := rfl
theorem intLt_eq (a b : Int) : intLt a b = decide (a < b) := rfl
theorem intEq_eq (a b : Int) : intEq a b = decide (a = b) := rfl
theorem stEq_eq (a b : PState) : stEq a b = decide (a = b) := rfl

/-- `disable()` always answers True: `all(i.disable() for i in …)` never stops early, it is the plain loop -/
theorem nicsQuant_all_disable (sc on : Bool) (cs : List Nic) :
    nicsQuant .all sc on .disable cs = (cs.map Nic.disable, true) := by
  induction cs with
  | nil => rfl
  | cons c cs ih => simp [nicsQuant, nicCall, ih]

/-- over a list comprehension every interface is called, whatever the answers: the interfaces afterwards are the plain loop's -/
theorem nicsQuant_nosc_enable (q : Quant) (on : Bool) (cs : List Nic) :
    (nicsQuant q false on .enable cs).1 = cs.map (Nic.enable on) := by
  induction cs with
  | nil => rfl
  | cons c cs ih => simp [nicsQuant, nicCall, ih]

theorem nicsQuant_nosc_disable (q : Quant) (on : Bool) (cs : List Nic) :
    (nicsQuant q false on .disable cs).1 = cs.map Nic.disable := by
  induction cs with
  | nil => rfl
  | cons c cs ih => simp [nicsQuant, nicCall, ih]

/-- unfold the interpreter on the (concrete) translated body into an `if`-tree over opaque conditions, then the conditions
and the model's function into tests of the node's fields, split every `if` on both sides, close each leaf by
simplification and linear arithmetic -/
macro "prog_equiv" "[" ds:Lean.Parser.Tactic.simpLemma,* "]" : tactic =>
  `(tactic| (
    simp only [$ds,*, runBody, exec, bindR_running, bindR_returned, bindR_ite, Procs.call]
    all_goals (try simp only [$ds,*, BExpr.eval, IExpr.eval, Cmp.eval, svcApply, appApply, startUpActions, shutDownActions,
      enableNics, disableNics, setSt, Node.isOn, intLe_eq, intLt_eq, intEq_eq, stEq_eq,
      nicsQuant_all_disable, nicsQuant_nosc_enable, nicsQuant_nosc_disable])
    all_goals (repeat' split)
    all_goals (first | rfl | (simp_all <;> omega) | grind)))

/-! ### the translated bodies as functions, bottom-up -/

/- `genStart`, `genShut`, `genOn`, `genOff`, `genReset`, `genTickPower` (the translated bodies run by `runBody`, callees bound to the
translated callees) are defined in Gen/PowerProg.lean, so that the counter-model search of Drivers/C12Prog.lean uses the same. -/

/-- no recursion: the actions call nothing, `power_on` calls neither power method, `power_off` may call `power_on` only -/
theorem C12_gen_call_graph :
    startUpActionsProg.calls = [] ∧ shutDownActionsProg.calls = [] ∧
    startUpActionsProg.usesActions = false ∧ shutDownActionsProg.usesActions = false ∧
    powerOnProg.calls = [] ∧ powerOffProg.calls.all (· == .powerOn) = true := by decide

/-- `Node._start_up_actions` IS `startUpActions` -/
theorem C12_gen_start_up_actions_sem (n : Node) : genStart n = startUpActions n := by
  prog_equiv [genStart, startUpActionsProg]

/-- `Node._shut_down_actions` IS `shutDownActions` -/
theorem C12_gen_shut_down_actions_sem (n : Node) : genShut n = shutDownActions n := by
  prog_equiv [genShut, shutDownActionsProg]

theorem genStart_eq : genStart = startUpActions := funext C12_gen_start_up_actions_sem
theorem genShut_eq : genShut = shutDownActions := funext C12_gen_shut_down_actions_sem

/-- **`Node.power_on` IS `powerOn`**: same node afterwards (every assignment to `operating_state` included — the ghost
history is part of the node), same answer, never `None` -/
theorem C12_gen_power_on_sem (n : Node) : genOn n = ((powerOn n).1, some (powerOn n).2) := by
  prog_equiv [genOn, genStart_eq, genShut_eq, powerOnProg, powerOn]

theorem genOnB_eq : genOnB = powerOn := by
  funext n; simp [genOnB, C12_gen_power_on_sem]

/-- **`Node.power_off` IS `powerOff`** -/
theorem C12_gen_power_off_sem (n : Node) : genOff n = ((powerOff n).1, some (powerOff n).2) := by
  prog_equiv [genOff, genStart_eq, genShut_eq, genOnB_eq, powerOffProg, powerOff]

theorem genOffB_eq : genOffB = powerOff := by
  funext n; simp [genOffB, C12_gen_power_off_sem]

/-- **`Node.reset` IS `reset`** (in particular it answers True from every state: `self.operating_state.ON` is no test) -/
theorem C12_gen_reset_sem (n : Node) : genReset n = ((reset n).1, some (reset n).2) := by
  prog_equiv [genReset, genStart_eq, genShut_eq, genOnB_eq, genOffB_eq, resetProg, reset]

/-- **the power part of `Node.apply_timestep` IS `tickDown ∘ tickUp`**, and it returns nothing -/
theorem C12_gen_tick_power_sem (n : Node) : genTickPower n = (tickDown (tickUp n), none) := by
  prog_equiv [genTickPower, genStart_eq, genShut_eq, genOnB_eq, genOffB_eq, tickPowerProg, tickDown, tickUp]

end Primaite.Power

/-! ### `all(…)` / `any(…)` over the interfaces: when stopping early is harmless, and when it is not (seeded C12-g) -/
namespace Primaite.Power

/-- if every interface answers True to `enable()` (NICs and router interfaces always do; a switch port / access point only
when it came up), `all(i.enable() for i in …)` never stops early: the interfaces afterwards are the plain loop's, the answer True -/
theorem C12_all_enable_is_loop_when_all_answer (sc on : Bool) (cs : List Nic)
    (h : ∀ c ∈ cs, c.enableAnswer on = true) :
    nicsQuant .all sc on .enable cs = (cs.map (Nic.enable on), true) := by
  induction cs with
  | nil => rfl
  | cons c cs ih =>
    have hc : c.enableAnswer on = true := h c (List.mem_cons_self ..)
    have ih' := ih (fun d hd => h d (List.mem_cons_of_mem _ hd))
    simp [nicsQuant, nicCall, hc, ih']

/-- hence on a node whose interfaces are all NICs / router interfaces (hosts, routers, firewalls) the helper of seeded C12-g
is the plain loop -/
theorem C12_all_enable_is_loop_on_ip_interfaces (sc on : Bool) (cs : List Nic) (h : ∀ c ∈ cs, c.kind = .ipWired) :
    nicsQuant .all sc on .enable cs = (cs.map (Nic.enable on), true) :=
  C12_all_enable_is_loop_when_all_answer sc on cs (fun c hc => by simp [Nic.enableAnswer, h c hc])

/-- **but not on a switch**: three ports, the middle one with nothing plugged in; `all(…)` over a generator stops there and the
third port — plugged in, on a node that is ON — stays down, where the plain loop brings it up (the witness of C12-g) -/
theorem C12_short_circuit_counterexample :
    let ports : List Nic := [⟨false, true, .wired⟩, ⟨false, false, .wired⟩, ⟨false, true, .wired⟩]
    (nicsQuant .all true true .enable ports).1.map (·.enabled) = [true, false, false] ∧
    (ports.map (Nic.enable true)).map (·.enabled) = [true, false, true] ∧
    (nicsQuant .all false true .enable ports).1.map (·.enabled) = [true, false, true] := by decide

/-- and `any(…)` over a generator stops at the first interface that came up, on every node class -/
theorem C12_any_short_circuit_counterexample :
    let ports : List Nic := [⟨false, true, .ipWired⟩, ⟨false, true, .ipWired⟩]
    (nicsQuant .any true true .enable ports).1.map (·.enabled) = [true, false] := by decide

end Primaite.Power

/-! ### the interfaces' own `enable()` / `disable()`, translated (round 7c): what they do in EVERY node state -/
namespace Primaite.Power
open Primaite.Gen.PowerProg

/-- every context is one of finitely many once the caller's local variables are set aside (a method starts in a fresh scope) -/
macro "iface_cases" c:ident : tactic =>
  `(tactic| (
    obtain ⟨⟨e, l, k⟩, hn, st, hello, locs⟩ := $c
    cases e <;> cases l <;> cases hn <;> cases st <;> cases hello <;> cases k <;> rfl))

/-- the node's state as the interface sees it: ON only when there is a node and it is ON -/
def IfCtx.on (c : IfCtx) : Bool := c.hasNode && c.nodeSt == .on

/-- **`WiredNetworkInterface.enable` / `IPWiredNetworkInterface.enable` / `WirelessNetworkInterface.enable` /
`IPWirelessNetworkInterface.enable` ARE the model's `Nic.enable`**, for every interface, with or without a node, in every
node state, with or without a link: the interface afterwards is `Nic.enable (node is there and ON)` (without the link test
for the wireless classes), the call NEVER raises (the answer is `some …`), and it answers whether the interface is up —
except the IP wired classes (NIC, router interface), which answer True whatever happened. -/
theorem C12_gen_interface_enable_sem (c : IfCtx) :
    genWiredEnable c = (c.nic.enable c.on, some (some (c.nic.enable c.on).enabled)) ∧
    genIpWiredEnable c = (c.nic.enable c.on, some (some true)) ∧
    genWirelessEnable c = (c.nic.enableNoLink c.on, some (some (c.nic.enableNoLink c.on).enabled)) ∧
    genIpWirelessEnable c = (c.nic.enableNoLink c.on, some (some (c.nic.enableNoLink c.on).enabled)) := by
  refine ⟨?_, ?_, ?_, ?_⟩ <;> iface_cases c

/-- **`WiredNetworkInterface.disable` / `WirelessNetworkInterface.disable` ARE `Nic.disable`**: whatever the node's state,
node or no node, link or no link, the interface is down afterwards, the answer is True, nothing raises -/
theorem C12_gen_interface_disable_sem (c : IfCtx) :
    genWiredDisable c = (c.nic.disable, some (some true)) ∧
    genWirelessDisable c = (c.nic.disable, some (some true)) := by
  refine ⟨?_, ?_⟩ <;> iface_cases c

/-- the wireless classes' `enable` is the model's when the model's convention `linked = true` for them holds -/
theorem Nic.enableNoLink_eq (on : Bool) (c : Nic) (h : c.linked = true) : c.enableNoLink on = c.enable on := by
  simp [Nic.enableNoLink, Nic.enable, h]

/-- the answers are the model's `enableAnswer` (what the `enable` request reports) for each interface kind -/
theorem C12_gen_interface_enable_answer (c : IfCtx) :
    (c.nic.kind = .wired → (genWiredEnable c).2 = some (some (c.nic.enableAnswer c.on))) ∧
    (c.nic.kind = .ipWired → (genIpWiredEnable c).2 = some (some (c.nic.enableAnswer c.on))) ∧
    (c.nic.kind = .wireless → c.nic.linked = true → (genIpWirelessEnable c).2 = some (some (c.nic.enableAnswer c.on))) := by
  obtain ⟨h1, h2, _, h4⟩ := C12_gen_interface_enable_sem c
  refine ⟨fun hk => ?_, fun hk => ?_, fun hk hl => ?_⟩
  · rw [h1]; simp [Nic.enableAnswer, hk]
  · rw [h2]; simp [Nic.enableAnswer, hk]
  · rw [h4, Nic.enableNoLink_eq _ _ hl]; simp [Nic.enableAnswer, hk]

/-- **enable refuses while the node is not ON** (any of the four classes, any interface that is down): it stays down -/
theorem C12_interface_enable_refused_unless_on (c : IfCtx) (hoff : c.nodeSt ≠ .on) (hd : c.nic.enabled = false) :
    (genWiredEnable c).1 = c.nic ∧ (genIpWiredEnable c).1 = c.nic ∧
    (genWirelessEnable c).1 = c.nic ∧ (genIpWirelessEnable c).1 = c.nic := by
  obtain ⟨h1, h2, h3, h4⟩ := C12_gen_interface_enable_sem c
  have hon : c.on = false := by
    cases hs : c.nodeSt <;> simp_all [IfCtx.on]
  rw [h1, h2, h3, h4]
  simp [Nic.enable, Nic.enableNoLink, hon, hd]

/-- **a wired interface with no link attached does not come up**, whatever the node's state -/
theorem C12_interface_enable_refused_without_link (c : IfCtx) (hl : c.nic.linked = false) (hd : c.nic.enabled = false) :
    (genWiredEnable c).1 = c.nic ∧ (genIpWiredEnable c).1 = c.nic := by
  obtain ⟨h1, h2, _, _⟩ := C12_gen_interface_enable_sem c
  rw [h1, h2]
  cases hon : c.on <;> simp [Nic.enable, hl, hd]

/-- **and it comes up exactly when it may**: node there and ON, link attached (wired) -/
theorem C12_interface_enable_when_on (c : IfCtx) (hn : c.hasNode = true) (hon : c.nodeSt = .on) (hl : c.nic.linked = true) :
    (genWiredEnable c).1.enabled = true ∧ (genIpWiredEnable c).1.enabled = true ∧
    (genWirelessEnable c).1.enabled = true ∧ (genIpWirelessEnable c).1.enabled = true := by
  obtain ⟨h1, h2, h3, h4⟩ := C12_gen_interface_enable_sem c
  have : c.on = true := by simp [IfCtx.on, hn, hon]
  rw [h1, h2, h3, h4]
  cases he : c.nic.enabled <;> simp [Nic.enable, Nic.enableNoLink, this, hl, he]

/-- none of the six methods ever raises (no dereference of a missing node / link on any path) -/
theorem C12_interface_methods_never_raise (c : IfCtx) :
    (genWiredEnable c).2.isSome ∧ (genIpWiredEnable c).2.isSome ∧ (genWirelessEnable c).2.isSome ∧
    (genIpWirelessEnable c).2.isSome ∧ (genWiredDisable c).2.isSome ∧ (genWirelessDisable c).2.isSome := by
  obtain ⟨h1, h2, h3, h4⟩ := C12_gen_interface_enable_sem c
  obtain ⟨h5, h6⟩ := C12_gen_interface_disable_sem c
  rw [h1, h2, h3, h4, h5, h6]; simp

/-- only the two IP classes call `super()`; the base classes' bodies stand alone (the binding of `super()` is sound) -/
theorem C12_gen_interface_super_calls :
    wiredEnableProg.callsSuper = false ∧ wiredDisableProg.callsSuper = false ∧
    wirelessEnableProg.callsSuper = false ∧ wirelessDisableProg.callsSuper = false := by decide

/-- non-vacuity: the interpreter DOES raise on a body that logs through a missing node before testing for it -/
example : (runI absIface (.seq .useNode (.ret (.lit true))) ⟨⟨false, true, .wired⟩, false, .on, false, []⟩).2 = none := by decide
/-- non-vacuity: a plugged-in switch port on an ON node comes up, on a BOOTING node it does not -/
example : (genWiredEnable ⟨⟨false, true, .wired⟩, true, .on, false, []⟩).1.enabled = true ∧
    (genWiredEnable ⟨⟨false, true, .wired⟩, true, .booting, false, []⟩).1.enabled = false := by decide

end Primaite.Power

/-! ### the node's loops call the translated interface methods -/
namespace Primaite.Power
open Primaite.Gen.PowerProg

/-- the method a concrete interface of the given kind runs on `enable()`: switch port → `WiredNetworkInterface.enable`, NIC /
router interface → `IPWiredNetworkInterface.enable`, access point → `IPWirelessNetworkInterface.enable` (the inventory
`C12_gen_nic_enable_defs` shows no class below them defines its own) -/
def genEnableOf : NicKind → IfCtx → IOut
  | .wired => genWiredEnable
  | .ipWired => genIpWiredEnable
  | .wireless => genIpWirelessEnable

def genDisableOf : NicKind → IfCtx → IOut
  | .wired => genWiredDisable
  | .ipWired => genWiredDisable
  | .wireless => genWirelessDisable

/-- an interface as it sits in its node -/
def ctxIn (n : Node) (hello : Bool) (c : Nic) : IfCtx := ⟨c, true, n.st, hello, []⟩

/-- **`for i in self.network_interfaces.values(): i.enable()` of the translated power methods runs the translated interface
bodies**: the model's `enableNics` (which `C12_gen_power_on_sem` / `_tick_power_sem` speak about) is, interface by interface,
the translated `enable()` of that interface's class in the context "this node, in its present state" — for every node (the
model keeps `linked = true` for an access point, which needs no link) -/
theorem C12_enableNics_runs_translated_enable (n : Node) (hello : Bool)
    (hw : ∀ c ∈ n.nics, c.kind = .wireless → c.linked = true) :
    (enableNics n).nics = n.nics.map (fun c => (genEnableOf c.kind (ctxIn n hello c)).1) := by
  simp only [enableNics]
  apply List.map_congr_left
  intro c hc
  obtain ⟨h1, h2, _, h4⟩ := C12_gen_interface_enable_sem (ctxIn n hello c)
  have hon : (ctxIn n hello c).on = n.isOn := by simp [IfCtx.on, ctxIn, Node.isOn]
  have hnic : (ctxIn n hello c).nic = c := rfl
  cases hk : c.kind
  · simp only [genEnableOf]; rw [h2, hon, hnic]
  · simp only [genEnableOf]; rw [h1, hon, hnic]
  · simp only [genEnableOf]; rw [h4, hon, hnic]
    exact (Nic.enableNoLink_eq _ _ (hw c hc hk)).symm

theorem C12_disableNics_runs_translated_disable (n : Node) (hello : Bool) :
    (disableNics n).nics = n.nics.map (fun c => (genDisableOf c.kind (ctxIn n hello c)).1) := by
  simp only [disableNics]
  apply List.map_congr_left
  intro c _
  obtain ⟨h1, h2⟩ := C12_gen_interface_disable_sem (ctxIn n hello c)
  have hnic : (ctxIn n hello c).nic = c := rfl
  cases hk : c.kind <;> simp only [genDisableOf] <;> first | rw [h1, hnic] | rw [h2, hnic]

/-- **hence: while the node is not ON, no translated `enable()` of any class brings any of its interfaces up** (the loop of
`power_on` included, were it to run) — every interface that is down stays down -/
theorem C12_not_on_no_interface_comes_up (n : Node) (hello : Bool) (hne : n.st ≠ .on) (c : Nic) (hd : c.enabled = false) :
    (genEnableOf c.kind (ctxIn n hello c)).1 = c := by
  obtain ⟨h1, h2, _, h4⟩ := C12_interface_enable_refused_unless_on (ctxIn n hello c) hne hd
  cases hk : c.kind
  · simp only [genEnableOf]; exact h2
  · simp only [genEnableOf]; exact h1
  · simp only [genEnableOf]; exact h4

end Primaite.Power
