/-
C11 — the action mask (`check_valid`) agrees with what `__call__` would refuse.
-/
import PrimaiteModel.Model.Request
import PrimaiteModel.Gen.RequestCore
import PrimaiteModel.Model.Mask
import PrimaiteModel.Gen.ActionMask
namespace Primaite.Request

/-- For every request tree, every validator valuation and every request: `check_valid` says `True` exactly when
`__call__` would reach a handler. -/
theorem C11_mask_iff_reaches_K (env : Env) (kids : Kids) (p : List Key) (d : Nat) :
    checkValidK env kids p = (dispatchK env kids p d).isReached := by
  induction p generalizing kids d with
  | nil => simp [checkValidK, dispatchK, Outcome.isReached]
  | cons k rest ih =>
    simp only [checkValidK, dispatchK]
    cases hl : lookup k kids with
    | none => simp [Outcome.isReached]
    | some vs =>
      obtain ⟨v, sub⟩ := vs
      cases hv : env v rest with
      | false => simp [hv, Outcome.isReached]
      | true =>
        cases sub with
        | leaf h => simp [hv, Outcome.isReached]
        | node kids' => simpa [hv] using ih kids' (d + 1)

theorem C11_mask_iff_reaches (env : Env) (t : Tree) (p : List Key) (d : Nat) :
    checkValid env t p = (dispatch env t p d).isReached := by
  cases t with
  | leaf h => simp [checkValid, dispatch, Outcome.isReached]
  | node kids => simpa [checkValid, dispatch] using C11_mask_iff_reaches_K env kids p d

/-- A masked-out action never reaches a handler: it is answered `unreachable` or `failure`. -/
theorem C11_masked_out_is_refused (env : Env) (t : Tree) (p : List Key)
    (h : checkValid env t p = false) :
    (∃ d, dispatch env t p = .unreachable d) ∨ (∃ d v, dispatch env t p = .failure d v) := by
  have := C11_mask_iff_reaches env t p 0
  rw [h] at this
  cases hd : dispatch env t p with
  | unreachable d => exact Or.inl ⟨d, rfl⟩
  | failure d v => exact Or.inr ⟨d, v, rfl⟩
  | reached hh a => rw [hd] at this; simp [Outcome.isReached] at this

/-- An action the mask allows is never refused by a permission rule (nor unreachable). -/
theorem C11_allowed_reaches_handler (env : Env) (t : Tree) (p : List Key)
    (h : checkValid env t p = true) : ∃ hd args, dispatch env t p = .reached hd args := by
  have := C11_mask_iff_reaches env t p 0
  rw [h] at this
  cases hd : dispatch env t p with
  | unreachable d => rw [hd] at this; simp [Outcome.isReached] at this
  | failure d v => rw [hd] at this; simp [Outcome.isReached] at this
  | reached hh a => exact ⟨hh, a, rfl⟩

/-- The mask is the conjunction of "the target exists" and "every permission rule along the path holds". -/
theorem C11_mask_is_exists_and_validators (env : Env) (kids : Kids) (p : List Key) :
    checkValidK env kids p =
      (pathExistsK kids p && (validatorsOnK kids p).all (fun va => env va.1 va.2)) := by
  induction p generalizing kids with
  | nil => simp [checkValidK, pathExistsK]
  | cons k rest ih =>
    simp only [checkValidK, pathExistsK, validatorsOnK]
    cases hl : lookup k kids with
    | none => simp
    | some vs =>
      obtain ⟨v, sub⟩ := vs
      cases sub with
      | leaf h => simp
      | node kids' =>
        simp only [List.all_cons]
        rw [ih kids']
        cases env v rest <;> cases pathExistsK kids' rest <;> simp

/-! ### why the traversal had to be repaired (F-19): the leaf-only traversal disagrees with execution -/

def exTree : Kids := [("service", 0, .node [("stop", 1, .leaf 7)])]
/-- node-is-on (validator 0) false, service-is-running (validator 1) true: a node that is shutting down -/
def envShuttingDown : Env := fun v _ => v == 1

theorem C11_leafOnly_counterexample :
    checkValidLeafOnlyK envShuttingDown exTree ["service", "stop"] = true ∧
    dispatchK envShuttingDown exTree ["service", "stop"] 0 = .failure 0 0 := by decide

/-- non-vacuity: the repaired traversal on the same witness, and a reachable case -/
example : checkValidK envShuttingDown exTree ["service", "stop"] = false := by decide
example : checkValidK (fun _ _ => true) exTree ["service", "stop"] = true ∧
    dispatchK (fun _ _ => true) exTree ["service", "stop"] 0 = .reached 7 [] := by decide

end Primaite.Request

/-! ### tie to the regenerated shape of `RequestManager.check_valid` (Gen/RequestCore.lean) -/
namespace Primaite.Request
open Primaite.Gen.RequestCore in
/-- `check_valid` evaluates the validator of every request type on the path before recursing, as `checkValidK` does. -/
theorem C11_gen_check_valid_shape :
    checkValidSteps = [.ifEmpty_false, .takeKey, .takeOptions, .ifMissing_false, .lookup,
                       .ifValidatorFalse_false, .ifManager_recurse, .return_true] := by decide
end Primaite.Request

/-! ### the mask is laid out by ACTION NUMBER (`PrimaiteGame.action_mask`), not by position in the file -/
namespace Primaite.Mask

theorem foldl_putBit_spec {α} (valid : α → Bool) : ∀ (l : List (Nat × α)) (m : List Bool),
    (l.map (·.1)).Nodup → (∀ e ∈ l, e.1 < m.length) →
    ∃ r, l.foldl (putBit valid) (some m) = some r ∧ r.length = m.length ∧
      (∀ e ∈ l, r[e.1]? = some (valid e.2)) ∧ (∀ j, j ∉ l.map (·.1) → r[j]? = m[j]?) := by
  intro l
  induction l with
  | nil => intro m _ _; exact ⟨m, rfl, rfl, by simp, by simp⟩
  | cons e t ih =>
    intro m hn hb
    have he : e.1 < m.length := hb e (by simp)
    simp only [List.map_cons, List.nodup_cons] at hn
    have hb' : ∀ x ∈ t, x.1 < (m.set e.1 (valid e.2)).length := by
      intro x hx; simpa using hb x (by simp [hx])
    obtain ⟨r, hr, hlen, hw, hk⟩ := ih (m.set e.1 (valid e.2)) hn.2 hb'
    refine ⟨r, ?_, ?_, ?_, ?_⟩
    · simp only [List.foldl_cons, putBit, he, if_true]; exact hr
    · simpa using hlen
    · intro x hx
      rcases List.mem_cons.mp hx with rfl | hx
      · rw [hk _ hn.1]; simp [he]
      · exact hw x hx
    · intro j hj
      simp only [List.map_cons, List.mem_cons, not_or] at hj
      rw [hk j hj.2]
      simp [Ne.symm hj.1]

theorem WellNumbered.nodup {α} {amap : List (Nat × α)} (h : WellNumbered amap) : (amap.map (·.1)).Nodup :=
  h.nodup_iff.mpr List.nodup_range

theorem WellNumbered.lt {α} {amap : List (Nat × α)} (h : WellNumbered amap) : ∀ e ∈ amap, e.1 < amap.length := by
  intro e he
  have : e.1 ∈ List.range amap.length := h.subset (List.mem_map_of_mem (f := (·.1)) he)
  simpa using this

theorem WellNumbered.has {α} {amap : List (Nat × α)} (h : WellNumbered amap) (i : Nat) (hi : i < amap.length) :
    ∃ a, (i, a) ∈ amap := by
  have : i ∈ amap.map (·.1) := h.symm.subset (by simpa using hi)
  rcases List.mem_map.mp this with ⟨e, he, rfl⟩
  exact ⟨e.2, he⟩

theorem actionOf_of_mem {α} : ∀ (amap : List (Nat × α)), (amap.map (·.1)).Nodup → ∀ e ∈ amap, actionOf amap e.1 = some e.2 := by
  intro amap
  induction amap with
  | nil => intro _ e he; simp at he
  | cons x t ih =>
    intro hn e he
    simp only [List.map_cons, List.nodup_cons] at hn
    rcases List.mem_cons.mp he with rfl | he
    · simp [actionOf]
    · have hne : (x.1 == e.1) = false := by
        simp only [beq_eq_false_iff_ne, ne_eq]
        exact fun q => hn.1 (q ▸ List.mem_map_of_mem (f := (·.1)) he)
      have := ih hn.2 e he
      simp only [actionOf, List.find?_cons, hne] at this ⊢
      exact this

/-- `action_mask` never raises on a well-numbered map, has one bit per action number, and bit `i` is the verdict of
`check_valid` on the request of THE ACTION THAT NUMBER `i` EXECUTES — wherever that entry stands in the file. -/
theorem C11_mask_by_action_number {α} (valid : α → Bool) (amap : List (Nat × α)) (h : WellNumbered amap) :
    ∃ r, actionMask valid amap = some r ∧ r.length = amap.length ∧
      ∀ i, i < amap.length → ∃ a, actionOf amap i = some a ∧ r[i]? = some (valid a) := by
  obtain ⟨r, hr, hlen, hw, _⟩ := foldl_putBit_spec valid amap (List.replicate amap.length true) h.nodup
    (by intro e he; simpa using h.lt e he)
  refine ⟨r, hr, by simpa using hlen, ?_⟩
  intro i hi
  obtain ⟨a, ha⟩ := h.has i hi
  exact ⟨a, actionOf_of_mem amap h.nodup (i, a) ha, hw (i, a) ha⟩

theorem WellNumbered.perm {α} {amap amap' : List (Nat × α)} (p : amap.Perm amap') (h : WellNumbered amap) : WellNumbered amap' := by
  unfold WellNumbered at *
  rw [← p.length_eq]
  exact (p.map (·.1)).symm.trans h

theorem actionOf_perm {α} {amap amap' : List (Nat × α)} (p : amap.Perm amap') (h : WellNumbered amap) (i : Nat) :
    actionOf amap' i = actionOf amap i := by
  by_cases hi : i < amap.length
  · obtain ⟨a, ha⟩ := h.has i hi
    rw [actionOf_of_mem amap h.nodup (i, a) ha, actionOf_of_mem amap' (h.perm p).nodup (i, a) (p.subset ha)]
  · have h1 : actionOf amap i = none := by
      simp only [actionOf, Option.map_eq_none_iff, List.find?_eq_none]
      intro e he q; exact hi (by have := h.lt e he; simp at q; omega)
    have h2 : actionOf amap' i = none := by
      simp only [actionOf, Option.map_eq_none_iff, List.find?_eq_none]
      intro e he q; exact hi (by have := (h.perm p).lt e he; rw [← p.length_eq] at this; simp at q; omega)
    rw [h1, h2]

/-- the order in which the file lists the entries of `action_map` does not change the mask -/
theorem C11_mask_key_order_irrelevant {α} (valid : α → Bool) {amap amap' : List (Nat × α)} (p : amap.Perm amap') (h : WellNumbered amap) :
    actionMask valid amap' = actionMask valid amap := by
  obtain ⟨r, hr, hl, hb⟩ := C11_mask_by_action_number valid amap h
  obtain ⟨r', hr', hl', hb'⟩ := C11_mask_by_action_number valid amap' (h.perm p)
  rw [hr, hr']
  congr 1
  apply List.ext_getElem?
  intro i
  by_cases hi : i < amap.length
  · obtain ⟨a, ha, hv⟩ := hb i hi
    obtain ⟨a', ha', hv'⟩ := hb' i (by rw [← p.length_eq]; exact hi)
    rw [actionOf_perm p h i, ha] at ha'
    cases ha'
    rw [hv, hv']
  · have l1 : r'.length ≤ i := by rw [hl', ← p.length_eq]; omega
    have l2 : r.length ≤ i := by rw [hl]; omega
    rw [List.getElem?_eq_none l1, List.getElem?_eq_none l2]

/-- what a mask laid out in FILE order (`[check_valid(…) for action in action_map.values()]`) would be -/
def maskInFileOrder {α} (valid : α → Bool) (amap : List (Nat × α)) : Option (List Bool) := some (amap.map (fun e => valid e.2))

/-- … and why that is wrong: a well-numbered map listed as `1, 0` gets the two bits the wrong way round. -/
theorem C11_file_order_layout_counterexample :
    WellNumbered [(1, "stop"), (0, "do-nothing")] ∧
    actionMask (· == "do-nothing") [(1, "stop"), (0, "do-nothing")] = some [true, false] ∧
    maskInFileOrder (· == "do-nothing") [(1, "stop"), (0, "do-nothing")] = some [false, true] := by
  refine ⟨?_, by decide, by decide⟩
  exact List.Perm.swap 0 1 []

/-- non-vacuity: a map listed out of order is well numbered and its mask is computed without error -/
example : WellNumbered [(2, 'c'), (0, 'a'), (1, 'b')] := by
  show [2, 0, 1].Perm [0, 1, 2]
  exact (List.Perm.swap 0 2 [1]).trans (List.Perm.cons 0 (List.Perm.swap 1 2 []))
example : actionMask (· == 'b') [(2, 'c'), (0, 'a'), (1, 'b')] = some [false, true, false] := by decide
/-- a key outside `0 … N-1` is the `IndexError` of `mask[i] = …` (excluded by the schema, kept visible in the model) -/
example : actionMask (fun _ => true) [(0, 'a'), (5, 'b')] = none := by decide

end Primaite.Mask

namespace Primaite.Request
open Primaite.Mask in
/-- **C11 end to end on the model**: for every request tree, validator valuation, well-numbered action map (entries in ANY
file order) and `form_request`: the mask has one bit per action number, and bit `i` is set exactly when executing action
number `i` now (`get_action(i)` → `form_request` → `__call__`) would reach its handler. -/
theorem C11_masked_number_iff_reaches {α} (env : Env) (t : Tree) (form : α → List Key) (amap : List (Nat × α))
    (h : WellNumbered amap) :
    ∃ r, actionMask (fun a => checkValid env t (form a)) amap = some r ∧ r.length = amap.length ∧
      ∀ i, i < amap.length → ∃ a, actionOf amap i = some a ∧
        ∀ d, r[i]? = some (dispatch env t (form a) d).isReached := by
  obtain ⟨r, hr, hl, hb⟩ := C11_mask_by_action_number (fun a => checkValid env t (form a)) amap h
  refine ⟨r, hr, hl, ?_⟩
  intro i hi
  obtain ⟨a, ha, hv⟩ := hb i hi
  exact ⟨a, ha, fun d => by rw [hv, C11_mask_iff_reaches env t (form a) d]⟩
end Primaite.Request

/-! ### tie to the regenerated shape of `PrimaiteGame.action_mask`, `PrimaiteGymEnv.action_masks`, `ActionManager` (Gen/ActionMask.lean) -/
namespace Primaite.Mask
open Primaite.Gen.ActionMask in
/-- the source has the shape `actionMask` / `actionOf` model: a list of `len(action_map)` bits, written BY KEY inside a loop over
`action_map.items()`, each bit `check_valid(form_request(action[0], action[1]), {})`; the environment hands that array out
unchanged (or all-true when masking is off); an executed number is looked up BY KEY; the schema demands every number below the
size as a key; `action_map` is built from the configured mapping key by key. -/
theorem C11_gen_action_mask_shape :
    maskSteps = ["mask = [True] * len(agent.action_manager.action_map)",
                 "for (i, action) in agent.action_manager.action_map.items()",
                 "request = agent.action_manager.form_request(action_identifier=action[0], action_options=action[1])",
                 "mask[i] = self.simulation._request_manager.check_valid(request, {})",
                 "return np.asarray(mask, dtype=np.int8)"] ∧
    envMaskReturnsGameMask = true ∧ getActionByKey = true ∧ schemaDemandsEveryNumber = true ∧ actionMapBuiltByKey = true ∧
    stepLooksUpByNumber = true := by decide
end Primaite.Mask
