/-
C11 — the action mask (`check_valid`) agrees with what `__call__` would refuse.
-/
import PrimaiteModel.Model.Request
import PrimaiteModel.Gen.RequestCore
namespace Primaite.Request

/-- For every request tree, every validator valuation and every request: `check_valid` says `True` exactly when
`__call__` would reach a handler. -/
theorem C11_mask_iff_reaches_K (env : Env) (kids : Kids) (p : List Key) (d : Nat) :
    checkValidK env kids p = (dispatchK env kids p d).isReached := by
  induction p generalizing kids d with
  | nil => simp [checkValidK, dispatchK, Outcome.isReached]
  | cons k rest ih =>
    simp only [checkValidK, dispatchK]
    cases hl : lookup k kids with
    | none => simp [Outcome.isReached]
    | some vs =>
      obtain ⟨v, sub⟩ := vs
      cases hv : env v rest with
      | false => simp [hv, Outcome.isReached]
      | true =>
        cases sub with
        | leaf h => simp [hv, Outcome.isReached]
        | node kids' => simpa [hv] using ih kids' (d + 1)

theorem C11_mask_iff_reaches (env : Env) (t : Tree) (p : List Key) (d : Nat) :
    checkValid env t p = (dispatch env t p d).isReached := by
  cases t with
  | leaf h => simp [checkValid, dispatch, Outcome.isReached]
  | node kids => simpa [checkValid, dispatch] using C11_mask_iff_reaches_K env kids p d

/-- A masked-out action never reaches a handler: it is answered `unreachable` or `failure`. -/
theorem C11_masked_out_is_refused (env : Env) (t : Tree) (p : List Key)
    (h : checkValid env t p = false) :
    (∃ d, dispatch env t p = .unreachable d) ∨ (∃ d v, dispatch env t p = .failure d v) := by
  have := C11_mask_iff_reaches env t p 0
  rw [h] at this
  cases hd : dispatch env t p with
  | unreachable d => exact Or.inl ⟨d, rfl⟩
  | failure d v => exact Or.inr ⟨d, v, rfl⟩
  | reached hh a => rw [hd] at this; simp [Outcome.isReached] at this

/-- An action the mask allows is never refused by a permission rule (nor unreachable). -/
theorem C11_allowed_reaches_handler (env : Env) (t : Tree) (p : List Key)
    (h : checkValid env t p = true) : ∃ hd args, dispatch env t p = .reached hd args := by
  have := C11_mask_iff_reaches env t p 0
  rw [h] at this
  cases hd : dispatch env t p with
  | unreachable d => rw [hd] at this; simp [Outcome.isReached] at this
  | failure d v => rw [hd] at this; simp [Outcome.isReached] at this
  | reached hh a => exact ⟨hh, a, rfl⟩

/-- The mask is the conjunction of "the target exists" and "every permission rule along the path holds". -/
theorem C11_mask_is_exists_and_validators (env : Env) (kids : Kids) (p : List Key) :
    checkValidK env kids p =
      (pathExistsK kids p && (validatorsOnK kids p).all (fun va => env va.1 va.2)) := by
  induction p generalizing kids with
  | nil => simp [checkValidK, pathExistsK]
  | cons k rest ih =>
    simp only [checkValidK, pathExistsK, validatorsOnK]
    cases hl : lookup k kids with
    | none => simp
    | some vs =>
      obtain ⟨v, sub⟩ := vs
      cases sub with
      | leaf h => simp
      | node kids' =>
        simp only [List.all_cons]
        rw [ih kids']
        cases env v rest <;> cases pathExistsK kids' rest <;> simp

/-! ### why the traversal had to be repaired (F-19): the leaf-only traversal disagrees with execution -/

def exTree : Kids := [("service", 0, .node [("stop", 1, .leaf 7)])]
/-- node-is-on (validator 0) false, service-is-running (validator 1) true: a node that is shutting down -/
def envShuttingDown : Env := fun v _ => v == 1

theorem C11_leafOnly_counterexample :
    checkValidLeafOnlyK envShuttingDown exTree ["service", "stop"] = true ∧
    dispatchK envShuttingDown exTree ["service", "stop"] 0 = .failure 0 0 := by decide

/-- non-vacuity: the repaired traversal on the same witness, and a reachable case -/
example : checkValidK envShuttingDown exTree ["service", "stop"] = false := by decide
example : checkValidK (fun _ _ => true) exTree ["service", "stop"] = true ∧
    dispatchK (fun _ _ => true) exTree ["service", "stop"] 0 = .reached 7 [] := by decide

end Primaite.Request

/-! ### tie to the regenerated shape of `RequestManager.check_valid` (Gen/RequestCore.lean) -/
namespace Primaite.Request
open Primaite.Gen.RequestCore in
/-- `check_valid` evaluates the validator of every request type on the path before recursing, as `checkValidK` does. -/
theorem C11_gen_check_valid_shape :
    checkValidSteps = [.ifEmpty_false, .takeKey, .takeOptions, .ifMissing_false, .lookup,
                       .ifValidatorFalse_false, .ifManager_recurse, .return_true] := by decide
end Primaite.Request
