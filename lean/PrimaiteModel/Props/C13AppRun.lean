/-
C13, round 7b: `install_timing` at node level as ONE theorem over `Node.run` (the application counterpart of
`C13_node_restart_timing`): refinement of an application object along a whole run, raising operations included, composed with
the event-level install-timing theorems and the characterisation of the operations that deliver a tick.
-/
import PrimaiteModel.Props.C13
namespace Primaite.C13
open Primaite.Lifecycle Primaite.Registries

/-- ticks reach an application only from `Node.apply_timestep` while the node is ON after its power countdowns (and the
application is in `node.applications`), or from a direct call of its `apply_timestep` -/
theorem C13_app_tick_delivered_iff (n : Node) (op : Op) (i : AppInst) :
    AppEv.tick ∈ n.appEvs op i ↔
      (op = .tick ∧ n.applications.contains i.m.uid = true ∧ n.powerTick.1 = .on) ∨ op = .appApi i.m.uid .tick := by
  cases op <;> simp only [Node.appEvs]
  case appReq name r =>
    constructor
    · intro h
      split at h
      · split at h
        · split at h
          · simp only [List.mem_singleton] at h; cases r <;> simp [AppReq.ev] at h
          · simp at h
        · simp at h
      · simp at h
    · simp
  case appApi u e =>
    constructor
    · intro h
      split at h
      · rename_i hu
        split at h
        · simp at h
        · simp only [List.mem_singleton] at h; subst h; subst hu; exact Or.inr rfl
      · simp at h
    · rintro (h | h)
      · simp at h
      · cases h; simp
  case tick =>
    by_cases hc : n.applications.contains i.m.uid = true
    · cases hp : n.powerTick.1 <;> simp [hc, Node.ticks, hp, Node.fanApp] <;> (cases n.fan .tick <;> simp)
    · have hm : i.m.uid ∉ n.applications := by simpa using hc
      simp [hm]
  all_goals
    (simp only [Node.ticks, Node.fanApp, Node.fan]
     split <;> simp <;> (try split) <;> simp)

/-- the events operation `op` delivers to application object `u` in node state `n` (none when `op` raises) -/
def appEvsOf (n : Node) (u : Nat) (op : Op) : List AppEv :=
  match n.findApp u with
  | some i => if (n.step op).2 = .raised then [] else n.appEvs op i
  | none => []

def appTrace (n : Node) (u : Nat) : List Op → List AppEv
  | [] => []
  | op :: ops => appEvsOf n u op ++ appTrace (n.step op).1 u ops

/-- number of ticks the run delivers to application `u` -/
def appTicksTo (n : Node) (u : Nat) (ops : List Op) : Nat := (appTrace n u ops).count .tick

/-- uids are never reused: the counter of created objects never decreases -/
theorem step_next_mono (n : Node) (op : Op) : n.next ≤ (n.step op).1.next := by
  have hinstS : ∀ c cfg l hl f n', n.installSvc c cfg l hl f = some n' → n.next ≤ n'.next := by
    intro c cfg l hl f n' h
    unfold Node.installSvc at h
    split at h
    · cases h; exact Nat.le_refl _
    · cases he : n.evict c.name with
      | none => simp [he] at h
      | some n1 =>
        have := (evict_heap n n1 c.name he).2.2.1
        simp only [he, Option.map_some, Option.some.injEq] at h
        subst h
        show n.next ≤ n1.next + 1
        omega
  have hinstA : ∀ c cfg l hl f n', n.installApp c cfg l hl f = some n' → n.next ≤ n'.next := by
    intro c cfg l hl f n' h
    rcases (installApp_heap n n' c cfg l hl f h).2.1 with hs | ⟨_, hn⟩
    · unfold Node.installApp at h
      split at h
      · cases h; exact Nat.le_refl _
      · cases he : n.evict c.name with
        | none => simp [he] at h
        | some n1 =>
          have := (evict_heap n n1 c.name he).2.2.1
          simp only [he, Option.map_some, Option.some.injEq] at h
          subst h
          show n.next ≤ n1.next + 1
          omega
    · omega
  cases op with
  | installSvc c cfg l hl f =>
    simp only [Node.step]
    cases hi : n.installSvc c cfg l hl f with
    | none => exact Nat.le_refl _
    | some n' => exact hinstS _ _ _ _ _ _ hi
  | installApp c cfg l hl f =>
    simp only [Node.step]
    cases hi : n.installApp c cfg l hl f with
    | none => exact Nat.le_refl _
    | some n' => exact hinstA _ _ _ _ _ _ hi
  | uninstall name =>
    simp only [Node.step]
    cases hu : n.uninstall name with
    | none => exact Nat.le_refl _
    | some n' => simp only; rw [(uninstall_heap n n' name hu).2.2.1]; exact Nat.le_refl _
  | reqInstall name c =>
    simp only [Node.step]
    split
    · exact Nat.le_refl _
    · split
      · exact Nat.le_refl _
      · cases c with
        | none => exact Nat.le_refl _
        | some cl =>
          obtain ⟨c, l⟩ := cl
          cases hi : n.installApp c false l .good 2 with
          | none => simp only [hi]; exact Nat.le_refl _
          | some n1 =>
            have := hinstA _ _ _ _ _ _ hi
            simp only [hi]
            split <;> exact this
  | reqUninstall name =>
    simp only [Node.step]
    split
    · exact Nat.le_refl _
    · split
      · exact Nat.le_refl _
      · cases hu : n.uninstall name with
        | none => exact Nat.le_refl _
        | some n' => simp only; rw [(uninstall_heap n n' name hu).2.2.1]; exact Nat.le_refl _
  | svcReq name r => exact Nat.le_refl _
  | appReq name r => exact Nat.le_refl _
  | svcApi v e => simp only [Node.step]; split <;> (try split) <;> exact Nat.le_refl _
  | appApi v e => simp only [Node.step]; split <;> (try split) <;> exact Nat.le_refl _
  | tick => simp only [Node.step]; split <;> exact Nat.le_refl _
  | powerOn => simp only [Node.step]; (repeat' split) <;> exact Nat.le_refl _
  | powerOff => simp only [Node.step]; (repeat' split) <;> exact Nat.le_refl _
  | reqStartup => simp only [Node.step]; (repeat' split) <;> exact Nat.le_refl _
  | reqShutdown => simp only [Node.step]; (repeat' split) <;> exact Nat.le_refl _
  | deliver p pr sc => exact Nat.le_refl _
  | frame hd sc => simp only [Node.step]; split <;> exact Nat.le_refl _
  | send v => simp only [Node.step]; split <;> exact Nat.le_refl _

/-- an operation that raises leaves every existing application object as it was -/
theorem step_raised_findApp (n : Node) (op : Op) (u : Nat) (i : AppInst) (h : n.findApp u = some i)
    (hr : (n.step op).2 = .raised) : (n.step op).1.findApp u = some i := by
  have hfind : n.apps.find? (fun i => i.m.uid == u) = some i := h
  have hiu : i.m.uid = u := by
    have := List.find?_some hfind
    simpa using this
  cases op with
  | installSvc c cfg l hl f =>
    simp only [Node.step] at hr ⊢
    cases hi : n.installSvc c cfg l hl f with
    | none => exact h
    | some n' => simp [hi] at hr
  | installApp c cfg l hl f =>
    simp only [Node.step] at hr ⊢
    cases hi : n.installApp c cfg l hl f with
    | none => exact h
    | some n' => simp [hi] at hr
  | uninstall name =>
    simp only [Node.step] at hr ⊢
    cases hu : n.uninstall name with
    | none => exact h
    | some n' => simp [hu] at hr
  | reqInstall name c =>
    simp only [Node.step] at hr ⊢
    split
    · exact h
    · split
      · exact h
      · cases c with
        | none => exact h
        | some cl =>
          obtain ⟨c, l⟩ := cl
          cases hi : n.installApp c false l .good 2 with
          | none => simp only [hi]; exact h
          | some n1 =>
            obtain ⟨_, hs, _⟩ := installApp_heap n n1 c false l .good 2 hi
            have hfind1 : n1.apps.find? (fun i => i.m.uid == u) = some i := by
              rcases hs with hs | ⟨hs, _⟩
              · rw [hs]; exact hfind
              · rw [hs]; exact find_append_found _ _ _ _ hfind
            simp only [hi] at hr ⊢
            split
            · rename_i h1 h2 _ _ hc
              exfalso
              have h1' : n.isOn = true := by simpa using h1
              have h2' : dhas name n.software = false := by simpa using h2
              simp [h1', h2', hc] at hr
            · exact hfind1
  | reqUninstall name =>
    simp only [Node.step] at hr ⊢
    split
    · exact h
    · split
      · exact h
      · cases hu : n.uninstall name with
        | none => exact h
        | some n' => exfalso; simp_all
  | appReq name r =>
    have hd := findApp_deliver n (.appReq name r) u i h
    have hnil : n.appEvs (.appReq name r) i = [] := by
      simp only [Node.appEvs]
      split
      · rename_i hon
        split
        · rename_i v hv
          by_cases hvu : v = i.m.uid
          · exfalso
            have hfv : n.findApp v = some i := by rw [hvu, hiu]; exact h
            revert hr
            simp only [Node.step, Node.appReqOut, hon, hv, hfv]
            simp
            split <;> (try split) <;> simp
          · simp [hvu]
        · rfl
      · rfl
    show (n.deliverEvs _).findApp u = some i
    rw [hd, hnil]; rfl
  | svcReq name r =>
    have hd := findApp_deliver n (.svcReq name r) u i h
    show (n.deliverEvs _).findApp u = some i
    rw [hd, appEvs_nil_of_quiet n _ i (by intros; simp) (by intros; simp) rfl rfl]; rfl
  | svcApi v e =>
    cases hf : n.findSvc v with
    | none => simp only [Node.step, hf]; exact h
    | some j =>
      simp only [Node.step, hf] at hr ⊢
      by_cases hcnd : e = SvcEv.tick ∧ (!j.s.tickOk) = true
      · rw [if_pos hcnd]; exact h
      · rw [if_neg hcnd] at hr; simp at hr
  | appApi v e =>
    cases hf : n.findApp v with
    | none => simp only [Node.step, hf]; exact h
    | some j =>
      simp only [Node.step, hf] at hr ⊢
      by_cases hcnd : e = AppEv.tick ∧ (!j.a.tickOk) = true
      · rw [if_pos hcnd]; exact h
      · rw [if_neg hcnd] at hr; simp at hr
  | tick =>
    simp only [Node.step] at hr ⊢
    split
    · exact h
    · rename_i hne; simp [hne] at hr
  | powerOn => exfalso; revert hr; simp only [Node.step]; repeat' split <;> simp
  | powerOff => exfalso; revert hr; simp only [Node.step]; repeat' split <;> simp
  | reqStartup => exfalso; revert hr; simp only [Node.step]; repeat' split <;> simp
  | reqShutdown => exfalso; revert hr; simp only [Node.step]; repeat' split <;> simp
  | deliver p pr sc => exact h
  | frame hd sc => simp only [Node.step]; split <;> exact h
  | send v => simp only [Node.step]; split <;> exact h

theorem app_applyAll_append (l1 l2 : List AppEv) (a : App) : a.applyAll (l1 ++ l2) = (a.applyAll l1).applyAll l2 := by
  induction l1 generalizing a with
  | nil => rfl
  | cons e t ih => simp only [List.cons_append, App.applyAll]; exact ih _

/-- one step, raising or not: the object afterwards is the object before with `appEvsOf` applied -/
theorem step_application_total (n : Node) (op : Op) (u : Nat) (i : AppInst) (h : n.findApp u = some i) (hfresh : u < n.next) :
    (n.step op).1.findApp u = some { i with a := i.a.applyAll (appEvsOf n u op) } := by
  unfold appEvsOf
  rw [h]
  by_cases hr : (n.step op).2 = .raised
  · simp only [hr, if_true]
    exact step_raised_findApp n op u i h hr
  · simp only [hr, if_false]
    exact C13_step_application n op u i h hfresh hr

/-- **Refinement along a whole run, applications.**  For every node state, every application object `u` created so far and EVERY
operation sequence (raising operations included), the object after the run is the object before with exactly `appTrace` applied. -/
theorem C13_run_application (ops : List Op) (n : Node) (u : Nat) (i : AppInst) (h : n.findApp u = some i) (hfresh : u < n.next) :
    (n.run ops).findApp u = some { i with a := i.a.applyAll (appTrace n u ops) } := by
  induction ops generalizing n i with
  | nil => exact h
  | cons op ops ih =>
    have h1 := step_application_total n op u i h hfresh
    have := ih (n.step op).1 _ h1 (Nat.lt_of_lt_of_le hfresh (step_next_mono n op))
    simp only [Node.run, appTrace]
    rw [this, app_applyAll_append]

theorem run_next_mono (ops : List Op) (n : Node) : n.next ≤ (n.run ops).next := by
  induction ops generalizing n with
  | nil => exact Nat.le_refl _
  | cons op ops ih => exact Nat.le_trans (step_next_mono n op) (ih _)

/-- the events one operation delivers to an application: no tick at all, or some power fan-out events (no tick, no
`forceClosed`) followed by exactly one tick, which comes last -/
theorem appEvs_tick_last (n : Node) (op : Op) (i : AppInst) :
    AppEv.tick ∉ n.appEvs op i ∨
    ∃ pre, n.appEvs op i = pre ++ [AppEv.tick] ∧ AppEv.tick ∉ pre ∧ AppEv.forceClosed ∉ pre := by
  rcases appEvs_shape n op i with ⟨e, he, _⟩ | ⟨f, hfs, t, ht⟩
  · by_cases hte : e = .tick
    · exact Or.inr ⟨[], by rw [he, hte]; rfl, by simp, by simp⟩
    · exact Or.inl (by rw [he]; simpa using fun h => hte h.symm)
  · cases t
    · left; rw [ht]; rcases hfs with rfl | rfl | rfl <;> simp
    · right; refine ⟨f, by rw [ht]; rfl, ?_, ?_⟩ <;> rcases hfs with rfl | rfl | rfl <;> simp

/-- **`install_timing` at node level, one theorem over `Node.run`.**  Application object `u` (created so far) is INSTALLING with
countdown `c` (`= install_duration` when `install()` ran).  For EVERY operation sequence `ops` — requests to this or any other
software, API calls, installs / uninstalls, power events, payloads, raising operations — that never delivers it the `forceClosed`
of a re-registration:
* while the run has delivered it fewer than `max(c,1)` ticks (a tick = `apply_timestep` of the node while it is ON after its power
  countdowns and `u` is in `node.applications`, or `apply_timestep` of the object: `C13_app_tick_delivered_iff`), it is still
  INSTALLING and its countdown is `c −` that number: the install is suspended while the node is not ON, unaffected by anything else;
* the operation that delivers tick number `max(c,1)` makes it RUNNING with health GOOD and the countdown cleared. -/
theorem C13_node_install_timing (ops : List Op) (n : Node) (u : Nat) (i : AppInst) (c : Int)
    (h : n.findApp u = some i) (hfresh : u < n.next) (hs : i.a.st = .installing) (hc : i.a.cd = some c)
    (hd : AppEv.forceClosed ∉ appTrace n u ops) :
    ((appTicksTo n u ops : Int) < max c 1 →
      ∃ j, (n.run ops).findApp u = some j ∧ j.m = i.m ∧ j.a.st = .installing ∧ j.a.cd = some (c - appTicksTo n u ops)) ∧
    (∀ op, (appTicksTo n u ops : Int) = max c 1 - 1 → AppEv.tick ∈ appEvsOf (n.run ops) u op →
      ∃ j, ((n.run ops).step op).1.findApp u = some j ∧ j.m = i.m ∧ j.a.st = .running ∧ j.a.cd = none ∧ j.a.sw.actual = .good) := by
  have hrun := C13_run_application ops n u i h hfresh
  have hfresh' : u < (n.run ops).next := Nat.lt_of_lt_of_le hfresh (run_next_mono ops n)
  constructor
  · intro hk
    obtain ⟨h1, h2⟩ := C13_install_timing_before (appTrace n u ops) i.a c hs hc hd hk
    exact ⟨_, hrun, rfl, h1, h2⟩
  · intro op hk ht
    have hstep := step_application_total (n.run ops) op u _ hrun hfresh'
    refine ⟨_, hstep, rfl, ?_⟩
    obtain ⟨pre, hsplit, hpre, hdpre⟩ :
        ∃ pre, appEvsOf (n.run ops) u op = pre ++ [AppEv.tick] ∧ AppEv.tick ∉ pre ∧ AppEv.forceClosed ∉ pre := by
      unfold appEvsOf at ht ⊢
      rw [hrun] at ht ⊢
      simp only at ht ⊢
      split at ht
      · simp at ht
      · rename_i hnr
        rw [if_neg hnr]
        rcases appEvs_tick_last (n.run ops) op _ with hno | hyes
        · exact absurd ht hno
        · exact hyes
    show (App.applyAll _ (appEvsOf (n.run ops) u op)).st = .running ∧ (App.applyAll _ (appEvsOf (n.run ops) u op)).cd = none ∧
      (App.applyAll _ (appEvsOf (n.run ops) u op)).sw.actual = .good
    rw [hsplit, ← app_applyAll_append, ← List.append_assoc]
    apply C13_install_timing_completes (appTrace n u ops ++ pre) i.a c hs hc
    · simp only [List.mem_append, not_or]; exact ⟨hd, hdpre⟩
    · rw [List.count_append, List.count_eq_zero.mpr hpre]; simpa [appTicksTo] using hk

/-- non-vacuity and the concrete figure at node level: a dos-bot installed through the request on an ON node (install_duration 2),
a shutdown / start-up cycle and unrelated operations in between; ticks while the node is not ON do not count: INSTALLING while one
tick reached it, RUNNING with the second. -/
example :
    let c : Cls := { cid := "DoSBot", name := "dos-bot", port := 0, proto := 0 }
    let n0 := ({ upDur := 1, downDur := 1 } : Node).run [.reqInstall "dos-bot" (some (c, []))]
    let ops : List Op := [.tick, .appReq "dos-bot" .close, .reqShutdown, .tick, .tick, .reqStartup, .tick]
    ((n0.findApp 0).map (·.a.st), (n0.findApp 0).map (·.a.cd)) = (some .installing, some (some 2)) ∧
    appTicksTo n0 0 ops = 1 ∧ ((n0.run ops).findApp 0).map (·.a.st) = some .installing ∧
    AppEv.tick ∈ appEvsOf (n0.run ops) 0 .tick ∧ (((n0.run ops).step .tick).1.findApp 0).map (·.a.st) = some .running := by decide

end Primaite.C13
