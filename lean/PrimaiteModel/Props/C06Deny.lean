/-
C06, second sentence of the property made explicit: *a frame that a router or firewall has decided to deny is never
forwarded by it nor handed to its own software* — for BOTH verdicts a firewall takes, and for the decision
`check_send_frame_to_session_manager` that sits between them.

* `C06_gen_toSession`: the source expression of `Router.check_send_frame_to_session_manager` (translated by the extractor
  from Python's own parse tree, so operator precedence is Python's) equals the model's `toSessionDecision` for every
  valuation of the three facts it reads; `C06_gen_entry_shape`: the branch structure of the six firewall entry points.
* `C06_firewall_closed_form`: what a firewall does with ANY frame on ANY attacker- or protected-facing port, as one
  expression: first verdict → (learn) → session manager XOR (look-ups →) second entry point → second verdict → `process_frame`.
* `C06_firewall_first_deny_nothing`, `C06_firewall_second_deny_nothing`: after a DENY at either stage the rest of the handler is
  `done` — the only things that ever ran are the verdict(s), the ARP learning between them and (DMZ-outbound) the look-ups.
* `C06_toSession_only_own`, `C06_firewall_transit_reaches_second_verdict`, `C06_firewall_transit_denied_inert`: a frame that is
  not addressed to one of the device's own interface addresses is never handed to its software; it always meets the
  second list (this is what the operator-precedence slip of seeded change C06-c broke).
-/
import PrimaiteModel.Model.FilterClass
import PrimaiteModel.Props.C06
import PrimaiteModel.Gen.Filter
import PrimaiteModel.Props.C07Frame
namespace Primaite.Filter
open Primaite Primaite.Acl Primaite.Cut

variable {W : Type}

/-! ## 0. the verdict is history-free -/

/-- the list after it has judged the packets `hist`, in that order (only hit counters move) -/
def afterHistory (a : Acl) (hist : List Packet) : Acl := hist.foldl (fun a q => (isPermitted a q).2.2) a

/-- **`denied` is a function of (rule list, frame), not of what the element has judged before.**  Whatever packets a list has
judged — permitted traffic to a third host on the same protocol and ports, probes, floods, in any order — its verdict and the
deciding rule for packet `p` are those of the list as configured.  This is why the cut theorems may quantify over arbitrary
prior traffic (the initial state of every rule list is "any counters"); a verdict cache keyed by less than the whole packet
(seeded change C06-e: protocol, source, ports — no destination) is exactly what it excludes. -/
theorem C06_verdict_history_free (a : Acl) (hist : List Packet) (p : Packet) :
    (isPermitted (afterHistory a hist) p).1 = (isPermitted a p).1 ∧
    (isPermitted (afterHistory a hist) p).2.1 = (isPermitted a p).2.1 := by
  induction hist generalizing a with
  | nil => exact ⟨rfl, rfl⟩
  | cons q rest ih =>
    have h1 := ih (isPermitted a q).2.2
    have h2 := C07_verdict_stable a p q
    simp only at h2
    exact ⟨h1.1.trans h2.1, h1.2.trans h2.2⟩

/-- non-vacuity: A→C permitted (dst-specific PERMIT above), then A→B with the same protocol, source and ports is still denied -/
example : let acl : Acl := { rules := [some { anyPattern with action := .permit, dstIp := some 0x0A000215#32 },
                                        some { anyPattern with dstIp := some 0x0A000214#32 }] ++ List.replicate 22 none, implicit := .permit }
    let toC : Packet := { proto := .tcp, srcIp := 0x0A00010A#32, dstIp := 0x0A000215#32, ports := some (5432, 5432) }
    let toB : Packet := { proto := .tcp, srcIp := 0x0A00010A#32, dstIp := 0x0A000214#32, ports := some (5432, 5432) }
    (isPermitted acl toC).1 = true ∧ (isPermitted (afterHistory acl [toC, toC]) toB).1 = false := by decide

/-- **the code's `AccessControlList.is_permitted` reads the object and the frame, nothing else**: C07's translation of the method
(regenerated on every C06 run as well) equals the model function; a memo, a session table or any other state would have to
appear in the translated method and break this -/
theorem C06_gen_is_permitted_pure (a : AclObj) (f : Primaite.Gen.AclMatch.FrameView) :
    Primaite.Gen.AclState.isPermitted a f = a.isPermitted (toPacket f) := C07_gen_is_permitted a f

/-! ## 1. the decision between the two stages, tied to the source expression -/

def evalB (env : String → Bool) : Gen.Filter.BExpr → Bool
  | .atom n => env n
  | .const b => b
  | .and a b => evalB env a && evalB env b
  | .or a b => evalB env a || evalB env b
  | .not a => !evalB env a

def toSessionEnv (own icmp isOpen : Bool) : String → Bool :=
  fun n => if n = "own" then own else if n = "icmp" then icmp else if n = "open" then isOpen else false

/-- **The translated source expression is the model's decision, for every valuation.** -/
theorem C06_gen_toSession (own icmp isOpen : Bool) :
    evalB (toSessionEnv own icmp isOpen) Gen.Filter.toSessionExpr = toSessionDecision own icmp isOpen := by
  cases own <;> cases icmp <;> cases isOpen <;> decide

/-- what the tie excludes: with `frame.icmp or own and open` (Python reads it `icmp or (own and open)`) a transit ICMP frame
would be handed to the device's own software -/
example : evalB (toSessionEnv false true false) (.or (.atom "icmp") (.and (.atom "own") (.atom "open"))) = true ∧
    toSessionDecision false true false = false := by decide

/-- branch structure of the six entry points: first-stage ones are `learn; if toSession then session else <second stage only>`
(the session manager and the second stage exclude each other; the object handed on is the frame that was judged),
second-stage ones are `process_frame` alone -/
theorem C06_gen_entry_shape :
    Gen.Filter.entryShape =
      [("extIn", "learn;if-toSession-then-session-else-second"), ("extOut", "process"), ("intIn", "process"),
       ("intOut", "learn;if-toSession-then-session-else-second"), ("dmzIn", "process"),
       ("dmzOut", "learn;if-toSession-then-session-else-second")] := by decide

/-- the DMZ-outbound entry point drops a layer-2 broadcast (not for the firewall itself) BEFORE it resolves an outbound
interface: no ARP request is sent on behalf of a broadcast (C08's repair, modelled in `fwNext`) -/
theorem C06_gen_dmz_broadcast_drop : Gen.Filter.dmzOutDropsBroadcast = dmzOutDropsBroadcast := by decide

/-- a frame handed to the device's own software is addressed to one of its interface addresses -/
theorem C06_toSession_only_own (openPorts : Node W → List Nat) (s : Node W) (f : Frame)
    (h : stdToSession openPorts s f = true) : isOwnIp s f.pkt.dstIp = true := by
  simp only [stdToSession, toSessionDecision, Bool.and_eq_true] at h
  exact h.1

/-! ## 2. the router, one expression -/

/-- `Router.receive_frame` for every frame: OFF → nothing; exempt (genuine ARP) → no verdict; otherwise the verdict, and on
DENY nothing but the counter. -/
theorem C06_router_closed_form (soft : Soft W) (s : Node W) (p : Nat) (f : Frame) (hk : s.kind = .router) :
    nodeLayer soft s p f =
      if s.on = false then .done s else
      match subjectToAcl f with
      | none => .done s
      | some false => permitted soft s p f
      | some true =>
        if (isPermitted (s.acls .router) f.pkt).1 = false then .done (s.setAcl .router (isPermitted (s.acls .router) f.pkt).2.2)
        else permitted soft (s.setAcl .router (isPermitted (s.acls .router) f.pkt).2.2) p f := by
  simp only [nodeLayer, hk, routerRx, routerRxWith]
  cases hon : s.on
  · simp
  · simp only [Bool.not_true, Bool.false_eq_true, if_false]
    cases hs : subjectToAcl f with
    | none => rfl
    | some b =>
      cases b
      · rfl
      · simp only
        cases hv : (isPermitted (s.acls .router) f.pkt).1 <;> simp

/-- the router's own software sees a frame only through `permitted`: exempt, or PERMIT -/
theorem C06_router_denied_nothing (soft : Soft W) (s : Node W) (p : Nat) (f : Frame) (hk : s.kind = .router)
    (hsub : subjectToAcl f = some true) (hdeny : (isPermitted (s.acls .router) f.pkt).1 = false) :
    ∃ s', nodeLayer soft s p f = .done s' ∧ s'.sw = s.sw ∧ s'.ifaces = s.ifaces ∧ s'.on = s.on := by
  rw [C06_router_closed_form soft s p f hk]
  cases hon : s.on
  · exact ⟨s, by simp, rfl, rfl, hon⟩
  · exact ⟨s.setAcl .router (isPermitted (s.acls .router) f.pkt).2.2, by simp [hsub, hdeny], rfl, rfl, hon⟩

/-- the same through a router: in whatever order it judged other frames, a frame its configured list denies is dropped -/
theorem C06_router_deny_after_history (soft : Soft W) (s : Node W) (p : Nat) (f : Frame) (hist : List Packet)
    (hk : s.kind = .router) (hsub : subjectToAcl f = some true) (hdeny : (isPermitted (s.acls .router) f.pkt).1 = false) :
    ∃ s', nodeLayer soft (s.setAcl .router (afterHistory (s.acls .router) hist)) p f = .done s' ∧ s'.sw = s.sw ∧
      s'.ifaces = s.ifaces ∧ s'.on = s.on := by
  have hd : (isPermitted ((s.setAcl .router (afterHistory (s.acls .router) hist)).acls .router) f.pkt).1 = false := by
    simp only [Node.setAcl, if_true]
    rw [(C06_verdict_history_free _ hist f.pkt).1]; exact hdeny
  exact C06_router_denied_nothing soft _ p f hk hsub hd

/-! ## 3. the firewall, both stages, one expression -/

/-- the firewall's state after a first-stage PERMIT: that list's counter bumped, the sender learned -/
def fwS2 (soft : Soft W) (s : Node W) (p : Nat) (f : Frame) (e : FwEntry) : Node W :=
  { s.setAcl (entryAcl e) (isPermitted (s.acls (entryAcl e)) f.pkt).2.2 with
    sw := soft.learn (s.setAcl (entryAcl e) (isPermitted (s.acls (entryAcl e)) f.pkt).2.2) p f }

/-- what runs between the `toSession` test and the choice of the second entry point: the ARP / route look-ups of the
DMZ-outbound entry point (not for a layer-2 broadcast: it is dropped there, `secondEntry` = none), nothing elsewhere -/
def fwPre (soft : Soft W) (e : FwEntry) (p : Nat) (f : Frame) (s2 : Node W) : Script W :=
  match e with
  | .dmzOut => if f.dstMac == bcastMac then .done s2 else soft.dmzLookup s2 p f
  | _ => .done s2

/-- the second stage: the entry point the code selects, its verdict, and `process_frame` only on PERMIT -/
def fwSecond (soft : Soft W) (e : FwEntry) (p : Nat) (f : Frame) (s3 : Node W) : Script W :=
  match secondEntry soft e s3 f with
  | none => .done s3
  | some e2 =>
    if (isPermitted (s3.acls (entryAcl e2)) f.pkt).1 = false
    then .done (s3.setAcl (entryAcl e2) (isPermitted (s3.acls (entryAcl e2)) f.pkt).2.2)
    else soft.process (s3.setAcl (entryAcl e2) (isPermitted (s3.acls (entryAcl e2)) f.pkt).2.2) p f

theorem fwFinal_eq (soft : Soft W) (e2 : FwEntry) (s3 : Node W) (p : Nat) (f : Frame) :
    fwFinal soft e2 s3 p f =
      if (isPermitted (s3.acls (entryAcl e2)) f.pkt).1 = false
      then .done (s3.setAcl (entryAcl e2) (isPermitted (s3.acls (entryAcl e2)) f.pkt).2.2)
      else soft.process (s3.setAcl (entryAcl e2) (isPermitted (s3.acls (entryAcl e2)) f.pkt).2.2) p f := by
  simp only [fwFinal]
  cases (isPermitted (s3.acls (entryAcl e2)) f.pkt).1 <;> simp

theorem portEntry_first (p : Nat) (e : FwEntry) (h : portEntry p = some e) : e = .extIn ∨ e = .intOut ∨ e = .dmzOut := by
  unfold portEntry at h
  split at h
  · injection h with h; exact Or.inl h.symm
  · split at h
    · injection h with h; exact Or.inr (Or.inl h.symm)
    · split at h
      · injection h with h; exact Or.inr (Or.inr h.symm)
      · cases h

/-- the second stage of the three first-stage entry points: (look-ups, then) the selected entry point's verdict -/
theorem fwNext_eq (soft : Soft W) (e : FwEntry) (p : Nat) (f : Frame) (he : e = .extIn ∨ e = .intOut ∨ e = .dmzOut) :
    fwNext soft e p f = fun s2 => (fwPre soft e p f s2).bind (fwSecond soft e p f) := by
  funext s2
  rcases he with he | he | he <;> subst he
  · cases h : inDmzNet s2 f <;> simp [fwNext, fwPre, Act.bind, fwSecond, secondEntry, h, fwFinal_eq]
  · cases h : inDmzNet s2 f <;> simp [fwNext, fwPre, Act.bind, fwSecond, secondEntry, h, fwFinal_eq]
  · simp only [fwNext, fwPre]
    by_cases hb : (f.dstMac == bcastMac) = true
    · simp [hb, Act.bind, fwSecond, secondEntry]
    simp only [hb, Bool.false_eq_true, if_false]
    congr 1
    funext s3
    simp only [fwSecond, secondEntry, hb, Bool.false_eq_true, if_false]
    cases hq : soft.dmzOutNic s3 f with
    | none => rfl
    | some q =>
      simp only
      by_cases h1 : q = extPort
      · simp [h1, fwFinal_eq]
      · by_cases h2 : q = intPort
        · simp [h2, fwFinal_eq, extPort, intPort]
        · simp [h1, h2]

/-- **`Firewall.receive_frame`, for every frame, as one expression.**  First verdict; on DENY nothing else.  On PERMIT the
ARP learning, then EITHER the session manager (exactly when `check_send_frame_to_session_manager` says so) OR the second
stage: (DMZ-outbound: the look-ups, then) the entry point selected as in the code, ITS verdict, and `process_frame` only
if that verdict is PERMIT too.  There is no other path on which the firewall's software sees the frame. -/
theorem C06_firewall_closed_form (soft : Soft W) (s : Node W) (p : Nat) (f : Frame) (e : FwEntry)
    (hk : s.kind = .firewall) (hp : portEntry p = some e) :
    nodeLayer soft s p f =
      if (isPermitted (s.acls (entryAcl e)) f.pkt).1 = false
      then .done (s.setAcl (entryAcl e) (isPermitted (s.acls (entryAcl e)) f.pkt).2.2)
      else
        if soft.toSession (fwS2 soft s p f e) f
        then soft.session (fwS2 soft s p f e) p f
        else (fwPre soft e p f (fwS2 soft s p f e)).bind
            (fwSecond soft e p f) := by
  have hnl : nodeLayer soft s p f = fwFirst soft e (fwNext soft e p f) s p f := by simp [nodeLayer, hk, fwRx, hp]
  rw [hnl, fwNext_eq soft e p f (portEntry_first p e hp)]
  simp only [fwFirst, fwS2]
  cases hv : (isPermitted (s.acls (entryAcl e)) f.pkt).1
  · simp
  · simp only [Bool.not_true, Bool.false_eq_true, Bool.true_eq_false, if_false]
    rfl

/-- **first-stage DENY ⇒ nothing**: state = old state with that list's counter bumped; software never called. -/
theorem C06_firewall_first_deny_nothing (soft : Soft W) (s : Node W) (p : Nat) (f : Frame) (e : FwEntry)
    (hk : s.kind = .firewall) (hp : portEntry p = some e) (hdeny : (isPermitted (s.acls (entryAcl e)) f.pkt).1 = false) :
    ∃ s', nodeLayer soft s p f = .done s' ∧ s'.sw = s.sw ∧ s'.ifaces = s.ifaces ∧ s'.on = s.on :=
  ⟨s.setAcl (entryAcl e) (isPermitted (s.acls (entryAcl e)) f.pkt).2.2,
    by rw [C06_firewall_closed_form soft s p f e hk hp]; simp [hdeny], rfl, rfl, rfl⟩

/-- **second-stage DENY ⇒ nothing more**: in whatever state `s3` the second stage is entered (after the look-ups and any
re-entrant traffic they caused), if the list of the entry point the code selects denies the frame, the rest of the handler
is `done`: no `process_frame`, no session manager, nothing emitted; software state, interfaces and power untouched. -/
theorem C06_firewall_second_deny_nothing (soft : Soft W) (e : FwEntry) (p : Nat) (f : Frame) (s3 : Node W)
    (hdeny : ∀ e2, secondEntry soft e s3 f = some e2 → (isPermitted (s3.acls (entryAcl e2)) f.pkt).1 = false) :
    ∃ s4, fwSecond soft e p f s3 = .done s4 ∧ s4.sw = s3.sw ∧ s4.ifaces = s3.ifaces ∧ s4.on = s3.on := by
  unfold fwSecond
  cases h : secondEntry soft e s3 f with
  | none => exact ⟨s3, rfl, rfl, rfl, rfl⟩
  | some e2 =>
    exact ⟨s3.setAcl (entryAcl e2) (isPermitted (s3.acls (entryAcl e2)) f.pkt).2.2, by simp [hdeny e2 h], rfl, rfl, rfl⟩

/-- a software layer whose `toSession` is the code's decision -/
def StdSession (soft : Soft W) (openPorts : Node W → List Nat) : Prop := ∀ s f, soft.toSession s f = stdToSession openPorts s f

theorem isOwnIp_setAcl_sw (s : Node W) (a : AclId) (x : Acl) (w : W) (ip : Ip) :
    isOwnIp ({ s.setAcl a x with sw := w } : Node W) ip = isOwnIp s ip := rfl

/-- **A transit frame always meets the second list.**  With the code's `check_send_frame_to_session_manager`, a frame whose
destination is not one of the firewall's own interface addresses — whatever its protocol, ICMP included — is never handed
to the session manager: after a first-stage PERMIT the handler is exactly (look-ups, then) the second stage. -/
theorem C06_firewall_transit_reaches_second_verdict (soft : Soft W) (openPorts : Node W → List Nat) (hstd : StdSession soft openPorts)
    (s : Node W) (p : Nat) (f : Frame) (e : FwEntry) (hk : s.kind = .firewall) (hp : portEntry p = some e)
    (hperm : (isPermitted (s.acls (entryAcl e)) f.pkt).1 = true) (htransit : isOwnIp s f.pkt.dstIp = false) :
    nodeLayer soft s p f =
      (fwPre soft e p f (fwS2 soft s p f e)).bind
        (fwSecond soft e p f) := by
  rw [C06_firewall_closed_form soft s p f e hk hp]
  have hts : soft.toSession (fwS2 soft s p f e) f = false := by
    rw [hstd]
    have : isOwnIp (fwS2 soft s p f e) f.pkt.dstIp = false := htransit
    simp only [stdToSession, this, toSessionDecision, Bool.false_and]
  simp [hperm, hts]

/-- **The scenario of seeded change C06-c, as a theorem about the code's decision**: a transit frame (any protocol) arriving
from the external or internal zone, permitted by the first list and denied by the list of the second entry point, is inert
apart from the two counters and the ARP learning: the firewall's software never sees it and nothing is emitted. -/
theorem C06_firewall_transit_denied_inert (soft : Soft W) (openPorts : Node W → List Nat) (hstd : StdSession soft openPorts)
    (s : Node W) (p : Nat) (f : Frame) (e : FwEntry) (hk : s.kind = .firewall) (hp : portEntry p = some e)
    (he : e = .extIn ∨ e = .intOut)
    (hperm : (isPermitted (s.acls (entryAcl e)) f.pkt).1 = true) (htransit : isOwnIp s f.pkt.dstIp = false)
    (hdeny : ∀ e2, secondEntry soft e (fwS2 soft s p f e) f = some e2 →
      (isPermitted ((fwS2 soft s p f e).acls (entryAcl e2)) f.pkt).1 = false) :
    ∃ s4, nodeLayer soft s p f = .done s4 ∧ s4.ifaces = s.ifaces ∧ s4.on = s.on ∧ s4.sw = (fwS2 soft s p f e).sw := by
  rw [C06_firewall_transit_reaches_second_verdict soft openPorts hstd s p f e hk hp hperm htransit]
  have hpre : fwPre soft e p f (fwS2 soft s p f e) = .done (fwS2 soft s p f e) := by
    rcases he with he | he <;> subst he <;> rfl
  rw [hpre]
  simp only [Act.bind]
  obtain ⟨s4, h4, hsw, hif, hon⟩ := C06_firewall_second_deny_nothing soft e p f _ hdeny
  exact ⟨s4, h4, hif, hon, hsw⟩

/-! ## 3b. the DMZ-outbound look-ups run BEFORE the second verdict (open finding F-C06-dmz-lookup) -/

/-- nothing is emitted -/
def Silent (a : Script W) : Prop := Emits (fun _ _ _ => False) a

/-- The statement one would like: a frame from the DMZ that the first list permits, that is not for the firewall itself, and
that the list of WHATEVER second entry point is selected denies (in every state with the same lists), makes the firewall
emit nothing. -/
def C06_FullDmzDeniedSilent : Prop :=
  ∀ (soft : Soft Unit) (s : Node Unit) (f : Frame), s.kind = .firewall →
    (isPermitted (s.acls .dmzOut) f.pkt).1 = true → soft.toSession (fwS2 soft s dmzPort f .dmzOut) f = false →
    (∀ s3 e2, s3.acls = (fwS2 soft s dmzPort f .dmzOut).acls → secondEntry soft .dmzOut s3 f = some e2 →
      (isPermitted (s3.acls (entryAcl e2)) f.pkt).1 = false) →
    Silent (nodeLayer soft s dmzPort f)

theorem silent_bind_pres (P : Node W → Prop) : ∀ (a : Script W) (k : Node W → Script W), Silent a → Pres P a →
    (∀ s, P s → Silent (k s)) → Silent (a.bind k) := by
  intro a
  induction a with
  | done s => intro k _ hp hk; cases hp with | done h => exact hk s h
  | send s q g k' ih =>
    intro k ha _ _
    cases ha with
    | send hq _ => exact absurd hq id

/-- What the code gives: it holds whenever the look-ups themselves emit nothing (and leave the lists alone) — the
destination or the route's next hop is already in the ARP cache, or on-link for one of the firewall's interfaces, or there
is no route — and for every layer-2 broadcast (dropped before the look-ups). -/
theorem C06_dmz_denied_silent_partial (soft : Soft W) (s : Node W) (f : Frame) (hk : s.kind = .firewall)
    (hperm : (isPermitted (s.acls .dmzOut) f.pkt).1 = true) (hts : soft.toSession (fwS2 soft s dmzPort f .dmzOut) f = false)
    (hdeny : ∀ s3 e2, s3.acls = (fwS2 soft s dmzPort f .dmzOut).acls → secondEntry soft .dmzOut s3 f = some e2 →
      (isPermitted (s3.acls (entryAcl e2)) f.pkt).1 = false)
    (hquiet : f.dstMac = bcastMac ∨
      (Silent (soft.dmzLookup (fwS2 soft s dmzPort f .dmzOut) dmzPort f) ∧
       Pres (fun s3 => s3.acls = (fwS2 soft s dmzPort f .dmzOut).acls) (soft.dmzLookup (fwS2 soft s dmzPort f .dmzOut) dmzPort f))) :
    Silent (nodeLayer soft s dmzPort f) := by
  rw [C06_firewall_closed_form soft s dmzPort f .dmzOut hk rfl]
  have hp : ((isPermitted (s.acls (entryAcl .dmzOut)) f.pkt).1 = false) = False := by
    have : entryAcl .dmzOut = AclId.dmzOut := rfl
    rw [this, hperm]; simp
  simp only [hp, if_false, hts, Bool.false_eq_true]
  have hk2 : ∀ s3, s3.acls = (fwS2 soft s dmzPort f .dmzOut).acls → Silent (fwSecond soft .dmzOut dmzPort f s3) := by
    intro s3 h3
    obtain ⟨s4, h4, _⟩ := C06_firewall_second_deny_nothing soft .dmzOut dmzPort f s3 (hdeny s3 · h3)
    rw [h4]; exact Emits.done
  simp only [fwPre]
  split
  · exact hk2 _ rfl
  · rename_i hb
    rcases hquiet with h | ⟨h1, h2⟩
    · exact absurd (by simp [h]) hb
    · exact silent_bind_pres _ _ _ h1 h2 hk2

/-- software whose look-up sends an ARP request for the next hop out of the internal port (what
`RouterARP._get_arp_cache_network_interface` does for a destination behind a route when the cache is cold) -/
def exLookupSoft : Soft Unit :=
  { exEchoSoft with toSession := fun _ _ => false,
                    dmzLookup := fun s _ f => .send s intPort { f with arp := true, arpReq := true } (fun s' => .done s'),
                    dmzOutNic := fun _ _ => some intPort }

/-- a frame from a DMZ host to a host behind an internal router -/
def exDmzFrame : Frame :=
  { srcMac := 5, dstMac := 3, pkt := { proto := .icmp, srcIp := 0x0A00030A#32, dstIp := 0x0A000814#32, ports := none },
    ttl := 63, arp := false, tag := 0 }

/-! ## 4. non-vacuity: the C06-c situation on a concrete firewall -/

section examples

/-- external-inbound list permits everything, internal-inbound list denies everything -/
def exFwAcls : AclId → Acl
  | .intIn => { rules := [some denyAnyAny] ++ List.replicate 23 none, implicit := .deny }
  | _ => { rules := List.replicate 24 none, implicit := .permit }

def exFw : Node Unit :=
  { kind := .firewall, on := true,
    ifaces := [{ enabled := true, mac := 1, ip := 0x0A000101#32, mask := 0xFFFFFF00#32 },
               { enabled := true, mac := 2, ip := 0x0A000201#32, mask := 0xFFFFFF00#32 },
               { enabled := true, mac := 3, ip := 0x0A000301#32, mask := 0xFFFFFF00#32 }],
    acls := exFwAcls, sw := () }

/-- transit ping from the external zone to an internal host -/
def exTransitPing : Frame :=
  { srcMac := 5, dstMac := 1, pkt := { proto := .icmp, srcIp := 0x0A00010A#32, dstIp := 0x0A000214#32, ports := none },
    ttl := 63, arp := false, tag := 0 }

def exStdSoft : Soft Unit := { exEchoSoft with toSession := stdToSession (fun _ => [219]) }

/-- with the code's decision the transit ping is denied by the second list and nothing happens (although the echoing
software would answer and forward any frame it is given) … -/
example : ∃ s4, nodeLayer exStdSoft exFw 0 exTransitPing = .done s4 := by
  obtain ⟨s4, h, _⟩ := C06_firewall_transit_denied_inert exStdSoft (fun _ => [219]) (fun _ _ => rfl) exFw 0 exTransitPing .extIn
    rfl rfl (Or.inl rfl) (by decide) (by decide) (by
      intro e2 h2
      have : e2 = .intIn := by
        have : secondEntry exStdSoft .extIn (fwS2 exStdSoft exFw 0 exTransitPing .extIn) exTransitPing = some .intIn := by decide
        rw [this] at h2; injection h2 with h2; exact h2.symm
      subst this
      decide)
  exact ⟨s4, h⟩

/-- … whereas a decision that hands every ICMP frame to the session manager (seeded change C06-c) lets the same software
answer: the second list is never asked -/
example : nodeLayer { exEchoSoft with toSession := fun s f => f.pkt.proto == .icmp || (isOwnIp s f.pkt.dstIp && dstPortOpen [219] f) }
    exFw 0 exTransitPing ≠ .done (fwS2 exEchoSoft exFw 0 exTransitPing .extIn) := by
  simp [nodeLayer, exFw, fwRx, portEntry, extPort, fwFirst, exTransitPing, exEchoSoft, isPermitted, exFwAcls, entryAcl, firstMatch]

/-- **F-C06-dmz-lookup** (open; reproduced on the running code by R-net, witness corpus/C06/net-dmz-lookup-arp.json): the
internal-inbound list denies the frame, yet the firewall has already put an ARP request on the internal port. -/
theorem C06_dmz_denied_silent_counterexample : ¬ C06_FullDmzDeniedSilent := by
  intro h
  have hs := h exLookupSoft exFw exDmzFrame rfl (by decide) rfl (by
    intro s3 e2 h3 h2
    have he : e2 = .intIn := by
      simp [secondEntry, exLookupSoft, exDmzFrame, bcastMac, intPort, extPort] at h2
      exact h2.symm
    subst he
    rw [h3]
    decide)
  have hn : nodeLayer exLookupSoft exFw dmzPort exDmzFrame =
      .send (fwS2 exLookupSoft exFw dmzPort exDmzFrame .dmzOut) intPort { exDmzFrame with arp := true, arpReq := true }
        (fun s' => fwSecond exLookupSoft .dmzOut dmzPort exDmzFrame s') := by
    rw [C06_firewall_closed_form exLookupSoft exFw dmzPort exDmzFrame .dmzOut rfl rfl]
    have hv : (isPermitted (exFw.acls (entryAcl .dmzOut)) exDmzFrame.pkt).1 = true := by decide
    have hb : (exDmzFrame.dstMac == bcastMac) = false := by decide
    simp only [hv, Bool.true_eq_false, if_false, fwPre, hb, Bool.false_eq_true]
    rfl
  rw [hn] at hs
  cases hs with
  | send hq _ => exact hq

/-- non-vacuity of the partial statement: the same firewall and frame with software whose look-ups are quiet -/
example : Silent (nodeLayer { exLookupSoft with dmzLookup := fun s _ _ => .done s } exFw dmzPort exDmzFrame) := by
  apply C06_dmz_denied_silent_partial _ exFw exDmzFrame rfl (by decide) rfl
  · intro s3 e2 h3 h2
    have he : e2 = .intIn := by
      simp [secondEntry, exLookupSoft, exDmzFrame, bcastMac, intPort, extPort] at h2
      exact h2.symm
    subst he
    rw [h3]
    decide
  · exact Or.inr ⟨Emits.done, Pres.done rfl⟩

end examples

end Primaite.Filter
