/-
C08 — the router's forwarding step: `Router.process_frame` and `Router.route_frame` are TRANSLATED (Gen/ForwardRoute.lean:
`processFrame`, `routeFrame`) into programs over the stateful ARP look-ups, the TTL decrement and its test, the two header writes and
the send.  The interpreter `runF` below gives every instruction the ONE model primitive it stands for (`arpIfc`, `arpMac`,
`findBestRoute`, `Frame.dec` + the `hop` event, `sendFrame`) and threads state, frame and the two locals in program order.
`C08_gen_route_frame_process`: the model's `routerProcess` (inside the mutual block all run-level theorems — termination, addressee,
liveness — are about) computes exactly what the translated programs compute, for every state, route table, ARP cache, frame and fuel.
`C08_gen_route_frame_hops`: read off the translated programs alone — on every path `send` comes after a decrement whose result was
tested `< 1` (dead → no send) and after both header writes, and nothing is sent twice.
-/
import PrimaiteModel.Model.Forward
import PrimaiteModel.Lemmas.ForwardInv
import PrimaiteModel.Gen.ForwardRoute
namespace Primaite.Forward
open Primaite.Route
open Primaite.Gen.ForwardRoute (RTgt FProg)
namespace GR
export Primaite.Gen.ForwardRoute (processFrame routeFrame processFrameCallers)
end GR

/-- the address an instruction's look-up is for -/
def rtgt (f : Frame) (nh : Ip) : RTgt → Ip
  | .dst => f.dstIp
  | .nextHop => nh

/-- interpreter of a translated `process_frame` / `route_frame` on node `n`.  Locals: `m` = `target_mac`, `o` = `network_interface`
(both start unassigned), `nh` = the next hop of the route found by `ifRoute`; `onRoute` = what `self.route_frame(…)` runs.
The `none` cases of the interface reads are unreachable for translated programs (the translator demands the not-None test on the
path) and for well-formed states; they drop the frame like the model does. -/
def runF (fuel n : Nat) (onRoute : St → Frame → St × Frame) : FProg → St → Frame → Option Mac → Option Nat → Ip → St × Frame
  | .done, st, f, _, _, _ => (st, f)
  | .ifBcast a b, st, f, m, o, nh =>
    if f.dstMac == bcastMac then runF fuel n onRoute a st f m o nh else runF fuel n onRoute b st f m o nh
  | .ifOwnIp a b, st, f, m, o, nh =>
    match st.node? n with
    | none => (st, f)
    | some nd => if (ifaceWithIp nd.ifaces f.dstIp).isSome then runF fuel n onRoute a st f m o nh else runF fuel n onRoute b st f m o nh
  | .setIfc t k, st, f, m, _, nh => let r := arpIfc fuel st n (rtgt f nh t) false false; runF fuel n onRoute k r.1 f m r.2 nh
  | .setMac t k, st, f, _, o, nh => let r := arpMac fuel st n (rtgt f nh t) false false; runF fuel n onRoute k r.1 f r.2 o nh
  | .ifMac a b, st, f, m, o, nh => if m.isSome then runF fuel n onRoute a st f m o nh else runF fuel n onRoute b st f m o nh
  | .ifIfc a b, st, f, m, o, nh => if o.isSome then runF fuel n onRoute a st f m o nh else runF fuel n onRoute b st f m o nh
  | .ifEnabled a b, st, f, m, o, nh =>
    match o.bind (st.iface? n) with
    | none => (st, f)
    | some oif => if oif.enabled then runF fuel n onRoute a st f m o nh else runF fuel n onRoute b st f m o nh
  | .ifDstOnIfcNet a b, st, f, m, o, nh =>
    match o.bind (st.iface? n) with
    | none => (st, f)
    | some oif => if oif.inNet f.dstIp then runF fuel n onRoute a st f m o nh else runF fuel n onRoute b st f m o nh
  | .decTtl k, st, f, m, o, nh => runF fuel n onRoute k (st.emit (.hop n f.id f.ttl)) f.dec m o nh
  | .ifTtlLt c a b, st, f, m, o, nh => if f.ttl < c then runF fuel n onRoute a st f m o nh else runF fuel n onRoute b st f m o nh
  | .setSrcMac k, st, f, m, o, nh =>
    match o.bind (st.iface? n) with
    | none => (st, f)
    | some oif => runF fuel n onRoute k st { f with srcMac := oif.mac } m o nh
  | .setDstMac k, st, f, m, o, nh =>
    -- `target_mac` may be `None`: the code writes it into the header unchecked
    runF fuel n onRoute k st { f with dstMac := (match m with | some x => x | none => noMac) } m o nh
  | .send k, st, f, m, o, nh =>
    match o with
    | none => (st, f)
    | some oi => let r := sendFrame fuel st n oi f; runF fuel n onRoute k r.1 r.2 m o nh
  | .callRoute k, st, f, m, o, nh => let r := onRoute st f; runF fuel n onRoute k r.1 r.2 m o nh
  | .ifRoute a b, st, f, m, o, _ =>
    match st.node? n with
    | none => (st, f)
    | some nd =>
      match findBestRoute nd.routes f.dstIp with
      | .raised => (st.emit (.raised n), f)
      | res =>
        match res.nextHop? with
        | some nh => runF fuel n onRoute a st f m o nh
        | none => runF fuel n onRoute b st f m o 0

/-- `route_frame` on its own (fresh locals; it calls nothing back) -/
def runRoute (fuel n : Nat) (st : St) (f : Frame) : St × Frame :=
  runF fuel n (fun st f => (st, f)) GR.routeFrame st f none none 0

/-- `process_frame` with `self.route_frame` bound to the translated `route_frame` -/
def runProcess (fuel n : Nat) (st : St) (f : Frame) : St × Frame :=
  runF fuel n (runRoute fuel n) GR.processFrame st f none none 0

@[simp] theorem emit_iface (st : St) (e : Ev) (n o : Nat) : (st.emit e).iface? n o = st.iface? n o := rfl
@[simp] theorem emit_node (st : St) (e : Ev) (n : Nat) : (st.emit e).node? n = st.node? n := rfl

/-- **Gen obligation**: the model's router forwarding step IS the translated `Router.process_frame` (+ `route_frame`), for every
state, route table, ARP cache, frame and fuel.  `hown`: no interface carries the destination address — the only way the model's
`routerRecv` (and the real `Router.receive_frame` for ICMP / ARP; for other payloads the translated loop drops the frame, as
`routerRecv` does before the call) reaches `routerProcess`. -/
theorem C08_gen_route_frame_process (fuel : Nat) (st : St) (n i : Nat) (f : Frame) (nd : Node)
    (hn : st.node? n = some nd) (hown : ifaceWithIp nd.ifaces f.dstIp = none) :
    routerProcess (fuel + 1) st n i f = runProcess fuel n st f := by
  rw [routerProcess]
  simp only [runProcess, runRoute, Gen.ForwardRoute.processFrame, Gen.ForwardRoute.routeFrame, runF, rtgt, hn, hown,
    Option.isSome_none, Bool.false_eq_true, if_false]
  by_cases hb : f.dstMac == bcastMac
  · simp only [hb, if_true]
  · simp only [hb, if_false, Bool.false_eq_true]
    generalize arpIfc fuel st n f.dstIp false false = r1
    generalize arpMac fuel r1.1 n f.dstIp false false = r2
    cases hm : r2.2 <;> cases ho : r1.2 <;> simp only [Option.isSome_some, Option.isSome_none, if_true, if_false, Bool.false_eq_true,
      Option.bind_some, Option.bind_none]
    rename_i tm o
    cases hif : r2.1.iface? n o <;> simp only []
    rename_i oif
    cases he : oif.enabled <;> simp only [Bool.not_true, Bool.not_false, if_true, if_false, Bool.false_eq_true, emit_iface, hif]
    cases hin : oif.inNet f.dstIp <;> simp only [if_true, if_false, Bool.false_eq_true]
    · -- route_frame
      cases hnd : r2.1.node? n <;> simp only []
      rename_i nd2
      cases hr : findBestRoute nd2.routes f.dstIp with
      | noRoute => simp only [Result.nextHop?]
      | raised => simp only []
      | route ix r =>
        simp only [Result.nextHop?]
        (repeat' split) <;> simp_all [Frame.stamp]
      | «default» nh =>
        simp only [Result.nextHop?]
        (repeat' split) <;> simp_all [Frame.stamp]
    · split <;> rfl

/-- the hypothesis `hown` discharged at the call site: a powered-on plain router that receives, on any of its interfaces, a frame its
first verdict permits and whose destination address no interface carries, learns the source pair and then runs the TRANSLATED
`process_frame` — for every state, route table, ARP cache, frame and fuel. -/
theorem C08_gen_route_frame_recv (fuel : Nat) (st : St) (n i : Nat) (f : Frame) (nd : Node) (ifc : Iface)
    (hn : st.node? n = some nd) (hi : st.iface? n i = some ifc) (hfw : nd.fw = none) (hon : nd.on = true)
    (hacl : aclDenies nd i f.pl = false) (hown : ifaceWithIp nd.ifaces f.dstIp = none) :
    routerRecv (fuel + 2) st n i f = runProcess fuel n (st.modNode n (fun nd => nd.addArp f.srcIp f.srcMac i)) f := by
  rw [routerRecv]
  simp only [hn, hi, hfw, hon, hacl, hown, Option.isNone_none, Bool.not_true, Bool.and_false, Bool.false_eq_true, if_false]
  refine C08_gen_route_frame_process fuel _ n i f (nd.addArp f.srcIp f.srcMac i) ?_ ?_
  · rw [node?_modNode]; simp [hn]
  · have : (nd.addArp f.srcIp f.srcMac i).ifaces = nd.ifaces := by
      unfold Node.addArp; split
      · rfl
      · split <;> rfl
    rw [this]; exact hown

/-! ### what the translated programs say about TTL and the header, without the model -/

/-- on every path of the program: a `send` happens only after a decrement that was tested (`ifTtlLt c` with the dead branch sending
nothing) and both header writes since that decrement, and at most once.  `dec` = decremented since the last send, `tst` = tested since,
`s` / `d` = source / destination MAC written since. -/
def hopGuarded (c : Int) : FProg → (dec tst s d : Bool) → Bool
  | .done, _, _, _, _ => true
  | .ifBcast a b, x, t, s, d | .ifOwnIp a b, x, t, s, d | .ifMac a b, x, t, s, d | .ifIfc a b, x, t, s, d
  | .ifEnabled a b, x, t, s, d | .ifDstOnIfcNet a b, x, t, s, d | .ifRoute a b, x, t, s, d =>
    hopGuarded c a x t s d && hopGuarded c b x t s d
  | .setIfc _ k, x, t, _, d => hopGuarded c k x t false d
  | .setMac _ k, x, t, s, _ => hopGuarded c k x t s false
  | .decTtl k, _, _, s, d => hopGuarded c k true false s d
  | .ifTtlLt c' a b, x, _, s, d => c' == c && noSend a && hopGuarded c b x x s d
  | .setSrcMac k, x, t, _, d => hopGuarded c k x t true d
  | .setDstMac k, x, t, s, _ => hopGuarded c k x t s true
  | .send k, x, t, s, d => x && t && s && d && noSend k
  | .callRoute k, _, _, _, _ => noSend k
where
  noSend : FProg → Bool
    | .done => true
    | .ifBcast a b | .ifOwnIp a b | .ifMac a b | .ifIfc a b | .ifEnabled a b | .ifDstOnIfcNet a b | .ifRoute a b | .ifTtlLt _ a b =>
      noSend a && noSend b
    | .setIfc _ k | .setMac _ k | .decTtl k | .setSrcMac k | .setDstMac k => noSend k
    | .send _ => false
    | .callRoute _ => false

/-- **Gen obligation** (the translated source alone): both methods send only a frame whose TTL was lowered and found ≥ 1 and whose two
MAC fields were rewritten after the interface / MAC look-ups; `process_frame` does nothing after handing over to `route_frame`. -/
theorem C08_gen_route_frame_hops :
    hopGuarded 1 GR.processFrame false false false false = true ∧ hopGuarded 1 GR.routeFrame false false false false = true := by
  decide

/-- the callers of `process_frame` in router.py: `Router.receive_frame` (the model's `routerRecv`) and `RouterICMP.receive`, which calls
it only for a destination that is NOT a router interface — a case `receive_frame` never hands to the session manager. -/
theorem C08_gen_route_frame_callers : GR.processFrameCallers = ["Router.receive_frame", "RouterICMP.receive"] := by decide

/-! ### non-vacuity -/

/-- a router 10.0.0.1/24 | 10.0.1.1/24 with a warm cache forwards a frame for 10.0.1.9 out of port 1 (TTL 5 → 4, MACs rewritten);
with TTL 1 it logs the hop and sends nothing -/
def rgRouter : Node :=
  { kind := .router,
    ifaces := [{ mac := 11, ip := 0x0A000001, plen := 24, enabled := true }, { mac := 12, ip := 0x0A000101, plen := 24, enabled := true }],
    arp := [{ ip := 0x0A000109, mac := 77, ifc := 1 }] }

def rgFrame (ttl : Int) : Frame := { id := 3, srcMac := 5, dstMac := 11, srcIp := 0x0A000005, dstIp := 0x0A000109, ttl := ttl, pl := .echoReq 0 }

example : (runProcess 5 0 { nodes := [rgRouter] } (rgFrame 5)).2 = { rgFrame 4 with srcMac := 12, dstMac := 77, fwd := 1 }
    ∧ (runProcess 5 0 { nodes := [rgRouter] } (rgFrame 5)).1.log = [.hop 0 3 5] := by decide +kernel
example : (runProcess 5 0 { nodes := [rgRouter] } (rgFrame 1)).2 = rgFrame 0
    ∧ (routerProcess 6 { nodes := [rgRouter] } 0 0 (rgFrame 1)).1.log = [.hop 0 3 1] := by decide +kernel

/-! ### the checker is not vacuous: programs of plausible slips are rejected, and one of them misbehaves on a concrete router -/

/-- `process_frame` with the TTL test BEFORE the decrement in the on-link branch (mutation r7b_4) -/
def testFirstProcess : FProg :=
  .ifBcast .done (.ifOwnIp .done (.setIfc .dst (.setMac .dst (.ifMac (.ifIfc (.ifEnabled (.ifDstOnIfcNet
    (.ifTtlLt 1 .done (.decTtl (.setSrcMac (.setDstMac (.send .done))))) (.callRoute .done)) .done) .done) .done))))

example : hopGuarded 1 testFirstProcess false false false false = false := by decide
/-- no decrement at all -/
example : hopGuarded 1 (.setIfc .dst (.setMac .dst (.ifIfc (.setSrcMac (.setDstMac (.send .done))) .done))) false false false false = false := by decide
/-- destination MAC not written -/
example : hopGuarded 1 (.setIfc .dst (.setMac .dst (.ifIfc (.decTtl (.ifTtlLt 1 .done (.setSrcMac (.send .done)))) .done))) false false false false = false := by
  decide
/-- header written BEFORE the look-up that decides the interface -/
example : hopGuarded 1 (.setSrcMac (.setIfc .dst (.setMac .dst (.ifIfc (.decTtl (.ifTtlLt 1 .done (.setDstMac (.send .done)))) .done)))) false false false false
    = false := by decide
/-- countdown off by one (mutation r7b_1) -/
example : hopGuarded 1 (.setIfc .dst (.setMac .dst (.ifIfc (.decTtl (.ifTtlLt 0 .done (.setSrcMac (.setDstMac (.send .done))))) .done))) false false false false
    = false := by decide
/-- the dead branch of the TTL test sends after all -/
example : hopGuarded 1 (.setIfc .dst (.setMac .dst (.ifIfc (.decTtl (.ifTtlLt 1 (.setSrcMac (.setDstMac (.send .done))) .done)) .done))) false false false false
    = false := by decide

/-- **counter-model**: on the router of the examples above a frame arriving with TTL 1 is dropped by the translated source (and the model) after
the hop is logged, while the test-first program SENDS it with TTL 0 — the two programs differ and so do their runs. -/
theorem C08_route_frame_countermodel :
    GR.processFrame ≠ testFirstProcess ∧
    (runProcess 5 0 { nodes := [rgRouter] } (rgFrame 1)).2.dstMac = 11 ∧
    (runF 5 0 (runRoute 5 0) testFirstProcess { nodes := [rgRouter] } (rgFrame 1) none none 0).2.dstMac = 77 ∧
    (runF 5 0 (runRoute 5 0) testFirstProcess { nodes := [rgRouter] } (rgFrame 1) none none 0).2.ttl = 0 := by
  refine ⟨by decide, by decide +kernel, by decide +kernel, by decide +kernel⟩

end Primaite.Forward
