/-
C18 — a link never carries more than its bandwidth in a tick; down links carry nothing.

Theorems about `Model/Link.lean`, for every network, every history of ticks and actions, every event tree (arbitrary
nesting of sends inside deliveries, over any mix of links and wireless channels, with interfaces going up and down at any
point, also in the middle of a delivery).
-/
import PrimaiteModel.Model.Link
import PrimaiteModel.Gen.Link

namespace Primaite.Link

/-! ### Invariant and per-record facts -/

/-- Every wired link and every wireless channel is within its capacity. -/
def Inv (n : Net) : Prop := (∀ l ∈ n.links, l.load ≤ l.bw) ∧ (∀ c ∈ n.chans, c.load ≤ c.cap)

instance (n : Net) : Decidable (Inv n) := by unfold Inv; infer_instance

/-- What must hold of every `send_frame` that returned: the load it left behind is within the capacity, and if the frame
was handed to a receiving interface then both end interfaces were enabled at that moment. -/
def RecOk (r : Rec) : Prop :=
  r.load ≤ r.bw ∧ (r.verdict.crossed = true → r.enS = true ∧ r.enR = true)

theorem inv_loadOf {n : Net} (h : Inv n) (k : Nat) : loadOf n k ≤ bwOf n k := by
  unfold loadOf bwOf
  cases hk : n.links[k]? with
  | none => simp
  | some l => exact h.1 l (List.mem_of_getElem? hk)

theorem inv_cloadOf {n : Net} (h : Inv n) (c : Nat) : cloadOf n c ≤ capOf n c := by
  unfold cloadOf capOf
  cases hk : n.chans[c]? with
  | none => simp
  | some ch => exact h.2 ch (List.mem_of_getElem? hk)

theorem inv_set_link {n : Net} (h : Inv n) (k : Nat) (l' : Link) (hl : l'.load ≤ l'.bw) :
    Inv { n with links := n.links.set k l' } := by
  refine ⟨?_, h.2⟩
  intro x hx
  rcases List.mem_or_eq_of_mem_set hx with hx | hx
  · exact h.1 x hx
  · subst hx; exact hl

theorem inv_set_chan {n : Net} (h : Inv n) (c : Nat) (ch' : Chan) (hl : ch'.load ≤ ch'.cap) :
    Inv { n with chans := n.chans.set c ch' } := by
  refine ⟨h.1, ?_⟩
  intro x hx
  rcases List.mem_or_eq_of_mem_set hx with hx | hx
  · exact h.2 x hx
  · subst hx; exact hl

theorem le_foldr_max (l : List Nat) (i x : Nat) (h : l[i]? = some x) : x ≤ l.foldr max 0 := by
  induction l generalizing i with
  | nil => simp at h
  | cons a as ih =>
    cases i with
    | zero =>
      simp only [List.getElem?_cons_zero, Option.some.injEq] at h
      subst h
      simp only [List.foldr_cons]
      exact Nat.le_max_left _ _
    | succ j =>
      simp only [List.getElem?_cons_succ] at h
      have := ih j h
      simp only [List.foldr_cons]
      exact Nat.le_trans this (Nat.le_max_right _ _)

/-- The capacity an interface is admitted against is at most the channel's largest capacity. -/
theorem caps_le_cap (ch : Chan) (i x : Nat) (h : ch.caps[i]? = some x) : x ≤ ch.cap := le_foldr_max ch.caps i x h

theorem recOk_stay (w : Bool) (k : Nat) (v : Verdict) (enS enR : Bool) (s lb load bw cs : Nat)
    (hv : v.crossed = false) (hl : load ≤ bw) :
    RecOk { wireless := w, k, verdict := v, enS, enR, rcv := [], size := s, loadBefore := lb, load, bw, capS := cs } := by
  refine ⟨hl, ?_⟩
  intro hc
  simp [hv] at hc

@[simp] theorem hearVerdict_crossed (b : Bool) : (hearVerdict b).crossed = false := by cases b <;> rfl
@[simp] theorem hearVerdict_loaded (b : Bool) : (hearVerdict b).loaded = false := by cases b <;> rfl
theorem hearVerdict_heard (b : Bool) (h : hearVerdict b = .heard) : b = true := by cases b <;> simp_all [hearVerdict]

mutual
/-- One event keeps every link and channel within capacity, and every `send_frame` that returns inside it satisfies `RecOk`. -/
theorem runEv_ok (n : Net) (e : Ev) (h : Inv n) :
    Inv (runEv n e).1 ∧ ∀ r ∈ (runEv n e).2, RecOk r := by
  cases e with
  | send k fromA s acc nested =>
    unfold runEv
    cases hk : n.links[k]? with
    | none =>
      refine ⟨h, ?_⟩
      intro r hr
      simp only [List.mem_singleton] at hr
      subst hr
      exact recOk_stay _ _ _ _ _ _ _ _ _ _ rfl (Nat.le_refl _)
    | some l =>
      have hl : l.load ≤ l.bw := h.1 l (List.mem_of_getElem? hk)
      simp only
      by_cases h1 : (if fromA then l.enA else l.enB) = true
      · by_cases h2 : l.isUp = true
        · by_cases h3 : admits l.load s l.bw = true
          · simp only [h1, h2, h3, Bool.not_true, Bool.false_eq_true, if_false]
            have hfit : l.load + s ≤ l.bw := by simpa [admits] using h3
            have hup : (if fromA then l.enB else l.enA) = true := by
              unfold Link.isUp at h2
              cases fromA <;> simp_all
            cases acc with
            | true =>
              simp only [if_true]
              have hn1 : Inv { n with links := n.links.set k { l with load := l.load + s } } :=
                inv_set_link h k _ hfit
              obtain ⟨hi, hr⟩ := runEvs_ok _ nested hn1
              refine ⟨hi, ?_⟩
              intro r hmem
              rcases List.mem_append.mp hmem with hmem | hmem
              · exact hr r hmem
              · simp only [List.mem_singleton] at hmem
                subst hmem
                exact ⟨inv_loadOf hi k, fun _ => ⟨rfl, hup⟩⟩
            | false =>
              simp only [Bool.false_eq_true, if_false]
              have hn2 : Inv { n with links := n.links.set k { l with load := l.load + s - s } } :=
                inv_set_link h k _ (by simp only; omega)
              refine ⟨hn2, ?_⟩
              intro r hmem
              simp only [List.mem_singleton] at hmem
              subst hmem
              exact ⟨inv_loadOf hn2 k, fun _ => ⟨rfl, hup⟩⟩
          · simp only [h1, h2, h3, Bool.not_true, Bool.not_false, Bool.false_eq_true, if_false, if_true]
            refine ⟨h, ?_⟩
            intro r hr
            simp only [List.mem_singleton] at hr
            subst hr
            exact recOk_stay _ _ _ _ _ _ _ _ _ _ rfl hl
        · simp only [h1, h2, Bool.not_true, Bool.not_false, Bool.false_eq_true, if_false, if_true]
          refine ⟨h, ?_⟩
          intro r hr
          simp only [List.mem_singleton] at hr
          subst hr
          exact recOk_stay _ _ _ _ _ _ _ _ _ _ rfl hl
      · simp only [h1, Bool.not_false, if_true]
        refine ⟨h, ?_⟩
        intro r hr
        simp only [List.mem_singleton] at hr
        subst hr
        exact recOk_stay _ _ _ _ _ _ _ _ _ _ rfl hl
  | wsend c i s nested =>
    unfold runEv
    cases hk : n.chans[c]? with
    | none =>
      refine ⟨h, ?_⟩
      intro r hr
      simp only [List.mem_singleton] at hr
      subst hr
      exact recOk_stay _ _ _ _ _ _ _ _ _ _ rfl (Nat.le_refl _)
    | some ch =>
      have hl : ch.load ≤ ch.cap := h.2 ch (List.mem_of_getElem? hk)
      simp only
      cases hi : ch.en[i]? with
      | none =>
        refine ⟨h, ?_⟩
        intro r hr
        simp only [List.mem_singleton] at hr
        subst hr
        exact recOk_stay _ _ _ _ _ _ _ _ _ _ rfl hl
      | some enS =>
        simp only
        cases hcI : ch.caps[i]? with
        | none =>
          refine ⟨h, ?_⟩
          intro r hr
          simp only [List.mem_singleton] at hr
          subst hr
          exact recOk_stay _ _ _ _ _ _ _ _ _ _ rfl hl
        | some capI =>
        have hcap : capI ≤ ch.cap := caps_le_cap ch i capI hcI
        simp only
        cases enS with
        | false =>
          simp only [Bool.not_false, if_true]
          refine ⟨h, ?_⟩
          intro r hr
          simp only [List.mem_singleton] at hr
          subst hr
          exact recOk_stay _ _ _ _ _ _ _ _ _ _ rfl hl
        | true =>
          by_cases h3 : admits ch.load s capI = true
          · simp only [h3, Bool.not_true, Bool.false_eq_true, if_false]
            have hfit : ch.load + s ≤ capI := by simpa [admits] using h3
            have hn1 : Inv { n with chans := n.chans.set c { ch with load := ch.load + s } } :=
              inv_set_chan h c _ (by show ch.load + s ≤ ch.cap; omega)
            obtain ⟨hi', hr⟩ := runEvs_ok _ nested hn1
            refine ⟨hi', ?_⟩
            intro r hmem
            rcases List.mem_append.mp hmem with hmem | hmem
            · exact hr r hmem
            · simp only [List.mem_singleton] at hmem
              subst hmem
              exact ⟨inv_cloadOf hi' c, fun _ => ⟨rfl, rfl⟩⟩
          · simp only [h3, Bool.not_true, Bool.not_false, Bool.false_eq_true, if_false, if_true]
            refine ⟨h, ?_⟩
            intro r hr
            simp only [List.mem_singleton] at hr
            subst hr
            exact recOk_stay _ _ _ _ _ _ _ _ _ _ rfl hl
  | setEn k endA v =>
    unfold runEv
    cases hk : n.links[k]? with
    | none => exact ⟨h, by intro r hr; cases hr⟩
    | some l =>
      have hl : l.load ≤ l.bw := h.1 l (List.mem_of_getElem? hk)
      simp only
      by_cases hcur : ((if endA then l.enA else l.enB) == v) = true
      · simp only [hcur, if_true]
        exact ⟨h, by intro r hr; cases hr⟩
      · simp only [hcur, Bool.false_eq_true, if_false]
        refine ⟨inv_set_link h k _ ?_, by intro r hr; cases hr⟩
        cases endA <;> cases v <;> simp <;> exact hl
  | wsetEn c i v =>
    unfold runEv
    cases hk : n.chans[c]? with
    | none => exact ⟨h, by intro r hr; cases hr⟩
    | some ch =>
      have hl : ch.load ≤ ch.cap := h.2 ch (List.mem_of_getElem? hk)
      exact ⟨inv_set_chan h c _ hl, by intro r hr; cases hr⟩
  | wjoin c i =>
    unfold runEv
    cases hk : n.chans[c]? with
    | none => exact ⟨h, by intro r hr; cases hr⟩
    | some ch =>
      have hl : ch.load ≤ ch.cap := h.2 ch (List.mem_of_getElem? hk)
      exact ⟨inv_set_chan h c _ hl, by intro r hr; cases hr⟩
  | wleave c i =>
    unfold runEv
    cases hk : n.chans[c]? with
    | none => exact ⟨h, by intro r hr; cases hr⟩
    | some ch =>
      have hl : ch.load ≤ ch.cap := h.2 ch (List.mem_of_getElem? hk)
      exact ⟨inv_set_chan h c _ hl, by intro r hr; cases hr⟩
  | lost k fromA s nested =>
    unfold runEv
    cases hk : n.links[k]? with
    | none =>
      refine ⟨h, ?_⟩
      intro r hr
      simp only [List.mem_singleton] at hr
      subst hr
      exact recOk_stay _ _ _ _ _ _ _ _ _ _ rfl (Nat.le_refl _)
    | some l =>
      have hl : l.load ≤ l.bw := h.1 l (List.mem_of_getElem? hk)
      simp only
      by_cases h1 : (if fromA then l.enA else l.enB) = true
      · by_cases h2 : l.isUp = true
        · by_cases h3 : admits l.load s l.bw = true
          · simp only [h1, h2, h3, Bool.not_true, Bool.false_eq_true, if_false]
            have hfit : l.load + s ≤ l.bw := by simpa [admits] using h3
            have hup : (if fromA then l.enB else l.enA) = true := by
              unfold Link.isUp at h2
              cases fromA <;> simp_all
            have hn1 : Inv { n with links := n.links.set k { l with load := l.load + s } } :=
              inv_set_link h k _ hfit
            obtain ⟨hi, hr⟩ := runEvs_ok _ nested hn1
            refine ⟨hi, ?_⟩
            intro r hmem
            rcases List.mem_append.mp hmem with hmem | hmem
            · exact hr r hmem
            · simp only [List.mem_singleton] at hmem
              subst hmem
              exact ⟨inv_loadOf hi k, fun _ => ⟨rfl, hup⟩⟩
          · simp only [h1, h2, h3, Bool.not_true, Bool.not_false, Bool.false_eq_true, if_false, if_true]
            refine ⟨h, ?_⟩
            intro r hr
            simp only [List.mem_singleton] at hr
            subst hr
            exact recOk_stay _ _ _ _ _ _ _ _ _ _ rfl hl
        · simp only [h1, h2, Bool.not_true, Bool.not_false, Bool.false_eq_true, if_false, if_true]
          refine ⟨h, ?_⟩
          intro r hr
          simp only [List.mem_singleton] at hr
          subst hr
          exact recOk_stay _ _ _ _ _ _ _ _ _ _ rfl hl
      · simp only [h1, Bool.not_false, if_true]
        refine ⟨h, ?_⟩
        intro r hr
        simp only [List.mem_singleton] at hr
        subst hr
        exact recOk_stay _ _ _ _ _ _ _ _ _ _ rfl hl
  | wlost c i s nested =>
    unfold runEv
    cases hk : n.chans[c]? with
    | none =>
      refine ⟨h, ?_⟩
      intro r hr
      simp only [List.mem_singleton] at hr
      subst hr
      exact recOk_stay _ _ _ _ _ _ _ _ _ _ rfl (Nat.le_refl _)
    | some ch =>
      have hl : ch.load ≤ ch.cap := h.2 ch (List.mem_of_getElem? hk)
      simp only
      cases hi : ch.en[i]? with
      | none =>
        refine ⟨h, ?_⟩
        intro r hr
        simp only [List.mem_singleton] at hr
        subst hr
        exact recOk_stay _ _ _ _ _ _ _ _ _ _ rfl hl
      | some enS =>
        simp only
        cases hcI : ch.caps[i]? with
        | none =>
          refine ⟨h, ?_⟩
          intro r hr
          simp only [List.mem_singleton] at hr
          subst hr
          exact recOk_stay _ _ _ _ _ _ _ _ _ _ rfl hl
        | some capI =>
        have hcap : capI ≤ ch.cap := caps_le_cap ch i capI hcI
        simp only
        cases enS with
        | false =>
          simp only [Bool.not_false, if_true]
          refine ⟨h, ?_⟩
          intro r hr
          simp only [List.mem_singleton] at hr
          subst hr
          exact recOk_stay _ _ _ _ _ _ _ _ _ _ rfl hl
        | true =>
          by_cases h3 : admits ch.load s capI = true
          · simp only [h3, Bool.not_true, Bool.false_eq_true, if_false]
            have hfit : ch.load + s ≤ capI := by simpa [admits] using h3
            have hn1 : Inv { n with chans := n.chans.set c { ch with load := ch.load + s } } :=
              inv_set_chan h c _ (by show ch.load + s ≤ ch.cap; omega)
            obtain ⟨hi', hr⟩ := runEvs_ok _ nested hn1
            refine ⟨hi', ?_⟩
            intro r hmem
            rcases List.mem_append.mp hmem with hmem | hmem
            · exact hr r hmem
            · simp only [List.mem_singleton] at hmem
              subst hmem
              exact ⟨inv_cloadOf hi' c, fun _ => ⟨rfl, rfl⟩⟩
          · simp only [h3, Bool.not_true, Bool.not_false, Bool.false_eq_true, if_false, if_true]
            refine ⟨h, ?_⟩
            intro r hr
            simp only [List.mem_singleton] at hr
            subst hr
            exact recOk_stay _ _ _ _ _ _ _ _ _ _ rfl hl
  | wrecv c i j =>
    unfold runEv
    cases hk : n.chans[c]? with
    | none =>
      refine ⟨h, ?_⟩
      intro r hr
      simp only [List.mem_singleton] at hr
      subst hr
      exact ⟨Nat.le_refl _, fun hc => by simp [Verdict.crossed] at hc⟩
    | some ch =>
      have hl : ch.load ≤ ch.cap := h.2 ch (List.mem_of_getElem? hk)
      refine ⟨h, ?_⟩
      intro r hr
      simp only [List.mem_singleton] at hr
      subst hr
      exact ⟨hl, fun hc => by simp at hc⟩

theorem runEvs_ok (n : Net) (es : List Ev) (h : Inv n) :
    Inv (runEvs n es).1 ∧ ∀ r ∈ (runEvs n es).2, RecOk r := by
  cases es with
  | nil => unfold runEvs; exact ⟨h, by intro r hr; cases hr⟩
  | cons e es =>
    unfold runEvs
    obtain ⟨h1, r1⟩ := runEv_ok n e h
    obtain ⟨h2, r2⟩ := runEvs_ok (runEv n e).1 es h1
    refine ⟨h2, ?_⟩
    intro r hmem
    rcases List.mem_append.mp hmem with hmem | hmem
    · exact r1 r hmem
    · exact r2 r hmem
end

theorem tick_inv (n : Net) : Inv (tick n) := by
  constructor
  · intro l hl
    simp only [tick, List.mem_map] at hl
    obtain ⟨l0, _, rfl⟩ := hl
    exact Nat.zero_le _
  · intro c hc
    simp only [tick, List.mem_map] at hc
    obtain ⟨c0, _, rfl⟩ := hc
    exact Nat.zero_le _

/-! ### Capacity changes between actions

`link.bandwidth = v` and `AirSpace.set_frequency_max_capacity_mbps` are plain assignments: they do not look at the load.  Lowering a
capacity below what has already been carried in the tick makes `load ≤ capacity` false *of the state* without any frame having been
sent; everything else keeps it.  `CapSafe` is exactly that side condition (it holds trivially for histories without capacity
changes, and for every raise); what holds with **no** side condition is stated per record (`C18_crossed_only_if_fits`) and per
bound (`C18_admitted_under_every_tick`). -/

theorem inv_setBw (n : Net) (k v : Nat) (h : Inv n) (hv : loadOf n k ≤ v) : Inv (setBw n k v) := by
  unfold setBw
  cases hk : n.links[k]? with
  | none => exact h
  | some l =>
    simp only
    refine inv_set_link h k _ ?_
    simpa [loadOf, hk] using hv

theorem inv_setCap (n : Net) (c i v : Nat) (h : Inv n) (hv : cloadOf n c ≤ capOf (setCap n c i v) c) :
    Inv (setCap n c i v) := by
  unfold setCap at hv ⊢
  cases hc : n.chans[c]? with
  | none => exact h
  | some ch =>
    obtain ⟨hlt, hget⟩ := List.getElem?_eq_some_iff.mp hc
    simp only [hc] at hv ⊢
    refine inv_set_chan h c _ ?_
    simpa [cloadOf, capOf, hc, hlt, hget] using hv

/-- The capacity change `o` (if it is one) leaves the new capacity at or above the load of the moment. -/
def Op.safeAt (n : Net) : Op → Bool
  | .setBw k v => decide (loadOf n k ≤ v)
  | .setCap c i v => decide (cloadOf n c ≤ capOf (Primaite.Link.setCap n c i v) c)
  | _ => true

/-- Every capacity change of the history leaves the new capacity at or above the load of that moment (decidable). -/
def capSafe : Net → List Op → Bool
  | _, [] => true
  | n, o :: os => o.safeAt n && capSafe (step n o).1 os

def CapSafe (n : Net) (ops : List Op) : Prop := capSafe n ops = true

instance (n : Net) (ops : List Op) : Decidable (CapSafe n ops) := by unfold CapSafe; infer_instance

/-- No operation of the history changes a bandwidth or a capacity. -/
def NoCap (ops : List Op) : Prop := ∀ o ∈ ops, o.isCap = false

theorem capSafe_of_noCap (n : Net) (ops : List Op) (h : NoCap ops) : CapSafe n ops := by
  induction ops generalizing n with
  | nil => rfl
  | cons o os ih =>
    have ho : o.isCap = false := h o (List.mem_cons_self ..)
    have := ih (step n o).1 (fun o' h' => h o' (List.mem_cons_of_mem _ h'))
    unfold CapSafe at this ⊢
    unfold capSafe
    rw [this, Bool.and_true]
    cases o <;> simp_all [Op.isCap, Op.safeAt]

theorem run_ok (n : Net) (ops : List Op) (h : Inv n) (hs : CapSafe n ops) :
    Inv (run n ops).1 ∧ ∀ r ∈ (run n ops).2, RecOk r := by
  induction ops generalizing n with
  | nil => exact ⟨h, by intro r hr; cases hr⟩
  | cons o os ih =>
    unfold run
    unfold CapSafe capSafe at hs
    obtain ⟨hs1, hs2⟩ := Bool.and_eq_true_iff.mp hs
    have h1 : Inv (step n o).1 ∧ ∀ r ∈ (step n o).2, RecOk r := by
      cases o with
      | tick => exact ⟨tick_inv n, by intro r hr; cases hr⟩
      | act evs => exact runEvs_ok n evs h
      | setBw k v => exact ⟨inv_setBw n k v h (by simpa [Op.safeAt] using hs1), by intro r hr; cases hr⟩
      | setCap c i v => exact ⟨inv_setCap n c i v h (by simpa [Op.safeAt] using hs1), by intro r hr; cases hr⟩
    obtain ⟨h2, r2⟩ := ih (step n o).1 h1.1 hs2
    refine ⟨h2, ?_⟩
    intro r hmem
    rcases List.mem_append.mp hmem with hmem | hmem
    · exact h1.2 r hmem
    · exact r2 r hmem

/-! ### What holds of every hand-over with no assumption at all -/

/-- If the frame was handed to a receiving interface then both end interfaces were enabled at that moment **and the frame fitted**:
the load before it plus its size was within the capacity then in force (wired: the bandwidth; wireless: the capacity of the
sender's frequency name).  And an interface hears a frame that is in the air only if it is enabled at that moment. -/
def RecFit (r : Rec) : Prop :=
  (r.verdict.crossed = true → r.enS = true ∧ r.enR = true ∧ r.loadBefore + r.size ≤ r.capS) ∧
  (r.verdict = .heard → r.enR = true)

theorem recFit_stay (w : Bool) (k : Nat) (v : Verdict) (enS enR : Bool) (s lb load bw cs : Nat) (hv : v.crossed = false)
    (hh : v ≠ .heard) :
    RecFit { wireless := w, k, verdict := v, enS, enR, rcv := [], size := s, loadBefore := lb, load, bw, capS := cs } :=
  ⟨fun hc => by simp [hv] at hc, fun h => absurd h hh⟩

mutual
theorem runEv_fit (n : Net) (e : Ev) : ∀ r ∈ (runEv n e).2, RecFit r := by
  cases e with
  | send k fromA s acc nested =>
    unfold runEv
    cases hk : n.links[k]? with
    | none =>
      intro r hr
      simp only [List.mem_singleton] at hr
      subst hr
      exact recFit_stay _ _ _ _ _ _ _ _ _ _ rfl (by decide)
    | some l =>
      simp only
      by_cases h1 : (if fromA then l.enA else l.enB) = true
      · by_cases h2 : l.isUp = true
        · by_cases h3 : admits l.load s l.bw = true
          · simp only [h1, h2, h3, Bool.not_true, Bool.false_eq_true, if_false]
            have hfit : l.load + s ≤ l.bw := by simpa [admits] using h3
            have hup : (if fromA then l.enB else l.enA) = true := by
              unfold Link.isUp at h2
              cases fromA <;> simp_all
            cases acc with
            | true =>
              simp only [if_true]
              intro r hmem
              rcases List.mem_append.mp hmem with hmem | hmem
              · exact runEvs_fit _ nested r hmem
              · simp only [List.mem_singleton] at hmem
                subst hmem
                exact ⟨fun _ => ⟨rfl, hup, hfit⟩, fun hh => nomatch hh⟩
            | false =>
              simp only [Bool.false_eq_true, if_false]
              intro r hmem
              simp only [List.mem_singleton] at hmem
              subst hmem
              exact ⟨fun _ => ⟨rfl, hup, hfit⟩, fun hh => nomatch hh⟩
          · simp only [h1, h2, h3, Bool.not_true, Bool.not_false, Bool.false_eq_true, if_false, if_true]
            intro r hr
            simp only [List.mem_singleton] at hr
            subst hr
            exact recFit_stay _ _ _ _ _ _ _ _ _ _ rfl (by decide)
        · simp only [h1, h2, Bool.not_true, Bool.not_false, Bool.false_eq_true, if_false, if_true]
          intro r hr
          simp only [List.mem_singleton] at hr
          subst hr
          exact recFit_stay _ _ _ _ _ _ _ _ _ _ rfl (by decide)
      · simp only [h1, Bool.not_false, if_true]
        intro r hr
        simp only [List.mem_singleton] at hr
        subst hr
        exact recFit_stay _ _ _ _ _ _ _ _ _ _ rfl (by decide)
  | wsend c i s nested =>
    unfold runEv
    cases hk : n.chans[c]? with
    | none =>
      intro r hr
      simp only [List.mem_singleton] at hr
      subst hr
      exact recFit_stay _ _ _ _ _ _ _ _ _ _ rfl (by decide)
    | some ch =>
      simp only
      cases hi : ch.en[i]? with
      | none =>
        intro r hr
        simp only [List.mem_singleton] at hr
        subst hr
        exact recFit_stay _ _ _ _ _ _ _ _ _ _ rfl (by decide)
      | some enS =>
        simp only
        cases hcI : ch.caps[i]? with
        | none =>
          intro r hr
          simp only [List.mem_singleton] at hr
          subst hr
          exact recFit_stay _ _ _ _ _ _ _ _ _ _ rfl (by decide)
        | some capI =>
        simp only
        cases enS with
        | false =>
          simp only [Bool.not_false, if_true]
          intro r hr
          simp only [List.mem_singleton] at hr
          subst hr
          exact recFit_stay _ _ _ _ _ _ _ _ _ _ rfl (by decide)
        | true =>
          by_cases h3 : admits ch.load s capI = true
          · simp only [h3, Bool.not_true, Bool.false_eq_true, if_false]
            have hfit : ch.load + s ≤ capI := by simpa [admits] using h3
            intro r hmem
            rcases List.mem_append.mp hmem with hmem | hmem
            · exact runEvs_fit _ nested r hmem
            · simp only [List.mem_singleton] at hmem
              subst hmem
              exact ⟨fun _ => ⟨rfl, rfl, hfit⟩, fun hh => nomatch hh⟩
          · simp only [h3, Bool.not_true, Bool.not_false, Bool.false_eq_true, if_false, if_true]
            intro r hr
            simp only [List.mem_singleton] at hr
            subst hr
            exact recFit_stay _ _ _ _ _ _ _ _ _ _ rfl (by decide)
  | setEn k endA v =>
    unfold runEv
    cases hk : n.links[k]? with
    | none => intro r hr; cases hr
    | some l =>
      simp only
      by_cases hcur : ((if endA then l.enA else l.enB) == v) = true
      · simp only [hcur, if_true]; intro r hr; cases hr
      · simp only [hcur, Bool.false_eq_true, if_false]; intro r hr; cases hr
  | wsetEn c i v =>
    unfold runEv
    cases hk : n.chans[c]? with
    | none => intro r hr; cases hr
    | some ch => intro r hr; cases hr
  | wjoin c i =>
    unfold runEv
    cases hk : n.chans[c]? with
    | none => intro r hr; cases hr
    | some ch => intro r hr; cases hr
  | wleave c i =>
    unfold runEv
    cases hk : n.chans[c]? with
    | none => intro r hr; cases hr
    | some ch => intro r hr; cases hr
  | lost k fromA s nested =>
    unfold runEv
    cases hk : n.links[k]? with
    | none =>
      intro r hr
      simp only [List.mem_singleton] at hr
      subst hr
      exact recFit_stay _ _ _ _ _ _ _ _ _ _ rfl (by decide)
    | some l =>
      simp only
      by_cases h1 : (if fromA then l.enA else l.enB) = true
      · by_cases h2 : l.isUp = true
        · by_cases h3 : admits l.load s l.bw = true
          · simp only [h1, h2, h3, Bool.not_true, Bool.false_eq_true, if_false]
            have hfit : l.load + s ≤ l.bw := by simpa [admits] using h3
            have hup : (if fromA then l.enB else l.enA) = true := by
              unfold Link.isUp at h2
              cases fromA <;> simp_all
            intro r hmem
            rcases List.mem_append.mp hmem with hmem | hmem
            · exact runEvs_fit _ nested r hmem
            · simp only [List.mem_singleton] at hmem
              subst hmem
              exact ⟨fun _ => ⟨rfl, hup, hfit⟩, fun hh => nomatch hh⟩
          · simp only [h1, h2, h3, Bool.not_true, Bool.not_false, Bool.false_eq_true, if_false, if_true]
            intro r hr
            simp only [List.mem_singleton] at hr
            subst hr
            exact recFit_stay _ _ _ _ _ _ _ _ _ _ rfl (by decide)
        · simp only [h1, h2, Bool.not_true, Bool.not_false, Bool.false_eq_true, if_false, if_true]
          intro r hr
          simp only [List.mem_singleton] at hr
          subst hr
          exact recFit_stay _ _ _ _ _ _ _ _ _ _ rfl (by decide)
      · simp only [h1, Bool.not_false, if_true]
        intro r hr
        simp only [List.mem_singleton] at hr
        subst hr
        exact recFit_stay _ _ _ _ _ _ _ _ _ _ rfl (by decide)
  | wlost c i s nested =>
    unfold runEv
    cases hk : n.chans[c]? with
    | none =>
      intro r hr
      simp only [List.mem_singleton] at hr
      subst hr
      exact recFit_stay _ _ _ _ _ _ _ _ _ _ rfl (by decide)
    | some ch =>
      simp only
      cases hi : ch.en[i]? with
      | none =>
        intro r hr
        simp only [List.mem_singleton] at hr
        subst hr
        exact recFit_stay _ _ _ _ _ _ _ _ _ _ rfl (by decide)
      | some enS =>
        simp only
        cases hcI : ch.caps[i]? with
        | none =>
          intro r hr
          simp only [List.mem_singleton] at hr
          subst hr
          exact recFit_stay _ _ _ _ _ _ _ _ _ _ rfl (by decide)
        | some capI =>
        simp only
        cases enS with
        | false =>
          simp only [Bool.not_false, if_true]
          intro r hr
          simp only [List.mem_singleton] at hr
          subst hr
          exact recFit_stay _ _ _ _ _ _ _ _ _ _ rfl (by decide)
        | true =>
          by_cases h3 : admits ch.load s capI = true
          · simp only [h3, Bool.not_true, Bool.false_eq_true, if_false]
            have hfit : ch.load + s ≤ capI := by simpa [admits] using h3
            intro r hmem
            rcases List.mem_append.mp hmem with hmem | hmem
            · exact runEvs_fit _ nested r hmem
            · simp only [List.mem_singleton] at hmem
              subst hmem
              exact ⟨fun _ => ⟨rfl, rfl, hfit⟩, fun hh => nomatch hh⟩
          · simp only [h3, Bool.not_true, Bool.not_false, Bool.false_eq_true, if_false, if_true]
            intro r hr
            simp only [List.mem_singleton] at hr
            subst hr
            exact recFit_stay _ _ _ _ _ _ _ _ _ _ rfl (by decide)
  | wrecv c i j =>
    unfold runEv
    cases hk : n.chans[c]? with
    | none =>
      intro r hr
      simp only [List.mem_singleton] at hr
      subst hr
      exact ⟨fun hc => by simp [Verdict.crossed] at hc, fun hh => nomatch hh⟩
    | some ch =>
      intro r hr
      simp only [List.mem_singleton] at hr
      subst hr
      exact ⟨fun hc => by simp at hc, fun hh => hearVerdict_heard _ hh⟩

theorem runEvs_fit (n : Net) (es : List Ev) : ∀ r ∈ (runEvs n es).2, RecFit r := by
  cases es with
  | nil => unfold runEvs; intro r hr; cases hr
  | cons e es =>
    unfold runEvs
    intro r hmem
    rcases List.mem_append.mp hmem with hmem | hmem
    · exact runEv_fit n e r hmem
    · exact runEvs_fit (runEv n e).1 es r hmem
end

theorem run_fit (n : Net) (ops : List Op) : ∀ r ∈ (run n ops).2, RecFit r := by
  induction ops generalizing n with
  | nil => intro r hr; cases hr
  | cons o os ih =>
    unfold run
    intro r hmem
    rcases List.mem_append.mp hmem with hmem | hmem
    · cases o with
      | tick => cases hmem
      | act evs => exact runEvs_fit n evs r hmem
      | setBw k v => cases hmem
      | setCap c i v => cases hmem
    · exact ih _ r hmem

/-! ### The property -/

/-- **load ≤ bandwidth, always.** From any state within capacity (in particular the state a tick starts in), after any
history of ticks and actions — each action an arbitrary forest of sends nested inside deliveries, on wired links and
wireless channels, with interfaces going up and down anywhere, with deliveries cut short by exceptions anywhere (`lost`) —
every wired link and every wireless channel is within its capacity at the end, and was within its capacity each time a
`send_frame` returned (or was unwound).  The history may change bandwidths and capacities between actions as long as no
change puts a capacity below the load of that moment (`CapSafe`; see `C18_lowering_counterexample` for why that is needed
and `C18_admitted_under_every_tick` for what holds without it). -/
theorem C18_load_le_bandwidth (n : Net) (ops : List Op) (h : Inv n) (hs : CapSafe n ops) :
    (∀ l ∈ (run n ops).1.links, l.load ≤ l.bw) ∧
    (∀ c ∈ (run n ops).1.chans, c.load ≤ c.cap) ∧
    (∀ r ∈ (run n ops).2, r.load ≤ r.bw) := by
  obtain ⟨hi, hr⟩ := run_ok n ops h hs
  exact ⟨hi.1, hi.2, fun r hmem => (hr r hmem).1⟩

/-- The same for histories that never change a capacity (the case of every shipped scenario and of the environment: no code of
the simulator assigns a bandwidth or a frequency capacity after construction — `Gen.Link.capacityWriters`). -/
theorem C18_load_le_bandwidth_noCap (n : Net) (ops : List Op) (h : Inv n) (hn : NoCap ops) :
    (∀ l ∈ (run n ops).1.links, l.load ≤ l.bw) ∧
    (∀ c ∈ (run n ops).1.chans, c.load ≤ c.cap) ∧
    (∀ r ∈ (run n ops).2, r.load ≤ r.bw) :=
  C18_load_le_bandwidth n ops h (capSafe_of_noCap n ops hn)

/-- The state-form of the property without the side condition. -/
def C18_Full_load_any_capacity_change : Prop :=
  ∀ (n : Net) (ops : List Op), Inv n → ∀ l ∈ (run n ops).1.links, l.load ≤ l.bw

/-- It is false, and not because anything was sent: carry 8 over a link of 10, then assign `bandwidth = 5`.  The load (8) is
now above the bandwidth (5) although every frame fitted when it was admitted.  (Not a defect of the accounting: the assignment
is the user's; the property's "data carried ≤ bandwidth" is then read against the bandwidth in force when the data was
admitted — `C18_crossed_only_if_fits`, `C18_admitted_under_every_tick`.) -/
theorem C18_lowering_counterexample : ¬ C18_Full_load_any_capacity_change := by
  intro h
  have := h { links := [{ bw := 10, load := 0, enA := true, enB := true }], chans := [] }
    [.act [.send 0 true 8 true []], .setBw 0 5] (by decide) { bw := 5, load := 8, enA := true, enB := true } (by decide)
  revert this
  decide

/-- a raise is always safe; a lowering to no less than the load is safe -/
example :
    let n : Net := { links := [{ bw := 10, load := 0, enA := true, enB := true }], chans := [] }
    Inv n ∧ CapSafe n [.act [.send 0 true 8 true []], .setBw 0 8, .act [.send 0 true 1 true []], .setBw 0 20,
                        .act [.send 0 true 12 true []]] ∧
    (run n [.act [.send 0 true 8 true []], .setBw 0 8, .act [.send 0 true 1 true []], .setBw 0 20,
            .act [.send 0 true 12 true []]]).2.map (·.verdict) = [.carried, .full, .carried] := by decide

/-- Any network is within capacity right after a tick boundary, whatever happened before (so the hypothesis of
`C18_load_le_bandwidth` is met by every history that starts with a tick, and by a freshly built network). -/
theorem C18_inv_after_tick (n : Net) : Inv (tick n) := tick_inv n

/-- **Down links carry nothing.** Whenever a frame is handed to a receiving interface of a wired link (verdict `carried`,
`rejected` or `lost`), both end interfaces of the link were enabled at that moment; for a wireless send the sender was enabled.
For every history from every state (no invariant needed; capacity changes and aborted deliveries included). -/
theorem C18_down_carries_nothing (n : Net) (ops : List Op) :
    ∀ r ∈ (run n ops).2, r.verdict.crossed = true → r.enS = true ∧ r.enR = true :=
  fun r hmem hc => ⟨((run_fit n ops r hmem).1 hc).1, ((run_fit n ops r hmem).1 hc).2.1⟩

/-- **A frame crosses only if it fits.** Every frame handed to a receiving interface fitted, at that moment, within the capacity
then in force: `load before + size ≤ capacity`.  For every history from every state: whatever the loads were, whatever capacity
changes happened in between, whether or not the delivery later ended in an exception. -/
theorem C18_crossed_only_if_fits (n : Net) (ops : List Op) :
    ∀ r ∈ (run n ops).2, r.verdict.crossed = true → r.loadBefore + r.size ≤ r.capS :=
  fun r hmem hc => ((run_fit n ops r hmem).1 hc).2.2

/-- **Wireless: only an interface that is enabled at that moment hears the frame** — decided at each turn of the loop of
`AirSpace.transmit`, not when the send starts: for every history from every state. -/
theorem C18_wireless_heard_only_if_enabled (n : Net) (ops : List Op) :
    ∀ r ∈ (run n ops).2, r.verdict = .heard → r.enR = true :=
  fun r hmem hh => (run_fit n ops r hmem).2 hh

/-- One turn of that loop: interface `j` hears the frame sent by `i` iff it is in the frequency's interface list and enabled
**now**, and is not the sender; nothing else changes. -/
theorem C18_wireless_hears_iff_enabled_now (n : Net) (c i j : Nat) (ch : Chan) (hc : n.chans[c]? = some ch) :
    (runEv n (.wrecv c i j)).1 = n ∧
    ∃ r, (runEv n (.wrecv c i j)).2 = [r] ∧ r.rcv = [j] ∧
      (r.verdict = .heard ↔ (ch.mem[j]? = some true ∧ ch.en[j]? = some true ∧ j ≠ i)) := by
  unfold runEv
  simp only [hc, true_and]
  refine ⟨_, rfl, rfl, ?_⟩
  cases hm : ch.mem[j]? with
  | none => simp [hearVerdict]
  | some m =>
    cases hj : ch.en[j]? with
    | none => cases m <;> simp [hearVerdict]
    | some b =>
      by_cases hij : j = i
      · cases m <;> cases b <;> simp [hearVerdict, hij]
      · cases m <;> cases b <;> simp [hearVerdict, hij]

/-- **Overflow is dropped at the sender (wired).** If the frame does not fit, nothing changes anywhere, nothing nested runs,
and the single record says the frame did not cross. -/
theorem C18_overflow_dropped_at_sender (n : Net) (k : Nat) (fromA : Bool) (s : Nat) (acc : Bool) (nested : List Ev)
    (l : Link) (hl : n.links[k]? = some l) (hover : l.bw < l.load + s) :
    (runEv n (.send k fromA s acc nested)).1 = n ∧
    ∃ r, (runEv n (.send k fromA s acc nested)).2 = [r] ∧ r.verdict.crossed = false ∧ r.load = l.load := by
  have hadm : admits l.load s l.bw = false := by simp [admits]; omega
  unfold runEv
  simp only [hl, hadm]
  by_cases h1 : (if fromA then l.enA else l.enB) = true
  · by_cases h2 : l.isUp = true <;> simp [h1, h2, Verdict.crossed]
  · simp [h1, Verdict.crossed]

/-- **Overflow is dropped at the sender (wireless).** The capacity is the one of the sender's frequency name. -/
theorem C18_air_overflow_dropped_at_sender (n : Net) (c i s : Nat) (nested : List Ev)
    (ch : Chan) (hc : n.chans[c]? = some ch) (capI : Nat) (hcap : ch.caps[i]? = some capI) (hover : capI < ch.load + s) :
    (runEv n (.wsend c i s nested)).1 = n ∧
    ∃ r, (runEv n (.wsend c i s nested)).2 = [r] ∧ r.verdict.crossed = false ∧ r.load = ch.load := by
  have hadm : admits ch.load s capI = false := by simp [admits]; omega
  unfold runEv
  simp only [hc, hcap, hadm]
  cases hi : ch.en[i]? with
  | none => simp [Verdict.crossed]
  | some enS => cases enS <;> simp [Verdict.crossed]

/-- **A frame is admitted exactly when it fits** (sender enabled, link up): it is handed to the far interface iff
`load + size ≤ bandwidth`. -/
theorem C18_admitted_iff_fits (n : Net) (k : Nat) (fromA : Bool) (s : Nat) (acc : Bool) (nested : List Ev)
    (l : Link) (hl : n.links[k]? = some l) (hup : l.isUp = true) :
    (∃ r ∈ (runEv n (.send k fromA s acc nested)).2, r.wireless = false ∧ r.k = k ∧ r.verdict.crossed = true ∧
        r.loadBefore = l.load ∧ r.size = s) ↔ l.load + s ≤ l.bw := by
  have hS : (if fromA then l.enA else l.enB) = true := by
    unfold Link.isUp at hup; cases fromA <;> simp_all
  constructor
  · intro ⟨r, hr, _, _, hc, _, _⟩
    false_or_by_contra
    rename_i hno
    have hover : l.bw < l.load + s := by omega
    obtain ⟨_, r', hr', hc', _⟩ := C18_overflow_dropped_at_sender n k fromA s acc nested l hl hover
    rw [hr'] at hr
    simp only [List.mem_singleton] at hr
    subst hr
    simp [hc'] at hc
  · intro hfit
    have hadm : admits l.load s l.bw = true := by simp [admits]; exact hfit
    unfold runEv
    simp only [hl, hS, hup, hadm, Bool.not_true, Bool.false_eq_true, if_false]
    cases acc with
    | true =>
      simp only [if_true]
      exact ⟨_, List.mem_append_right _ (List.mem_singleton.mpr rfl), rfl, rfl, rfl, rfl, rfl⟩
    | false =>
      simp only [Bool.false_eq_true, if_false]
      exact ⟨_, List.mem_singleton.mpr rfl, rfl, rfl, rfl, rfl, rfl⟩

/-- **Loads start every tick at zero**, bandwidths and interface states are untouched. -/
theorem C18_tick_starts_zero (n : Net) :
    (∀ l ∈ (tick n).links, l.load = 0) ∧ (∀ c ∈ (tick n).chans, c.load = 0) ∧
    (tick n).links.map (fun l => (l.bw, l.enA, l.enB)) = n.links.map (fun l => (l.bw, l.enA, l.enB)) ∧
    (tick n).chans.map (fun c => (c.caps, c.en, c.mem)) = n.chans.map (fun c => (c.caps, c.en, c.mem)) := by
  refine ⟨?_, ?_, ?_, ?_⟩
  · intro l hl
    simp only [tick, List.mem_map] at hl
    obtain ⟨l0, _, rfl⟩ := hl
    rfl
  · intro c hc
    simp only [tick, List.mem_map] at hc
    obtain ⟨c0, _, rfl⟩ := hc
    rfl
  · simp [tick, List.map_map, Function.comp_def]
  · simp [tick, List.map_map, Function.comp_def]

/-- A disabled end interface: the send changes nothing and nothing nested runs. -/
theorem C18_down_link_unchanged (n : Net) (k : Nat) (fromA : Bool) (s : Nat) (acc : Bool) (nested : List Ev)
    (l : Link) (hl : n.links[k]? = some l) (hdown : l.isUp = false) :
    (runEv n (.send k fromA s acc nested)).1 = n ∧
    ∃ r, (runEv n (.send k fromA s acc nested)).2 = [r] ∧ r.verdict.crossed = false := by
  unfold runEv
  simp only [hl]
  by_cases h1 : (if fromA then l.enA else l.enB) = true
  · simp [h1, hdown, Verdict.crossed]
  · simp [h1, Verdict.crossed]

/-! ### Translator tie: what the source says now (Gen/Link.lean, regenerated every run) is what the model does -/

/-- The admission tests of `Link.can_transmit_frame` and `AirSpace.can_transmit_frame` read from the source are the model's. -/
theorem C18_gen_admit (load size cap : Nat) :
    Gen.Link.admits load size cap = admits load size cap ∧ Gen.Link.airAdmits load size cap = admits load size cap :=
  ⟨rfl, rfl⟩

/-- `Link.is_up` read from the source is the model's. -/
theorem C18_gen_isUp (l : Link) : Gen.Link.isUp l.enA l.enB = l.isUp := rfl

/-- The order of the steps in `Link.transmit_frame` (size read once, load added *before* the delivery, released after a
refusal), in `AirSpace.transmit`, and in the three `send_frame` methods (stamp *before* the admission test) is the model's. -/
theorem C18_gen_orders :
    Gen.Link.transmitOrder = transmitOrder ∧ Gen.Link.airTransmitOrder = airTransmitOrder ∧
    Gen.Link.wiredSendOrder = wiredSendOrder ∧ Gen.Link.switchSendOrder = switchSendOrder ∧
    Gen.Link.wirelessSendOrder = wirelessSendOrder := by decide

/-- The remaining structural facts the model relies on: every load is reset by the tick; disabling an interface does *not*
touch the link's load (F-40 repaired; on the unrepaired tree the extractor emits `true` and this obligation fails); a refusing
interface does not involve its node; the airspace keys its load by hz and its capacity by frequency name. -/
theorem C18_gen_flags :
    Gen.Link.tickResetsEveryLoad = true ∧ Gen.Link.disableClearsLoad = false ∧
    Gen.Link.rejectedMeansNodeNotInvolved = true ∧ Gen.Link.bytesPerMbit = 131072 ∧
    Gen.Link.airLoadKey = "frequency_hz" ∧ Gen.Link.airCapacityKey = "name" ∧ Gen.Link.sizeIsWholeBytes = true := by decide

/-! ### Inventories regenerated from the source: a class, a writer, a handler or a caller that appears (or disappears) breaks an
obligation here, so nothing the model does not follow can be added silently -/

/-- Every class of the `NetworkInterface` hierarchy that defines `send_frame`, `enable` or `disable`, with the order of its steps.
The classes that transmit (`WiredNetworkInterface` and everything inheriting its `send_frame` — NIC, RouterInterface —, `SwitchPort`,
`WirelessNetworkInterface` and its heir `wireless_router.WirelessAccessPoint`) follow the model's orders; `NetworkInterface.send_frame`
only counts traffic (reached through `super()`); the two stub classes under `network_interface/wireless/` never transmit.
`enable` sets the flag only after every precondition and before anything is sent (`hello` comes after `super`), `disable` clears it
and touches no load. -/
def ifaceMethodsModelled : List (String × String × String × List String) := [
  ("IPWiredNetworkInterface", "base.py", "enable", ["super", "hello"]),
  ("IPWirelessNetworkInterface", "airspace.py", "enable", ["super", "hello"]),
  ("NetworkInterface", "base.py", "disable", ["abstract"]),
  ("NetworkInterface", "base.py", "enable", ["abstract"]),
  ("NetworkInterface", "base.py", "send_frame", ["capture"]),
  ("SwitchPort", "switch.py", "send_frame", ["enabled", "admission", "transmit"]),
  ("WiredNetworkInterface", "base.py", "disable", ["noop-if-disabled", "clear", "endpoint_down"]),
  ("WiredNetworkInterface", "base.py", "enable", ["noop-if-enabled", "needs-node", "needs-node-on", "needs-link", "set", "endpoint_up"]),
  ("WiredNetworkInterface", "base.py", "send_frame", ["enabled", "stamp", "admission", "transmit"]),
  ("WirelessAccessPoint", "wireless_access_point.py", "disable", ["stub"]),
  ("WirelessAccessPoint", "wireless_access_point.py", "enable", ["stub"]),
  ("WirelessAccessPoint", "wireless_access_point.py", "send_frame", ["stub"]),
  ("WirelessNIC", "wireless_nic.py", "disable", ["stub"]),
  ("WirelessNIC", "wireless_nic.py", "enable", ["stub"]),
  ("WirelessNIC", "wireless_nic.py", "send_frame", ["stub"]),
  ("WirelessNetworkInterface", "airspace.py", "disable", ["noop-if-disabled", "clear", "leave-airspace"]),
  ("WirelessNetworkInterface", "airspace.py", "enable", ["noop-if-enabled", "needs-node", "needs-node-on", "set", "join-airspace"]),
  ("WirelessNetworkInterface", "airspace.py", "send_frame", ["enabled", "stamp", "admission", "transmit"])
]

theorem C18_gen_iface_inventory : Gen.Link.ifaceMethods = ifaceMethodsModelled := by decide

/-- Every `send_frame` of the hierarchy is one of: the wired order, the switch-port order, the wireless order (stamp — except on a
switch port, which only forwards stamped frames —, admission, transmit, in that order after the `enabled` test), pure bookkeeping,
or a stub that sends nothing. -/
theorem C18_gen_every_send_frame_modelled :
    ∀ e ∈ Gen.Link.ifaceMethods, e.2.2.1 = "send_frame" →
      e.2.2.2 = wiredSendOrder ∨ e.2.2.2 = switchSendOrder ∨ e.2.2.2 = wirelessSendOrder ∨ e.2.2.2 = ["capture"] ∨ e.2.2.2 = ["stub"] := by
  decide

/-- Nothing in src/primaite assigns a link's `bandwidth` or a frequency's `data_rate_bps`, or calls
`set_frequency_max_capacity_mbps` / `register_frequency`, except `set_frequency_max_capacity_mbps` itself and
`PrimaiteGame.from_config` (before any node exists).  So inside the simulator capacities are constant (`NoCap`); `Op.setBw` /
`Op.setCap` model what a user's script can do between actions. -/
theorem C18_gen_capacity_writers : Gen.Link.capacityWriters = [
  "airspace.py:AirSpace.set_frequency_max_capacity_mbps:self.frequencies[freq].data_rate_bps=",
  "game.py:PrimaiteGame.from_config:set_frequency_max_capacity_mbps()"] := by decide

/-- The functions under simulator/network and simulator/system that contain a `try`.  None of them is on the path
`send_frame → transmit_frame → receive_frame → node → session manager → software.receive` except the two FTP handlers
(`_store_data` wraps file creation; `_retrieve_data` wraps `_send_data`, so an exception raised under a frame the FTP server sends
is caught there: the sends below are `lost`, the delivery above completes — the second example after `C18_lost_stays_accounted`). -/
theorem C18_gen_try_sites : Gen.Link.trySites = [
  "ftp_service.py:FTPServiceABC._retrieve_data",
  "ftp_service.py:FTPServiceABC._store_data",
  "networks.py:_get_example_network",
  "router.py:AccessControlList._init_request_manager",
  "web_browser.py:WebBrowser.get_webpage"] := by decide

/-- The software through which a received payload becomes a request executed on the receiving node (and so can disable or enable
an interface, or power the node off, while the carrying frame is still being delivered): `Terminal.execute` is the only caller of
`apply_request`; it is reached from `Terminal.receive` (remote command over SSH), from a local terminal connection, and from the
C2 beacon's TERMINAL / exfiltration commands.  The rig drives the first and the C2 path (`rcmd`, `c2` operations). -/
theorem C18_gen_remote_executors : Gen.Link.remoteExecutors = [
  "c2_beacon.py:C2Beacon._command_data_exfiltration:execute",
  "c2_beacon.py:C2Beacon._command_terminal:execute",
  "c2_beacon.py:C2Beacon._perform_exfiltration:execute",
  "terminal.py:LocalTerminalConnection.execute:execute",
  "terminal.py:Terminal._init_request_manager:execute",
  "terminal.py:Terminal.execute:apply_request"] := by decide

/-- Every call that can change `enabled` of an interface, and every direct write of the flag. -/
theorem C18_gen_toggle_sites : Gen.Link.toggleSites = [
  "airspace.py:IPWirelessNetworkInterface.enable:super().enable",
  "airspace.py:WirelessNetworkInterface.disable:self.enabled=False",
  "airspace.py:WirelessNetworkInterface.enable:self.enabled=True",
  "base.py:IPWiredNetworkInterface.enable:super().enable",
  "base.py:NetworkInterface._init_request_manager:self.disable",
  "base.py:NetworkInterface._init_request_manager:self.enable",
  "base.py:NetworkInterface.setup_for_episode:self.enable",
  "base.py:Node.apply_timestep:network_interface.enable",
  "base.py:Node.connect_nic:network_interface.enable",
  "base.py:Node.disconnect_nic:network_interface.disable",
  "base.py:Node.power_off:network_interface.disable",
  "base.py:Node.power_on:network_interface.enable",
  "base.py:WiredNetworkInterface.connect_link:self.enable",
  "base.py:WiredNetworkInterface.disable:self.enabled=False",
  "base.py:WiredNetworkInterface.disconnect_link:self.disable",
  "base.py:WiredNetworkInterface.enable:self.enabled=True",
  "container.py:Network.setup_for_episode:network_interface.enable",
  "creation.py:OfficeLANAdder.add_nodes_to_net:enable_port",
  "creation.py:OfficeLANAdder.add_nodes_to_net:switch.network_interface[switch_port].enable",
  "firewall.py:Firewall.configure_dmz_port:self.dmz_port.enable",
  "firewall.py:Firewall.configure_external_port:self.external_port.enable",
  "firewall.py:Firewall.configure_internal_port:self.internal_port.enable",
  "networks.py:arcd_uc2_network:enable_port",
  "networks.py:client_server_routed:enable_port",
  "router.py:Router.disable_port:network_interface.disable",
  "router.py:Router.enable_port:network_interface.enable",
  "router.py:Router.setup_for_episode:enable_port",
  "wireless_router.py:WirelessRouter.configure_router_interface:self.router_interface.disable",
  "wireless_router.py:WirelessRouter.configure_router_interface:self.router_interface.enable",
  "wireless_router.py:WirelessRouter.configure_wireless_access_point:self.wireless_access_point.disable",
  "wireless_router.py:WirelessRouter.configure_wireless_access_point:self.wireless_access_point.enable"] := by decide

/-- **Who writes a load.** The airspace's per-frequency load `bandwidth_load` is written by its declaration, the lazy `= 0.0` in
`can_transmit_frame`, the `+=` in `transmit` and `reset_bandwidth_load` (called by `Network.pre_timestep`) — by nothing else in
src/primaite; a link's `current_load` by its declaration, `transmit_frame` (`+=`, `-=`) and `pre_timestep`.  So no interface
operation (enable, disable, add / remove from the airspace, `clear`, power events, re-configuration) can lower a load inside a
tick: the wireless twin of F-40 cannot come back unnoticed. -/
-- (round 7) HOW `can_transmit_frame`, `transmit` and `transmit_frame` write the load is no longer pinned textually here: their
-- bodies are translated statement by statement and proved equal to the model (`Props/C18Body.lean`, `C18_gen_*_body`).
theorem C18_gen_load_writers :
    Gen.Link.airLoadWriters = [
  "airspace.py:AirSpace.<module>:bandwidth_load declared",
  "airspace.py:AirSpace.can_transmit_frame:(body translated)",
  "airspace.py:AirSpace.reset_bandwidth_load:bandwidth_load =",
  "airspace.py:AirSpace.transmit:(body translated)"] ∧
    Gen.Link.linkLoadWriters = [
  "base.py:Link.<module>:current_load declared",
  "base.py:Link.pre_timestep:current_load =",
  "base.py:Link.transmit_frame:(body translated)"] := by decide

/-- `AirSpace.add_wireless_interface`, `remove_wireless_interface` and `clear` have exactly the steps the model's `wjoin` /
`wleave` stand for (registry and per-frequency interface lists; the extractor refuses any other statement). -/
theorem C18_gen_air_membership_ops :
    Gen.Link.airMembershipOps = [("add_wireless_interface", ["if-absent", "register", "ensure-list", "append-to-list"]),
      ("clear", ["clear-registry", "clear-lists"]), ("remove_wireless_interface", ["if-present", "unregister", "remove-from-list"])] := by
  decide

/-- **The size admitted is the size accounted, on every send path** (F-28b's class).  The admission test and the accounting each
evaluate `frame.size_Mbits` (Link: twice in `can_transmit_frame` — one into an unused local —, once at the top of `transmit_frame`;
AirSpace: once each); the frame is stamped before the admission test (`C18_gen_orders`, `C18_gen_every_send_frame_modelled`); between
the two evaluations only `super().send_frame(frame)` and `pcap.capture_outbound(frame)` run (enforced by the extractor), and those
write nothing on the frame and call nothing on it but `model_dump_json()`; nothing but the choice of the receiver precedes the size
read in `transmit_frame`.  A further evaluation, a write, or another call on the frame in that window changes these tables. -/
theorem C18_gen_size_window :
    Gen.Link.sizeEvaluations = [("AirSpace.can_transmit_frame", 1), ("AirSpace.transmit", 1), ("Link.can_transmit_frame", 2), ("Link.transmit_frame", 1)] ∧
    Gen.Link.frameWritesBetweenAdmissionAndAccounting = [] ∧
    Gen.Link.frameCallsBetweenAdmissionAndAccounting = ["PacketCapture.capture_outbound:frame.model_dump_json()"] := by decide

/-- **The reset path of a tick boundary, as the source has it now.** `PrimaiteGame.pre_timestep` → `Simulation.pre_timestep` →
`Network.pre_timestep`, which resets the airspace and calls `pre_timestep` of **every** link — a loop whose body is exactly the one
call, no condition (a link that is down, an interface that is disabled, a frequency nobody is on make no difference) —;
`Link.pre_timestep` assigns `current_load = 0.0` unconditionally; `reset_bandwidth_load` drops every frequency's entry.  That is the
model's `tick`.  Every `Link` is made by `Network.connect`, which registers it in `Network.links` (so the loop reaches it); the only
`airspace=` a wireless node is built with on the `from_config` path is its network's own (`net.airspace`), so `Network.pre_timestep`
resets the airspace every wireless interface of the network transmits on.  A condition in the loop (seeded C18-e: `if link.is_up`),
a new constructor site, another airspace argument: the tables change and this obligation fails. -/
theorem C18_gen_tick_reset_path :
    Gen.Link.tickResetPath = [
      ("PrimaiteGame.pre_timestep", ["self.simulation.pre_timestep(self.step_counter)"]),
      ("Simulation.pre_timestep", ["super", "self.network.pre_timestep(timestep)"]),
      ("Network.pre_timestep", ["super", "self.airspace.reset_bandwidth_load()", "every node: pre_timestep (unconditional)", "every link: pre_timestep (unconditional)"]),
      ("Link.pre_timestep", ["super", "self.current_load = 0.0"]),
      ("AirSpace.reset_bandwidth_load", ["self.bandwidth_load = {}"]),
      ("Network.connect", ["registers the link in self.links"])] ∧
    Gen.Link.linkConstructionSites = ["container.py:Network.connect"] ∧
    Gen.Link.airspaceArgumentSites = ["game.py:PrimaiteGame.from_config:airspace=net.airspace", "wireless_router.py:WirelessRouter.__init__:airspace=self.airspace", "wireless_router.py:WirelessRouter.from_config:airspace=airspace"] := by decide

/-! ### Non-vacuity: a tight link, an ARP-like request whose delivery triggers the reply -/

/-- Link of 10 units, both ends up; request of 6 whose delivery sends a reply of 6 back: the reply is dropped at the
sender (6 + 6 > 10) and the tick ends at 6 ≤ 10. -/
example :
    let n : Net := { links := [{ bw := 10, load := 0, enA := true, enB := true }], chans := [] }
    let r := run n [.act [.send 0 true 6 true [.send 0 false 6 true []]]]
    Inv n ∧ r.1.links = [{ bw := 10, load := 6, enA := true, enB := true }] ∧
    r.2.map (·.verdict) = [.full, .carried] := by decide

/-- Disabling an end in the middle of a delivery: the load stays, later sends are refused as `down`. -/
example :
    let n : Net := { links := [{ bw := 10, load := 0, enA := true, enB := true }], chans := [] }
    let r := run n [.act [.send 0 true 4 true [.setEn 0 false false, .send 0 false 1 true []]], .act [.send 0 true 1 true []]]
    r.1.links = [{ bw := 10, load := 4, enA := true, enB := false }] ∧
    r.2.map (·.verdict) = [.disabled, .carried, .down] := by decide

/-- Wireless: three interfaces, the third disabled; a send from 0 is heard by interface 1 (whose reply does not fit), not by 2;
interface 2 is enabled while 1 is processing, so the same loop then reaches it and it hears the frame. -/
example :
    let n : Net := { links := [], chans := [{ caps := [10, 10, 10], load := 0, en := [true, true, false] }] }
    let r := run n [.act [.wsend 0 0 7 [.wrecv 0 0 1, .wsend 0 1 4 [], .wrecv 0 0 2]], .tick,
                    .act [.wsend 0 0 1 [.wrecv 0 0 1, .wsetEn 0 2 true, .wjoin 0 2, .wrecv 0 0 2]], .act [.wsend 0 2 1 [.wrecv 0 2 2]]]
    r.2.map (fun x => (x.verdict, x.rcv, x.load)) =
      [(.heard, [1], 7), (.full, [], 7), (.deaf, [2], 7), (.carried, [], 7),
       (.heard, [1], 1), (.heard, [2], 1), (.carried, [], 1), (.deaf, [2], 2), (.carried, [], 2)] := by decide

/-! ### Exact accounting: the load *is* the data carried -/

attribute [local simp] Verdict.loaded

/-- Size of the frame if this record says it was carried over wired link (`w = false`) / wireless channel (`w = true`) `k`:
taken by the far interface, or handed over and then cut short by an exception (`lost`: the frame did cross, and the code keeps
its size on the load). -/
def Rec.carriedBy (r : Rec) (w : Bool) (k : Nat) : Nat :=
  if r.wireless = w ∧ r.k = k ∧ r.verdict.loaded = true then r.size else 0

/-- Data carried over link / channel `k` according to a trace. -/
def carriedOn (w : Bool) (k : Nat) : List Rec → Nat
  | [] => 0
  | r :: rs => r.carriedBy w k + carriedOn w k rs

theorem carriedOn_append (w : Bool) (k : Nat) (a b : List Rec) :
    carriedOn w k (a ++ b) = carriedOn w k a + carriedOn w k b := by
  induction a with
  | nil => simp [carriedOn]
  | cons r rs ih => simp [carriedOn, ih, Nat.add_assoc]

theorem loadOf_set (n : Net) (k k' : Nat) (l l' : Link) (hk : n.links[k]? = some l) :
    loadOf { n with links := n.links.set k l' } k' = if k' = k then l'.load else loadOf n k' := by
  unfold loadOf
  have hlt : k < n.links.length := (List.getElem?_eq_some_iff.mp hk).1
  by_cases h : k' = k
  · subst h; simp [hlt]
  · have h' : k ≠ k' := fun e => h e.symm
    simp [List.getElem?_set_ne h', h]

theorem cloadOf_set (n : Net) (c c' : Nat) (ch ch' : Chan) (hc : n.chans[c]? = some ch) :
    cloadOf { n with chans := n.chans.set c ch' } c' = if c' = c then ch'.load else cloadOf n c' := by
  unfold cloadOf
  have hlt : c < n.chans.length := (List.getElem?_eq_some_iff.mp hc).1
  by_cases h : c' = c
  · subst h; simp [hlt]
  · have h' : c ≠ c' := fun e => h e.symm
    simp [List.getElem?_set_ne h', h]

theorem loadOf_eq (n : Net) (k : Nat) (l : Link) (hk : n.links[k]? = some l) : loadOf n k = l.load := by
  simp [loadOf, hk]

theorem cloadOf_eq (n : Net) (c : Nat) (ch : Chan) (hc : n.chans[c]? = some ch) : cloadOf n c = ch.load := by
  simp [cloadOf, hc]

mutual
/-- Wired: the load of a link grows by exactly the data carried over it — unconditionally (since the repair of F-40 nothing
but the tick lowers a load). -/
theorem runEv_accounts (n : Net) (e : Ev) (k : Nat) :
    loadOf (runEv n e).1 k = loadOf n k + carriedOn false k (runEv n e).2 := by
  cases e with
  | send k0 fromA s acc nested =>
    unfold runEv
    cases hk : n.links[k0]? with
    | none => simp [carriedOn, Rec.carriedBy]
    | some l =>
      simp only
      by_cases h1 : (if fromA then l.enA else l.enB) = true
      · by_cases h2 : l.isUp = true
        · by_cases h3 : admits l.load s l.bw = true
          · simp only [h1, h2, h3, Bool.not_true, Bool.false_eq_true, if_false]
            cases acc with
            | true =>
              simp only [if_true]
              have ih := runEvs_accounts { n with links := n.links.set k0 { l with load := l.load + s } } nested k
              rw [ih, carriedOn_append, loadOf_set n k0 k l _ hk]
              by_cases hkk : k = k0
              · subst hkk
                simp [carriedOn, Rec.carriedBy, loadOf_eq n k l hk]; omega
              · have : ¬ k0 = k := fun e => hkk e.symm
                simp [carriedOn, Rec.carriedBy, hkk, this]
            | false =>
              simp only [Bool.false_eq_true, if_false]
              rw [loadOf_set n k0 k l _ hk]
              by_cases hkk : k = k0
              · subst hkk
                simp [carriedOn, Rec.carriedBy, loadOf_eq n k l hk]
              · simp [carriedOn, Rec.carriedBy, hkk]
          · simp [h1, h2, h3, carriedOn, Rec.carriedBy]
        · simp [h1, h2, carriedOn, Rec.carriedBy]
      · simp [h1, carriedOn, Rec.carriedBy]
  | wsend c i s nested =>
    unfold runEv
    cases hc : n.chans[c]? with
    | none => simp [carriedOn, Rec.carriedBy]
    | some ch =>
      simp only
      cases hi : ch.en[i]? with
      | none => simp [carriedOn, Rec.carriedBy]
      | some enS =>
        simp only
        cases hcI : ch.caps[i]? with
        | none => simp [carriedOn, Rec.carriedBy]
        | some capI =>
        simp only
        cases enS with
        | false => simp [carriedOn, Rec.carriedBy]
        | true =>
          by_cases h3 : admits ch.load s capI = true
          · simp only [h3, Bool.not_true, Bool.false_eq_true, if_false]
            have ih := runEvs_accounts { n with chans := n.chans.set c { ch with load := ch.load + s } } nested k
            rw [ih, carriedOn_append]
            simp [carriedOn, Rec.carriedBy, loadOf]
          · simp [h3, carriedOn, Rec.carriedBy]
  | setEn k0 endA v =>
    unfold runEv
    cases hk : n.links[k0]? with
    | none => simp [carriedOn]
    | some l =>
      simp only
      by_cases hcur : ((if endA then l.enA else l.enB) == v) = true
      · simp [hcur, carriedOn]
      · simp only [hcur, Bool.false_eq_true, if_false]
        rw [loadOf_set n k0 k l _ hk]
        by_cases hkk : k = k0
        · subst hkk
          cases endA <;> simp [carriedOn, loadOf_eq n k l hk]
        · simp [carriedOn, hkk]
  | wsetEn c i v =>
    unfold runEv
    cases hc : n.chans[c]? with
    | none => simp [carriedOn]
    | some ch => simp [carriedOn, loadOf]
  | wjoin c i =>
    unfold runEv
    cases hc : n.chans[c]? with
    | none => simp [carriedOn]
    | some ch => simp [carriedOn, loadOf]
  | wleave c i =>
    unfold runEv
    cases hc : n.chans[c]? with
    | none => simp [carriedOn]
    | some ch => simp [carriedOn, loadOf]
  | lost k0 fromA s nested =>
    unfold runEv
    cases hk : n.links[k0]? with
    | none => simp [carriedOn, Rec.carriedBy]
    | some l =>
      simp only
      by_cases h1 : (if fromA then l.enA else l.enB) = true
      · by_cases h2 : l.isUp = true
        · by_cases h3 : admits l.load s l.bw = true
          · simp only [h1, h2, h3, Bool.not_true, Bool.false_eq_true, if_false]
            have ih := runEvs_accounts { n with links := n.links.set k0 { l with load := l.load + s } } nested k
            rw [ih, carriedOn_append, loadOf_set n k0 k l _ hk]
            by_cases hkk : k = k0
            · subst hkk
              simp [carriedOn, Rec.carriedBy, loadOf_eq n k l hk]; omega
            · have : ¬ k0 = k := fun e => hkk e.symm
              simp [carriedOn, Rec.carriedBy, hkk, this]
          · simp [h1, h2, h3, carriedOn, Rec.carriedBy]
        · simp [h1, h2, carriedOn, Rec.carriedBy]
      · simp [h1, carriedOn, Rec.carriedBy]
  | wlost c i s nested =>
    unfold runEv
    cases hc : n.chans[c]? with
    | none => simp [carriedOn, Rec.carriedBy]
    | some ch =>
      simp only
      cases hi : ch.en[i]? with
      | none => simp [carriedOn, Rec.carriedBy]
      | some enS =>
        simp only
        cases hcI : ch.caps[i]? with
        | none => simp [carriedOn, Rec.carriedBy]
        | some capI =>
        simp only
        cases enS with
        | false => simp [carriedOn, Rec.carriedBy]
        | true =>
          by_cases h3 : admits ch.load s capI = true
          · simp only [h3, Bool.not_true, Bool.false_eq_true, if_false]
            have ih := runEvs_accounts { n with chans := n.chans.set c { ch with load := ch.load + s } } nested k
            rw [ih, carriedOn_append]
            simp [carriedOn, Rec.carriedBy, loadOf]
          · simp [h3, carriedOn, Rec.carriedBy]
  | wrecv c0 i j =>
    unfold runEv
    cases hc : n.chans[c0]? with
    | none => simp [carriedOn, Rec.carriedBy]
    | some ch => simp [carriedOn, Rec.carriedBy]

theorem runEvs_accounts (n : Net) (es : List Ev) (k : Nat) :
    loadOf (runEvs n es).1 k = loadOf n k + carriedOn false k (runEvs n es).2 := by
  cases es with
  | nil => simp [runEvs, carriedOn]
  | cons e es =>
    unfold runEvs
    have h1 := runEv_accounts n e k
    have h2 := runEvs_accounts (runEv n e).1 es k
    simp only
    rw [h2, h1, carriedOn_append]
    omega
end


theorem bwOf_set (n : Net) (k k' : Nat) (l l' : Link) (hk : n.links[k]? = some l) (hbw : l'.bw = l.bw) :
    bwOf { n with links := n.links.set k l' } k' = bwOf n k' := by
  unfold bwOf
  obtain ⟨hlt, hget⟩ := List.getElem?_eq_some_iff.mp hk
  by_cases h : k' = k
  · subst h; simp [hlt, hbw, hget]
  · have h' : k ≠ k' := fun e => h e.symm
    simp [List.getElem?_set_ne h']

theorem capOf_set (n : Net) (c c' : Nat) (ch ch' : Chan) (hc : n.chans[c]? = some ch) (hcap : ch'.cap = ch.cap) :
    capOf { n with chans := n.chans.set c ch' } c' = capOf n c' := by
  unfold capOf
  obtain ⟨hlt, hget⟩ := List.getElem?_eq_some_iff.mp hc
  by_cases h : c' = c
  · subst h; simp [hlt, hcap, hget]
  · have h' : c ≠ c' := fun e => h e.symm
    simp [List.getElem?_set_ne h']

mutual
/-- Nothing that can happen changes a bandwidth or a capacity. -/
theorem runEv_bw (n : Net) (e : Ev) (k : Nat) :
    bwOf (runEv n e).1 k = bwOf n k ∧ capOf (runEv n e).1 k = capOf n k := by
  cases e with
  | send k0 fromA s acc nested =>
    unfold runEv
    cases hk : n.links[k0]? with
    | none => exact ⟨rfl, rfl⟩
    | some l =>
      simp only
      by_cases h1 : (if fromA then l.enA else l.enB) = true
      · by_cases h2 : l.isUp = true
        · by_cases h3 : admits l.load s l.bw = true
          · simp only [h1, h2, h3, Bool.not_true, Bool.false_eq_true, if_false]
            cases acc with
            | true =>
              simp only [if_true]
              have ih := runEvs_bw { n with links := n.links.set k0 { l with load := l.load + s } } nested k
              rw [ih.1, ih.2, bwOf_set n k0 k l { l with load := l.load + s } hk rfl]
              exact ⟨rfl, rfl⟩
            | false =>
              simp only [Bool.false_eq_true, if_false]
              rw [bwOf_set n k0 k l { l with load := l.load + s - s } hk rfl]
              exact ⟨rfl, rfl⟩
          · simp [h1, h2, h3]
        · simp [h1, h2]
      · simp [h1]
  | wsend c i s nested =>
    unfold runEv
    cases hc : n.chans[c]? with
    | none => exact ⟨rfl, rfl⟩
    | some ch =>
      simp only
      cases hi : ch.en[i]? with
      | none => exact ⟨rfl, rfl⟩
      | some enS =>
        simp only
        cases hcI : ch.caps[i]? with
        | none => exact ⟨rfl, rfl⟩
        | some capI =>
        simp only
        cases enS with
        | false => simp
        | true =>
          by_cases h3 : admits ch.load s capI = true
          · simp only [h3, Bool.not_true, Bool.false_eq_true, if_false]
            have ih := runEvs_bw { n with chans := n.chans.set c { ch with load := ch.load + s } } nested k
            rw [ih.1, ih.2, capOf_set n c k ch { ch with load := ch.load + s } hc rfl]
            exact ⟨rfl, rfl⟩
          · simp [h3]
  | setEn k0 endA v =>
    unfold runEv
    cases hk : n.links[k0]? with
    | none => exact ⟨rfl, rfl⟩
    | some l =>
      simp only
      by_cases hcur : ((if endA then l.enA else l.enB) == v) = true
      · simp [hcur]
      · simp only [hcur, Bool.false_eq_true, if_false]
        refine ⟨?_, rfl⟩
        cases endA <;> cases v <;> exact bwOf_set n k0 k l _ hk rfl
  | wsetEn c i v =>
    unfold runEv
    cases hc : n.chans[c]? with
    | none => exact ⟨rfl, rfl⟩
    | some ch => exact ⟨rfl, capOf_set n c k ch { ch with en := ch.en.set i v } hc rfl⟩
  | wjoin c i =>
    unfold runEv
    cases hc : n.chans[c]? with
    | none => exact ⟨rfl, rfl⟩
    | some ch => exact ⟨rfl, capOf_set n c k ch { ch with mem := ch.mem.set i true } hc rfl⟩
  | wleave c i =>
    unfold runEv
    cases hc : n.chans[c]? with
    | none => exact ⟨rfl, rfl⟩
    | some ch => exact ⟨rfl, capOf_set n c k ch { ch with mem := ch.mem.set i false } hc rfl⟩
  | lost k0 fromA s nested =>
    unfold runEv
    cases hk : n.links[k0]? with
    | none => exact ⟨rfl, rfl⟩
    | some l =>
      simp only
      by_cases h1 : (if fromA then l.enA else l.enB) = true
      · by_cases h2 : l.isUp = true
        · by_cases h3 : admits l.load s l.bw = true
          · simp only [h1, h2, h3, Bool.not_true, Bool.false_eq_true, if_false]
            have ih := runEvs_bw { n with links := n.links.set k0 { l with load := l.load + s } } nested k
            rw [ih.1, ih.2, bwOf_set n k0 k l { l with load := l.load + s } hk rfl]
            exact ⟨rfl, rfl⟩
          · simp [h1, h2, h3]
        · simp [h1, h2]
      · simp [h1]
  | wlost c i s nested =>
    unfold runEv
    cases hc : n.chans[c]? with
    | none => exact ⟨rfl, rfl⟩
    | some ch =>
      simp only
      cases hi : ch.en[i]? with
      | none => exact ⟨rfl, rfl⟩
      | some enS =>
        simp only
        cases hcI : ch.caps[i]? with
        | none => exact ⟨rfl, rfl⟩
        | some capI =>
        simp only
        cases enS with
        | false => simp
        | true =>
          by_cases h3 : admits ch.load s capI = true
          · simp only [h3, Bool.not_true, Bool.false_eq_true, if_false]
            have ih := runEvs_bw { n with chans := n.chans.set c { ch with load := ch.load + s } } nested k
            rw [ih.1, ih.2, capOf_set n c k ch { ch with load := ch.load + s } hc rfl]
            exact ⟨rfl, rfl⟩
          · simp [h3]
  | wrecv c0 i j =>
    unfold runEv
    cases hc : n.chans[c0]? with
    | none => exact ⟨rfl, rfl⟩
    | some ch => exact ⟨rfl, rfl⟩

theorem runEvs_bw (n : Net) (es : List Ev) (k : Nat) :
    bwOf (runEvs n es).1 k = bwOf n k ∧ capOf (runEvs n es).1 k = capOf n k := by
  cases es with
  | nil => exact ⟨rfl, rfl⟩
  | cons e es =>
    unfold runEvs
    have h1 := runEv_bw n e k
    have h2 := runEvs_bw (runEv n e).1 es k
    simp only
    exact ⟨h2.1.trans h1.1, h2.2.trans h1.2⟩
end

mutual
/-- Wireless: the load of a channel is exactly the data sent on it — unconditionally (disabling a wireless interface does
not clear the channel's load). -/
theorem runEv_air_accounts (n : Net) (e : Ev) (c : Nat) :
    cloadOf (runEv n e).1 c = cloadOf n c + carriedOn true c (runEv n e).2 := by
  cases e with
  | send k0 fromA s acc nested =>
    unfold runEv
    cases hk : n.links[k0]? with
    | none => simp [carriedOn, Rec.carriedBy]
    | some l =>
      simp only
      by_cases h1 : (if fromA then l.enA else l.enB) = true
      · by_cases h2 : l.isUp = true
        · by_cases h3 : admits l.load s l.bw = true
          · simp only [h1, h2, h3, Bool.not_true, Bool.false_eq_true, if_false]
            cases acc with
            | true =>
              simp only [if_true]
              have ih := runEvs_air_accounts { n with links := n.links.set k0 { l with load := l.load + s } } nested c
              rw [ih, carriedOn_append]
              simp [carriedOn, Rec.carriedBy, cloadOf]
            | false => simp [carriedOn, Rec.carriedBy, cloadOf]
          · simp [h1, h2, h3, carriedOn, Rec.carriedBy]
        · simp [h1, h2, carriedOn, Rec.carriedBy]
      · simp [h1, carriedOn, Rec.carriedBy]
  | wsend c0 i s nested =>
    unfold runEv
    cases hc : n.chans[c0]? with
    | none => simp [carriedOn, Rec.carriedBy]
    | some ch =>
      simp only
      cases hi : ch.en[i]? with
      | none => simp [carriedOn, Rec.carriedBy]
      | some enS =>
        simp only
        cases hcI : ch.caps[i]? with
        | none => simp [carriedOn, Rec.carriedBy]
        | some capI =>
        simp only
        cases enS with
        | false => simp [carriedOn, Rec.carriedBy]
        | true =>
          by_cases h3 : admits ch.load s capI = true
          · simp only [h3, Bool.not_true, Bool.false_eq_true, if_false]
            have ih := runEvs_air_accounts { n with chans := n.chans.set c0 { ch with load := ch.load + s } } nested c
            rw [ih, carriedOn_append, cloadOf_set n c0 c ch _ hc]
            by_cases hcc : c = c0
            · subst hcc
              simp [carriedOn, Rec.carriedBy, cloadOf_eq n c ch hc]; omega
            · have : ¬ c0 = c := fun e => hcc e.symm
              simp [carriedOn, Rec.carriedBy, hcc, this]
          · simp [h3, carriedOn, Rec.carriedBy]
  | setEn k0 endA v =>
    unfold runEv
    cases hk : n.links[k0]? with
    | none => simp [carriedOn]
    | some l =>
      simp only
      by_cases hcur : ((if endA then l.enA else l.enB) == v) = true
      · simp [hcur, carriedOn]
      · simp [hcur, carriedOn, cloadOf]
  | wsetEn c0 i v =>
    unfold runEv
    cases hc : n.chans[c0]? with
    | none => simp [carriedOn]
    | some ch =>
      simp only
      rw [cloadOf_set n c0 c ch _ hc]
      by_cases hcc : c = c0
      · subst hcc; simp [carriedOn, cloadOf_eq n c ch hc]
      · simp [carriedOn, hcc]
  | wjoin c0 i =>
    unfold runEv
    cases hc : n.chans[c0]? with
    | none => simp [carriedOn]
    | some ch =>
      simp only
      rw [cloadOf_set n c0 c ch _ hc]
      by_cases hcc : c = c0
      · subst hcc; simp [carriedOn, cloadOf_eq n c ch hc]
      · simp [carriedOn, hcc]
  | wleave c0 i =>
    unfold runEv
    cases hc : n.chans[c0]? with
    | none => simp [carriedOn]
    | some ch =>
      simp only
      rw [cloadOf_set n c0 c ch _ hc]
      by_cases hcc : c = c0
      · subst hcc; simp [carriedOn, cloadOf_eq n c ch hc]
      · simp [carriedOn, hcc]
  | lost k0 fromA s nested =>
    unfold runEv
    cases hk : n.links[k0]? with
    | none => simp [carriedOn, Rec.carriedBy]
    | some l =>
      simp only
      by_cases h1 : (if fromA then l.enA else l.enB) = true
      · by_cases h2 : l.isUp = true
        · by_cases h3 : admits l.load s l.bw = true
          · simp only [h1, h2, h3, Bool.not_true, Bool.false_eq_true, if_false]
            have ih := runEvs_air_accounts { n with links := n.links.set k0 { l with load := l.load + s } } nested c
            rw [ih, carriedOn_append]
            simp [carriedOn, Rec.carriedBy, cloadOf]
          · simp [h1, h2, h3, carriedOn, Rec.carriedBy]
        · simp [h1, h2, carriedOn, Rec.carriedBy]
      · simp [h1, carriedOn, Rec.carriedBy]
  | wlost c0 i s nested =>
    unfold runEv
    cases hc : n.chans[c0]? with
    | none => simp [carriedOn, Rec.carriedBy]
    | some ch =>
      simp only
      cases hi : ch.en[i]? with
      | none => simp [carriedOn, Rec.carriedBy]
      | some enS =>
        simp only
        cases hcI : ch.caps[i]? with
        | none => simp [carriedOn, Rec.carriedBy]
        | some capI =>
        simp only
        cases enS with
        | false => simp [carriedOn, Rec.carriedBy]
        | true =>
          by_cases h3 : admits ch.load s capI = true
          · simp only [h3, Bool.not_true, Bool.false_eq_true, if_false]
            have ih := runEvs_air_accounts { n with chans := n.chans.set c0 { ch with load := ch.load + s } } nested c
            rw [ih, carriedOn_append, cloadOf_set n c0 c ch _ hc]
            by_cases hcc : c = c0
            · subst hcc
              simp [carriedOn, Rec.carriedBy, cloadOf_eq n c ch hc]; omega
            · have : ¬ c0 = c := fun e => hcc e.symm
              simp [carriedOn, Rec.carriedBy, hcc, this]
          · simp [h3, carriedOn, Rec.carriedBy]
  | wrecv c0 i j =>
    unfold runEv
    cases hc : n.chans[c0]? with
    | none => simp [carriedOn, Rec.carriedBy]
    | some ch => simp [carriedOn, Rec.carriedBy]

theorem runEvs_air_accounts (n : Net) (es : List Ev) (c : Nat) :
    cloadOf (runEvs n es).1 c = cloadOf n c + carriedOn true c (runEvs n es).2 := by
  cases es with
  | nil => simp [runEvs, carriedOn]
  | cons e es =>
    unfold runEvs
    have h1 := runEv_air_accounts n e c
    have h2 := runEvs_air_accounts (runEv n e).1 es c
    simp only
    rw [h2, h1, carriedOn_append]
    omega
end

theorem loadOf_tick (n : Net) (k : Nat) : loadOf (tick n) k = 0 := by
  unfold loadOf tick
  simp only [List.getElem?_map]
  cases n.links[k]? <;> simp

theorem cloadOf_tick (n : Net) (c : Nat) : cloadOf (tick n) c = 0 := by
  unfold cloadOf tick
  simp only [List.getElem?_map]
  cases n.chans[c]? <;> simp

theorem bwOf_tick (n : Net) (k : Nat) : bwOf (tick n) k = bwOf n k ∧ capOf (tick n) k = capOf n k := by
  unfold bwOf capOf tick
  simp only [List.getElem?_map]
  constructor
  · cases n.links[k]? <;> simp
  · cases n.chans[k]? <;> simp [Chan.cap]

/-- **The data carried by a wired link in a tick is its load, and is within its bandwidth** — for *every* tick, whatever
happens in it: sends nested in deliveries to any depth, interfaces disabled and re-enabled at any point (full strength since the
repair of F-40; see `C18_asWritten_disable_counterexample` for what was wrong). A tick is `tick` followed by any forest. -/
theorem C18_carried_le_bandwidth (n : Net) (evs : List Ev) (k : Nat) :
    carriedOn false k (runEvs (tick n) evs).2 = loadOf (runEvs (tick n) evs).1 k ∧
    carriedOn false k (runEvs (tick n) evs).2 ≤ bwOf n k := by
  have hacc := runEvs_accounts (tick n) evs k
  rw [loadOf_tick, Nat.zero_add] at hacc
  have hinv := (runEvs_ok (tick n) evs (tick_inv n)).1
  have hle := inv_loadOf hinv k
  rw [(runEvs_bw (tick n) evs k).1, (bwOf_tick n k).1] at hle
  exact ⟨hacc.symm, by omega⟩

/-- The property read literally for wired links: whatever happens in a tick, the data carried stays within the bandwidth. -/
def C18_Full_carried : Prop :=
  ∀ (n : Net) (evs : List Ev) (k : Nat), carriedOn false k (runEvs (tick n) evs).2 ≤ bwOf n k

/-- It holds (it was false before the repair of F-40). -/
theorem C18_Full_carried_holds : C18_Full_carried := fun n evs k => (C18_carried_le_bandwidth n evs k).2

/-- the former counterexample, now within the bandwidth: send 8, disable, enable, send 8 on a link of 10 — the second send is
dropped at the sender as `full` -/
example :
    let n : Net := { links := [{ bw := 10, load := 0, enA := true, enB := true }], chans := [] }
    let r := runEvs (tick n) [.send 0 true 8 true [], .setEn 0 false false, .setEn 0 false true, .send 0 true 8 true []]
    r.2.map (·.verdict) = [.carried, .full] ∧ carriedOn false 0 r.2 = 8 ∧ loadOf r.1 0 = 8 := by decide

/-- **The data sent on a wireless channel (hz) in a tick is its load, and is within the largest capacity of any frequency name
configured on that hz** (with one name per hz: within *the* capacity of the channel). No side condition. -/
theorem C18_air_carried_le_capacity (n : Net) (evs : List Ev) (c : Nat) :
    carriedOn true c (runEvs (tick n) evs).2 = cloadOf (runEvs (tick n) evs).1 c ∧
    carriedOn true c (runEvs (tick n) evs).2 ≤ capOf n c := by
  have hacc := runEvs_air_accounts (tick n) evs c
  rw [cloadOf_tick, Nat.zero_add] at hacc
  have hinv := (runEvs_ok (tick n) evs (tick_inv n)).1
  have hle := inv_cloadOf hinv c
  rw [(runEvs_bw (tick n) evs c).2, (bwOf_tick n c).2] at hle
  exact ⟨hacc.symm, by omega⟩

/-! ### Deliveries cut short by an exception

No code on the delivery path catches exceptions (`Gen.Link.handlersOnDeliveryPath`), so an exception raised while a frame is being
processed unwinds through every `transmit_frame` / `AirSpace.transmit` below it; none of them releases its reservation.  In the
model such a send is `Ev.lost` / `Ev.wlost` (any send of any tree, with whatever had completed inside it).  All theorems of this
file quantify over trees that contain them; in particular `C18_carried_le_bandwidth` and `C18_carried_le_bandwidth_every_tick`
are the bound for runs with aborted deliveries.  `carriedOn` counts a `lost` frame (it was handed over; the code keeps its size
on the load), so the accounting stays exact: `load = Σ carried + Σ lost`. -/

/-- An exception that unwinds through an admitted wired send leaves the frame's size on the link and the record says `lost`;
the hand-over itself happened with both ends enabled. -/
theorem C18_lost_stays_accounted (n : Net) (k : Nat) (fromA : Bool) (s : Nat) (nested : List Ev) (l : Link)
    (hl : n.links[k]? = some l) (hup : l.isUp = true) (hfit : l.load + s ≤ l.bw) :
    loadOf n k + s ≤ loadOf (runEv n (.lost k fromA s nested)).1 k ∧
    ∃ r ∈ (runEv n (.lost k fromA s nested)).2, r.verdict = .lost ∧ r.size = s ∧ r.k = k ∧ r.wireless = false ∧
      r.enS = true ∧ r.enR = true := by
  have hS : (if fromA then l.enA else l.enB) = true := by
    unfold Link.isUp at hup; cases fromA <;> simp_all
  have hR : (if fromA then l.enB else l.enA) = true := by
    unfold Link.isUp at hup; cases fromA <;> simp_all
  have hadm : admits l.load s l.bw = true := by simp [admits]; exact hfit
  have hacct := runEv_accounts n (.lost k fromA s nested) k
  constructor
  · rw [hacct]
    unfold runEv
    simp only [hl, hS, hup, hadm, Bool.not_true, Bool.false_eq_true, if_false]
    rw [carriedOn_append]
    simp [carriedOn, Rec.carriedBy]
  · unfold runEv
    simp only [hl, hS, hup, hadm, Bool.not_true, Bool.false_eq_true, if_false]
    exact ⟨_, List.mem_append_right _ (List.mem_singleton.mpr rfl), rfl, rfl, rfl, rfl, rfl, hR⟩

/-- link of 10: a request of 6 whose delivery sends a reply of 3 and then raises; the exception also unwinds through the request.
The load stays at 9 (nothing is released), a later frame of 2 is dropped at the sender, the tick carried 9 ≤ 10. -/
example :
    let n : Net := { links := [{ bw := 10, load := 0, enA := true, enB := true }], chans := [] }
    let r := runEvs (tick n) [.lost 0 true 6 [.send 0 false 3 true []], .send 0 true 2 true [], .send 0 true 1 true []]
    r.2.map (·.verdict) = [.carried, .lost, .full, .carried] ∧ carriedOn false 0 r.2 = 10 ∧ loadOf r.1 0 = 10 := by decide

/-- the exception is caught half-way up (as `FTPServer._retrieve_data` would): the inner send is lost, the outer one completes -/
example :
    let n : Net := { links := [{ bw := 10, load := 0, enA := true, enB := true }, { bw := 4, load := 0, enA := true, enB := true }],
                     chans := [{ caps := [7, 7], load := 0, en := [true, true] }] }
    let r := runEvs (tick n) [.send 0 true 5 true [.lost 1 true 3 [.wlost 0 0 6 []]], .send 1 true 2 true [], .wsend 0 1 2 []]
    r.2.map (·.verdict) = [.lost, .lost, .carried, .full, .full] ∧
    (loadOf r.1 0, loadOf r.1 1, cloadOf r.1 0) = (5, 3, 6) := by decide

/-! ### The wireless twin of F-40: a frequency that is emptied and repopulated inside a tick

`remove_wireless_interface` / `add_wireless_interface` (`Ev.wleave` / `Ev.wjoin`; `disable()` / `enable()` = flag + these) handle
interface lists only.  The data transmitted on a frequency in a tick is counted from the records of the sends themselves
(`carriedOn true c`), not from the airspace's counter; it is within the capacity for every forest — interfaces enabled, disabled,
added, removed at any point, also all of them at once. -/

/-- Adding or removing an interface leaves every load alone and sends nothing. -/
theorem C18_air_membership_keeps_load (n : Net) (c i c' : Nat) :
    cloadOf (runEv n (.wleave c i)).1 c' = cloadOf n c' ∧ cloadOf (runEv n (.wjoin c i)).1 c' = cloadOf n c' ∧
    loadOf (runEv n (.wleave c i)).1 c' = loadOf n c' ∧ loadOf (runEv n (.wjoin c i)).1 c' = loadOf n c' := by
  have h1 := runEv_air_accounts n (.wleave c i) c'
  have h2 := runEv_air_accounts n (.wjoin c i) c'
  have h3 := runEv_accounts n (.wleave c i) c'
  have h4 := runEv_accounts n (.wjoin c i) c'
  have e1 : (runEv n (.wleave c i)).2 = [] := by unfold runEv; cases n.chans[c]? <;> rfl
  have e2 : (runEv n (.wjoin c i)).2 = [] := by unfold runEv; cases n.chans[c]? <;> rfl
  rw [e1] at h1 h3
  rw [e2] at h2 h4
  simp only [carriedOn, Nat.add_zero] at h1 h2 h3 h4
  exact ⟨h1, h2, h3, h4⟩

/-- The property read literally for a wireless channel: whatever happens in a tick, the data transmitted on it (sum over the sends
that were put on the air) stays within the largest capacity configured on the hz. -/
def C18_Full_air_transmitted : Prop :=
  ∀ (n : Net) (evs : List Ev) (c : Nat), carriedOn true c (runEvs (tick n) evs).2 ≤ capOf n c

theorem C18_Full_air_transmitted_holds : C18_Full_air_transmitted := fun n evs c => (C18_air_carried_le_capacity n evs c).2

/-- the only access point of a channel of 10 transmits 8, is disabled and removed (the frequency's list is now empty), comes back,
and a second frame of 8 is refused: the tick transmitted 8 ≤ 10, the load is still 8 -/
example :
    let n : Net := { links := [], chans := [{ caps := [10], load := 0, en := [true] }] }
    let r := runEvs (tick n) [.wsend 0 0 8 [], .wsetEn 0 0 false, .wleave 0 0, .wsetEn 0 0 true, .wjoin 0 0, .wsend 0 0 8 []]
    r.2.map (·.verdict) = [.carried, .full] ∧ carriedOn true 0 r.2 = 8 ∧ cloadOf r.1 0 = 8 := by decide

/-- an interface that was removed from the airspace without being disabled (`remove_wireless_interface` / `clear()` called on
their own) still transmits, and is deaf -/
example :
    let n : Net := { links := [], chans := [{ caps := [10, 10], load := 0, en := [true, true] }] }
    let r := runEvs (tick n) [.wleave 0 1, .wsend 0 0 3 [.wrecv 0 0 1], .wsend 0 1 3 [.wrecv 0 1 0]]
    r.2.map (·.verdict) = [.deaf, .carried, .heard, .carried] ∧ cloadOf r.1 0 = 6 := by decide

/-! ### Two frequency names on one hz: capacity per name, load per hz

`AirSpace.can_transmit_frame` tests `bandwidth_load[hz] + size <= capacity(name of the sender)`.  What that guarantees, for every
bound `C`: the data sent in a tick by all interfaces whose own capacity is at most `C` is at most `C` — in particular the
interfaces of one frequency name never send more than that name's capacity.  What it does not guarantee: that the load of the hz
stays within the *smaller* of two capacities registered on it (`C18_air_two_names_counterexample`). -/

/-- Size of the frame if the record is a wireless send on channel `c` that was carried and admitted against a capacity `≤ C`. -/
def Rec.sentUnder (r : Rec) (c C : Nat) : Nat :=
  if r.wireless = true ∧ r.k = c ∧ r.verdict.loaded = true ∧ r.capS ≤ C then r.size else 0

def sentUnder (c C : Nat) : List Rec → Nat
  | [] => 0
  | r :: rs => r.sentUnder c C + sentUnder c C rs

theorem sentUnder_append (c C : Nat) (a b : List Rec) :
    sentUnder c C (a ++ b) = sentUnder c C a + sentUnder c C b := by
  induction a with
  | nil => simp [sentUnder]
  | cons r rs ih => simp [sentUnder, ih, Nat.add_assoc]

theorem sentUnder_le_carriedOn (c C : Nat) (rs : List Rec) : sentUnder c C rs ≤ carriedOn true c rs := by
  induction rs with
  | nil => simp [sentUnder, carriedOn]
  | cons r rs ih =>
    simp only [sentUnder, carriedOn, Rec.sentUnder, Rec.carriedBy]
    by_cases h : r.wireless = true ∧ r.k = c ∧ r.verdict.loaded = true ∧ r.capS ≤ C
    · obtain ⟨h1, h2, _, h4⟩ := h
      simp [h1, h2, h4]; exact ih
    · simp only [h, if_false]; omega

mutual
theorem runEv_under (n : Net) (e : Ev) (c C A : Nat) (hA : A ≤ cloadOf n c) (hC : A ≤ C) :
    A + sentUnder c C (runEv n e).2 ≤ C := by
  cases e with
  | send k0 fromA s acc nested =>
    unfold runEv
    cases hk : n.links[k0]? with
    | none => simpa [sentUnder, Rec.sentUnder] using hC
    | some l =>
      simp only
      by_cases h1 : (if fromA then l.enA else l.enB) = true
      · by_cases h2 : l.isUp = true
        · by_cases h3 : admits l.load s l.bw = true
          · simp only [h1, h2, h3, Bool.not_true, Bool.false_eq_true, if_false]
            cases acc with
            | true =>
              simp only [if_true]
              have ih := runEvs_under { n with links := n.links.set k0 { l with load := l.load + s } } nested c C A
                (by simpa [cloadOf] using hA) hC
              rw [sentUnder_append]
              simpa [sentUnder, Rec.sentUnder] using ih
            | false => simpa [sentUnder, Rec.sentUnder] using hC
          · simpa [h1, h2, h3, sentUnder, Rec.sentUnder] using hC
        · simpa [h1, h2, sentUnder, Rec.sentUnder] using hC
      · simpa [h1, sentUnder, Rec.sentUnder] using hC
  | wsend c0 i s nested =>
    unfold runEv
    cases hc : n.chans[c0]? with
    | none => simpa [sentUnder, Rec.sentUnder] using hC
    | some ch =>
      simp only
      cases hi : ch.en[i]? with
      | none => simpa [sentUnder, Rec.sentUnder] using hC
      | some enS =>
        simp only
        cases hcI : ch.caps[i]? with
        | none => simpa [sentUnder, Rec.sentUnder] using hC
        | some capI =>
        simp only
        cases enS with
        | false => simpa [sentUnder, Rec.sentUnder] using hC
        | true =>
          by_cases h3 : admits ch.load s capI = true
          · simp only [h3, Bool.not_true, Bool.false_eq_true, if_false]
            have hfit : ch.load + s ≤ capI := by simpa [admits] using h3
            rw [sentUnder_append]
            have hload := cloadOf_set n c0 c ch { ch with load := ch.load + s } hc
            by_cases hcc : c = c0
            · subst hcc
              have hL : cloadOf n c = ch.load := cloadOf_eq n c ch hc
              simp only [if_true] at hload
              by_cases hlow : capI ≤ C
              · have ih := runEvs_under { n with chans := n.chans.set c { ch with load := ch.load + s } } nested c C (A + s)
                  (by rw [hload]; omega) (by omega)
                simp [sentUnder, Rec.sentUnder, hlow]; omega
              · have ih := runEvs_under { n with chans := n.chans.set c { ch with load := ch.load + s } } nested c C A
                  (by rw [hload]; omega) hC
                simp [sentUnder, Rec.sentUnder, hlow]; omega
            · simp only [hcc, if_false] at hload
              have ih := runEvs_under { n with chans := n.chans.set c0 { ch with load := ch.load + s } } nested c C A
                (by rw [hload]; exact hA) hC
              have : ¬ c0 = c := fun e => hcc e.symm
              simp [sentUnder, Rec.sentUnder, this]; omega
          · simpa [h3, sentUnder, Rec.sentUnder] using hC
  | setEn k0 endA v =>
    unfold runEv
    cases hk : n.links[k0]? with
    | none => simpa [sentUnder] using hC
    | some l =>
      simp only
      by_cases hcur : ((if endA then l.enA else l.enB) == v) = true
      · simpa [hcur, sentUnder] using hC
      · simpa [hcur, sentUnder] using hC
  | wsetEn c0 i v =>
    unfold runEv
    cases hc : n.chans[c0]? with
    | none => simpa [sentUnder] using hC
    | some ch => simpa [sentUnder] using hC
  | wjoin c0 i =>
    unfold runEv
    cases hc : n.chans[c0]? with
    | none => simpa [sentUnder] using hC
    | some ch => simpa [sentUnder] using hC
  | wleave c0 i =>
    unfold runEv
    cases hc : n.chans[c0]? with
    | none => simpa [sentUnder] using hC
    | some ch => simpa [sentUnder] using hC
  | lost k0 fromA s nested =>
    unfold runEv
    cases hk : n.links[k0]? with
    | none => simpa [sentUnder, Rec.sentUnder] using hC
    | some l =>
      simp only
      by_cases h1 : (if fromA then l.enA else l.enB) = true
      · by_cases h2 : l.isUp = true
        · by_cases h3 : admits l.load s l.bw = true
          · simp only [h1, h2, h3, Bool.not_true, Bool.false_eq_true, if_false]
            have ih := runEvs_under { n with links := n.links.set k0 { l with load := l.load + s } } nested c C A
              (by simpa [cloadOf] using hA) hC
            rw [sentUnder_append]
            simpa [sentUnder, Rec.sentUnder] using ih
          · simpa [h1, h2, h3, sentUnder, Rec.sentUnder] using hC
        · simpa [h1, h2, sentUnder, Rec.sentUnder] using hC
      · simpa [h1, sentUnder, Rec.sentUnder] using hC
  | wlost c0 i s nested =>
    unfold runEv
    cases hc : n.chans[c0]? with
    | none => simpa [sentUnder, Rec.sentUnder] using hC
    | some ch =>
      simp only
      cases hi : ch.en[i]? with
      | none => simpa [sentUnder, Rec.sentUnder] using hC
      | some enS =>
        simp only
        cases hcI : ch.caps[i]? with
        | none => simpa [sentUnder, Rec.sentUnder] using hC
        | some capI =>
        simp only
        cases enS with
        | false => simpa [sentUnder, Rec.sentUnder] using hC
        | true =>
          by_cases h3 : admits ch.load s capI = true
          · simp only [h3, Bool.not_true, Bool.false_eq_true, if_false]
            have hfit : ch.load + s ≤ capI := by simpa [admits] using h3
            rw [sentUnder_append]
            have hload := cloadOf_set n c0 c ch { ch with load := ch.load + s } hc
            by_cases hcc : c = c0
            · subst hcc
              have hL : cloadOf n c = ch.load := cloadOf_eq n c ch hc
              simp only [if_true] at hload
              by_cases hlow : capI ≤ C
              · have ih := runEvs_under { n with chans := n.chans.set c { ch with load := ch.load + s } } nested c C (A + s)
                  (by rw [hload]; omega) (by omega)
                simp [sentUnder, Rec.sentUnder, hlow]; omega
              · have ih := runEvs_under { n with chans := n.chans.set c { ch with load := ch.load + s } } nested c C A
                  (by rw [hload]; omega) hC
                simp [sentUnder, Rec.sentUnder, hlow]; omega
            · simp only [hcc, if_false] at hload
              have ih := runEvs_under { n with chans := n.chans.set c0 { ch with load := ch.load + s } } nested c C A
                (by rw [hload]; exact hA) hC
              have : ¬ c0 = c := fun e => hcc e.symm
              simp [sentUnder, Rec.sentUnder, this]; omega
          · simpa [h3, sentUnder, Rec.sentUnder] using hC
  | wrecv c0 i j =>
    unfold runEv
    cases hc : n.chans[c0]? with
    | none => simpa [sentUnder, Rec.sentUnder] using hC
    | some ch => simpa [sentUnder, Rec.sentUnder] using hC

theorem runEvs_under (n : Net) (es : List Ev) (c C A : Nat) (hA : A ≤ cloadOf n c) (hC : A ≤ C) :
    A + sentUnder c C (runEvs n es).2 ≤ C := by
  cases es with
  | nil => simpa [runEvs, sentUnder] using hC
  | cons e es =>
    unfold runEvs
    have h1 := runEv_under n e c C A hA hC
    have hacc := runEv_air_accounts n e c
    have hle := sentUnder_le_carriedOn c C (runEv n e).2
    have h2 := runEvs_under (runEv n e).1 es c C (A + sentUnder c C (runEv n e).2) (by omega) h1
    simp only
    rw [sentUnder_append]
    omega
end

/-- **Wireless, per capacity.** In a tick, the data sent on a channel by all interfaces whose frequency name has a capacity of
at most `C` is at most `C` — whatever the other names registered on the same hz are allowed. With `C` the capacity of one name:
the interfaces of that name never send more than their name's capacity. -/
theorem C18_air_sent_le_own_capacity (n : Net) (evs : List Ev) (c C : Nat) :
    sentUnder c C (runEvs (tick n) evs).2 ≤ C := by
  have := runEvs_under (tick n) evs c C 0 (Nat.zero_le _) (Nat.zero_le _)
  omega

/-- With a single capacity on the hz (one frequency name, or names of equal capacity) every carried send counts, so the theorem
above is the statement "data sent on the channel ≤ the channel's capacity". -/
example :
    let n : Net := { links := [], chans := [{ caps := [10, 10], load := 0, en := [true, true] }] }
    let r := runEvs (tick n) [.wsend 0 0 4 [.wsend 0 1 5 []], .wsend 0 1 2 []]
    sentUnder 0 10 r.2 = carriedOn true 0 r.2 ∧ carriedOn true 0 r.2 = 9 ∧ r.2.map (·.verdict) = [.carried, .carried, .full] := by
  decide

/-- The statement "the load of a hz never exceeds the capacity of *any* frequency name registered on it". -/
def C18_Full_air_every_name : Prop :=
  ∀ (n : Net) (evs : List Ev) (c : Nat) (ch : Chan), (runEvs (tick n) evs).1.chans[c]? = some ch → ∀ x ∈ ch.caps, ch.load ≤ x

/-- It is false of the code when two names of different capacity share a hz (interface 0: name with capacity 5, interface 1:
name with capacity 10): the second name's traffic takes the shared load to 8 > 5. The code's own documentation says the two
names "share a bandwidth"; which capacity that shared channel has is not defined, so this is recorded as an observation, and
what *is* guaranteed is `C18_air_sent_le_own_capacity` and `C18_air_carried_le_capacity`. -/
theorem C18_air_two_names_counterexample : ¬ C18_Full_air_every_name := by
  intro h
  have := h { links := [], chans := [{ caps := [5, 10], load := 0, en := [true, true] }] }
    [.wsend 0 1 8 []] 0 { caps := [5, 10], load := 8, en := [true, true] } (by decide) 5 (by decide)
  revert this
  decide

/-! ### The same per-capacity bound for wired links (what remains true when a bandwidth is changed in mid-tick)

A record keeps the capacity its admission test used (`capS`: the link's bandwidth at that moment).  For every bound `C`: the frames
carried over a link in a tick that were admitted against a bandwidth of at most `C` add up to at most `C`.  With a constant
bandwidth this is the plain statement; with `link.bandwidth` reassigned between two actions it says exactly what the admission
test still guarantees: the link carries no more than the **largest bandwidth it was given during the tick**. -/

/-- Size of the frame if the record is a wired send on link `k` that stays on the load and was admitted against a bandwidth `≤ C`. -/
def Rec.carriedUnder (r : Rec) (k C : Nat) : Nat :=
  if r.wireless = false ∧ r.k = k ∧ r.verdict.loaded = true ∧ r.capS ≤ C then r.size else 0

def carriedUnder (k C : Nat) : List Rec → Nat
  | [] => 0
  | r :: rs => r.carriedUnder k C + carriedUnder k C rs

theorem carriedUnder_append (k C : Nat) (a b : List Rec) :
    carriedUnder k C (a ++ b) = carriedUnder k C a + carriedUnder k C b := by
  induction a with
  | nil => simp [carriedUnder]
  | cons r rs ih => simp [carriedUnder, ih, Nat.add_assoc]

theorem carriedUnder_le_carriedOn (k C : Nat) (rs : List Rec) : carriedUnder k C rs ≤ carriedOn false k rs := by
  induction rs with
  | nil => simp [carriedUnder, carriedOn]
  | cons r rs ih =>
    simp only [carriedUnder, carriedOn, Rec.carriedUnder, Rec.carriedBy]
    by_cases h : r.wireless = false ∧ r.k = k ∧ r.verdict.loaded = true ∧ r.capS ≤ C
    · obtain ⟨h1, h2, _, h4⟩ := h
      simp [h1, h2, h4]; exact ih
    · simp only [h, if_false]; omega

mutual
theorem runEv_wunder (n : Net) (e : Ev) (k C A : Nat) (hA : A ≤ loadOf n k) (hC : A ≤ C) :
    A + carriedUnder k C (runEv n e).2 ≤ C := by
  cases e with
  | send k0 fromA s acc nested =>
    unfold runEv
    cases hk : n.links[k0]? with
    | none => simpa [carriedUnder, Rec.carriedUnder] using hC
    | some l =>
      simp only
      by_cases h1 : (if fromA then l.enA else l.enB) = true
      · by_cases h2 : l.isUp = true
        · by_cases h3 : admits l.load s l.bw = true
          · simp only [h1, h2, h3, Bool.not_true, Bool.false_eq_true, if_false]
            have hfit : l.load + s ≤ l.bw := by simpa [admits] using h3
            cases acc with
            | true =>
              simp only [if_true]
              rw [carriedUnder_append]
              have hload := loadOf_set n k0 k l { l with load := l.load + s } hk
              by_cases hkk : k = k0
              · subst hkk
                have hL : loadOf n k = l.load := loadOf_eq n k l hk
                simp only [if_true] at hload
                by_cases hlow : l.bw ≤ C
                · have ih := runEvs_wunder { n with links := n.links.set k { l with load := l.load + s } } nested k C (A + s)
                    (by rw [hload]; omega) (by omega)
                  simp [carriedUnder, Rec.carriedUnder, hlow]; omega
                · have ih := runEvs_wunder { n with links := n.links.set k { l with load := l.load + s } } nested k C A
                    (by rw [hload]; omega) hC
                  simp [carriedUnder, Rec.carriedUnder, hlow]; omega
              · simp only [hkk, if_false] at hload
                have ih := runEvs_wunder { n with links := n.links.set k0 { l with load := l.load + s } } nested k C A
                  (by rw [hload]; exact hA) hC
                have : ¬ k0 = k := fun e => hkk e.symm
                simp [carriedUnder, Rec.carriedUnder, this]; omega
            | false => simpa [carriedUnder, Rec.carriedUnder] using hC
          · simpa [h1, h2, h3, carriedUnder, Rec.carriedUnder] using hC
        · simpa [h1, h2, carriedUnder, Rec.carriedUnder] using hC
      · simpa [h1, carriedUnder, Rec.carriedUnder] using hC
  | wsend c0 i s nested =>
    unfold runEv
    cases hc : n.chans[c0]? with
    | none => simpa [carriedUnder, Rec.carriedUnder] using hC
    | some ch =>
      simp only
      cases hi : ch.en[i]? with
      | none => simpa [carriedUnder, Rec.carriedUnder] using hC
      | some enS =>
        simp only
        cases hcI : ch.caps[i]? with
        | none => simpa [carriedUnder, Rec.carriedUnder] using hC
        | some capI =>
        simp only
        cases enS with
        | false => simpa [carriedUnder, Rec.carriedUnder] using hC
        | true =>
          by_cases h3 : admits ch.load s capI = true
          · simp only [h3, Bool.not_true, Bool.false_eq_true, if_false]
            have ih := runEvs_wunder { n with chans := n.chans.set c0 { ch with load := ch.load + s } } nested k C A
              (by simpa [loadOf] using hA) hC
            rw [carriedUnder_append]
            simpa [carriedUnder, Rec.carriedUnder] using ih
          · simpa [h3, carriedUnder, Rec.carriedUnder] using hC
  | setEn k0 endA v =>
    unfold runEv
    cases hk : n.links[k0]? with
    | none => simpa [carriedUnder] using hC
    | some l =>
      simp only
      by_cases hcur : ((if endA then l.enA else l.enB) == v) = true
      · simpa [hcur, carriedUnder] using hC
      · simpa [hcur, carriedUnder] using hC
  | wsetEn c0 i v =>
    unfold runEv
    cases hc : n.chans[c0]? with
    | none => simpa [carriedUnder] using hC
    | some ch => simpa [carriedUnder] using hC
  | wjoin c0 i =>
    unfold runEv
    cases hc : n.chans[c0]? with
    | none => simpa [carriedUnder] using hC
    | some ch => simpa [carriedUnder] using hC
  | wleave c0 i =>
    unfold runEv
    cases hc : n.chans[c0]? with
    | none => simpa [carriedUnder] using hC
    | some ch => simpa [carriedUnder] using hC
  | lost k0 fromA s nested =>
    unfold runEv
    cases hk : n.links[k0]? with
    | none => simpa [carriedUnder, Rec.carriedUnder] using hC
    | some l =>
      simp only
      by_cases h1 : (if fromA then l.enA else l.enB) = true
      · by_cases h2 : l.isUp = true
        · by_cases h3 : admits l.load s l.bw = true
          · simp only [h1, h2, h3, Bool.not_true, Bool.false_eq_true, if_false]
            have hfit : l.load + s ≤ l.bw := by simpa [admits] using h3
            rw [carriedUnder_append]
            have hload := loadOf_set n k0 k l { l with load := l.load + s } hk
            by_cases hkk : k = k0
            · subst hkk
              have hL : loadOf n k = l.load := loadOf_eq n k l hk
              simp only [if_true] at hload
              by_cases hlow : l.bw ≤ C
              · have ih := runEvs_wunder { n with links := n.links.set k { l with load := l.load + s } } nested k C (A + s)
                  (by rw [hload]; omega) (by omega)
                simp [carriedUnder, Rec.carriedUnder, hlow]; omega
              · have ih := runEvs_wunder { n with links := n.links.set k { l with load := l.load + s } } nested k C A
                  (by rw [hload]; omega) hC
                simp [carriedUnder, Rec.carriedUnder, hlow]; omega
            · simp only [hkk, if_false] at hload
              have ih := runEvs_wunder { n with links := n.links.set k0 { l with load := l.load + s } } nested k C A
                (by rw [hload]; exact hA) hC
              have : ¬ k0 = k := fun e => hkk e.symm
              simp [carriedUnder, Rec.carriedUnder, this]; omega
          · simpa [h1, h2, h3, carriedUnder, Rec.carriedUnder] using hC
        · simpa [h1, h2, carriedUnder, Rec.carriedUnder] using hC
      · simpa [h1, carriedUnder, Rec.carriedUnder] using hC
  | wlost c0 i s nested =>
    unfold runEv
    cases hc : n.chans[c0]? with
    | none => simpa [carriedUnder, Rec.carriedUnder] using hC
    | some ch =>
      simp only
      cases hi : ch.en[i]? with
      | none => simpa [carriedUnder, Rec.carriedUnder] using hC
      | some enS =>
        simp only
        cases hcI : ch.caps[i]? with
        | none => simpa [carriedUnder, Rec.carriedUnder] using hC
        | some capI =>
        simp only
        cases enS with
        | false => simpa [carriedUnder, Rec.carriedUnder] using hC
        | true =>
          by_cases h3 : admits ch.load s capI = true
          · simp only [h3, Bool.not_true, Bool.false_eq_true, if_false]
            have ih := runEvs_wunder { n with chans := n.chans.set c0 { ch with load := ch.load + s } } nested k C A
              (by simpa [loadOf] using hA) hC
            rw [carriedUnder_append]
            simpa [carriedUnder, Rec.carriedUnder] using ih
          · simpa [h3, carriedUnder, Rec.carriedUnder] using hC
  | wrecv c0 i j =>
    unfold runEv
    cases hc : n.chans[c0]? with
    | none => simpa [carriedUnder, Rec.carriedUnder] using hC
    | some ch => simpa [carriedUnder, Rec.carriedUnder] using hC

theorem runEvs_wunder (n : Net) (es : List Ev) (k C A : Nat) (hA : A ≤ loadOf n k) (hC : A ≤ C) :
    A + carriedUnder k C (runEvs n es).2 ≤ C := by
  cases es with
  | nil => simpa [runEvs, carriedUnder] using hC
  | cons e es =>
    unfold runEvs
    have h1 := runEv_wunder n e k C A hA hC
    have hacc := runEv_accounts n e k
    have hle := carriedUnder_le_carriedOn k C (runEv n e).2
    have h2 := runEvs_wunder (runEv n e).1 es k C (A + carriedUnder k C (runEv n e).2) (by omega) h1
    simp only
    rw [carriedUnder_append]
    omega
end

/-! ### Every tick of every history

`runSeg` runs a history and cuts the trace at the tick boundaries: one list of records per tick (the first list is what happened
before the first `tick` of the history). -/

def runSeg (n : Net) (cur : List Rec) : List Op → Net × List (List Rec)
  | [] => (n, [cur])
  | .tick :: os => let r := runSeg (tick n) [] os; (r.1, cur :: r.2)
  | .act evs :: os => let r := runEvs n evs; runSeg r.1 (cur ++ r.2) os
  | .setBw k v :: os => runSeg (setBw n k v) cur os
  | .setCap c i v :: os => runSeg (setCap n c i v) cur os

/-- `runSeg` is `run` with the trace cut into ticks: same final state, same records in the same order. -/
theorem runSeg_eq_run (n : Net) (cur : List Rec) (ops : List Op) :
    (runSeg n cur ops).1 = (run n ops).1 ∧ (runSeg n cur ops).2.flatten = cur ++ (run n ops).2 := by
  induction ops generalizing n cur with
  | nil => simp [runSeg, run]
  | cons o os ih =>
    cases o with
    | tick =>
      obtain ⟨h1, h2⟩ := ih (tick n) []
      simp only [runSeg, run, step, List.flatten_cons, List.nil_append]
      exact ⟨h1, by rw [h2]; simp⟩
    | act evs =>
      obtain ⟨h1, h2⟩ := ih (runEvs n evs).1 (cur ++ (runEvs n evs).2)
      simp only [runSeg, run, step]
      exact ⟨h1, by rw [h2]; simp⟩
    | setBw k v =>
      obtain ⟨h1, h2⟩ := ih (setBw n k v) cur
      simp only [runSeg, run, step]
      exact ⟨h1, by rw [h2]; simp⟩
    | setCap c i v =>
      obtain ⟨h1, h2⟩ := ih (setCap n c i v) cur
      simp only [runSeg, run, step]
      exact ⟨h1, by rw [h2]; simp⟩

theorem loadOf_setBw (n : Net) (k v k' : Nat) : loadOf (setBw n k v) k' = loadOf n k' := by
  unfold setBw
  cases hk : n.links[k]? with
  | none => rfl
  | some l =>
    simp only
    rw [loadOf_set n k k' l _ hk]
    by_cases h : k' = k
    · subst h; simp [loadOf_eq n k' l hk]
    · simp [h]

theorem cloadOf_setBw (n : Net) (k v c : Nat) : cloadOf (setBw n k v) c = cloadOf n c := by
  unfold setBw
  cases n.links[k]? <;> rfl

theorem cloadOf_setCap (n : Net) (c i v c' : Nat) : cloadOf (setCap n c i v) c' = cloadOf n c' := by
  unfold setCap
  cases hc : n.chans[c]? with
  | none => rfl
  | some ch =>
    simp only
    rw [cloadOf_set n c c' ch _ hc]
    by_cases h : c' = c
    · subst h; simp [cloadOf_eq n c' ch hc]
    · simp [h]

theorem loadOf_setCap (n : Net) (c i v k : Nat) : loadOf (setCap n c i v) k = loadOf n k := by
  unfold setCap
  cases n.chans[c]? <;> rfl

/-- What a tick's trace `cur` and the state `n` it has led to have in common **whatever happens** (capacity changes, aborted
deliveries): on every link / channel the data carried so far in the tick is covered by the load, and for every bound `C` the
data admitted against capacities of at most `C` is covered by the load and within `C`. -/
def SegOkG (n : Net) (cur : List Rec) : Prop :=
  (∀ k, carriedOn false k cur ≤ loadOf n k) ∧ (∀ c, carriedOn true c cur ≤ cloadOf n c) ∧
  (∀ c C, sentUnder c C cur ≤ cloadOf n c ∧ sentUnder c C cur ≤ C) ∧
  (∀ k C, carriedUnder k C cur ≤ loadOf n k ∧ carriedUnder k C cur ≤ C)

/-- The same plus: the state is within capacity (needs: no capacity was lowered below a load). -/
def SegOk (n : Net) (cur : List Rec) : Prop := Inv n ∧ SegOkG n cur

theorem segOkG_tick (n : Net) : SegOkG (tick n) [] :=
  ⟨fun _ => Nat.zero_le _, fun _ => Nat.zero_le _, fun _ _ => ⟨Nat.zero_le _, Nat.zero_le _⟩,
   fun _ _ => ⟨Nat.zero_le _, Nat.zero_le _⟩⟩

theorem segOk_tick (n : Net) : SegOk (tick n) [] := ⟨tick_inv n, segOkG_tick n⟩

theorem segOkG_act (n : Net) (cur : List Rec) (evs : List Ev) (h : SegOkG n cur) :
    SegOkG (runEvs n evs).1 (cur ++ (runEvs n evs).2) := by
  obtain ⟨hw, ha, hu, hk⟩ := h
  refine ⟨?_, ?_, ?_, ?_⟩
  · intro k
    rw [carriedOn_append, runEvs_accounts n evs k]
    have := hw k; omega
  · intro c
    rw [carriedOn_append, runEvs_air_accounts n evs c]
    have := ha c; omega
  · intro c C
    rw [sentUnder_append, runEvs_air_accounts n evs c]
    have h1 := runEvs_under n evs c C (sentUnder c C cur) (hu c C).1 (hu c C).2
    have h2 := sentUnder_le_carriedOn c C (runEvs n evs).2
    have := (hu c C).1
    exact ⟨by omega, h1⟩
  · intro k C
    rw [carriedUnder_append, runEvs_accounts n evs k]
    have h1 := runEvs_wunder n evs k C (carriedUnder k C cur) (hk k C).1 (hk k C).2
    have h2 := carriedUnder_le_carriedOn k C (runEvs n evs).2
    have := (hk k C).1
    exact ⟨by omega, h1⟩

theorem segOk_act (n : Net) (cur : List Rec) (evs : List Ev) (h : SegOk n cur) :
    SegOk (runEvs n evs).1 (cur ++ (runEvs n evs).2) :=
  ⟨(runEvs_ok n evs h.1).1, segOkG_act n cur evs h.2⟩

theorem segOkG_setBw (n : Net) (cur : List Rec) (k v : Nat) (h : SegOkG n cur) : SegOkG (setBw n k v) cur := by
  obtain ⟨hw, ha, hu, hk⟩ := h
  refine ⟨?_, ?_, ?_, ?_⟩
  · intro k'; rw [loadOf_setBw]; exact hw k'
  · intro c; rw [cloadOf_setBw]; exact ha c
  · intro c C; rw [cloadOf_setBw]; exact hu c C
  · intro k' C; rw [loadOf_setBw]; exact hk k' C

theorem segOkG_setCap (n : Net) (cur : List Rec) (c i v : Nat) (h : SegOkG n cur) : SegOkG (setCap n c i v) cur := by
  obtain ⟨hw, ha, hu, hk⟩ := h
  refine ⟨?_, ?_, ?_, ?_⟩
  · intro k'; rw [loadOf_setCap]; exact hw k'
  · intro c'; rw [cloadOf_setCap]; exact ha c'
  · intro c' C; rw [cloadOf_setCap]; exact hu c' C
  · intro k' C; rw [loadOf_setCap]; exact hk k' C

/-- Every tick's trace of **any** history is covered by some state that satisfies `SegOkG` with it. -/
theorem runSeg_okG (n : Net) (cur : List Rec) (ops : List Op) (h : SegOkG n cur) :
    ∀ g ∈ (runSeg n cur ops).2, ∃ n', SegOkG n' g := by
  induction ops generalizing n cur with
  | nil =>
    intro g hg
    simp only [runSeg, List.mem_singleton] at hg
    subst hg
    exact ⟨n, h⟩
  | cons o os ih =>
    cases o with
    | tick =>
      intro g hg
      simp only [runSeg, List.mem_cons] at hg
      rcases hg with hg | hg
      · subst hg; exact ⟨n, h⟩
      · exact ih (tick n) [] (segOkG_tick n) g hg
    | act evs =>
      intro g hg
      simp only [runSeg] at hg
      exact ih (runEvs n evs).1 (cur ++ (runEvs n evs).2) (segOkG_act n cur evs h) g hg
    | setBw k v =>
      intro g hg
      simp only [runSeg] at hg
      exact ih (setBw n k v) cur (segOkG_setBw n cur k v h) g hg
    | setCap c i v =>
      intro g hg
      simp only [runSeg] at hg
      exact ih (setCap n c i v) cur (segOkG_setCap n cur c i v h) g hg

/-- **Every tick of every episode, whatever happens** — sends nested in deliveries, interfaces toggled anywhere, deliveries cut
short by exceptions, **bandwidths and frequency capacities reassigned between actions** (raised or lowered, in mid-tick or not).
In each tick, for every wired link and every bound `C`: the data carried over the link by frames that were admitted against a
bandwidth of at most `C` is at most `C`; the same for every wireless channel and the capacities of the senders' frequency names.
So a link carries, in a tick, no more than the largest bandwidth it had while it was admitting, and the interfaces of one
frequency name send no more than the largest capacity that name had. -/
theorem C18_admitted_under_every_tick (n : Net) (ops : List Op) :
    ∀ g ∈ (runSeg (tick n) [] ops).2, (∀ k C, carriedUnder k C g ≤ C) ∧ (∀ c C, sentUnder c C g ≤ C) := by
  intro g hg
  obtain ⟨n', _, _, hu, hk⟩ := runSeg_okG (tick n) [] ops (segOkG_tick n) g hg
  exact ⟨fun k C => (hk k C).2, fun c C => (hu c C).2⟩

theorem carriedUnder_eq_carriedOn (k C : Nat) (g : List Rec)
    (h : ∀ r ∈ g, r.wireless = false → r.k = k → r.capS ≤ C) : carriedUnder k C g = carriedOn false k g := by
  induction g with
  | nil => rfl
  | cons r rs ih =>
    have ih' := ih (fun r' hr' => h r' (List.mem_cons_of_mem _ hr'))
    have hr := h r (List.mem_cons_self ..)
    simp only [carriedUnder, carriedOn, ih', Rec.carriedUnder, Rec.carriedBy]
    by_cases hc : r.wireless = false ∧ r.k = k ∧ r.verdict.loaded = true
    · have : r.wireless = false ∧ r.k = k ∧ r.verdict.loaded = true ∧ r.capS ≤ C := ⟨hc.1, hc.2.1, hc.2.2, hr hc.1 hc.2.1⟩
      rw [if_pos hc, if_pos this]
    · have : ¬ (r.wireless = false ∧ r.k = k ∧ r.verdict.loaded = true ∧ r.capS ≤ C) := fun x => hc ⟨x.1, x.2.1, x.2.2.1⟩
      rw [if_neg hc, if_neg this]

/-- **Carried ≤ the largest bandwidth in force.** In each tick of any history: if every send on link `k` in that tick was tested
against a bandwidth of at most `B` (in particular: `B` = the bandwidth, when nobody reassigns it), the data carried over `k` in
that tick is at most `B`. -/
theorem C18_carried_le_peak_bandwidth (n : Net) (ops : List Op) :
    ∀ g ∈ (runSeg (tick n) [] ops).2, ∀ k B, (∀ r ∈ g, r.wireless = false → r.k = k → r.capS ≤ B) →
      carriedOn false k g ≤ B := by
  intro g hg k B hB
  rw [← carriedUnder_eq_carriedOn k B g hB]
  exact ((C18_admitted_under_every_tick n ops g hg).1 k B)

/-- bandwidth 10 lowered to 5 after 8 were carried, raised to 12 later in the same tick: frames admitted against ≤ 10 sum to 8,
against ≤ 12 to 11 (8 + 3), against ≤ 5 to 0; the second tick starts from zero against the bandwidth 12 -/
example :
    let n : Net := { links := [{ bw := 10, load := 0, enA := true, enB := true }], chans := [] }
    let r := runSeg (tick n) [] [.act [.send 0 true 8 true []], .setBw 0 5, .act [.send 0 true 1 true []], .setBw 0 12,
                                 .act [.send 0 true 3 true [], .send 0 true 2 true []], .tick, .act [.send 0 true 12 true []]]
    r.2.map (fun g => (carriedUnder 0 5 g, carriedUnder 0 10 g, carriedUnder 0 12 g, carriedOn false 0 g)) =
      [(0, 8, 11, 11), (0, 0, 12, 12)] ∧
    r.2.map (·.map (·.verdict)) = [[.carried, .full, .carried, .full], [.carried]] := by decide

theorem runSeg_bw (n : Net) (cur : List Rec) (ops : List Op) (hn : NoCap ops) (k : Nat) :
    bwOf (runSeg n cur ops).1 k = bwOf n k ∧ capOf (runSeg n cur ops).1 k = capOf n k := by
  induction ops generalizing n cur with
  | nil => exact ⟨rfl, rfl⟩
  | cons o os ih =>
    have ho : o.isCap = false := hn o (List.mem_cons_self ..)
    have hos : NoCap os := fun o' h' => hn o' (List.mem_cons_of_mem _ h')
    cases o with
    | tick =>
      have := ih (tick n) [] hos
      simp only [runSeg]
      exact ⟨this.1.trans (bwOf_tick n k).1, this.2.trans (bwOf_tick n k).2⟩
    | act evs =>
      have := ih (runEvs n evs).1 (cur ++ (runEvs n evs).2) hos
      simp only [runSeg]
      exact ⟨this.1.trans (runEvs_bw n evs k).1, this.2.trans (runEvs_bw n evs k).2⟩
    | setBw k' v => simp [Op.isCap] at ho
    | setCap c i v => simp [Op.isCap] at ho

/-- Every tick's trace of a history without capacity changes is covered by some state of the same capacities that satisfies
`SegOk` with it. -/
theorem runSeg_ok (n : Net) (cur : List Rec) (ops : List Op) (hn : NoCap ops) (h : SegOk n cur) :
    ∀ g ∈ (runSeg n cur ops).2, ∃ n', SegOk n' g ∧ ∀ k, bwOf n' k = bwOf n k ∧ capOf n' k = capOf n k := by
  induction ops generalizing n cur with
  | nil =>
    intro g hg
    simp only [runSeg, List.mem_singleton] at hg
    subst hg
    exact ⟨n, h, fun _ => ⟨rfl, rfl⟩⟩
  | cons o os ih =>
    have ho : o.isCap = false := hn o (List.mem_cons_self ..)
    have hos : NoCap os := fun o' h' => hn o' (List.mem_cons_of_mem _ h')
    cases o with
    | tick =>
      intro g hg
      simp only [runSeg, List.mem_cons] at hg
      rcases hg with hg | hg
      · subst hg; exact ⟨n, h, fun _ => ⟨rfl, rfl⟩⟩
      · obtain ⟨n', h1, h2⟩ := ih (tick n) [] hos (segOk_tick n) g hg
        exact ⟨n', h1, fun k => ⟨(h2 k).1.trans (bwOf_tick n k).1, (h2 k).2.trans (bwOf_tick n k).2⟩⟩
    | act evs =>
      intro g hg
      simp only [runSeg] at hg
      obtain ⟨n', h1, h2⟩ := ih (runEvs n evs).1 (cur ++ (runEvs n evs).2) hos (segOk_act n cur evs h) g hg
      exact ⟨n', h1, fun k => ⟨(h2 k).1.trans (runEvs_bw n evs k).1, (h2 k).2.trans (runEvs_bw n evs k).2⟩⟩
    | setBw k' v => simp [Op.isCap] at ho
    | setCap c i v => simp [Op.isCap] at ho

/-- **Every tick of every episode** (constant capacities). Start anywhere (any network, any loads), pass a tick boundary, then run
any history of ticks and actions — nested sends, interface toggles, deliveries cut short by exceptions: in *each* tick of that
history, for every wired link the data carried in that tick is within the link's bandwidth, for every wireless channel the data
sent in that tick is within the channel's (largest) capacity, and for every bound `C` the data sent by interfaces whose frequency
name has capacity at most `C` is within `C`.  (Histories that reassign capacities: `C18_admitted_under_every_tick`.) -/
theorem C18_carried_le_bandwidth_every_tick (n : Net) (ops : List Op) (hn : NoCap ops) :
    ∀ g ∈ (runSeg (tick n) [] ops).2,
      (∀ k, carriedOn false k g ≤ bwOf n k) ∧ (∀ c, carriedOn true c g ≤ capOf n c) ∧ (∀ c C, sentUnder c C g ≤ C) := by
  intro g hg
  obtain ⟨n', ⟨hi, hw, ha, hu, _⟩, hb⟩ := runSeg_ok (tick n) [] ops hn (segOk_tick n) g hg
  refine ⟨?_, ?_, fun c C => (hu c C).2⟩
  · intro k
    have h1 := hw k
    have h2 := inv_loadOf hi k
    rw [(hb k).1, (bwOf_tick n k).1] at h2
    omega
  · intro c
    have h1 := ha c
    have h2 := inv_cloadOf hi c
    rw [(hb c).2, (bwOf_tick n c).2] at h2
    omega

/-- three ticks on a link of 10: 8 carried / second 8 refused; 8 carried after a flap; nothing (far interface left disabled) -/
example :
    let n : Net := { links := [{ bw := 10, load := 7, enA := true, enB := true }], chans := [] }
    let r := runSeg (tick n) [] [.act [.send 0 true 8 true []], .act [.send 0 false 8 true []], .tick,
      .act [.setEn 0 true false, .setEn 0 true true, .send 0 true 8 true [.setEn 0 false false]], .tick, .act [.send 0 true 1 true []]]
    r.2.map (carriedOn false 0) = [8, 8, 0] ∧ r.2.map (·.map (·.verdict)) = [[.carried, .full], [.carried], [.down]] := by
  decide

/-! ### Loads start every tick at zero — for every history, whatever is down at the boundary -/

theorem run_append_fst (n : Net) (a b : List Op) : (run n (a ++ b)).1 = (run (run n a).1 b).1 := by
  induction a generalizing n with
  | nil => rfl
  | cons o os ih => simp only [List.cons_append, run]; exact ih _

/-- **Every tick starts at zero.** Take any network in any state, run any history (nested sends, interfaces toggled, deliveries cut
short, interfaces added to / removed from the airspace, capacities reassigned), then pass a tick boundary: every wired link and
every wireless channel has load 0 — whether the link is up or down, whether its interfaces are enabled, whether anybody is left on
the frequency — and nothing else has changed (bandwidths, capacities, enabled flags, membership). -/
theorem C18_every_tick_starts_at_zero (n : Net) (ops : List Op) :
    (∀ l ∈ (run n (ops ++ [.tick])).1.links, l.load = 0) ∧ (∀ c ∈ (run n (ops ++ [.tick])).1.chans, c.load = 0) ∧
    (∀ k, loadOf (run n (ops ++ [.tick])).1 k = 0 ∧ cloadOf (run n (ops ++ [.tick])).1 k = 0) ∧
    (run n (ops ++ [.tick])).1.links.map (fun l => (l.bw, l.enA, l.enB)) = (run n ops).1.links.map (fun l => (l.bw, l.enA, l.enB)) ∧
    (run n (ops ++ [.tick])).1.chans.map (fun c => (c.caps, c.en, c.mem)) = (run n ops).1.chans.map (fun c => (c.caps, c.en, c.mem)) := by
  have h : (run n (ops ++ [.tick])).1 = tick (run n ops).1 := by
    rw [run_append_fst]; rfl
  rw [h]
  obtain ⟨h1, h2, h3, h4⟩ := C18_tick_starts_zero (run n ops).1
  exact ⟨h1, h2, fun k => ⟨loadOf_tick _ k, cloadOf_tick _ k⟩, h3, h4⟩

/-- In particular a link that is down at the boundary, and a channel whose every interface is disabled and gone. -/
theorem C18_down_link_starts_at_zero (n : Net) (k : Nat) (l : Link) (_hl : n.links[k]? = some l) (_hdown : l.isUp = false) :
    loadOf (tick n) k = 0 := loadOf_tick n k

/-- a link that carried 8 and then lost an end, a channel that carried 6 and was then emptied: both read 0 after the boundary, and
the link, re-enabled in the new tick, has its whole bandwidth again -/
example :
    let n : Net := { links := [{ bw := 10, load := 0, enA := true, enB := true }],
                     chans := [{ caps := [10], load := 0, en := [true] }] }
    let r := run n [.act [.send 0 true 8 true [], .setEn 0 false false, .wsend 0 0 6 [], .wsetEn 0 0 false, .wleave 0 0], .tick,
                    .act [.setEn 0 false true, .send 0 true 9 true []]]
    (run n [.act [.send 0 true 8 true [], .setEn 0 false false, .wsend 0 0 6 [], .wsetEn 0 0 false, .wleave 0 0], .tick]).1 =
      { links := [{ bw := 10, load := 0, enA := true, enB := false }],
        chans := [{ caps := [10], load := 0, en := [false], mem := [false] }] } ∧
    r.2.map (·.verdict) = [.carried, .carried, .carried] := by decide

/-- What the property excludes, as checked statements (seeded change C18-e; never in the repository): a boundary that resets only
the links that are up. -/
def tickUpOnly (n : Net) : Net :=
  { links := n.links.map (fun l => if l.isUp then { l with load := 0 } else l),
    chans := n.chans.map (fun c => { c with load := 0 }) }

def C18_Full_upOnly_starts_zero : Prop := ∀ (n : Net), ∀ l ∈ (tickUpOnly n).links, l.load = 0

/-- a link that went down after carrying 8 still reads 8 after such a boundary, and when it comes back in the new tick a frame of
5 that fits its bandwidth of 10 is dropped at the sender -/
theorem C18_reset_only_up_links_counterexample :
    ¬ C18_Full_upOnly_starts_zero ∧
    ((runEvs (tickUpOnly { links := [{ bw := 10, load := 8, enA := true, enB := false }], chans := [] })
        [.setEn 0 false true, .send 0 true 5 true []]).2.map (·.verdict) = [.full]) ∧
    ((runEvs (tick { links := [{ bw := 10, load := 8, enA := true, enB := false }], chans := [] })
        [.setEn 0 false true, .send 0 true 5 true []]).2.map (·.verdict) = [.carried]) := by
  refine ⟨?_, by decide, by decide⟩
  intro h
  have := h { links := [{ bw := 10, load := 8, enA := true, enB := false }], chans := [] }
    { bw := 10, load := 8, enA := true, enB := false } (by decide)
  revert this
  decide

/-! ### What was wrong before the repair of F-40, kept as a checked statement (one link, no nesting) -/

/-- One link as `Link.endpoint_down` used to treat it: `some s` = a send of size `s` that the far interface takes, `none` = one
end interface is disabled and enabled again (the disable cleared `current_load`). Returns the load and the data carried. -/
def flapAW (bw : Nat) : Nat × Nat → List (Option Nat) → Nat × Nat
  | st, [] => st
  | (load, carried), some s :: es => if load + s ≤ bw then flapAW bw (load + s, carried + s) es else flapAW bw (load, carried) es
  | (_, carried), none :: es => flapAW bw (0, carried) es

/-- Before the repair: send 8, disable, enable, send 8 on a link of 10 carried 16 in one tick. -/
theorem C18_asWritten_disable_counterexample : (flapAW 10 (0, 0) [some 8, none, some 8]).2 = 16 := by decide

/-- What the property excludes, as a checked statement (seeded change C18-d; never in the repository): an airspace that forgets
a frequency's load when its last interface leaves (`none` = the frequency is emptied and repopulated) transmits 16 on a channel
of 10 in one tick while its own counter never reads above 8. `flapAW` is that accounting (it is the one `Link.endpoint_down` had). -/
theorem C18_air_forget_on_empty_counterexample :
    (flapAW 10 (0, 0) [some 8, none, some 8]).2 = 16 ∧ (flapAW 10 (0, 0) [some 8, none, some 8]).1 = 8 := by decide


/-! ### The release of the reservation is safe even if a refusal came after nested sends

In the code a refusing interface never involves its node (Gen: `rejectedMeansNodeNotInvolved`), so nothing is nested under a
refused frame and the release is `load + s - s`.  The next theorem shows the repaired `transmit_frame` does not depend on that:
on one link, with sends nested under accepted *and* refused frames alike, the load never decreases across a send, so
subtracting the reservation can neither underflow nor break the bound. -/

mutual
/-- `send_frame` + repaired `transmit_frame` on one link, nested sends executed whatever the far interface answers. -/
def sendRB (l : Link1) : Tx → Link1
  | .mk s _ acc nested =>
    if l.load + s ≤ l.bw then
      let l2 := sendRBs { l with load := l.load + s } nested
      if acc then l2 else { l2 with load := l2.load - s }
    else l
def sendRBs (l : Link1) : List Tx → Link1
  | [] => l
  | t :: ts => sendRBs (sendRB l t) ts
end

mutual
theorem sendRB_inv (l : Link1) (t : Tx) (h : l.load ≤ l.bw) :
    (sendRB l t).bw = l.bw ∧ l.load ≤ (sendRB l t).load ∧ (sendRB l t).load ≤ l.bw := by
  cases t with
  | mk s sa acc nested =>
    unfold sendRB
    by_cases hc : l.load + s ≤ l.bw
    · simp only [hc, if_true]
      obtain ⟨hb, hlo, hhi⟩ := sendRBs_inv { l with load := l.load + s } nested (by simpa using hc)
      cases acc with
      | true => simp at *; exact ⟨hb, by omega, hhi⟩
      | false => simp at *; exact ⟨hb, by omega, by omega⟩
    · simp [hc]; exact h
theorem sendRBs_inv (l : Link1) (ts : List Tx) (h : l.load ≤ l.bw) :
    (sendRBs l ts).bw = l.bw ∧ l.load ≤ (sendRBs l ts).load ∧ (sendRBs l ts).load ≤ l.bw := by
  cases ts with
  | nil => simp [sendRBs]; exact h
  | cons t ts =>
    unfold sendRBs
    obtain ⟨hb, hlo, hhi⟩ := sendRB_inv l t h
    obtain ⟨hb', hlo', hhi'⟩ := sendRBs_inv (sendRB l t) ts (by omega)
    exact ⟨by omega, by omega, by omega⟩
end

/-- **Reserve / deliver / release keeps the bound for arbitrary nesting, also under refused frames.** -/
theorem C18_release_safe_under_nesting (l : Link1) (ts : List Tx) (h : l.load ≤ l.bw) :
    (sendRBs l ts).load ≤ (sendRBs l ts).bw ∧ l.load ≤ (sendRBs l ts).load := by
  obtain ⟨hb, hlo, hhi⟩ := sendRBs_inv l ts h
  exact ⟨by omega, hlo⟩

/-- a refused frame (6) under which a reply (3) was nevertheless sent: 2 + 6 + 3 − 6 = 5 -/
example : (sendRBs { bw := 12, load := 2 } [.mk 6 6 false [.mk 3 3 true []]]).load = 5 := by decide


/-! ### What was wrong before the fixes (F-28), kept as checked statements -/

/-- Before the fix the load was added after the nested sends: request 6 + reply 6 on a link of 10 ended at 12. -/
theorem C18_asWritten_nesting_counterexample :
    (sendAW { bw := 10, load := 0 } (.mk 6 6 true [.mk 6 6 true []])).load = 12 := by decide

/-- Before the fix the admitted size (unstamped) was smaller than the accounted size (stamped): one frame alone, admitted
as 9, accounted as 11 on a link of 10. -/
theorem C18_asWritten_stamp_counterexample :
    (sendAW { bw := 10, load := 0 } (.mk 9 11 true [])).load = 11 := by decide

/-- The property as a statement about the unrepaired accounting; false (two witnesses above). -/
def C18_Full_asWritten : Prop := ∀ (l : Link1) (t : Tx), l.load ≤ l.bw → (sendAW l t).load ≤ l.bw

theorem C18_asWritten_counterexample : ¬ C18_Full_asWritten := by
  intro h
  have := h { bw := 10, load := 0 } (.mk 6 6 true [.mk 6 6 true []]) (by decide)
  revert this
  decide

/-- The part that did hold before the fix: a send with nothing nested whose two sizes agree. -/
theorem C18_asWritten_no_nesting_partial (l : Link1) (s : Nat) (acc : Bool) (h : l.load ≤ l.bw) :
    (sendAW l (.mk s s acc [])).load ≤ l.bw := by
  unfold sendAW
  by_cases hc : l.load + s ≤ l.bw
  · cases acc <;> simp [hc, sendAWs] <;> omega
  · simp [hc]; exact h

example : ({ bw := 10, load := 3 } : Link1).load ≤ ({ bw := 10, load := 3 } : Link1).bw := by decide

end Primaite.Link
