/-
C08 — who a node sends to: `SessionManager` / `RouterSessionManager` `.resolve_outbound_transmission_details` (unicast branch) and
`.resolve_outbound_network_interface` are TRANSLATED (Gen/ForwardArp.lean: `hostDetails`, `routerDetails`, `baseOut`, `routerOut`,
the two guarded gateway getters of `HostARP`) into small programs over the STATEFUL ARP look-ups; the interpreters below give every
instruction the one model primitive it stands for (`arpMac`, `arpIfc`, `firstEnabledIn`, `findBestRoute`), threading the state in
program order.  `C08_gen_session_resolve_*`: the model's `resolveDetails` / `resolveOut` (what `sendIcmp`, `sendArpReq`, the echo
reply … call, inside the mutual block all run-level theorems are about) compute exactly what the translated programs compute, for
every state, route table, ARP cache, destination and fuel.  A source that asks ARP first (a warm cache short-cutting the on-link test
or the route table), swaps two look-ups, or takes the gateway / next hop from somewhere else yields another program and the theorem
no longer checks; `C08_session_resolve_countermodel` shows such a program choosing another next hop on a concrete router.
-/
import PrimaiteModel.Model.Forward
import PrimaiteModel.Gen.ForwardArp
namespace Primaite.Forward
open Primaite.Route
open Primaite.Gen.ForwardArp (Tgt DProg OProg)
namespace GS
export Primaite.Gen.ForwardArp (hostDetails routerDetails baseOut routerOut gwMacGuard gwIfcGuard)
end GS

/-- the MAC look-up an instruction names (`nd`: the node as it was when the method was entered — interfaces, gateway and routes are
configuration; `nh`: the next hop of the route found by `ifRoute`) -/
def lookMac (fuel n : Nat) (dst : Ip) (nd : Node) (nh : Ip) (st : St) : Tgt → St × Option Mac
  | .dst => arpMac fuel st n dst false false
  | .nextHop => arpMac fuel st n nh false false
  | .gateway =>
    if GS.gwMacGuard nd.gateway.isSome (nd.ifaces.any (·.enabled)) then arpMac fuel st n (nd.gateway.getD 0) false false else (st, none)

/-- the interface look-up an instruction names; the gateway getter re-reads `has_enabled_network_interface` from the current state -/
def lookIfc (fuel n : Nat) (dst : Ip) (nd : Node) (nh : Ip) (st : St) : Tgt → St × Option Nat
  | .dst => arpIfc fuel st n dst false false
  | .nextHop => arpIfc fuel st n nh false false
  | .gateway =>
    match st.node? n with
    | none => (st, none)
    | some nd' =>
      if GS.gwIfcGuard nd.gateway.isSome (nd'.ifaces.any (·.enabled)) then arpIfc fuel st n (nd.gateway.getD 0) false false else (st, none)

/-- interpreter of a translated `resolve_outbound_transmission_details`.  `retNone` (router: no route) and an exception out of
`find_best_route` both end with nothing resolved; the model marks them with the event `raised` (never compared by the rigs: every
caller asks `resolve_outbound_network_interface` first). -/
def runD (fuel n : Nat) (dst : Ip) (nd : Node) : DProg → St → Option Mac → Option Nat → Ip → St × Option Mac × Option Nat
  | .ret, st, m, i, _ => (st, m, i)
  | .retNone, st, _, _, _ => (st.emit (.raised n), none, none)
  | .setMac t k, st, _, i, nh => let r := lookMac fuel n dst nd nh st t; runD fuel n dst nd k r.1 r.2 i nh
  | .setIfc t k, st, m, _, nh => let r := lookIfc fuel n dst nd nh st t; runD fuel n dst nd k r.1 m r.2 nh
  | .ifOnLink a b, st, m, i, nh =>
    if (firstEnabledIn nd.ifaces dst 0).isSome then runD fuel n dst nd a st m i nh else runD fuel n dst nd b st m i nh
  | .ifMac a b, st, m, i, nh => if m.isSome then runD fuel n dst nd a st m i nh else runD fuel n dst nd b st m i nh
  | .ifRoute a b, st, m, i, _ =>
    match findBestRoute nd.routes dst with
    | .raised => (st.emit (.raised n), none, none)
    | r =>
      match r.nextHop? with
      | some nh => runD fuel n dst nd a st m i nh
      | none => runD fuel n dst nd b st m i 0

/-- interpreter of the translated base `resolve_outbound_network_interface` for the argument `t`; `gw`: what
`getattr(node.config, "default_gateway", None)` gives (a router has none), `hostArp`: the node's ARP class overrides
`get_default_gateway_network_interface` (HostARP does, the base class answers None — Gen.Forward.routerResolvesOutboundWithoutArp) -/
def runBase (fuel n : Nat) (nd : Node) (gw : Option Ip) (hostArp : Bool) (t : Ip) : OProg → St → St × Option Nat
  | .localLoop k, st =>
    match firstEnabledIn nd.ifaces t 0 with
    | some i => (st, some i)
    | none => runBase fuel n nd gw hostArp t k st
  | .gwSelfNone k, st => if gw == some t then (st, none) else runBase fuel n nd gw hostArp t k st
  | .retGwIfc, st =>
    if hostArp && GS.gwIfcGuard gw.isSome (nd.ifaces.any (·.enabled)) then arpIfc fuel st n (gw.getD 0) false false else (st, none)
  | _, st => (st, none)

/-- interpreter of the translated `RouterSessionManager.resolve_outbound_network_interface` -/
def runRouterOut (fuel n : Nat) (dst : Ip) (nd : Node) : OProg → St → Option Nat → Ip → St × Option Nat
  | .ret, st, i, _ => (st, i)
  | .callBase .dst k, st, _, nh => let r := runBase fuel n nd none false dst GS.baseOut st; runRouterOut fuel n dst nd k r.1 r.2 nh
  | .callBase .nextHop k, st, _, nh => let r := runBase fuel n nd none false nh GS.baseOut st; runRouterOut fuel n dst nd k r.1 r.2 nh
  | .ifNic a b, st, i, nh => if i.isSome then runRouterOut fuel n dst nd a st i nh else runRouterOut fuel n dst nd b st i nh
  | .ifRoute a b, st, i, _ =>
    match (findBestRoute nd.routes dst).nextHop? with
    | some nh => runRouterOut fuel n dst nd a st i nh
    | none => runRouterOut fuel n dst nd b st i 0
  | _, st, _, _ => (st, none)

/-- **Gen obligation (hosts)**: `resolveDetails` IS the translated `SessionManager.resolve_outbound_transmission_details`: the
destination's own MAC and interface exactly when an ENABLED interface's network holds it and ARP answers; otherwise the default
gateway's — whatever the cache holds for the destination. -/
theorem C08_gen_session_resolve_details_host (fuel : Nat) (st : St) (n : Nat) (nd : Node) (dst : Ip)
    (hn : st.node? n = some nd) (hk : nd.kind = .host) :
    resolveDetails (fuel + 1) st n dst = runD fuel n dst nd GS.hostDetails st none none 0 := by
  rw [resolveDetails]
  simp only [hn, hk, Gen.ForwardArp.hostDetails, runD, lookMac, lookIfc, Gen.ForwardArp.gwMacGuard, Gen.ForwardArp.gwIfcGuard]
  cases hl : firstEnabledIn nd.ifaces dst 0 <;> cases hg : nd.gateway <;>
    simp only [Option.isSome_some, Option.isSome_none, if_true, Bool.false_eq_true, if_false, Option.getD_some, Bool.true_and,
      Bool.false_and] <;> (repeat' split) <;> simp_all [-List.any_eq_true, -List.any_eq_false]

/-- **Gen obligation (routers and firewalls)**: `resolveDetails` IS the translated
`RouterSessionManager.resolve_outbound_transmission_details`: on-link test + ARP for the destination first; otherwise the next hop
of the route `find_best_route` returns (longest prefix, metric, position: Props/C08.lean), MAC look-up before interface look-up;
nothing without a route — for every route table and ARP cache. -/
theorem C08_gen_session_resolve_details_router (fuel : Nat) (st : St) (n : Nat) (nd : Node) (dst : Ip)
    (hn : st.node? n = some nd) (hk : nd.kind = .router) :
    resolveDetails (fuel + 1) st n dst = runD fuel n dst nd GS.routerDetails st none none 0 := by
  rw [resolveDetails]
  simp only [hn, hk, Gen.ForwardArp.routerDetails, runD, lookMac, lookIfc]
  cases hl : firstEnabledIn nd.ifaces dst 0 <;> cases hr : findBestRoute nd.routes dst <;>
    simp only [Option.isSome_some, Option.isSome_none, if_true, Bool.false_eq_true, if_false, Result.nextHop?] <;>
    (repeat' split) <;> simp_all

/-- **Gen obligation**: the host's outbound interface is the translated `SessionManager.resolve_outbound_network_interface`:
first enabled interface whose network holds the destination; None for the gateway itself; else the gateway's interface from ARP. -/
theorem C08_gen_session_resolve_out_host (fuel : Nat) (st : St) (n : Nat) (nd : Node) (dst : Ip)
    (hn : st.node? n = some nd) (hk : nd.kind = .host) :
    resolveOut (fuel + 1) st n dst = runBase fuel n nd nd.gateway true dst GS.baseOut st := by
  rw [resolveOut]
  simp only [hn, hk, Gen.ForwardArp.baseOut, runBase, Gen.ForwardArp.gwIfcGuard]
  cases hl : firstEnabledIn nd.ifaces dst 0 with
  | some i => rfl
  | none =>
    cases hg : nd.gateway with
    | none => simp
    | some g =>
      by_cases h : dst = g
      · subst h; simp
      · have h' : ¬ g = dst := fun e => h e.symm
        cases nd.ifaces.any (·.enabled) <;> simp [h, h']

/-- **Gen obligation**: a router's outbound interface is the translated `RouterSessionManager.resolve_outbound_network_interface`
over the translated base method (no gateway, no ARP): the connected enabled network of the destination, else that of the best
route's next hop, else None — never the ARP cache. -/
theorem C08_gen_session_resolve_out_router (fuel : Nat) (st : St) (n : Nat) (nd : Node) (dst : Ip)
    (hn : st.node? n = some nd) (hk : nd.kind = .router) :
    resolveOut (fuel + 1) st n dst = runRouterOut fuel n dst nd GS.routerOut st none 0 := by
  rw [resolveOut]
  simp only [hn, hk, Gen.ForwardArp.routerOut, Gen.ForwardArp.baseOut, runRouterOut, runBase]
  cases hl : firstEnabledIn nd.ifaces dst 0 with
  | some i => simp
  | none =>
    cases hr : (findBestRoute nd.routes dst).nextHop? with
    | none => simp
    | some nh => cases hh : firstEnabledIn nd.ifaces nh 0 <;> simp [hh]

/-- Gen obligation: `route != default_route` (RouterARP) compares objects that carry a per-object uuid: a table entry spelled like the
default entry is not equal to it, so `bestOf` (static vs default BY ORIGIN) is what the look-ups see. -/
theorem C08_gen_route_entry_identity : Gen.ForwardArp.routeEntryEqualityIsIdentity = true := by decide

/-! ### counter-model: "ask ARP once" is another program and chooses another next hop -/

/-- the program of a `resolve_outbound_transmission_details` that asks ARP for the destination without the on-link test -/
def arpFirstDetails : DProg :=
  .setMac .dst (.ifMac (.setIfc .dst .ret) (.ifRoute (.setMac .nextHop (.setIfc .nextHop .ret)) .retNone))

/-- a router with ports 10.0.0.1/24 and 10.0.1.1/24, a route 192.168.5.0/24 via 10.0.0.2, and a WARM cache that knows 192.168.5.9
through the neighbour 10.0.1.2 on the other port (traffic from there arrived that way: asymmetric routes) -/
def cmRouter : Node :=
  { kind := .router,
    ifaces := [{ mac := 11, ip := 0x0A000001, plen := 24, enabled := true }, { mac := 12, ip := 0x0A000101, plen := 24, enabled := true }],
    routes := { routes := [{ addr := 0xC0A80500, mask := 0xFFFFFF00, nextHop := 0x0A000002, metric := 0 }] },
    arp := [{ ip := 0xC0A80509, mac := 77, ifc := 1 }, { ip := 0x0A000002, mac := 55, ifc := 0 }] }

/-- the translated source sends through port 0 to the route's next hop (MAC 55); the ARP-first program through port 1 to MAC 77 -/
theorem C08_session_resolve_countermodel :
    GS.routerDetails ≠ arpFirstDetails ∧
    (resolveDetails 5 { nodes := [cmRouter] } 0 0xC0A80509).2 = (some 55, some 0) ∧
    (runD 4 0 0xC0A80509 cmRouter GS.routerDetails { nodes := [cmRouter] } none none 0).2 = (some 55, some 0) ∧
    (runD 4 0 0xC0A80509 cmRouter arpFirstDetails { nodes := [cmRouter] } none none 0).2 = (some 77, some 1) := by
  refine ⟨by decide, by decide +kernel, by decide +kernel, by decide +kernel⟩

end Primaite.Forward
