/-
Property C15, sixth part: a file sits in ONE folder.  Cross-folder disjointness of file uuids (`XDisj`, Lemmas/
FileSystemDisjoint.lean) is preserved by every request, tick, API call and node-level event, so together with `Inv` it holds in
every reachable state — and with it the side condition of `move_file` (`MoveFresh`, the one hypothesis the API-layer theorems
of addendum 1 carried) holds by itself.  The invariant theorems below are therefore UNCONDITIONAL: requests, ticks, API calls
(`move_file` included) and power changes in any interleaving.
-/
import PrimaiteModel.Lemmas.FileSystemDisjoint
import PrimaiteModel.Props.C15Actions
namespace Primaite.FileSystem

/-- The structural invariant together with "no file uuid in two folders". -/
def Inv2 (s : State) : Prop := Inv s ∧ XDisj s

theorem C15_inv2_init (d : Option Int) : Inv2 (init d) := ⟨C15_inv_init d, xdisj_init d⟩

/-- In a state satisfying `Inv2` the side condition of every operation holds. -/
theorem C15_ok_of_inv2 {s : State} (h : Inv2 s) (op : AnyOp) : AnyOp.ok s op := by
  cases op with
  | req op => trivial
  | api op =>
    cases op with
    | moveFile F x G => exact moveFresh_of_xdisj h.1 h.2 F x G
    | _ => trivial

/-- Every request and both halves of a tick keep `Inv2`. -/
theorem C15_inv2_step {s : State} (h : Inv2 s) (op : Op) : Inv2 (step s op).1 :=
  ⟨C15_inv_step h.1 op, xdisj_step h.1 h.2 op⟩

/-- **Every API operation keeps `Inv2` — `move_file` included, with no side condition.** -/
theorem C15_inv2_api_step {s : State} (h : Inv2 s) (op : ApiOp) : Inv2 (stepApi s op).1 :=
  ⟨C15_api_inv_step_partial h.1 op (C15_ok_of_inv2 h (.api op)), xdisj_stepApi h.1 h.2 op⟩

theorem C15_inv2_any_step {s : State} (h : Inv2 s) (op : AnyOp) : Inv2 (stepAny s op).1 := by
  cases op with
  | req op => exact C15_inv2_step h op
  | api op => exact C15_inv2_api_step h op

/-- Requests, ticks and API calls in ANY interleaving keep `Inv2`. -/
theorem C15_inv2_any_run {s : State} (h : Inv2 s) (ops : List AnyOp) : Inv2 (runAny s ops).1 := by
  induction ops generalizing s with
  | nil => exact h
  | cons op ops ih => exact ih (C15_inv2_any_step h op)

/-- **`Inv` (and one-folder-per-file) in every state reachable from a fresh file system by requests, ticks and API calls in
any interleaving — unconditionally** (the full-strength form of `C15_any_inv_reachable`). -/
theorem C15_any_inv_reachable_full (d : Option Int) (ops : List AnyOp) :
    Inv (runAny (init d) ops).1 ∧ XDisj (runAny (init d) ops).1 :=
  C15_inv2_any_run (C15_inv2_init d) ops

/-- … hence the side conditions `runOk` demanded hold along every run from a fresh file system. -/
theorem C15_runOk_of_reachable {s : State} (h : Inv2 s) (ops : List AnyOp) : runOk s ops := by
  induction ops generalizing s with
  | nil => trivial
  | cons op ops ih => exact ⟨C15_ok_of_inv2 h op, ih (C15_inv2_any_step h op)⟩

/-- **A file sits in one folder**: in every reachable state two different folders (live or deleted) share no file uuid
(live or deleted). The rig's clause `file-in-two-folders`, as a theorem. -/
theorem C15_file_in_one_folder (d : Option Int) (ops : List AnyOp) {g1 g2 : Folder} {f1 f2 : File}
    (hg1 : g1 ∈ (runAny (init d) ops).1.folders ∨ g1 ∈ (runAny (init d) ops).1.deletedFolders)
    (hg2 : g2 ∈ (runAny (init d) ops).1.folders ∨ g2 ∈ (runAny (init d) ops).1.deletedFolders)
    (hf1 : f1 ∈ g1.files ∨ f1 ∈ g1.deletedFiles) (hf2 : f2 ∈ g2.files ∨ f2 ∈ g2.deletedFiles) (he : f1.id = f2.id) :
    g1.id = g2.id :=
  Classical.byContradiction fun hne => (C15_any_inv_reachable_full d ops).2 g1 g2 hg1 hg2 hne f1 f2 hf1 hf2 he

/-- Non-vacuity: a run with a real move between folders, a move within a folder and a copy; two folders hold files and share
no uuid. -/
example :
    let s := (runAny (init none) [.req (.createFile "fa" "a" false), .req (.createFile "fb" "b" false), .api (.moveFile "fa" "a" "fb"),
      .api (.moveFile "fb" "a" "fb"), .api (.copyFile "fb" "a" "fa"), .req (.deleteFile "fb" "b")]).1
    (s.folders.map fun g => (g.name, g.files.map File.id, g.deletedFiles.map File.id)) =
      [("root", [], []), ("fa", [5], []), ("fb", [2], [4])] := by
  decide

/-! ### node level -/

/-- Every node-level event keeps `Inv2`, in every power state, with no side condition. -/
theorem C15_node_inv2_step {n : NState} (h : Inv2 n.x.s) (op : NOp) : Inv2 (nstep n op).1.x.s := by
  cases op with
  | power b => exact h
  | osScan => simp only [nstep, nstepWith]; split <;> exact h
  | preTimestep => exact C15_inv2_step h .preTick
  | applyTimestep b =>
    rw [(C15_node_tick_only_while_on n b).1]
    cases b
    · exact h
    · exact C15_inv2_step h .tick
  | api a => exact C15_inv2_api_step h a
  | req path =>
    cases hon : n.on with
    | false => rw [(C15_node_request_refused_while_off n hon path).1]; exact h
    | true =>
      cases hr : resolve n.x.s path with
      | inl o => rw [((C15_node_request_is_fs_request n path hon).1 o hr).1]; exact C15_inv2_step h o
      | inr o => rw [(C15_node_request_is_fs_request n path hon).2 o hr]; exact h

theorem C15_node_inv2_run {n : NState} (h : Inv2 n.x.s) (ops : List NOp) : Inv2 (nrun n ops).1.x.s := by
  induction ops generalizing n with
  | nil => exact h
  | cons op ops ih => exact ih (C15_node_inv2_step h op)

/-- **`Inv` in every state a node reaches from a fresh file system — whatever its power history, whatever requests, agent
actions, API calls, node scans and ticks it sees — unconditionally** (the full-strength form of `C15_node_inv_reachable`). -/
theorem C15_node_inv_reachable_full (d sc : Option Int) (on : Bool) (dur : Nat) (ops : List NOp) :
    Inv (nrun (ninit d sc on dur) ops).1.x.s ∧ XDisj (nrun (ninit d sc on dur) ops).1.x.s :=
  C15_node_inv2_run (C15_inv2_init d) ops

end Primaite.FileSystem
