/-
C14 — the timed processes against lifecycle and power (round 3).

Which of the timed processes keep counting while the service is STOPPED / PAUSED / DISABLED / RESTARTING, the application
CLOSED, the node SHUTTING_DOWN / OFF / BOOTING, the folder deleted? The code's answer, proved here about the model for every
state (and tied to the source by `C14_gen_tick_bodies`, `C14_gen_inventory` and the rig family `lifecycle-timer`):

  process          counts in a timestep iff                                           theorem
  fix              node ON after its power phase — in EVERY operating state             C14_timer_fix
  install          node ON ∧ application INSTALLING                                    C14_timer_install
  folder scan      node ON ∧ folder not deleted                                        C14_timer_folder
  folder restore   node ON ∧ folder not deleted                                        C14_timer_folder
  node scan        node ON                                                             C14_timer_node_scan

and "exactly the configured duration" for every interleaving of lifecycle / power operations with the countdown:
fix `C14_fix_exact`, folder scan `C14_folder_scan_exact`, folder restore `C14_folder_restore_*`, node scan `C14_node_scan_exact`
(Props/C14.lean: every continuation, lifecycle and power operations included) and, new here, installation `C14_install_exact`.
-/
import PrimaiteModel.Props.C14
namespace Primaite.Health
set_option linter.unusedSimpArgs false

/-! ## 1. the table: one timestep, any state -/

/-- **C14 timer table, fix.** A FIXING item with `c` on its countdown, in ANY operating state other than INSTALLING (RUNNING,
STOPPED, PAUSED, DISABLED, RESTARTING, CLOSED alike): a timestep moves the countdown iff the node is ON after its power phase;
then it completes (`c ≤ 1`: GOOD, countdown cleared) or decrements. A node that is OFF, BOOTING or SHUTTING_DOWN freezes it. -/
theorem C14_timer_fix (n : Node) (x : Sw) (c : Int) (hf : x.Fixing c) :
    (n.powerPhase.power = .on →
      (c ≤ 1 → (tickEff n x).actual = .good) ∧ (1 < c → (tickEff n x).Fixing (c - 1))) ∧
    (n.powerPhase.power ≠ .on → (tickEff n x).Fixing c) := by
  have h := swEff_fixing n .tick x c hf rfl
  refine ⟨fun hon => h.1 (by simp [effTick, hon]), fun hoff => h.2 (by simp [effTick, hoff])⟩

/-- the operating states a fix counts in: all of them (the hypothesis of `C14_timer_fix` excludes only INSTALLING, where the
completing installation overrides the health anyway) -/
example : ∀ st ∈ [OpSt.running, .stopped, .paused, .disabled, .restarting, .closed],
    ({ exDns with op := st, actual := .fixing, fixCd := some 2 } : Sw).Fixing 2 := by
  intro st hst
  simp only [List.mem_cons, List.mem_nil_iff, or_false] at hst
  rcases hst with rfl | rfl | rfl | rfl | rfl | rfl <;> exact ⟨rfl, rfl, by simp [exDns]⟩

/-- an application that is being installed with `c` left on its countdown -/
def Sw.Installing (x : Sw) (c : Int) : Prop := x.isApp = true ∧ x.op = .installing ∧ x.auxCd = some c

theorem Sw.Installing.of_rel {y x : Sw} {c : Int} (h : Sw.PowerRel y x) (hi : x.Installing c) : y.Installing c :=
  ⟨h.same.isApp.trans hi.1, h.installing.mpr hi.2.1, h.auxCd.trans hi.2.2⟩

theorem Sw.fixTick_installing (x : Sw) (c : Int) (hi : x.Installing c) : x.fixTick.Installing c := by
  have h := x.fixTick_rest
  exact ⟨h.1.trans hi.1, h.2.1.trans hi.2.1, h.2.2.trans hi.2.2⟩

/-- one item tick of an application that is being installed -/
theorem Sw.tick_installing (x : Sw) (c : Int) (hi : x.Installing c) :
    (c ≤ 1 → x.tick.op = .running ∧ x.tick.actual = .good ∧ x.tick.auxCd = none) ∧ (1 < c → x.tick.Installing (c - 1)) := by
  have h := x.fixTick_installing c hi
  obtain ⟨ha, ho, hc⟩ := h
  unfold Sw.tick Sw.auxTick
  simp only [ha, ho, hc, if_true]
  constructor
  · intro hle
    have : c - 1 ≤ 0 := by omega
    simp only [this, if_true, and_self]
  · intro hlt
    have : ¬ c - 1 ≤ 0 := by omega
    simp only [this, if_false]
    exact ⟨rfl, rfl, rfl⟩

/-- **C14 timer table, installation.** An application INSTALLING with `c` on its countdown: a timestep moves the countdown iff
the node is ON after its power phase; it completes (`c ≤ 1`: RUNNING and GOOD) or decrements. -/
theorem C14_timer_install (n : Node) (x : Sw) (c : Int) (hi : x.Installing c) :
    (n.powerPhase.power = .on →
      (c ≤ 1 → (tickEff n x).op = .running ∧ (tickEff n x).actual = .good) ∧ (1 < c → (tickEff n x).Installing (c - 1))) ∧
    (n.powerPhase.power ≠ .on → (tickEff n x).Installing c) := by
  have hp := Sw.Installing.of_rel (powerEff_rel n x) hi
  unfold tickEff
  constructor
  · intro hon
    simp only [hon, if_true]
    split
    · have := Sw.tick_installing (powerEff n x).scan c hp
      exact ⟨fun h => ⟨(this.1 h).1, (this.1 h).2.1⟩, this.2⟩
    · have := Sw.tick_installing (powerEff n x) c hp
      exact ⟨fun h => ⟨(this.1 h).1, (this.1 h).2.1⟩, this.2⟩
  · intro hoff
    simp only [hoff, if_false]
    exact hp

/-- …and an application that is NOT installing (CLOSED or RUNNING) has no installation countdown moving: the item tick leaves
`install_countdown` alone. -/
theorem C14_timer_install_idle (x : Sw) (ha : x.isApp = true) (ho : x.op ≠ .installing) : x.tick.auxCd = x.auxCd := by
  have h := x.fixTick_rest
  unfold Sw.tick Sw.auxTick
  simp only [h.1, ha, if_true, h.2.1, ho, if_false, h.2.2]

/-- **C14 timer table, folders.** A folder whose scan (resp. restore) is running: a timestep moves the countdown iff the node
is ON after its power phase AND the folder is not deleted. -/
theorem C14_timer_folder (n : Node) (G : Folder) :
    (1 ≤ G.scanCd → (folderEff n .tick G).scanCd =
      if n.powerPhase.power = .on ∧ G.deleted = false then G.scanCd - 1 else G.scanCd) ∧
    (1 ≤ G.restoreCd → (folderEff n .tick G).restoreCd =
      if n.powerPhase.power = .on ∧ G.deleted = false then G.restoreCd - 1 else G.restoreCd) := by
  constructor
  · intro h
    rw [folderEff_scanCd_running n .tick G h]
    by_cases hon : n.powerPhase.power = .on <;> cases hd : G.deleted <;> simp [folderTicking, hon, hd]
  · intro h
    rw [folderEff_restoreCd_running n .tick G h]
    by_cases hon : n.powerPhase.power = .on <;> cases hd : G.deleted <;> simp [folderTicking, hon, hd]

/-- **C14 timer table, whole-node scan.** The countdown moves in a timestep iff the node is ON after its power phase. -/
theorem C14_timer_node_scan (n : Node) (h : 0 < n.scanCd) :
    (n.apply .tick).scanCd = if n.powerPhase.power = .on then n.scanCd - 1 else n.scanCd := by
  rw [apply_scanCd]
  by_cases hon : n.powerPhase.power = .on <;> simp [hon, h]

/-! ## 2. installation takes exactly `max(1, install_duration)` timesteps of a powered-on node — for EVERY continuation -/

theorem Sw.handle_installing (x : Sw) (c : Int) (r : SwReq) (hi : x.Installing c) (hk : r.known true = true)
    (hal : r.allowed x = true) : (x.handle r).1.Installing c := by
  obtain ⟨ha, ho, hc⟩ := hi
  cases r <;> simp only [SwReq.known, ha, Bool.not_true, Bool.false_eq_true] at hk <;>
    simp only [SwReq.allowed, SwReq.guard, ho, decide_eq_true_eq, reduceCtorEq] at hal
  case compromise => exact ⟨ha, ho, hc⟩
  case execute =>
    simp only [Sw.handle, ho, reduceCtorEq, if_false]
    exact ⟨ha, ho, hc⟩

/-- one step of ANY operation on an application that is being installed: only a timestep that reaches the item moves it -/
theorem swEff_installing (n : Node) (op : Op) (x : Sw) (c : Int) (hi : x.Installing c) :
    (effTick n op = true →
      (c ≤ 1 → (swEff n op x).op = .running ∧ (swEff n op x).actual = .good) ∧ (1 < c → (swEff n op x).Installing (c - 1))) ∧
    (effTick n op = false → (swEff n op x).Installing c) := by
  cases op <;> simp only [swEff, effTick, decide_true, decide_false, Bool.true_and, Bool.false_and, Bool.false_eq_true,
    false_implies, true_and, true_implies, reduceCtorEq, decide_eq_true_eq, decide_eq_false_iff_not]
  case tick =>
    have h := C14_timer_install n x c hi
    exact ⟨fun hon => h.1 hon, fun hoff => h.2 hoff⟩
  case shutdown => (repeat' split) <;> first | exact hi | exact .of_rel (offNowEff_rel n x) hi
  case reset => (repeat' split) <;> first | exact hi | exact .of_rel (resetNowEff_rel n x) hi
  case startup => split <;> first | exact hi | exact .of_rel (powerOnEff_rel n x) hi
  case sw isApp nm r =>
    split
    · unfold Sw.request
      split
      · rename_i hacc
        simp only [Sw.accepts, Bool.and_eq_true, decide_eq_true_eq] at hacc
        obtain ⟨⟨⟨_, hk⟩, hkn⟩, hal⟩ := hacc
        rw [← hk, hi.1] at hkn
        exact x.handle_installing c r hi hkn hal
      · exact hi
    · exact hi
  case swSet nm h => split <;> exact hi
  case appInstall nm =>
    split
    · unfold Sw.install
      simp only [hi.2.1, reduceCtorEq, and_false, if_false]
      exact hi
    · exact hi
  case appRun nm => (repeat' split) <;> first | exact hi | exact .of_rel x.startUp_rel hi
  all_goals exact hi

/-- **C14 installation timing, part 1 (not early).** From any state in which the `i`-th item is INSTALLING with `c` on its
countdown, for ANY operation sequence (compromise, lifecycle requests, a second `install()`, power loss, reset, …): while fewer
than `max(1,c)` timesteps have reached the node's items it is still INSTALLING with `c` minus that number on the countdown. -/
theorem C14_install_not_early (ops : List Op) : ∀ (n : Node) (i : Nat) (x : Sw) (c : Int),
    n.sws[i]? = some x → x.Installing c → (effTicks n ops : Int) < max 1 c →
    ∃ x', (n.run ops).sws[i]? = some x' ∧ x'.name = x.name ∧ x'.Installing (c - effTicks n ops) := by
  induction ops with
  | nil => intro n i x c hx hi _; exact ⟨x, hx, rfl, by simpa [effTicks] using hi⟩
  | cons op ops ih =>
    intro n i x c hx hi hk
    have hx1 : (n.apply op).sws[i]? = some (swEff n op x) := by rw [apply_sws, List.getElem?_map, hx]; rfl
    have hn1 := (swEff_name n op x).1
    have hstep := swEff_installing n op x c hi
    simp only [effTicks] at hk ⊢
    simp only [Node.run]
    by_cases he : effTick n op = true
    · simp only [he, if_true] at hk ⊢
      have hc1 : 1 < c := by omega
      have hi1 := (hstep.1 he).2 hc1
      obtain ⟨x', h1, h2, h3⟩ := ih (n.apply op) i (swEff n op x) (c - 1) hx1 hi1 (by omega)
      refine ⟨x', h1, h2.trans hn1, ?_⟩
      have : c - 1 - (effTicks (n.apply op) ops : Int) = c - ((1 + effTicks (n.apply op) ops : Nat) : Int) := by omega
      rw [← this]; exact h3
    · have he' : effTick n op = false := by simpa using he
      simp only [he', Bool.false_eq_true, if_false, Nat.zero_add] at hk ⊢
      have hi1 := hstep.2 he'
      obtain ⟨x', h1, h2, h3⟩ := ih (n.apply op) i (swEff n op x) c hx1 hi1 hk
      exact ⟨x', h1, h2.trans hn1, h3⟩

/-- **C14 installation timing (exact).** …and the `max(1,c)`-th timestep that reaches the node's items makes the application
RUNNING and GOOD: an installation takes exactly `max(1, install_duration)` timesteps of a powered-on node, whatever else
happens meanwhile. -/
theorem C14_install_exact (ops : List Op) (n : Node) (i : Nat) (x : Sw) (c : Int)
    (hx : n.sws[i]? = some x) (hi : x.Installing c) :
    ((effTicks n ops : Int) < max 1 c → ∃ x', (n.run ops).sws[i]? = some x' ∧ x'.op = .installing) ∧
    ((effTicks n ops : Int) + 1 = max 1 c → effTick (n.run ops) .tick = true →
      ∃ x', ((n.run ops).apply .tick).sws[i]? = some x' ∧ x'.name = x.name ∧ x'.op = .running ∧ x'.actual = .good) := by
  refine ⟨fun hlt => ?_, fun heq ht => ?_⟩
  · obtain ⟨x', h1, _, h3⟩ := C14_install_not_early ops n i x c hx hi hlt
    exact ⟨x', h1, h3.2.1⟩
  · obtain ⟨x1, h1, h2, h3⟩ := C14_install_not_early ops n i x c hx hi (by omega)
    refine ⟨swEff (n.run ops) .tick x1, ?_, ((swEff_name _ _ _).1).trans h2, ?_⟩
    · rw [apply_sws, List.getElem?_map, h1]; rfl
    · exact ((swEff_installing (n.run ops) .tick x1 _ h3).1 ht).1 (by omega)

/-- `Application.install()` on a CLOSED application loads the configured duration -/
theorem C14_install_request (n : Node) (i : Nat) (x : Sw) (hx : n.sws[i]? = some x) (ha : x.isApp = true) (hc : x.op = .closed) :
    ∃ x', (n.apply (.appInstall x.name)).sws[i]? = some x' ∧ x'.name = x.name ∧ x'.Installing x.auxDur := by
  refine ⟨swEff n (.appInstall x.name) x, ?_, (swEff_name _ _ _).1, ?_⟩
  · rw [apply_sws, List.getElem?_map, hx]; rfl
  · simp only [swEff, if_true, Sw.install, ha, hc, and_self]
    exact ⟨rfl, rfl, rfl⟩

/-! ## 3. concrete interleavings (kernel-evaluated) -/

/-- a fix keeps counting while its service is stopped / paused / disabled (what the seeded change C14-c broke), freezes while
the node is off, and an installation survives a power cycle with its countdown -/
example :
    ([[Op.sw false "dns" .fix, .sw false "dns" .stop, .tick, .tick],
      [.sw false "dns" .fix, .sw false "dns" .pause, .tick, .tick],
      [.sw false "dns" .fix, .sw false "dns" .disable, .tick, .tick],
      [.sw false "dns" .fix, .tick, .sw false "dns" .restart, .tick]].map
        (fun ops => ((exNode.run ops).sws.map (fun x => (x.actual, x.fixCd))).take 1)) =
      [[(.good, none)], [(.good, none)], [(.good, none)], [(.good, none)]] ∧
    ((exNode.run [.appInstall "browser", .tick, .shutdown, .tick, .tick, .startup, .tick]).sws.map
        (fun x => (x.op, x.auxCd))).drop 1 = [(.installing, some 1)] ∧
    ((exNode.run [.appInstall "browser", .tick, .shutdown, .tick, .tick, .startup, .tick, .tick]).sws.map
        (fun x => (x.op, x.actual, x.auxCd))).drop 1 = [(.running, .good, none)] := by decide

/-! ## 3b. the reveal-to-red scan shares a block with the whole-node scan and must not disturb it -/

/-- the same node with another value on the reveal-to-red countdown -/
def Node.withRed (n : Node) (r : Int) : Node := { n with redCd := r }

theorem red_powerOn (n : Node) (r : Int) : (n.withRed r).powerOn = n.powerOn.withRed r := by
  unfold Node.powerOn Node.withRed
  by_cases h1 : n.startDur ≤ 0
  · simp only [h1, if_true]; rfl
  · by_cases h2 : n.power = .off <;> simp only [h1, h2, if_true, if_false]

theorem red_offNow (n : Node) (r : Int) : (n.withRed r).offNow = n.offNow.withRed r := by
  unfold Node.offNow
  simp only []
  by_cases h : n.resetting = true
  · have h' : (n.withRed r).resetting = true := h
    simp only [mapSws_resetting, h, h', if_true]
    exact red_powerOn { (n.mapSws Sw.shutDown) with power := .off, resetting := false } r
  · have h' : ¬ (n.withRed r).resetting = true := h
    simp only [mapSws_resetting, h, h', if_false]
    rfl

theorem red_powerOff (n : Node) (r : Int) : (n.withRed r).powerOff = n.powerOff.withRed r := by
  unfold Node.powerOff
  by_cases h1 : n.shutDur ≤ 0
  · have h1' : (n.withRed r).shutDur ≤ 0 := h1
    simp only [h1, h1', if_true]; exact red_offNow n r
  · have h1' : ¬ (n.withRed r).shutDur ≤ 0 := h1
    by_cases h2 : n.power = .on
    · have h2' : (n.withRed r).power = .on := h2
      simp only [h1, h1', h2, h2', if_true, if_false]; rfl
    · have h2' : ¬ (n.withRed r).power = .on := h2
      simp only [h1, h1', h2, h2', if_false]

theorem red_bootPhase (n : Node) (r : Int) : (n.withRed r).bootPhase = n.bootPhase.withRed r := by
  unfold Node.bootPhase
  by_cases h1 : n.startCd > 0
  · have h1' : (n.withRed r).startCd > 0 := h1
    simp only [h1, h1', if_true]; rfl
  · have h1' : ¬ (n.withRed r).startCd > 0 := h1
    by_cases h2 : n.power = .booting
    · have h2' : (n.withRed r).power = .booting := h2
      simp only [h1, h1', h2, h2', if_true, if_false]; rfl
    · have h2' : ¬ (n.withRed r).power = .booting := h2
      simp only [h1, h1', h2, h2', if_false]

theorem red_shutPhase (n : Node) (r : Int) : (n.withRed r).shutPhase = n.shutPhase.withRed r := by
  unfold Node.shutPhase
  by_cases h1 : n.shutCd > 0
  · have h1' : (n.withRed r).shutCd > 0 := h1
    simp only [h1, h1', if_true]; rfl
  · have h1' : ¬ (n.withRed r).shutCd > 0 := h1
    by_cases h2 : n.power = .shuttingDown
    · have h2' : (n.withRed r).power = .shuttingDown := h2
      simp only [h1, h1', h2, h2', if_true, if_false]; exact red_offNow n r
    · have h2' : ¬ (n.withRed r).power = .shuttingDown := h2
      simp only [h1, h1', h2, h2', if_false]

theorem red_powerPhase (n : Node) (r : Int) : (n.withRed r).powerPhase = n.powerPhase.withRed r := by
  unfold Node.powerPhase; rw [red_bootPhase, red_shutPhase]

theorem red_scanPhase (m : Node) (r : Int) : (m.withRed r).scanPhase = m.scanPhase.withRed r := by
  unfold Node.scanPhase
  by_cases h1 : m.scanCd > 0
  · have h1' : (m.withRed r).scanCd > 0 := h1
    by_cases h2 : m.scanCd - 1 = 0
    · have h2' : (m.withRed r).scanCd - 1 = 0 := h2
      simp only [h1, h1', h2, h2', if_true]; rfl
    · have h2' : ¬ (m.withRed r).scanCd - 1 = 0 := h2
      simp only [h1, h1', h2, h2', if_true, if_false]; rfl
  · have h1' : ¬ (m.withRed r).scanCd > 0 := h1
    simp only [h1, h1', if_false]

/-- the health-relevant part of a node: everything but the reveal-to-red countdown -/
def Node.sansRed (n : Node) : Node := { n with redCd := 0 }

theorem sansRed_withRed (n : Node) (r : Int) : (n.withRed r).sansRed = n.sansRed := rfl

theorem redPhase_sansRed (m : Node) : m.redPhase.sansRed = m.sansRed := by
  unfold Node.redPhase; split <;> rfl

theorem itemPhase_sansRed (m : Node) : m.itemPhase.sansRed = m.sansRed.itemPhase := rfl

/-- **C14 (the reveal-to-red countdown never touches health).** Whatever stands on the reveal-to-red countdown — idle, running,
completing in this very timestep together with the whole-node scan — every operation leaves the rest of the node (power FSM,
every software item, folder and file, the node-scan countdown) exactly as it would with any other value on it. -/
theorem C14_red_scan_independent (n : Node) (r : Int) (op : Op) :
    ((n.withRed r).apply op).sansRed = (n.apply op).sansRed := by
  cases op <;> simp only [Node.apply]
  case tick =>
    unfold Node.tick
    simp only []
    rw [red_powerPhase]
    by_cases hon : n.powerPhase.power = .on
    · have hon' : (n.powerPhase.withRed r).power = .on := hon
      simp only [hon, hon', if_true]
      rw [red_scanPhase, itemPhase_sansRed, itemPhase_sansRed, redPhase_sansRed, redPhase_sansRed, sansRed_withRed]
    · have hon' : ¬ (n.powerPhase.withRed r).power = .on := hon
      simp only [hon, hon', if_false]; rfl
  case shutdown =>
    by_cases h : n.power = .on
    · have h' : (n.withRed r).power = .on := h
      simp only [h, h', if_true]; rw [red_powerOff]; rfl
    · have h' : ¬ (n.withRed r).power = .on := h
      simp only [h, h', if_false]; rfl
  case startup =>
    by_cases h : n.power = .off
    · have h' : (n.withRed r).power = .off := h
      simp only [h, h', if_true]; rw [red_powerOn]; rfl
    · have h' : ¬ (n.withRed r).power = .off := h
      simp only [h, h', if_false]; rfl
  case reset =>
    by_cases h : n.power = .on
    · have h' : (n.withRed r).power = .on := h
      rw [if_pos h', if_pos h]
      exact (congrArg Node.sansRed (red_powerOff { n with resetting := true } r)).trans (sansRed_withRed _ r)
    · have h' : ¬ (n.withRed r).power = .on := h
      rw [if_neg h', if_neg h]; rfl
  all_goals
    by_cases h : n.power = .on
    · have h' : (n.withRed r).power = .on := h
      try simp only [h, h', if_true, true_and]
      first | rfl | (split <;> rfl)
    · have h' : ¬ (n.withRed r).power = .on := h
      try simp only [h, h', if_false, false_and]
      first | rfl | (split <;> rfl)

/-- **C14 (the whole-node scan's fan-out is independent of every other countdown).** `C14_node_scan_fans_out` holds for EVERY
node state with the scan countdown at 1 — folder scan / restore countdowns, fix, install and restart countdowns arbitrary — and the
one countdown that shares its `if` block in `apply_timestep`, the reveal-to-red scan, cannot change the result either: the software
list, the folders and files, the power state and the scan countdown after a timestep are the same for every value `r` on it
(in particular for `r = 1`: both scans completing in the same timestep — seeded change C14-d ran only one of the two sweeps). -/
theorem C14_node_scan_fanout_independent (n : Node) (r : Int) :
    ((n.withRed r).apply .tick).sws = (n.apply .tick).sws ∧ ((n.withRed r).apply .tick).folders = (n.apply .tick).folders ∧
    ((n.withRed r).apply .tick).scanCd = (n.apply .tick).scanCd ∧ ((n.withRed r).apply .tick).power = (n.apply .tick).power := by
  have h := C14_red_scan_independent n r .tick
  have h1 : ((n.withRed r).apply .tick).sansRed.sws = (n.apply .tick).sansRed.sws := by rw [h]
  have h2 : ((n.withRed r).apply .tick).sansRed.folders = (n.apply .tick).sansRed.folders := by rw [h]
  have h3 : ((n.withRed r).apply .tick).sansRed.scanCd = (n.apply .tick).sansRed.scanCd := by rw [h]
  have h4 : ((n.withRed r).apply .tick).sansRed.power = (n.apply .tick).sansRed.power := by rw [h]
  exact ⟨h1, h2, h3, h4⟩

/-- the reveal-to-red countdown itself: loaded with `node_scan_duration` (no `max(…, 1)`: duration 0 never fires), it moves in a
timestep iff the node is ON after its power phase -/
theorem C14_timer_red_scan (n : Node) :
    ((n.apply .redScan).redCd = if n.power = .on then n.scanDur else n.redCd) ∧
    ((n.apply .tick).redCd = if n.powerPhase.power = .on ∧ n.powerPhase.redCd > 0 then n.powerPhase.redCd - 1
      else n.powerPhase.redCd) := by
  constructor
  · simp only [Node.apply]; split <;> rfl
  · simp only [Node.apply, Node.tick]
    by_cases hon : n.powerPhase.power = .on
    · simp only [hon, if_true, true_and, Node.itemPhase, Node.mapFolders, Node.mapSws, Node.redPhase]
      have : n.powerPhase.scanPhase.redCd = n.powerPhase.redCd := by
        unfold Node.scanPhase; (repeat' split) <;> rfl
      rw [this]
      split
      · rfl
      · exact this
    · simp only [hon, if_false, false_and]

/-- both scans requested in the same step with duration 2: they complete in the same timestep, and the whole-node scan still
updates every visible value (kernel-evaluated) -/
def exBoth : Node := { exNode.run [.sw false "dns" .compromise, .osScan, .redScan] with scanDur := 2, scanCd := 2, redCd := 2 }
example :
    (exBoth.run [.tick, .tick]).sws.map (fun x => x.visible) = [.compromised, .unused] ∧
    (exBoth.run [.tick, .tick]).folders.map (fun G => G.files.map (fun f => f.visible)) = [[.corrupt, .none]] ∧
    (exBoth.run [.tick]).scanCd = 1 ∧ (exBoth.run [.tick]).redCd = 1 ∧
    (exBoth.run [.tick, .tick]).scanCd = 0 ∧ (exBoth.run [.tick, .tick]).redCd = 0 := by decide

/-! ## 4. a folder's ACTUAL health changes only through explicit events and their timed completion -/

/-- The explicit events that can write the actual health of folder `G` in step `op`, with the value they write: the `corrupt`,
`repair`, `restore` requests (folder route or file-system route; a restore request only when no restore is running), and the
timestep in which the folder's timed scan completes (actual := worst health among its live files — the code rewrites the
ACTUAL health there, not only the visible one) or its restore completes (CORRUPT / RESTORING → GOOD). Everything else is `False`.
(The external writer — an ENCRYPT query marking the database folder CORRUPT — is `DOp.folderSet`, `C14_dyn_folder_set`.) -/
def folderActualCause (n : Node) (op : Op) (G : Folder) (new : FsH) : Prop :=
  match op with
  | .folder F .corrupt => n.power = .on ∧ G.name = F ∧ G.deleted = false ∧ new = .corrupt
  | .folder F .repair => n.power = .on ∧ G.name = F ∧ G.deleted = false ∧ new = .good
  | .folder F .restore => n.power = .on ∧ G.name = F ∧ G.deleted = false ∧ G.restoreCd ≤ 0 ∧ new = .restoring
  | .fsRestoreFolder F => n.power = .on ∧ G.name = F ∧ G.restoreCd ≤ 0 ∧ new = .restoring
  | .tick =>
    n.powerPhase.power = .on ∧ G.deleted = false ∧
      ((G.scanCd = 1 ∧ new = worstLive G.files) ∨ (G.restoreCd = 1 ∧ new = .good))
  | _ => False

theorem Folder.tick_actual (H : Folder) :
    H.tick.actual =
      (let a1 := if H.scanCd = 1 then worstLive H.files else H.actual
       if H.restoreCd = 1 ∧ H.deleted = false ∧ (a1 = .corrupt ∨ a1 = .restoring) then .good else a1) := by
  unfold Folder.tick
  rw [Folder.restoreTick_actual, (Folder.scanTick_rest H).2.1, (Folder.scanTick_rest H).2.2.1, Folder.scanTick_actual]

theorem Folder.mapLiveFile_actual (G : Folder) (f : String) (g : File → File) : (G.mapLiveFile f g).actual = G.actual := rfl
theorem Folder.mapFile_actual (G : Folder) (f : String) (g : File → File) : (G.mapFile f g).actual = G.actual := rfl

/-- **C14 (folder actual health, one step, any state).** A folder's actual health differs after an operation only if the
operation is one of the enumerated writers for that folder, and the new value is the one that writer sets. -/
theorem C14_folder_actual_only_by_event (n : Node) (op : Op) (j : Nat) (G G' : Folder)
    (hG : n.folders[j]? = some G) (hG' : (n.apply op).folders[j]? = some G') (hne : G'.actual ≠ G.actual) :
    folderActualCause n op G G'.actual := by
  rw [apply_folders, List.getElem?_map, hG] at hG'
  simp only [Option.map_some, Option.some.injEq] at hG'
  subst hG'
  cases op <;> simp only [folderEff, folderActualCause] at hne ⊢
  case tick =>
    unfold folderTickEff at hne ⊢
    by_cases hon : n.powerPhase.power = .on
    · simp only [hon, if_true] at hne ⊢
      -- H = the folder after the (possible) whole-node scan: same actual health, countdowns, deleted flag, worst live file
      have key : ∀ H : Folder, H.actual = G.actual → H.scanCd = G.scanCd → H.restoreCd = G.restoreCd →
          H.deleted = G.deleted → worstLive H.files = worstLive G.files →
          (if H.deleted then H else H.tick).actual ≠ G.actual →
          G.deleted = false ∧
            ((G.scanCd = 1 ∧ (if H.deleted then H else H.tick).actual = worstLive G.files) ∨
             (G.restoreCd = 1 ∧ (if H.deleted then H else H.tick).actual = .good)) := by
        intro H ha hs hr hd hw hne
        cases hdel : H.deleted
        · simp only [hdel, Bool.false_eq_true, if_false] at hne ⊢
          refine ⟨by rw [← hd]; exact hdel, ?_⟩
          rw [Folder.tick_actual] at hne ⊢
          simp only [hs, hr, hw, ha, hdel, true_and] at hne ⊢
          by_cases h1 : G.scanCd = 1
          · by_cases h2 : G.restoreCd = 1
            · by_cases hc : worstLive G.files = .corrupt ∨ worstLive G.files = .restoring
              · right; refine ⟨h2, ?_⟩; simp only [h1, h2, if_true, true_and, hc]
              · left; refine ⟨h1, ?_⟩; simp only [h1, h2, if_true, true_and, hc, if_false]
            · left; refine ⟨h1, ?_⟩; simp only [h1, h2, if_true, false_and, if_false]
          · by_cases h2 : G.restoreCd = 1
            · by_cases hc : G.actual = .corrupt ∨ G.actual = .restoring
              · right; refine ⟨h2, ?_⟩; simp only [h1, h2, if_false, true_and, hc, if_true]
              · exfalso; apply hne; simp only [h1, h2, if_false, true_and, hc]
            · exfalso; apply hne; simp only [h1, h2, if_false, false_and]
        · simp only [hdel, if_true] at hne
          exact absurd ha hne
      by_cases hs : n.powerPhase.scanCd = 1
      · simp only [hs, if_true] at hne ⊢
        have := key G.instantScan G.instantScan_actual G.instantScan_scanCd G.instantScan_restoreCd G.instantScan_deleted
          (by rw [Folder.instantScan_files]; split
              · rfl
              · exact worstLive_map_scan _) hne
        exact ⟨trivial, this.1, this.2⟩
      · simp only [hs, if_false] at hne ⊢
        have := key G rfl rfl rfl rfl rfl hne
        exact ⟨trivial, this.1, this.2⟩
    · simp only [hon, if_false] at hne
      exact absurd rfl hne
  case folder F r =>
    by_cases hon : n.power = .on
    · by_cases hc : G.name = F ∧ G.deleted = false
      · rw [if_pos hon, if_pos hc] at hne ⊢
        cases r <;> simp only [Folder.handle] at hne ⊢
        case scan => exfalso; apply hne; unfold Folder.scan; (repeat' split) <;> rfl
        case checkhash => exact absurd rfl hne
        case repair =>
          refine ⟨hon, hc.1, hc.2, ?_⟩
          unfold Folder.repair; simp only [hc.2, Bool.false_eq_true, if_false]
        case restore =>
          unfold Folder.restore at hne ⊢
          by_cases hr : G.restoreCd ≤ 0
          · rw [if_pos hr]; exact ⟨hon, hc.1, hc.2, hr, rfl⟩
          · rw [if_neg hr] at hne; exact absurd rfl hne
        case corrupt =>
          refine ⟨hon, hc.1, hc.2, ?_⟩
          unfold Folder.corrupt; simp only [hc.2, Bool.false_eq_true, if_false]
      · rw [if_pos hon, if_neg hc] at hne; exact absurd rfl hne
    · rw [if_neg hon] at hne; exact absurd rfl hne
  case fsRestoreFolder F =>
    by_cases hon : n.power = .on
    · by_cases hc : G.name = F
      · rw [if_pos hon, if_pos hc] at hne ⊢
        rcases Folder.restoreIn_cases n.folders G with e | e <;> rw [e] at hne ⊢
        · exact absurd rfl hne
        · unfold Folder.restore at hne ⊢
          by_cases hr : G.restoreCd ≤ 0
          · rw [if_pos hr]; exact ⟨hon, hc, hr, rfl⟩
          · rw [if_neg hr] at hne; exact absurd rfl hne
      · rw [if_pos hon, if_neg hc] at hne; exact absurd rfl hne
    · rw [if_neg hon] at hne; exact absurd rfl hne
  case fsDeleteFolder F => exfalso; apply hne; (repeat' split) <;> rfl
  all_goals first | exact hne rfl | (exfalso; apply hne; (repeat' split) <;> rfl)

/-! ## 5. what the file and file-system requests answer (`Node.respond`) -/

/-- **C14 responses (file requests, either route).** `success` iff the node is ON, a live folder and in it a live file have the
addressed names, and the request is not `checkhash` ("not implemented": always `failure`). -/
theorem C14_resp_file (n : Node) (F f : String) (r : ItemReq) :
    n.respond (.file F f r) = .success ↔
      (n.power = .on ∧ (∃ G, n.findLiveFolder F = some G ∧ (findLive f G.files).isSome = true) ∧ r ≠ .checkhash) := by
  simp only [Node.respond]
  by_cases hon : n.power = .on
  · simp only [hon, ne_eq, not_true_eq_false, if_false, true_and]
    cases hG : n.findLiveFolder F with
    | none => simp
    | some G =>
      cases hx : findLive f G.files with
      | none => simp [hx]
      | some x => cases r <;> simp [hx, File.handle, Resp.ofBool]
  · simp [hon]

/-- a file `scan` request answers `success` exactly when it completes a scan of the addressed file (ties the response to
`fileScanCompletes`) -/
theorem C14_resp_file_scan_success (n : Node) (F f : String) (G : Folder) (x : File)
    (hG : n.findLiveFolder F = some G) (hx : findLive f G.files = some x) :
    n.respond (.file F f .scan) = .success ↔ fileScanCompletes n (.file F f .scan) G x = true := by
  have hGp := List.find?_some hG
  have hxp := List.find?_some hx
  simp only [Bool.and_eq_true, decide_eq_true_eq, Bool.not_eq_true'] at hGp hxp
  rw [C14_resp_file]
  simp only [hG, Option.some.injEq, exists_eq_left', hx, Option.isSome_some, ne_eq, reduceCtorEq, not_false_eq_true, and_true,
    fileScanCompletes, hGp.1, hGp.2, hxp.1, hxp.2, decide_true, Bool.not_false, Bool.and_true, decide_eq_true_eq]

/-- deleting a file (folder route or file-system route): `success` iff node ON, live folder, live file of that name -/
theorem C14_resp_delete_file (n : Node) (F f : String) :
    (n.respond (.fsDeleteFile F f) = .success ↔
      (n.power = .on ∧ ∃ G, n.findLiveFolder F = some G ∧ (findLive f G.files).isSome = true)) ∧
    n.respond (.folderDelete F f) = n.respond (.fsDeleteFile F f) := by
  refine ⟨?_, rfl⟩
  simp only [Node.respond]
  by_cases hon : n.power = .on
  · simp only [hon, ne_eq, not_true_eq_false, if_false, true_and]
    cases hG : n.findLiveFolder F with
    | none => simp
    | some G => cases hx : findLive f G.files <;> simp [hx, Resp.ofBool]
  · simp [hon]

/-- deleting a folder: `success` iff node ON, a live folder of that name exists, and it is not `root` -/
theorem C14_resp_delete_folder (n : Node) (F : String) :
    n.respond (.fsDeleteFolder F) = .success ↔ (n.power = .on ∧ (n.findLiveFolder F).isSome = true ∧ F ≠ "root") := by
  simp only [Node.respond, Resp.ofBool]
  by_cases hon : n.power = .on <;> cases (n.findLiveFolder F).isSome <;> by_cases hr : F = "root" <;> simp [hon, hr]

/-- restoring by name through the file system: a file needs a live folder and any file (live or deleted) of that name in it;
a folder needs any folder (live or deleted) of that name -/
theorem C14_resp_restore (n : Node) (F f : String) :
    (n.respond (.fsRestoreFile F f) = .success ↔
      (n.power = .on ∧ ∃ G, n.findLiveFolder F = some G ∧ (findAny f G.files).isSome = true)) ∧
    (n.respond (.fsRestoreFolder F) = .success ↔ (n.power = .on ∧ (n.findFolder F).isSome = true)) := by
  constructor
  · simp only [Node.respond]
    by_cases hon : n.power = .on
    · simp only [hon, ne_eq, not_true_eq_false, if_false, true_and]
      cases hG : n.findLiveFolder F with
      | none => simp
      | some G => cases hx : findAny f G.files <;> simp [hx, Resp.ofBool]
    · simp [hon]
  · simp only [Node.respond, Resp.ofBool]
    by_cases hon : n.power = .on <;> cases (n.findFolder F).isSome <;> simp [hon]

end Primaite.Health
