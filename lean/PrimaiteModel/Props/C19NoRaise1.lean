/-
C19 — a constructed TAP001 never raises (companion of Props/C19NoRaise.lean / C19Wf.lean for TAP003).

What remains assumed: the abstraction of `response.data` to the three Booleans of `Resp` is total exactly on `ScanSimOk`
data (the shapes the three nmap construction sites give: `{"live_hosts": list}` or a dict host ↦ protocol ↦ ports; a
failure has `data = {}`); pydantic's `data: dict` typing of `RequestResponse`.  The model's `Resp` cannot express a
malformed answer, so the core proof uses of `RunScanSimOk` only the range of the `repeat_scan` draw (`dScan < nAddr`).
-/
import PrimaiteModel.Props.C19Live
namespace Primaite.Agents
namespace Tap1

/-- the shape of `response.data` of a scan -/
inductive ScanData
  | hosts (l : List Val)
  | ports (m : List (Val × List (String × List Nat)))
  | malformed

/-- what `_scan_action_response_handler` reads out of `response.data` (target = the selected target ip); `none` = Python
raises (AttributeError/TypeError on a non-dict, or on a non-dict entry) -/
def readScan (target : Val) (ok : Bool) : ScanData → Option Resp
  | .hosts l => some { ok := ok, hostsEmpty := l.isEmpty, containsTarget := l.contains target, hasPg := false }
  | .ports m =>
    some { ok := ok, hostsEmpty := m.isEmpty, containsTarget := (m.map (·.1)).contains target,
           hasPg := match m.lookup target with
                    | some e => (match e.lookup "tcp" with | some ps => ps.contains 5432 | none => false)
                    | none => false }
  | .malformed => none

/-- a well-shaped scan answer -/
def ScanSimOk (target : Val) (r : Resp) : Prop := ∃ d, d ≠ ScanData.malformed ∧ readScan target r.ok d = some r

/-- every scan draw is in the range of `randint(0, len(network_addresses)-1)` and every successful response is
well-shaped -/
def RunScanSimOk (c : Cfg) (ins : List In) : Prop :=
  ∀ i ∈ ins, i.dScan < c.nAddr ∧ (i.resp.ok = true → ∃ tgt, ScanSimOk tgt i.resp)

/-- intra-`get_action` invariant: no error, `Inv`, a scan in progress has a remembered timestamp, all remembered
timestamps are in `[0, b)`. -/
def G (s : St) (b : Int) : Prop :=
  s.err = false ∧ Inv s ∧ (s.cur = .propagate → s.prog = .inProgress → s.lastScanTs ≠ []) ∧
  (∀ x ∈ s.lastScanTs, 0 ≤ x ∧ x < b)

theorem G_mono (s : St) (b b' : Int) (h : G s b) (hb : b ≤ b') : G s b' := by
  refine ⟨h.1, h.2.1, h.2.2.1, ?_⟩
  intro x hx; have := h.2.2.2 x hx; omega

theorem G_progress (s : St) (b : Int) (h : G s b) (x : Stage) (hx : x.chain = true) (hn : s.nxt = x.succ)
    (hc : s.cur = x ∨ (s.cur = .failed ∧ x ≠ .c2)) : G (progress s) b := by
  obtain ⟨h1, h2, h3, h4⟩ := h
  cases x <;> simp [Stage.chain] at hx <;> rcases hc with hc | ⟨hc, hne⟩ <;>
    simp_all [G, Inv, progress, Stage.succ, Stage.ofVal?, Stage.all, Stage.val]

theorem G_setNext (c : Cfg) (s : St) (b : Int) (base d : Int) (hv : 0 ≤ c.variance) (h : G s b) :
    G (setNext c s base d) b := by
  simpa [setNext, randintOk, hv, G, Inv] using h

theorem G_curT (s : St) (b t : Int) (h : G s b) : G { s with curT := t } b := h

theorem G_outcomeHandler (c : Cfg) (s : St) (b : Int) (h : G s b) : G (outcomeHandler c s) b := by
  obtain ⟨h1, h2, h3, h4⟩ := h
  unfold outcomeHandler
  repeat' split
  all_goals simp_all [G, Inv, Stage.succ]

theorem G_returnHandler (c : Cfg) (x : Hist) (s : St) (b : Int) (h : G s b) : G (returnHandler c x s) b := by
  obtain ⟨h1, h2, h3, h4⟩ := h
  unfold returnHandler
  split
  all_goals simp_all [G, Inv]

theorem G_payloadContinue (s : St) (b : Int) (h : G s b) (hc : s.cur ≠ .propagate) : G (payloadContinue s) b := by
  obtain ⟨h1, h2, h3, h4⟩ := h
  unfold payloadContinue payloadHandler
  repeat' split
  all_goals simp_all [G, Inv]

theorem G_payloadEnter (c : Cfg) (i : In) (s : St) (b : Int) (h : G s b) (hc : s.cur ≠ .propagate) :
    G (payloadEnter c i s) b := by
  obtain ⟨h1, h2, h3, h4⟩ := h
  unfold payloadEnter failStage
  repeat' split
  all_goals simp_all [G, Inv]

theorem G_payload (c : Cfg) (i : In) (s : St) (b : Int) (h : G s b) : G (payload c i s) b := by
  unfold payload
  split
  · exact h
  · rename_i hc
    have hc : s.cur = .payload := by simpa using hc
    have hn : s.nxt = Stage.succ .payload := by
      have := h.2.1; simpa [Inv, hc] using this
    have s1 := soft_payloadContinue s
    have g1 := G_payloadContinue s b h (by simp [hc])
    have s2 := soft_payloadEnter c i (payloadContinue s)
    have g2 := G_payloadEnter c i (payloadContinue s) b g1 (by rcases s1.1 with e | e <;> simp [e, hc])
    unfold progressIfFinished
    split
    · refine G_progress _ b g2 .payload rfl (by rw [s2.2, s1.2, hn]) ?_
      rcases s2.1 with e | e
      · rcases s1.1 with e' | e'
        · exact Or.inl (by rw [e, e', hc])
        · exact Or.inr ⟨by rw [e, e'], by decide⟩
      · exact Or.inr ⟨e, by decide⟩
    · exact g2

theorem G_c2c (c : Cfg) (i : In) (s : St) (b : Int) (h : G s b) : G (c2c c i s) b := by
  unfold c2c
  split
  · exact h
  · rename_i hc
    have hc : s.cur = .c2 := by simpa using hc
    have hn : s.nxt = Stage.succ .c2 := by
      have := h.2.1; simpa [Inv, hc] using this
    obtain ⟨h1, h2, h3, h4⟩ := h
    unfold failStage
    repeat' split
    all_goals first
      | exact G_progress _ b ⟨h1, h2, h3, h4⟩ .c2 rfl hn (Or.inl hc)
      | simp_all [G, Inv]

theorem G_activate (s : St) (b : Int) (h : G s b) : G (activate s) b := by
  unfold activate
  split
  · exact h
  · rename_i hc
    have hc : s.cur = .activate := by simpa using hc
    obtain ⟨h1, h2, h3, h4⟩ := h
    have hn : s.nxt = .propagate := by simpa [Inv, hc, Stage.succ] using h2
    unfold progress
    repeat' split
    all_goals simp_all [G, Inv, Stage.succ, Stage.ofVal?, Stage.all, Stage.val]

theorem G_install (s : St) (b : Int) (h : G s b) : G (install s) b := by
  unfold install
  split
  · exact h
  · rename_i hc
    have hc : s.cur = .install := by simpa using hc
    obtain ⟨h1, h2, h3, h4⟩ := h
    have hn : s.nxt = .activate := by simpa [Inv, hc, Stage.succ] using h2
    unfold progress
    repeat' split
    all_goals simp_all [G, Inv, Stage.succ, Stage.ofVal?, Stage.all, Stage.val]

theorem G_downloadAct (s : St) (b : Int) (h : G s b) (hc : s.cur ≠ .propagate) : G (downloadAct s) b := by
  obtain ⟨h1, h2, h3, h4⟩ := h
  unfold downloadAct
  repeat' split
  all_goals simp_all [G, Inv]

theorem G_download (s : St) (b : Int) (h : G s b) : G (download s) b := by
  unfold download
  split
  · exact h
  · rename_i hc
    have hc : s.cur = .download := by simpa using hc
    have hn : s.nxt = Stage.succ .download := by
      have := h.2.1; simpa [Inv, hc] using this
    have s1 := soft_downloadAct s
    have g1 := G_downloadAct s b h (by simp [hc])
    unfold progressIfFinished
    split
    · refine G_progress _ b g1 .download rfl (by rw [s1.2, hn]) ?_
      rcases s1.1 with e | e
      · exact Or.inl (by rw [e, hc])
      · exact Or.inr ⟨e, by decide⟩
    · exact g1

theorem G_tapStart (s : St) (b : Int) (h : G s b) : G (tapStart s) b := by
  unfold tapStart
  split
  · exact h
  · obtain ⟨h1, h2, h3, h4⟩ := h
    simp_all [G, Inv, Stage.succ, Stage.ofVal?, Stage.all, Stage.val]

/-! ### `_propagate`: the scan handler reads `history[last_scan_timestep.pop()]` -/

theorem pyIndex_some {α} (l : List α) (x : Int) (h0 : 0 ≤ x) (hlt : x < l.length) : ∃ a, pyIndex l x = some a := by
  unfold pyIndex
  rw [if_pos h0]
  have : x.toNat < l.length := by omega
  exact ⟨l[x.toNat], by simp [this]⟩

/-- `err` and `lastScanTs` of the pieces of `_scan_handler` -/
theorem el_updateNextScanTarget (c : Cfg) (i : In) (e : Bool) (s : St) (hd : i.dScan < c.nAddr) :
    (updateNextScanTarget c i e s).err = s.err ∧ (updateNextScanTarget c i e s).lastScanTs = s.lastScanTs := by
  have hd' : i.dScan < c.addrs.length := hd
  unfold updateNextScanTarget
  repeat' split
  all_goals simp_all

theorem el_scanResponseHandler (c : Cfg) (i : In) (r : Resp) (s : St) (hd : i.dScan < c.nAddr) :
    (scanResponseHandler c i r s).err = s.err ∧ (scanResponseHandler c i r s).lastScanTs = s.lastScanTs := by
  unfold scanResponseHandler
  repeat' split
  all_goals first
    | exact ⟨rfl, rfl⟩
    | exact el_updateNextScanTarget c i _ _ hd

theorem el_scanMark (p : Hist) (s : St) : (scanMark p s).err = s.err ∧ (scanMark p s).lastScanTs = s.lastScanTs := by
  unfold scanMark; split <;> exact ⟨rfl, rfl⟩

theorem el_scanAbsorb (c : Cfg) (i : In) (p : Hist) (s : St) (hd : i.dScan < c.nAddr) :
    (scanAbsorb c i p s).err = s.err ∧ (scanAbsorb c i p s).lastScanTs = s.lastScanTs := by
  unfold scanAbsorb; split
  · exact el_scanResponseHandler c i _ s hd
  · exact ⟨rfl, rfl⟩

theorem el_scanDecide (c : Cfg) (s : St) :
    (scanDecide c s).1.err = s.err ∧ (scanDecide c s).1.lastScanTs = s.lastScanTs := by
  unfold scanDecide scanProgress scanAction scanLogic failStage
  repeat' split
  all_goals simp_all

theorem G_propagate (c : Cfg) (i : In) (s : St) (b b' : Int) (h : G s b) (hb : b ≤ s.hist.length) (hbb : b ≤ b')
    (hc0 : 0 ≤ s.curT) (hc1 : s.curT < b') (hd : i.dScan < c.nAddr) (hn0 : 0 < c.nAddr) : G (propagate c i s) b' := by
  unfold propagate
  split
  · exact G_mono s b b' h hbb
  · rename_i hc
    have hc : s.cur = .propagate := by simpa using hc
    have hn : s.nxt = Stage.succ .propagate := by
      have := h.2.1; simpa [Inv, hc] using this
    split
    · rename_i hp
      have soft := soft_scanHandler c i s
      have hne := h.2.2.1 hc hp
      have hsh : (scanHandler c i s).1.err = false ∧
          (scanHandler c i s).1.lastScanTs = s.lastScanTs.dropLast ++ [s.curT] := by
        unfold scanHandler
        cases hl : s.lastScanTs.getLast? with
        | none => simp_all
        | some ts =>
          have hm : ts ∈ s.lastScanTs := List.mem_of_getLast? hl
          have hts := h.2.2.2 ts hm
          obtain ⟨prev, hprev⟩ := pyIndex_some s.hist ts hts.1 (by omega)
          simp only [hprev]
          have e1 := el_scanDecide c (scanAbsorb c i prev (scanMark prev { s with lastScanTs := s.lastScanTs.dropLast ++ [s.curT] }))
          have e2 := el_scanAbsorb c i prev (scanMark prev { s with lastScanTs := s.lastScanTs.dropLast ++ [s.curT] }) hd
          have e3 := el_scanMark prev { s with lastScanTs := s.lastScanTs.dropLast ++ [s.curT] }
          exact ⟨by rw [e1.1, e2.1, e3.1]; exact h.1, by rw [e1.2, e2.2, e3.2]⟩
      have g1 : G { (scanHandler c i s).1 with prog := (scanHandler c i s).2 } b' := by
        refine ⟨hsh.1, ?_, ?_, ?_⟩
        · show _ ∨ _
          rcases soft.1 with e | e
          · right; show (scanHandler c i s).1.nxt = Stage.succ (scanHandler c i s).1.cur
            rw [soft.2, e, hc, hn]
          · left; exact e
        · intro _ _; show (scanHandler c i s).1.lastScanTs ≠ []
          rw [hsh.2]; simp
        · intro x hx
          have hx : x ∈ (scanHandler c i s).1.lastScanTs := hx
          rw [hsh.2] at hx
          rcases List.mem_append.1 hx with hx | hx
          · have := h.2.2.2 x ((List.dropLast_sublist _).subset hx); omega
          · have : x = s.curT := by simpa using hx
            omega
      unfold progressIfFinished
      split
      · refine G_progress _ b' g1 .propagate rfl ?_ ?_
        · show (scanHandler c i s).1.nxt = _
          rw [soft.2, hn]
        · show (scanHandler c i s).1.cur = _ ∨ ((scanHandler c i s).1.cur = _ ∧ _)
          rcases soft.1 with e | e
          · exact Or.inl (by rw [e, hc])
          · exact Or.inr ⟨e, by decide⟩
      · exact g1
    · rename_i hp
      obtain ⟨h1, h2, h3, h4⟩ := h
      have hn0' : 0 < c.addrs.length := hn0
      split
      · unfold propagateFirstScan propagatePrep propagateReset
        have : ∃ a, c.addrs[0]? = some a := ⟨c.addrs[0], by simp [hn0']⟩
        obtain ⟨a, ha⟩ := this
        simp only [ha]
        split
        · refine ⟨h1, ?_, ?_, ?_⟩
          · exact h2
          · intro _ _; simp
          · intro x hx
            have : x = s.curT := by simpa using hx
            omega
        · refine ⟨h1, h2, ?_, ?_⟩
          · intro _ _; simp
          · intro x hx
            have hx : x ∈ s.lastScanTs ++ [s.curT] := hx
            rcases List.mem_append.1 hx with hx | hx
            · have := h4 x hx; omega
            · have : x = s.curT := by simpa using hx
              omega
      · unfold failStage
        split
        · exact G_mono _ b b' ⟨h1, h2, fun _ hq => absurd hq hp, h4⟩ hbb
        · exact G_mono _ b b' ⟨h1, Or.inl rfl, (fun (hq : Stage.failed = Stage.propagate) => absurd hq (by decide)), h4⟩ hbb

/-! ### `get_action`, `step`, runs -/

/-- **The no-raise invariant of TAP001** before tick `t`: the reachable-state facts `WF` (stage/next-stage coupling,
`0 ≤ variance`, `0 ≤ current_timestep ≤ t`, no error), a non-empty `network_addresses`, alive, one history item per
tick, and `G`: a scan in progress has a remembered timestamp and every remembered timestamp indexes the history. -/
structure NR1 (c : Cfg) (s : St) (t : Int) : Prop where
  wf : WF c s t
  nAddr : 0 < c.nAddr
  dead : s.dead = false
  hlen : (s.hist.length : Int) = t
  g : G s t

theorem G_mainPath (c : Cfg) (s : St) (t : Int) (i : In) (hv : 0 ≤ c.variance) (h : G s t) (ht : 0 ≤ t)
    (hl : (s.hist.length : Int) = t) (hd : i.dScan < c.nAddr) (hn0 : 0 < c.nAddr) : G (mainPath c s t i) (t + 1) := by
  unfold mainPath bodies
  have g0 := G_outcomeHandler c _ t (G_setNext c { s with curT := t } t (t + c.frequency) i.d1 hv (G_curT s t t h))
  have g1 := G_c2c c i _ t (G_payload c i _ t g0)
  have g2 := G_propagate c i _ t (t + 1) g1
    (by simp only [hs_c2c, hs_payload, hs_outcomeHandler, hs_setNext]; omega) (by omega)
    (by simp only [ct_c2c, ct_payload, ct_outcomeHandler, ct_setNext]; exact ht)
    (by simp only [ct_c2c, ct_payload, ct_outcomeHandler, ct_setNext]; omega) hd hn0
  exact G_tapStart _ _ (G_download _ _ (G_install _ _ (G_activate _ _ g2)))

theorem G_failPath (c : Cfg) (s : St) (t : Int) (i : In) (hv : 0 ≤ c.variance) (h : G s t) :
    G (failPath c s t i) (t + 1) := by
  unfold failPath
  refine G_mono _ t _ ?_ (by omega)
  exact G_setNext c _ t _ _ hv (G_curT _ t t (G_outcomeHandler c _ t (G_setNext c s t _ _ hv h)))

theorem G_getAction (c : Cfg) (s : St) (t : Int) (i : In) (h : NR1 c s t) (hd : i.dScan < c.nAddr) :
    G (getAction c s t i).1 (t + 1) := by
  unfold getAction
  split
  · exact G_mono _ t _ h.g (by omega)
  · obtain ⟨x, hx⟩ := lookBack_some s h.wf.curT
    simp only [hx]
    have gr := G_returnHandler c x s t h.g
    by_cases hp : passes c x (returnHandler c x s) = true
    · rw [if_pos hp]
      have hl : (((returnHandler c x s).hist.length : Nat) : Int) = t := by rw [hs_returnHandler]; exact h.hlen
      have := G_mainPath c (returnHandler c x s) t i h.wf.var gr h.wf.tpos hl hd h.nAddr
      generalize mainPath c (returnHandler c x s) t i = m at this ⊢
      exact this
    · rw [if_neg hp]
      have := G_failPath c (returnHandler c x s) t i h.wf.var gr
      generalize failPath c (returnHandler c x s) t i = m at this ⊢
      exact this

/-- One tick preserves the invariant and does not raise. -/
theorem nr1_step (c : Cfg) (s : St) (t : Int) (i : In) (h : NR1 c s t) (hd : i.dScan < c.nAddr) :
    NR1 c (step c s t i).1 (t + 1) ∧ (step c s t i).2 ≠ .raised := by
  have hg := G_getAction c s t i h hd
  have hw := wf_step c s t i h.wf
  have hh := getAction_hist c s t i
  have hdd := getAction_dead c s t i
  have he : (getAction c s t i).1.err = false := hg.1
  unfold step at hw ⊢
  rw [if_neg (by simp [h.dead])] at hw ⊢
  rw [if_neg (by simp [he])] at hw ⊢
  refine ⟨⟨hw, h.nAddr, ?_, ?_, ?_⟩, by simp⟩
  · show (getAction c s t i).1.dead = false
    rw [hdd]; exact h.dead
  · show (((getAction c s t i).1.hist ++ [_]).length : Int) = t + 1
    rw [hh, List.length_append]
    have := h.hlen
    simp only [List.length_cons, List.length_nil]
    omega
  · exact hg

theorem nr1_init (c : Cfg) (d0 : Int) (k1 k2 : Nat) (s0 : St) (h0 : init c d0 k1 k2 = some s0) : NR1 c s0 0 := by
  have hw := wf_init c d0 k1 k2 s0 h0
  unfold init at h0
  split at h0
  · rename_i hv
    cases h0
    exact ⟨hw, hv.2.1, rfl, rfl, rfl, Or.inr rfl, (fun _ hq => by cases hq), (fun x hx => by cases hx)⟩
  · cases h0

theorem run_nr1 (c : Cfg) : ∀ (ins : List In) (s : St) (t : Int), NR1 c s t → (∀ i ∈ ins, i.dScan < c.nAddr) →
    (∀ o ∈ runOut c s t ins, o.2 ≠ .raised) ∧ NR1 c (after c s t ins) (t + ins.length) := by
  intro ins
  induction ins with
  | nil => intro s t h _; simpa [runOut, after] using h
  | cons i is ih =>
    intro s t h hd
    have hs := nr1_step c s t i h (hd i (List.mem_cons_self ..))
    have := ih _ _ hs.1 (fun j hj => hd j (List.mem_cons_of_mem _ hj))
    simp only [runOut, after, List.length_cons]
    have e : t + ((is.length + 1 : Nat) : Int) = t + 1 + (is.length : Int) := by omega
    rw [e]
    refine ⟨?_, this.2⟩
    intro o ho
    rcases List.mem_cons.1 ho with ho | ho
    · rw [ho]; exact hs.2
    · exact this.1 o ho

/-- **A constructed TAP001 never raises**: for every configuration the constructor accepts, every input list fed at
ticks 0,1,2,… whose `repeat_scan` draws are in the range of `randint(0, len(network_addresses)-1)` and whose successful
scan responses are well-shaped (`RunScanSimOk`), no tick's outcome is `raised`, the agent stays alive and the no-raise
invariant holds at the end.

What remains assumed: the abstraction of `response.data` to the three Booleans of `Resp` is total exactly on `ScanSimOk`
data; pydantic's `data: dict` typing of `RequestResponse`.  (The model's `Resp` cannot express a malformed answer, so
the proof uses only `dScan < nAddr` of `RunScanSimOk`.) -/
theorem C19_tap1_validated_never_raises_sim (c : Cfg) (d0 : Int) (k1 k2 : Nat) (s0 : St) (ins : List In)
    (h0 : init c d0 k1 k2 = some s0) (hsim : RunScanSimOk c ins) :
    (∀ o ∈ runOut c s0 0 ins, o.2 ≠ .raised) ∧ (after c s0 0 ins).dead = false ∧
    NR1 c (after c s0 0 ins) (ins.length) := by
  have := run_nr1 c ins s0 0 (nr1_init c d0 k1 k2 s0 h0) (fun i hi => (hsim i hi).1)
  rw [Int.zero_add] at this
  exact ⟨this.1, this.2.dead, this.2⟩

/-- Non-vacuity: the example configuration is constructed, its 20 inputs satisfy `RunScanSimOk` (the response is the
abstraction of `{target: {"tcp": [5432]}}`), the run walks PROPAGATE (the scan handler reads the history) and no tick
raises. -/
example : ∃ s0, init exCfg 0 0 0 = some s0 ∧ RunScanSimOk exCfg (List.replicate 20 exIn) ∧
    (runOut exCfg s0 0 (List.replicate 20 exIn)).all (fun o => o.2 != .raised) = true ∧
    ((run exCfg s0 0 (List.replicate 20 exIn)).map (·.cur)).contains .propagate = true := by
  refine ⟨_, rfl, ?_, ?_, ?_⟩
  · intro i hi
    have : i = exIn := List.eq_of_mem_replicate hi
    subst this
    refine ⟨by decide, fun _ => ⟨"t", .ports [("t", [("tcp", [5432])])], ?_, ?_⟩⟩
    · intro h; cases h
    · decide
  · decide
  · decide

end Tap1
end Primaite.Agents
