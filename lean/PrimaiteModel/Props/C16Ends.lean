/-
C16 — which session-ending event works in which service state (class of seeded change C16-e and of finding F-C16-b / F-47).

    event                                   needs                                          theorem
    --------------------------------------  ---------------------------------------------  ------------------------------------------
    inactivity time-out (remote, local)     NOTHING: any power state of the node, any      C16_session_ends_at_timeout,
                                            state of user-session-manager / user-manager   C16_local_session_ends_at_timeout,
                                            / terminal                                     C16_timed_out_session_runs_nothing
    change_password (ends all the user's    node ON ∧ user-manager RUNNING ∧ old password  C16_password_change_works_iff,
    sessions, forced)                       (NOT: user-session-manager, terminal)          C16_password_change_ends_sessions (Props/C16)
    direct remote_logout request            node ON ∧ user-session-manager RUNNING         C16_direct_logout_iff, C16_direct_logout_ends_session
    local logout                            node ON ∧ user-session-manager RUNNING         C16_local_logout_iff
    client remote_logoff (message reaches   target: user-session-manager RUNNING, else     C16_remote_logout_hop_needs_manager,
    the target)                             the session STAYS listed until its time-out    C16_remote_logout_hop_ends_session
                                            — but the target's connection is dropped        (+ kernel-evaluated rows below)

The time-out is the only ending event that needs no service at all: `_timeout_session` edits the tables itself and never goes through
`_logout` / `_can_perform_action` (`C16_gen_timeout_path`), and `Node.pre_timestep` hands every service its `pre_timestep` whatever
the node's or the service's state.
-/
import PrimaiteModel.Props.C16Chain
namespace Primaite.Session

/-! ### translator tie -/

set_option maxRecDepth 16384 in
/-- **C16, the time-out path is the forced one.** `_timeout_session` as written: for a local session `self.local_session = None`, for
a remote one `remote_sessions.pop`, `terminal._connections.pop(…, None)` and the `user_timeout` message — its only calls are these
(and the log line): no `_logout`, no `_can_perform_action`, so the state of the service cannot stop it; `pre_timestep` decides and
calls nothing but `_timeout_session`; `Node.pre_timestep` calls the `pre_timestep` of every service unconditionally; the only
non-forced `_logout` calls are the ones behind `local_logout` / `remote_logout`, the forced ones those of `_logout_user`. -/
theorem C16_gen_timeout_path :
    Gen.Session.timeoutSessionBody =
      ["session.end_step = self.current_timestep", "session_identity = session.user.username", "if session.local:",
       "self.local_session = None", "session_type = 'Local'", "else:", "self.remote_sessions.pop(session.uuid)",
       "session_type = 'Remote'", "session_identity = f'{session_identity} {session.remote_ip_address}'",
       "self.parent.terminal._connections.pop(session.uuid, None)", "software_manager: SoftwareManager = self.software_manager",
       "software_manager.send_payload_to_session_manager(payload={'type': 'user_timeout', 'connection_id': session.uuid}, dest_port=PORT_LOOKUP['SSH'], dest_ip_address=session.remote_ip_address)"] ∧
    Gen.Session.timeoutSessionCalls =
      ["self.parent.terminal._connections.pop", "self.remote_sessions.pop", "self.sys_log.info",
       "software_manager.send_payload_to_session_manager"] ∧
    Gen.Session.nodePreTimestep =
      ["super().pre_timestep(timestep)", "for network_interface in self.network_interfaces.values():",
       "network_interface.pre_timestep(timestep=timestep)", "for process_id in self.processes:",
       "self.processes[process_id].pre_timestep(timestep=timestep)", "for service_id in self.services:",
       "self.services[service_id].pre_timestep(timestep=timestep)", "for application_id in self.applications:",
       "self.applications[application_id].pre_timestep(timestep=timestep)", "self.file_system.pre_timestep(timestep=timestep)"] ∧
    Gen.Session.logoutCalls =
      ["_init_request_manager: self.remote_logout(remote_session_id=request[0])", "_login: self.local_logout()",
       "local_logout: self._logout(local=True)", "remote_logout: self._logout(local=False, remote_session_id=remote_session_id)",
       "_logout_user: self._logout(local=False, remote_session_id=sess_id, force=True)",
       "_logout_user: self._logout(local=True, force=True)"] := by
  decide

/-! ### row 1: the inactivity time-out needs nothing -/

/-- neither a session nor a terminal connection with this id -/
def Node.gone (a : Node) (cid : Nat) : Prop := a.hasSession cid = false ∧ a.hasConn cid = false

theorem hasConn_iff (b : Node) (cid : Nat) : b.hasConn cid = true ↔ cid ∈ b.conns.map (·.id) := by
  unfold Node.hasConn
  simp only [List.any_eq_true, beq_iff_eq, List.mem_map]

theorem noConn_of_shr {a1 a : Node} (h : a1.Shr a) (cid : Nat) (h1 : a1.hasConn cid = false) : a.hasConn cid = false := by
  cases h2 : a.hasConn cid with
  | false => rfl
  | true =>
    have := (hasConn_iff a cid).mp h2
    have := (hasConn_iff a1 cid).mpr ((h.conns.map _).subset this)
    rw [this] at h1; cases h1

theorem gone_of_shr {a1 a : Node} (h : a1.Shr a) (cid : Nat) (h1 : a1.gone cid) : a.gone cid :=
  ⟨noSession_of_shr h cid h1.1, noConn_of_shr h cid h1.2⟩

theorem dropConn_noConn (a : Node) (cid : Nat) : (a.dropConn cid).hasConn cid = false := by
  unfold Node.dropConn Node.hasConn
  simp only [List.any_eq_false, List.mem_filter, bne_iff_ne, ne_eq, beq_iff_eq, and_imp]
  intro s _ h; exact h

theorem timeoutRemote_gone (m : Net) (y : Nat) (s : RSession) (a : Node) (ha : (timeoutRemote m y s).node y = some a) :
    a.gone s.id := by
  have key : ∀ a1, (m.upd y (fun nd => (nd.dropSession s.id).dropConn s.id)).node y = some a1 → a1.gone s.id := by
    intro a1 h1
    simp only [node_upd, if_true] at h1
    cases h : m.node y with
    | none => rw [h] at h1; cases h1
    | some a0 =>
      rw [h] at h1; simp only [Option.map_some, Option.some.injEq] at h1; subst h1
      exact ⟨noSession_of_shr (shr_dropConn s.id _) _ (dropSession_noSession a0 s.id), dropConn_noConn _ s.id⟩
  unfold timeoutRemote at ha
  dsimp only at ha
  split at ha
  · obtain ⟨a1, ha1, hs⟩ := (shr_upd _ s.peer _ (shr_dropConn s.id)).back ha
    exact gone_of_shr hs _ (key a1 ha1)
  · exact key a ha

theorem foldl_timeout_gone (l : List RSession) (m : Net) (y : Nat) :
    ∀ s ∈ l, ∀ a, (l.foldl (fun m s => timeoutRemote m y s) m).node y = some a → a.gone s.id := by
  induction l generalizing m with
  | nil => intro s h; cases h
  | cons c t ih =>
    intro s hs a ha
    simp only [List.foldl_cons] at ha
    rcases List.mem_cons.mp hs with rfl | hs
    · have hshr := shr_foldl (fun m s => timeoutRemote m y s) (fun m s => shr_timeoutRemote m y s) t (timeoutRemote m y s)
      obtain ⟨a1, ha1, h1⟩ := hshr.back ha
      exact gone_of_shr h1 _ (timeoutRemote_gone m y s a1 ha1)
    · exact ih _ s hs a ha

theorem foldl_pre_gone (l : List Nat) (y : Nat) (s : RSession) (T rt : Nat) (hexp : s.last + rt ≤ T) :
    ∀ m : Net, m.time = T → (∀ bm, m.node y = some bm → bm.remoteTimeout = rt ∧ (s ∈ bm.rem ∨ bm.gone s.id)) → y ∈ l →
      ∀ a, (l.foldl preTimestepNode m).node y = some a → a.gone s.id := by
  induction l with
  | nil => intro m _ _ h; cases h
  | cons j t ih =>
    intro m hT hrt hy a ha
    simp only [List.foldl_cons] at ha
    have hrest := shr_foldl preTimestepNode shr_preTimestepNode t (preTimestepNode m j)
    obtain ⟨a1, ha1, h1⟩ := hrest.back ha
    obtain ⟨bm, hbm, h0⟩ := (shr_preTimestepNode m j).back ha1
    obtain ⟨hto, hcase⟩ := hrt bm hbm
    by_cases hj : j = y
    · subst hj
      refine gone_of_shr h1 _ ?_
      rcases hcase with hmem | hgone
      · unfold preTimestepNode at ha1
        simp only [hbm] at ha1
        exact foldl_timeout_gone _ _ j s (List.mem_filter.mpr ⟨hmem, by rw [hto, hT]; simpa using hexp⟩) a1 ha1
      · exact gone_of_shr h0 _ hgone
    · have hy' : y ∈ t := by
        rcases List.mem_cons.mp hy with h | h
        · exact (hj h.symm).elim
        · exact h
      refine ih (preTimestepNode m j) ((shr_preTimestepNode m j).time.trans hT) ?_ hy' a ha
      intro b1 hb1
      obtain ⟨bm', hbm', h0'⟩ := (shr_preTimestepNode m j).back hb1
      obtain ⟨hto', hcase'⟩ := hrt bm' hbm'
      refine ⟨by rw [h0'.remoteTimeout]; exact hto', ?_⟩
      -- the `pre_timestep` of another node leaves the remote sessions of `y` alone
      obtain ⟨a2, ha2, hr2, _⟩ := preTimestepNode_rem_other m j y hj bm' hbm'
      rw [hb1] at ha2; cases ha2
      rcases hcase' with hmem | hgone
      · exact Or.inl (hr2 ▸ hmem)
      · exact Or.inr (gone_of_shr h0' _ hgone)

/-- **C16, time-out (the ending event that needs nothing).** Whatever the power state of node `y` and whatever the operating states
of its user-session-manager, user-manager and terminal (nothing about them is assumed): a remote session with
`last + remote_session_timeout_steps ≤ t + 1` is, after the tick to `t + 1`, neither a remote session of `y` nor a connection of
`y`'s terminal (no record with that id is left in either table). -/
theorem C16_session_ends_at_timeout (n : Net) (y : Nat) (b : Node) (s : RSession) (hb : n.node y = some b) (hs : s ∈ b.rem)
    (hexp : s.last + b.remoteTimeout ≤ n.time + 1) :
    ∃ a, (tick n).node y = some a ∧ a.hasSession s.id = false ∧ a.hasConn s.id = false := by
  obtain ⟨a, ha⟩ : ∃ a, (tick n).node y = some a := by
    have := step_node_some n .tick y b hb; simpa [step] using this
  refine ⟨a, ha, ?_⟩
  unfold tick at ha
  dsimp only at ha
  refine foldl_pre_gone _ y s (n.time + 1) b.remoteTimeout hexp _ rfl ?_ ?_ a ha
  · intro bm hbm
    simp only [Net.node, List.getElem?_map] at hbm hb
    rw [hb] at hbm
    simp only [Option.map_some, Option.some.injEq] at hbm
    subst hbm
    have hd := applyTimestep_data b
    exact ⟨data_remoteTimeout hd, Or.inl (by rw [data_rem hd]; exact hs)⟩
  · simp only [List.length_map, List.mem_range]
    exact node_some_lt hb

/-- … the same for the local session, against `local_session_timeout_steps`, in every service state. -/
theorem C16_local_session_ends_at_timeout (n : Net) (y : Nat) (b : Node) (l : LSession) (hb : n.node y = some b)
    (hl : b.loc = some l) (hexp : l.last + b.localTimeout ≤ n.time + 1) : ∃ a, (tick n).node y = some a ∧ a.loc = none := by
  obtain ⟨a, ha, _, hloc⟩ := C16_local_timeout_exact n y b hb l hl
  exact ⟨a, ha, by rw [hloc, if_pos hexp]⟩

/-- … and for ever after: whatever operations follow the tick (services started again, new logins, anything), a remote command
sent on a connection that carries the timed-out id is never accepted — nothing but sessions / connections being torn down happens
and the answer is not `success`.  (`s.id < nextId`: the id has been handed out, true in every reachable state, `C16_fresh_ids_run`.) -/
theorem C16_timed_out_session_runs_nothing (n : Net) (y : Nat) (b : Node) (s : RSession) (hb : n.node y = some b) (hs : s ∈ b.rem)
    (hid : s.id < n.nextId) (hexp : s.last + b.remoteTimeout ≤ n.time + 1) (ops : List Op) (x : Nat) (c : Cmd) (a : Node) (cn : Conn)
    (hx : (run (tick n) ops).node x = some a) (hc : a.conns.find? (fun c => c.peer == some y) = some cn) (hcid : cn.id = s.id) :
    (run (tick n) ops).Shr (step (run (tick n) ops) (.req x (.remoteCmd y c))).1 ∧
    (step (run (tick n) ops) (.req x (.remoteCmd y c))).2 ≠ .success := by
  have hd : Dead y s.id (tick n) := by
    refine ⟨by rw [tick_nextId]; exact hid, fun a' ha' => ?_⟩
    obtain ⟨a0, ha0, h1, _⟩ := C16_session_ends_at_timeout n y b s hb hs hexp
    rw [ha'] at ha0; cases ha0; exact h1
  exact C16_command_on_ended_session_changes_nothing ops (tick n) y s.id hd x c a cn hx hc hcid

/-! ### row 2: a password change needs the user-manager only -/

/-- **C16, password change (when it works).** The request is answered `success` — and then ends every session of the user, forced,
`C16_password_change_ends_sessions` — iff the node is ON, its user-manager is RUNNING, the account exists and the old password is
right.  The states of the user-session-manager and of the terminal play no part. -/
theorem C16_password_change_works_iff (n : Net) (y : Nat) (u old new : String) :
    (step n (.req y (.changePassword u old new))).2 = .success ↔
      ∃ b w, n.node y = some b ∧ b.isOn = true ∧ b.um.running = true ∧ b.findUser u = some w ∧ w.password = old := by
  simp only [step, execCmd]
  constructor
  · intro h
    rcases opChangePassword_cases n y u old new with ⟨_, h0⟩ | ⟨nd, w, hnd, hon, hum, hw, hp, _, _⟩
    · exact (h0 h).elim
    · refine ⟨nd, w, hnd, hon, ?_, hw, hp⟩
      simp only [Node.canUm, Bool.and_eq_true] at hum; exact hum.2
  · rintro ⟨b, w, hb, hon, hum, hw, hp⟩
    unfold opChangePassword
    simp [hb, hon, Node.canUm, hum, hw, hp]

/-! ### rows 3–5: the logouts need a running user-session-manager -/

/-- **C16, direct logout (when it works).** `user-session-manager remote_logout` of the `i`-th session: answered `success` iff the
node is ON, its user-session-manager RUNNING and there is such a session; otherwise NOTHING changes (in particular while the service
is stopped / paused / restarting the session stays listed, until its time-out or a password change). -/
theorem C16_direct_logout_iff (n : Net) (y i : Nat) (b : Node) (hb : n.node y = some b) :
    ((step n (.req y (.usmLogout i))).2 = .success ↔ (b.isOn = true ∧ b.usm.running = true ∧ ∃ s, b.rem[i]? = some s ∧
        ∀ a, (disconnect n.fuel n y s.id).node y = some a → a.hasSession s.id = true)) ∧
    ((b.isOn = false ∨ b.usm.running = false) → (step n (.req y (.usmLogout i))).1 = n) := by
  simp only [step, execCmd]
  constructor
  · unfold opUsmLogout
    simp only [hb]
    cases hon : b.isOn with
    | false => simp
    | true =>
      cases hus : b.usm.running with
      | false => simp [Node.canUsm, hon, hus]
      | true =>
        simp only [Bool.not_true, Bool.false_eq_true, if_false, Node.canUsm, hon, hus, Bool.and_self, true_and]
        cases hs : b.rem[i]? with
        | none => simp
        | some s =>
          simp only [Option.some.injEq, exists_eq_left']
          obtain ⟨a, ha, _⟩ := (shr_disconnect n.fuel n y s.id).node y b hb
          simp only [ha, Option.some.injEq, forall_eq']
          cases a.hasSession s.id <;> simp [boolOut]
  · intro h
    rcases opUsmLogout_cases n y i with ⟨h0, _⟩ | ⟨nd, s, hnd, hcan, _, _⟩
    · exact h0
    · rw [hb] at hnd; cases hnd
      simp only [Node.canUsm, Bool.and_eq_true] at hcan
      rcases h with h | h
      · rw [hcan.1] at h; cases h
      · rw [hcan.2] at h; cases h

/-- … and when it works the session is gone from the list of `y`. -/
theorem C16_direct_logout_ends_session (n : Net) (y i : Nat) (b : Node) (s : RSession) (hb : n.node y = some b)
    (hcan : b.canUsm = true) (hs : b.rem[i]? = some s) :
    ∃ a, (step n (.req y (.usmLogout i))).1.node y = some a ∧ a.hasSession s.id = false := by
  have hon : b.isOn = true := by simp only [Node.canUsm, Bool.and_eq_true] at hcan; exact hcan.1
  have hres : (step n (.req y (.usmLogout i))).1 = (disconnect n.fuel n y s.id).upd y (Node.dropSession s.id) := by
    simp only [step, execCmd, opUsmLogout, hb, hon, hcan, hs, Bool.not_true, Bool.false_eq_true, if_false]
  rw [hres]
  obtain ⟨a0, ha0, _⟩ := (shr_disconnect n.fuel n y s.id).node y b hb
  exact ⟨a0.dropSession s.id, by simp [ha0], dropSession_noSession a0 s.id⟩

/-- **C16, local logout (when it works).** `Node.local_logout`: the local session ends iff the node is ON and its
user-session-manager RUNNING (and somebody is logged in); otherwise nothing changes. -/
theorem C16_local_logout_iff (n : Net) (y : Nat) (b : Node) (hb : n.node y = some b) :
    ((step n (.localLogout y)).2 = .success ↔ (b.isOn = true ∧ b.usm.running = true ∧ b.loc.isSome = true)) ∧
    ((step n (.localLogout y)).2 = .success → ∃ a, (step n (.localLogout y)).1.node y = some a ∧ a.loc = none) ∧
    ((step n (.localLogout y)).2 ≠ .success → (step n (.localLogout y)).1 = n) := by
  simp only [step, opLocalLogout, hb, Node.canUsm]
  by_cases hon : b.isOn = true <;> by_cases hus : b.usm.running = true <;> by_cases hl : b.loc.isSome = true <;>
    simp [Node.localLogout, Node.canUsm, hon, hus, hl, hb, Node.clearLoc]

/-- **C16, client logoff at the target (the `remote_logout` hop).** When the client's disconnect message has reached the target and
the target has dropped its own connection, `UserSessionManager.remote_logout` runs NOT forced: with the user-session-manager not
RUNNING (or the node not ON) it does nothing — the session stays listed until its time-out … -/
theorem C16_remote_logout_hop_needs_manager (f : Nat) (n : Net) (j cid : Nat) (b : Node) (hb : n.node j = some b)
    (h : b.canUsm = false) : chain (f + 1) .remoteLogout n j cid = n := by
  unfold chain
  simp [hb, h]

/-- … and with the manager RUNNING the session is removed from the target's list. -/
theorem C16_remote_logout_hop_ends_session (f : Nat) (n : Net) (j cid : Nat) (b : Node) (hb : n.node j = some b)
    (h : b.canUsm = true) : ∃ a, (chain (f + 1) .remoteLogout n j cid).node j = some a ∧ a.hasSession cid = false := by
  unfold chain
  simp only [hb, h, if_true]
  obtain ⟨a0, ha0, _⟩ := (shr_chain f .disconnect n j cid).node j b hb
  exact ⟨a0.dropSession cid, by simp [ha0], dropSession_noSession a0 cid⟩

/-! ### the table, row by row, evaluated by the kernel on the model (target = node 1, one session 0 → 1, remote time-out 2) -/

def stopUsm : Op := .req 1 (.svc .sessionManager .stop)
def pauseUsm : Op := .req 1 (.svc .sessionManager .pause)
def restartUsm : Op := .req 1 (.svc .sessionManager .restart)
def disableUsm : Op := .req 1 (.svc .sessionManager .disable)

-- time-out: the session ends with the user-session-manager STOPPED / PAUSED / RESTARTING / DISABLED, with the terminal stopped, with
-- the user-manager stopped, and with the node shutting down
example : ((run demoNet [login01, stopUsm, .tick, .tick]).node 1).map (fun b => (b.rem.length, b.conns.length)) = some (0, 0) := by decide
example : ((run demoNet [login01, pauseUsm, .tick, .tick]).node 1).map (fun b => (b.rem.length, b.conns.length)) = some (0, 0) := by decide
example : ((run demoNet [login01, restartUsm, .tick, .tick]).node 1).map (fun b => (b.rem.length, b.conns.length)) = some (0, 0) := by decide
example : ((run demoNet [login01, disableUsm, .tick, .tick]).node 1).map (fun b => (b.rem.length, b.conns.length)) = some (0, 0) := by decide
example : ((run demoNet [login01, .req 1 (.svc .terminal .stop), .req 1 (.svc .userManager .stop), .tick, .tick]).node 1).map
    (fun b => (b.rem.length, b.conns.length)) = some (0, 0) := by decide
example : ((run demoNet [login01, .req 1 .shutdown, .tick, .tick]).node 1).map (fun b => (b.rem.length, b.power == .on)) = some (0, false) := by
  decide
-- … and a command on the old connection after the service is started again is refused (seeded change C16-e ran it)
example : (step (run demoNet [login01, stopUsm, .tick, .tick, .req 1 (.svc .sessionManager .start)]) (cmd01 (.file 4))).2 = .failure := by
  decide
-- password change: works with the user-session-manager stopped; does not work with the user-manager stopped
example : ((run demoNet [login01, stopUsm, chpw1]).node 1).map (·.rem.length) = some 0 := by decide
example : ((run demoNet [login01, .req 1 (.svc .userManager .stop), chpw1]).node 1).map (·.rem.length) = some 1 := by decide
-- direct logout: refused while the user-session-manager is stopped, the session stays
example : (step (run demoNet [login01, stopUsm]) (.req 1 (.usmLogout 0))).2 = .failure ∧
    ((run demoNet [login01, stopUsm, .req 1 (.usmLogout 0)]).node 1).map (·.rem.length) = some 1 := by decide
-- client logoff while the target's user-session-manager is stopped: the session stays LISTED, but both connections are gone, so no
-- command can be sent on it; it ends at its time-out
example : ((run demoNet [login01, stopUsm, .req 0 (.remoteLogoff 1)]).node 1).map (fun b => (b.rem.length, b.conns.length)) = some (1, 0) ∧
    ((run demoNet [login01, stopUsm, .req 0 (.remoteLogoff 1)]).node 0).map (·.conns.length) = some 0 ∧
    ((run demoNet [login01, stopUsm, .req 0 (.remoteLogoff 1), .tick, .tick]).node 1).map (·.rem.length) = some 0 := by decide

/-! ### the password twin of `C16_disabled_stays_disabled` -/

/-- no `change_password` for account `u` anywhere in the command (at any nesting depth, whatever node it would run on) -/
def Cmd.noChpw (u : String) : Cmd → Bool
  | .changePassword v _ _ => v != u
  | .localCmd _ _ c | .remoteCmd _ c => c.noChpw u
  | _ => true

def Op.noChpw (u : String) : Op → Bool
  | .req _ c => c.noChpw u
  | _ => true

/-- node `j`: if it is node `y`, the account `u` is still there with the same password -/
def KeepPw (y : Nat) (u : String) : Nat → Node → Node → Prop := fun j a b =>
  j = y → ∀ w, a.findUser u = some w → ∃ w', b.findUser u = some w' ∧ w'.password = w.password

theorem keepPw_frame (y : Nat) (u : String) : Frame (KeepPw y u) :=
  { refl := fun _ _ _ w hw => ⟨w, hw, rfl⟩,
    trans := fun _ _ _ _ h1 h2 hj w hw => by
      obtain ⟨w1, hw1, hp1⟩ := h1 hj w hw
      obtain ⟨w2, hw2, hp2⟩ := h2 hj w1 hw1
      exact ⟨w2, hw2, hp2.trans hp1⟩,
    shr := fun _ a b h _ w hw => ⟨w, by unfold Node.findUser at hw ⊢; rw [h.users]; exact hw, rfl⟩,
    data := fun _ a b h _ w hw => ⟨w, by unfold Node.findUser at hw ⊢; rw [data_users h]; exact hw, rfl⟩ }

/-- an edit of one account's entry that keeps names, and keeps the password unless it is another account's entry -/
theorem keepPw_upd (y : Nat) (u u' : String) (f : User → User) (hn : ∀ v, (f v).name = v.name)
    (hp : u' = u → ∀ v, (f v).password = v.password) (j : Nat) (a a' : Node) (ha' : a'.users = updUser a.users u' f) :
    KeepPw y u j a a' := by
  intro _ w hw
  unfold Node.findUser at hw ⊢
  rw [ha']
  by_cases huu : u' = u
  · subst huu
    exact ⟨f w, by rw [find_updUser _ _ _ hn, hw]; rfl, hp rfl w⟩
  · exact ⟨w, by rw [find_updUser_other _ _ _ _ hn huu]; exact hw, rfl⟩

theorem keepPw_addUser (y : Nat) (u : String) (j : Nat) (a : Node) (w0 : User) : KeepPw y u j a (a.addUser w0) := by
  intro _ w hw
  exact ⟨w, by unfold Node.findUser at hw ⊢; exact find_append_of_some hw _, rfl⟩

/-- every request that contains no `change_password` for `u` keeps the password of `u` on `y` (induction over nested commands) -/
theorem exec_keepPw (y : Nat) (u : String) : ∀ (c : Cmd), c.noChpw u = true → ∀ (n : Net) (x : Nat), Net.Rel (KeepPw y u) n (execCmd c n x).1 := by
  have F := keepPw_frame y u
  have same : ∀ j (a b : Node), b.users = a.users → KeepPw y u j a b := fun j a b h _ w hw =>
    ⟨w, by unfold Node.findUser at hw ⊢; rw [h]; exact hw, rfl⟩
  intro c
  induction c with
  | file k => intro _ n x; exact F.toPre.file n x k (fun a => same x a _ rfl)
  | addUser v p adm => intro _ n x; exact F.toPre.addUser n x v p adm (fun a w0 => keepPw_addUser y u x a w0)
  | disableUser v =>
    intro _ n x
    exact F.toPre.disableUser n x v (fun a => keepPw_upd y u v (fun w => { w with disabled := true }) (fun _ => rfl) (fun _ _ => rfl) x a _ rfl)
  | changePassword v o nw =>
    intro h n x
    have hne : v ≠ u := by simpa [Cmd.noChpw] using h
    exact F.changePassword n x v o nw
      (fun a => keepPw_upd y u v (fun w => { w with password := nw }) (fun _ => rfl) (fun he => (hne he).elim) x a _ rfl)
  | localCmd v p c ih =>
    intro h n x
    have hl : ∀ n x v p, Net.Rel (KeepPw y u) n (localLogin n x v p).1 := fun n x v p =>
      F.toPre.localLogin n x v p (fun a _ => same x a _ rfl)
    rcases opLocalCmdK_cases (fun m => execCmd c m x) n x v p with h0 | ⟨nd, _, _, ⟨_, h0⟩ | ⟨id, _, ⟨_, h0⟩ | ⟨_, h0⟩⟩⟩ <;>
      simp only [execCmd] <;> rw [h0]
    · exact F.rel_refl n
    · exact hl n x v p
    · exact F.rel_upd (hl n x v p) x (Node.addConn ⟨id, none⟩) (fun a => same x a _ rfl)
    · exact F.rel_trans (F.rel_upd (hl n x v p) x (Node.addConn ⟨id, none⟩) (fun a => same x a _ rfl)) (ih h _ _)
  | remoteLogin z v p =>
    intro _ n x
    exact F.toPre.remoteLogin n x z v p (fun a _ => same z a _ rfl) (fun j a _ => same j a _ rfl)
  | remoteCmd z c ih => intro h n x; exact F.remoteCmdK _ n x z (fun a _ _ => same z a _ rfl) (fun m => ih h m z)
  | remoteLogoff z => intro _ n x; exact F.remoteLogoff n x z
  | usmLogin v p peer => intro _ n x; exact F.toPre.usmLogin n x v p peer (fun a _ => same x a _ rfl)
  | usmLogout i => intro _ n x; exact F.usmLogout n x i
  | svc w v => intro _ n x; exact F.ofData n _ _ (opSvc_cases n _ _ _)
  | shutdown => intro _ n x; exact F.ofData n _ _ (opShutdown_cases n _)
  | startup => intro _ n x; exact F.ofData n _ _ (opStartup_cases n _)
  | reset => intro _ n x; exact F.ofData n _ _ (opReset_cases n _)

/-- the account `u` of node `y` exists and its password is `q` -/
def PasswordIs (y : Nat) (u q : String) (n : Net) : Prop := ∀ b, n.node y = some b → ∃ w, b.findUser u = some w ∧ w.password = q

/-- **C16, the password stays what it is.** Over every operation sequence in which no operation is or carries — at any nesting depth —
a `change_password` for account `u` (the only writer of `password`, `C16_gen_account_writers`), the password of `u` on node `y` is
unchanged.  So an old / wrong password `p ≠ q` stays wrong: by `C16_local_command_refused_wrong_password` every local command / login
with it changes nothing at every later time, and by `C16_remote_login_ok_iff` / `C16_usm_login_ok_iff` no remote login succeeds. -/
theorem C16_password_stays (ops : List Op) (n : Net) (y : Nat) (u q : String) (hno : ∀ op ∈ ops, op.noChpw u = true)
    (h : PasswordIs y u q n) : PasswordIs y u q (run n ops) := by
  induction ops generalizing n with
  | nil => exact h
  | cons op ops ih =>
    refine ih _ (fun o ho => hno o (List.mem_cons_of_mem _ ho)) ?_
    have hop := hno op (List.mem_cons_self ..)
    have F := keepPw_frame y u
    have same : ∀ j (a b : Node), b.users = a.users → KeepPw y u j a b := fun j a b h _ w hw =>
      ⟨w, by unfold Node.findUser at hw ⊢; rw [h]; exact hw, rfl⟩
    have key : Net.Rel (KeepPw y u) n (step n op).1 := by
      cases op with
      | req x c => exact exec_keepPw y u c hop n x
      | enableUser y' v =>
        exact F.toPre.enableUser n y' v
          (fun a => keepPw_upd y u v (fun w => { w with disabled := false }) (fun _ => rfl) (fun _ _ => rfl) y' a _ rfl)
      | addUserBypass y' v p adm => exact F.toPre.addUserBypass n y' v p adm (fun a w0 => keepPw_addUser y u y' a w0)
      | localLogin y' v p => simp only [step]; rw [opLocalLogin_fst]; exact F.toPre.localLogin n y' v p (fun a _ => same y' a _ rfl)
      | localLogout y' => exact F.localLogout n y'
      | tick => exact F.tick n
      | setBlock x' y' on => exact rel_setBlock F.refl n x' y' on
    intro b hb
    obtain ⟨a, ha, hab⟩ := Net.Rel.back_of_len key hb
    obtain ⟨w, hw, hq⟩ := h a ha
    obtain ⟨w', hw', hp⟩ := hab rfl w hw
    exact ⟨w', hw', hp.trans hq⟩

/-- … hence: a wrong password stays wrong for the local path (the run-level twin of `C16_disabled_stays_disabled`). -/
theorem C16_wrong_password_stays_wrong (ops : List Op) (n : Net) (y : Nat) (u q p : String) (hpq : q ≠ p)
    (hno : ∀ op ∈ ops, op.noChpw u = true) (h : PasswordIs y u q n) (c : Cmd) (b : Node) (hb : (run n ops).node y = some b) :
    (step (run n ops) (.req y (.localCmd u p c))).1 = run n ops ∧ step (run n ops) (.localLogin y u p) = (run n ops, .failure) := by
  obtain ⟨w, hw, hq⟩ := C16_password_stays ops n y u q hno h b hb
  exact C16_local_command_refused_wrong_password _ y u p c b w hb hw (by rw [hq]; exact hpq)

-- non-vacuity: after the change the password is pw1 on node 1; operations that change ANOTHER account's password are allowed
example : ((run demoNet [chpw1, .req 1 (.addUser "u1" "x" false), .req 1 (.changePassword "u1" "x" "y"), .tick]).node 1).map
    (fun b => (b.findUser "admin").map (·.password)) = some (some "pw1") := by decide
example : (Op.noChpw "admin" (.req 1 (.changePassword "u1" "x" "y"))) = true ∧
    (Op.noChpw "admin" (.req 0 (.remoteCmd 1 (.changePassword "admin" "pw1" "z")))) = false := by decide

/-! ### sessions across a power cycle of their node

What the code does: nothing ends a session when its node shuts down, reboots or is reset — `power_off` / `power_on` / `reset` and
the power phases of `apply_timestep` touch neither the session tables nor the terminal connections — so a session that is younger
than its time-out is still listed when the node is ON again, and a command sent on it is then executed.  Decision: this is within
C16 as written ("commands … only while that session is live"; the events that end a session are logout, inactivity time-out and
password change; "a powered-on node" is demanded of LOGINS): the session is live by every criterion the property names, no new
login happened while the node was down (`C16_remote_login_ok_iff` needs the target ON), and while the node is not reachable no
command is executed (`C16_no_command_while_nic_off`).  The inactivity clock keeps running through the outage, so the exposure is
bounded by `remote_session_timeout_steps` (`C16_session_ends_at_timeout` holds in every power state).  Recorded as an observation
(a real reboot would drop the sessions), not as a finding. -/

def KeepData : Nat → Node → Node → Prop := fun _ a b => b.data = a.data

theorem keepData_pre : Pre KeepData := { refl := fun _ _ => rfl, trans := fun _ _ _ _ h1 h2 => h2.trans h1 }

/-- **C16, power requests keep every session.** `shutdown`, `startup` and `reset` of node `y` leave users, local session, remote
sessions (clocks included), terminal connections, files and the session parameters of EVERY node exactly as they were. -/
theorem C16_power_requests_keep_sessions (n : Net) (y : Nat) :
    Net.Rel KeepData n (step n (.req y .shutdown)).1 ∧ Net.Rel KeepData n (step n (.req y .startup)).1 ∧
    Net.Rel KeepData n (step n (.req y .reset)).1 := by
  simp only [step, execCmd]
  refine ⟨?_, ?_, ?_⟩
  · rcases opShutdown_cases n y with h | ⟨f, hf, h⟩ <;> rw [h]
    · exact keepData_pre.rel_refl n
    · exact rel_upd n y f keepData_pre.refl (fun a _ => hf a)
  · rcases opStartup_cases n y with h | ⟨f, hf, h⟩ <;> rw [h]
    · exact keepData_pre.rel_refl n
    · exact rel_upd n y f keepData_pre.refl (fun a _ => hf a)
  · rcases opReset_cases n y with h | ⟨f, hf, h⟩ <;> rw [h]
    · exact keepData_pre.rel_refl n
    · exact rel_upd n y f keepData_pre.refl (fun a _ => hf a)

/-- … and the power / service phases of a tick (`Node.apply_timestep`: boot countdown, shut-down countdown, service restarts) as well;
only the time-outs of `pre_timestep` remove sessions during a tick. -/
theorem C16_power_phases_keep_sessions (a : Node) : a.applyTimestep.data = a.data := applyTimestep_data a

/-- **C16, nothing is executed on a node whose NIC is off** (a node that is shutting down, off or booting has its NIC disabled):
a remote command towards it changes nothing anywhere and is not answered success. -/
theorem C16_no_command_while_nic_off (n : Net) (x y : Nat) (c : Cmd) (b : Node) (hb : n.node y = some b) (hnic : b.nic = false) :
    (step n (.req x (.remoteCmd y c))).1 = n ∧ (step n (.req x (.remoteCmd y c))).2 ≠ .success := by
  apply C16_command_request_dropped
  unfold canDeliver
  cases hx : n.node x with
  | none => rfl
  | some a => simp [hb, hnic]

/-- time-outs of 30 steps (the defaults), power durations 3 -/
def demoLong : Net := { nodes := [{}, {}] }

-- a session opened at step 0 survives a full power cycle of its node (shutdown, 5 ticks, startup, 5 ticks) and a command on it is
-- executed afterwards; while the node is down the command is not executed
example : ((run demoLong [login01, cmd01 (.file 1), .req 1 .shutdown, .tick, cmd01 (.file 2), .tick, .tick, .tick, .tick,
    .req 1 .startup, .tick, .tick, .tick, .tick, .tick, cmd01 (.file 3)]).node 1).map (fun b => (b.power == .on, b.files, b.rem.length))
    = some (true, [1, 3], 1) := by decide
-- … but not beyond its time-out (remote time-out 2 in demoNet: the session is gone although the service was down at that moment)
example : ((run demoNet [login01, .req 1 .shutdown, .tick, .tick, .tick, .tick, .tick, .req 1 .startup, .tick, .tick, .tick, .tick, .tick,
    cmd01 (.file 3)]).node 1).map (fun b => (b.power == .on, b.files, b.rem.length)) = some (true, [], 0) := by decide

end Primaite.Session
