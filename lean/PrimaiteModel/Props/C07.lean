/-
C07 — ACL verdict = first matching rule by position, else the implicit action.
Property theorems only; the model is `Model/Acl.lean`.
-/
import PrimaiteModel.Model.Acl
import PrimaiteModel.Gen.Acl
import PrimaiteModel.Gen.AclMatch
namespace Primaite.Acl

/-! ### wildcard masks -/

/-- `ip_matches_masked_range` is exactly "agree on every bit the wildcard does not mask out". -/
theorem C07_wildcard_spec (ip base wc : Ip) :
    ipMatches ip base wc = true ↔
      ∀ i : Nat, i < 32 → wc.getLsbD i = false → ip.getLsbD i = base.getLsbD i := by
  unfold ipMatches
  constructor
  · intro h i hi hw
    have h' : (base &&& ~~~wc) = (ip &&& ~~~wc) := by simpa using h
    have h2 := congrArg (fun v => v.getLsbD i) h'
    simp only [BitVec.getLsbD_and, BitVec.getLsbD_not, hi, decide_true, hw, Bool.not_false,
      Bool.and_true] at h2
    exact h2.symm
  · intro h
    have : (base &&& ~~~wc) = (ip &&& ~~~wc) := by
      apply BitVec.eq_of_getLsbD_eq
      intro i hi
      simp only [BitVec.getLsbD_and, BitVec.getLsbD_not, hi, decide_true, Bool.true_and]
      cases hw : wc.getLsbD i with
      | true => simp
      | false => simp [h i hi hw]
    simp [this]

/-! ### what "matches" means -/

/-- Specification of an address field. -/
def AddrSpec (ruleIp ruleWc : Option Ip) (ip : Ip) : Prop :=
  ∀ base, ruleIp = some base →
    (∀ wc, ruleWc = some wc → ∀ i : Nat, i < 32 → wc.getLsbD i = false → ip.getLsbD i = base.getLsbD i) ∧
    (ruleWc = none → ip = base)

/-- Specification of a port field: a specified port needs a TCP/UDP header carrying that port. -/
def PortSpec (rulePort : Option Nat) (pktPort : Option Nat) : Prop :=
  ∀ n, rulePort = some n → pktPort = some n

theorem addrMatches_iff (ruleIp ruleWc : Option Ip) (ip : Ip) :
    addrMatches ruleIp ruleWc ip = true ↔ AddrSpec ruleIp ruleWc ip := by
  unfold addrMatches AddrSpec
  cases ruleIp with
  | none => simp
  | some base =>
    cases ruleWc with
    | none => simp
    | some wc =>
      simp only [C07_wildcard_spec, Option.some.injEq, forall_eq', reduceCtorEq, false_implies, and_true]

theorem portMatches_iff (rp pp : Option Nat) : portMatches rp pp = true ↔ PortSpec rp pp := by
  unfold portMatches PortSpec
  cases rp with
  | none => simp
  | some p =>
    simp only [beq_iff_eq, Option.some.injEq, forall_eq']
    exact eq_comm

/-- A rule matches a packet iff every *specified* field agrees; unspecified fields match anything. -/
theorem C07_matches_iff (r : Rule) (p : Packet) :
    r.hits? p = true ↔
      (∀ q, r.proto = some q → q = p.proto) ∧
      AddrSpec r.srcIp r.srcWc p.srcIp ∧ AddrSpec r.dstIp r.dstWc p.dstIp ∧
      PortSpec r.srcPort (p.ports.map (·.1)) ∧ PortSpec r.dstPort (p.ports.map (·.2)) := by
  unfold Rule.hits?
  simp only [Bool.and_eq_true, addrMatches_iff, portMatches_iff]
  have hp : protoMatches r.proto p.proto = true ↔ (∀ q, r.proto = some q → q = p.proto) := by
    unfold protoMatches
    cases r.proto with
    | none => simp
    | some q => simp
  rw [hp]
  constructor
  · rintro ⟨⟨⟨⟨a, b⟩, c⟩, d⟩, e⟩; exact ⟨a, b, c, d, e⟩
  · rintro ⟨a, b, c, d, e⟩; exact ⟨⟨⟨⟨a, b⟩, c⟩, d⟩, e⟩

/-! ### first match by position -/

theorem firstMatch_some (p : Packet) (rules : List (Option Rule)) (off i : Nat) (r : Rule)
    (h : firstMatch p rules off = some (i, r)) :
    off ≤ i ∧ rules[i - off]? = some (some r) ∧ r.hits? p = true ∧
      ∀ j, j < i - off → ∀ r' : Rule, rules[j]? = some (some r') → r'.hits? p = false := by
  induction rules generalizing off with
  | nil => simp [firstMatch] at h
  | cons x rest ih =>
    have step : firstMatch p rest (off + 1) = some (i, r) →
        (∀ r' : Rule, x = some r' → r'.hits? p = false) →
        off ≤ i ∧ (x :: rest)[i - off]? = some (some r) ∧ r.hits? p = true ∧
          ∀ j, j < i - off → ∀ r' : Rule, (x :: rest)[j]? = some (some r') → r'.hits? p = false := by
      intro h' hx
      obtain ⟨h1, h2, h3, h4⟩ := ih (off + 1) h'
      refine ⟨by omega, ?_, h3, ?_⟩
      · have : i - off = (i - (off + 1)) + 1 := by omega
        rw [this]; simpa using h2
      · intro j hj r' hr'
        cases j with
        | zero => simp at hr'; exact hx r' hr'
        | succ j => exact h4 j (by omega) r' (by simpa using hr')
    cases x with
    | none => exact step (by simpa [firstMatch] using h) (by simp)
    | some r0 =>
      by_cases hm : r0.hits? p = true
      · simp [firstMatch, hm] at h
        obtain ⟨rfl, rfl⟩ := h
        simp [hm]
      · simp only [firstMatch, hm, Bool.false_eq_true, if_false] at h
        exact step h (by intro r' hr'; simp at hr'; subst hr'; simpa using hm)

theorem firstMatch_none (p : Packet) (rules : List (Option Rule)) (off : Nat)
    (h : firstMatch p rules off = none) :
    ∀ (j : Nat) (r' : Rule), rules[j]? = some (some r') → r'.hits? p = false := by
  induction rules generalizing off with
  | nil => simp
  | cons x rest ih =>
    intro j r' hr'
    cases x with
    | none =>
      cases j with
      | zero => simp at hr'
      | succ j => exact ih (off + 1) (by simpa [firstMatch] using h) j r' (by simpa using hr')
    | some r0 =>
      by_cases hm : r0.hits? p = true
      · simp [firstMatch, hm] at h
      · simp only [firstMatch, hm, Bool.false_eq_true, if_false] at h
        cases j with
        | zero => simp at hr'; subst hr'; simpa using hm
        | succ j => exact ih (off + 1) h j r' (by simpa using hr')

/-- The verdict is that of the lowest-positioned matching rule; with no matching rule the implicit action
applies.  `d` names the decider. -/
theorem C07_verdict_first_match (a : Acl) (p : Packet) :
    let (v, d, _) := isPermitted a p
    (∃ i r, a.rules[i]? = some (some r) ∧ r.hits? p = true ∧
        (∀ j, j < i → ∀ r' : Rule, a.rules[j]? = some (some r') → r'.hits? p = false) ∧
        v = (r.action == .permit) ∧ d = .rule i) ∨
    ((∀ (j : Nat) (r' : Rule), a.rules[j]? = some (some r') → r'.hits? p = false) ∧
        v = (a.implicit == .permit) ∧ d = .implicit) := by
  unfold isPermitted
  cases heq : firstMatch p a.rules 0 with
  | some ir =>
    obtain ⟨i, r⟩ := ir
    obtain ⟨_, h2, h3, h4⟩ := firstMatch_some p a.rules 0 i r heq
    exact Or.inl ⟨i, r, by simpa using h2, h3, by simpa using h4, rfl, rfl⟩
  | none => exact Or.inr ⟨firstMatch_none p a.rules 0 heq, rfl, rfl⟩

/-! ### hit counters -/

/-- Erase the counters of a list (what matching depends on). -/
def strip (rules : List (Option Rule)) : List (Option Rule) :=
  rules.map (fun o => o.map (fun r => { r with hits := 0 }))

theorem strip_bump (rules : List (Option Rule)) (i : Nat) : strip (bump rules i) = strip rules := by
  unfold strip bump
  induction rules generalizing i with
  | nil => simp
  | cons x rest ih =>
    cases i with
    | zero => cases x <;> simp [List.modify]
    | succ i => simp [List.modify_succ_cons, ih]

/-- Each verdict increments the hit counter of exactly the deciding rule: when rule `i` decides, slot `i`
holds the same rule with `hits + 1`, every other slot and the implicit counter are untouched; when the
implicit rule decides, its counter is incremented and the list is untouched.  Nothing but counters changes. -/
theorem C07_hit_counter (a : Acl) (p : Packet) :
    let (_, d, a') := isPermitted a p
    a'.implicit = a.implicit ∧ a'.rules.length = a.rules.length ∧ strip a'.rules = strip a.rules ∧
    match d with
    | .rule i =>
        (∃ r, a.rules[i]? = some (some r) ∧ a'.rules[i]? = some (some { r with hits := r.hits + 1 })) ∧
        (∀ j, j ≠ i → a'.rules[j]? = a.rules[j]?) ∧ a'.implicitHits = a.implicitHits
    | .implicit => a'.rules = a.rules ∧ a'.implicitHits = a.implicitHits + 1 := by
  unfold isPermitted
  cases heq : firstMatch p a.rules 0 with
  | some ir =>
    obtain ⟨i, r⟩ := ir
    obtain ⟨_, h2, _, _⟩ := firstMatch_some p a.rules 0 i r heq
    have h2' : a.rules[i]? = some (some r) := by simpa using h2
    refine ⟨rfl, by simp [bump], strip_bump _ _, ⟨r, h2', ?_⟩, ?_, rfl⟩
    · simp [bump, List.getElem?_modify, h2']
    · intro j hj
      have : ¬ i = j := fun h => hj h.symm
      simp [bump, List.getElem?_modify, this]
  | none => exact ⟨rfl, rfl, rfl, rfl, rfl⟩

theorem firstMatch_strip (p : Packet) (rules : List (Option Rule)) (off : Nat) :
    (firstMatch p (strip rules) off).map (·.1) = (firstMatch p rules off).map (·.1) ∧
    (firstMatch p (strip rules) off).map (·.2.action) = (firstMatch p rules off).map (·.2.action) := by
  induction rules generalizing off with
  | nil => simp [strip, firstMatch]
  | cons x rest ih =>
    cases x with
    | none => simpa [strip, firstMatch] using ih (off + 1)
    | some r =>
      have hh : Rule.hits? { r with hits := 0 } p = r.hits? p := rfl
      by_cases hm : r.hits? p = true
      · simp [strip, firstMatch, hh, hm]
      · simpa [strip, firstMatch, hh, hm] using ih (off + 1)

/-- Counters never influence a verdict: asking twice gives the same verdict and the same decider. -/
theorem C07_verdict_stable (a : Acl) (p q : Packet) :
    let a' := (isPermitted a q).2.2
    (isPermitted a' p).1 = (isPermitted a p).1 ∧ (isPermitted a' p).2.1 = (isPermitted a p).2.1 := by
  have hc := C07_hit_counter a q
  simp only at hc
  obtain ⟨himp, _, hstrip, _⟩ := hc
  intro a'
  have h1 := firstMatch_strip p a'.rules 0
  have h2 := firstMatch_strip p a.rules 0
  have hs : strip a'.rules = strip a.rules := hstrip
  rw [hs] at h1
  have e1 := h1.1.symm.trans h2.1
  have e2 := h1.2.symm.trans h2.2
  have himp' : a'.implicit = a.implicit := himp
  unfold isPermitted
  cases hA : firstMatch p a'.rules 0 with
  | none =>
    cases hB : firstMatch p a.rules 0 with
    | none => simp [himp']
    | some y => rw [hA, hB] at e1; simp at e1
  | some x =>
    cases hB : firstMatch p a.rules 0 with
    | none => rw [hA, hB] at e1; simp at e1
    | some y =>
      rw [hA, hB] at e1 e2
      simp at e1 e2
      obtain ⟨i, r⟩ := x; obtain ⟨j, s⟩ := y
      simp at e1 e2 ⊢
      exact ⟨by rw [e2], e1⟩

/-! ### editing the list -/

/-- Adding a rule changes only the addressed position (which then holds the new rule with a zero counter). -/
theorem C07_addRule_frame (a a' : Acl) (r : Rule) (pos : Nat) (h : addRule a r pos = some a') :
    pos < a.rules.length ∧ a'.rules.length = a.rules.length ∧
    a'.rules[pos]? = some (some { r with hits := 0 }) ∧
    (∀ j, j ≠ pos → a'.rules[j]? = a.rules[j]?) ∧
    a'.implicit = a.implicit ∧ a'.implicitHits = a.implicitHits := by
  unfold addRule at h
  by_cases hp : pos < a.rules.length
  · simp only [hp, if_true, Option.some.injEq] at h
    subst h
    refine ⟨hp, by simp, by simp [hp], ?_, rfl, rfl⟩
    intro j hj
    have : ¬ pos = j := fun h => hj h.symm
    simp [List.getElem?_set, this]
  · simp [hp] at h

/-- An out-of-range position is an error (Python raises) and, there being no new list, changes nothing. -/
theorem C07_addRule_error_iff (a : Acl) (r : Rule) (pos : Nat) :
    addRule a r pos = none ↔ a.rules.length ≤ pos := by
  unfold addRule; by_cases hp : pos < a.rules.length <;> simp [hp] <;> omega

/-- Removing a rule clears only the addressed position. -/
theorem C07_removeRule_frame (a a' : Acl) (pos : Nat) (h : removeRule a pos = some a') :
    pos < a.rules.length ∧ a'.rules.length = a.rules.length ∧
    a'.rules[pos]? = some none ∧
    (∀ j, j ≠ pos → a'.rules[j]? = a.rules[j]?) ∧
    a'.implicit = a.implicit ∧ a'.implicitHits = a.implicitHits := by
  unfold removeRule at h
  by_cases hp : pos < a.rules.length
  · simp only [hp, if_true, Option.some.injEq] at h
    subst h
    refine ⟨hp, by simp, by simp [hp], ?_, rfl, rfl⟩
    intro j hj
    have : ¬ pos = j := fun h => hj h.symm
    simp [List.getElem?_set, this]
  · simp [hp] at h

theorem C07_removeRule_error_iff (a : Acl) (pos : Nat) :
    removeRule a pos = none ↔ a.rules.length ≤ pos := by
  unfold removeRule; by_cases hp : pos < a.rules.length <;> simp [hp] <;> omega

/-- Rules added at different positions commute (used by C20: key order of the `acl` mapping). -/
theorem C07_add_commute (a : Acl) (r₁ r₂ : Rule) (p₁ p₂ : Nat) (h : p₁ ≠ p₂) :
    (addRule a r₁ p₁).bind (fun a' => addRule a' r₂ p₂) =
    (addRule a r₂ p₂).bind (fun a' => addRule a' r₁ p₁) := by
  unfold addRule
  by_cases h1 : p₁ < a.rules.length <;> by_cases h2 : p₂ < a.rules.length <;>
    simp [h1, h2, List.set_comm _ _ h]

/-! ### non-vacuity: concrete lists meeting the hypotheses -/

def exRuleDenyHttp : Rule :=
  { action := .deny, proto := some .tcp, srcIp := some 0xC0A80100#32, srcWc := some 0x000000FF#32,
    dstIp := none, dstWc := none, srcPort := none, dstPort := some 80 }
def exRulePermitAll : Rule :=
  { action := .permit, proto := none, srcIp := none, srcWc := none, dstIp := none, dstWc := none,
    srcPort := none, dstPort := none }
def exAcl : Acl := { rules := [none, some exRuleDenyHttp, none, some exRulePermitAll], implicit := .deny }
def exPkt : Packet := { proto := .tcp, srcIp := 0xC0A80117#32, dstIp := 0x0A000001#32, ports := some (5000, 80) }

/-- the shadowing rule at position 1 decides although position 3 also matches -/
example : (isPermitted exAcl exPkt).1 = false ∧ (isPermitted exAcl exPkt).2.1 = .rule 1 := by decide
example : (isPermitted exAcl { exPkt with ports := some (5000, 443) }).2.1 = .rule 3 := by decide
example : (isPermitted (Acl.empty 24 .permit) exPkt).1 = true := by decide
/-- port 0 is a specified value, not a wildcard -/
example : Rule.hits? { exRulePermitAll with dstPort := some 0 } exPkt = false := by decide

end Primaite.Acl

/-! ### tie to the regenerated constants (Gen/Acl.lean is rewritten from the source on every run) -/
namespace Primaite.Acl
open Primaite.Gen.Acl in
/-- Both edit operations accept exactly the positions that exist in the list, and the scan is the forward,
stop-at-first-match loop the model's `firstMatch` describes. -/
theorem C07_gen_bounds : addBound = slots ∧ removeBound = slots ∧ slots + 1 = maxAclRules ∧
    scanIsForward = true ∧ scanBreaksAtFirstMatch = true := by decide
end Primaite.Acl

/-! ### tie to the translated source of `permit_frame_check` / `ip_matches_masked_range` (Gen/AclMatch.lean) -/
namespace Primaite.Acl
open Primaite.Gen.AclMatch

/-- the frame as the model sees it: the TCP header's ports if there is one, else the UDP header's -/
def toPacket (f : FrameView) : Packet :=
  { proto := f.proto, srcIp := f.srcIp, dstIp := f.dstIp,
    ports := match f.tcp with
      | some p => some p
      | none => f.udp }

theorem C07_gen_ip_matches (ip base wc : Ip) : ipMatchesMaskedRange ip base wc = ipMatches ip base wc := by
  unfold ipMatchesMaskedRange ipMatches
  simp [BEq.beq, decide_eq_decide]

/-- The statement-by-statement translation of the CURRENT source of `ACLRule.permit_frame_check` computes, for every
rule and every frame, exactly `(matches ∧ action = PERMIT, matches)` with the model's `Rule.hits?`.  A change of the
source that alters the matching semantics (a truthiness test on a port, a swapped field, a dropped wildcard branch)
makes this theorem fail. -/
theorem beq_as_decide {α} [DecidableEq α] (a b : α) : (a == b) = decide (a = b) := by
  by_cases h : a = b <;> simp [h]

theorem ite_pair (c : Prop) [Decidable c] (p : Bool) :
    (if c then (true, p) else (false, false)) = (decide c, decide c && p) := by
  by_cases h : c <;> simp [h]

/-- header selection as the source does it (`if frame.tcp: … elif frame.udp: …`) -/
def selPorts (tcp udp : Option (Nat × Nat)) : Option (Nat × Nat) :=
  match tcp with
  | some p => some p
  | none => udp

/-! the shapes the translator produces for the four kinds of field test, each equal to the model's function -/
theorem g_proto (rp : Option Proto) (fp : Proto) :
    (if rp.isSome = true then decide (rp = some fp) else true) = protoMatches rp fp := by
  cases rp <;> simp [protoMatches, beq_as_decide]

theorem g_addr (ip wc : Option Ip) (x : Ip) :
    (if ip.isSome = true then
        if wc.isSome = true then ipMatchesMaskedRange x (ip.getD 0) (wc.getD 0) else decide (some x = ip)
      else ip.isNone) = addrMatches ip wc x := by
  cases ip <;> cases wc <;> simp [addrMatches, C07_gen_ip_matches, beq_as_decide]

theorem g_ports (tcp udp : Option (Nat × Nat)) :
    (if tcp.isSome = true then (Option.map Prod.snd tcp, Option.map Prod.fst tcp)
      else
        ((if udp.isSome = true then (Option.map Prod.snd udp, Option.map Prod.fst udp) else (none, none)).fst,
         (if udp.isSome = true then (Option.map Prod.snd udp, Option.map Prod.fst udp) else (none, none)).snd)) =
    ((selPorts tcp udp).map Prod.snd, (selPorts tcp udp).map Prod.fst) := by
  cases tcp <;> cases udp <;> simp [selPorts]

theorem g_port (rp pp : Option Nat) :
    (if rp.isSome = true then decide (rp = pp) else true) = portMatches rp pp := by
  cases rp <;> cases pp <;> simp [portMatches, beq_as_decide]

/-- The statement-by-statement translation of the CURRENT source of `ACLRule.permit_frame_check` computes, for every
rule and every frame, exactly `(matches ∧ action = PERMIT, matches)` with the model's `Rule.hits?`.  A change of the
source that alters the matching semantics (a truthiness test on a port, a swapped field, a dropped wildcard branch)
makes this theorem fail. -/
theorem C07_gen_permit_frame_check (r : Rule) (f : FrameView) :
    permitFrameCheck r f = ((r.action == .permit) && r.hits? (toPacket f), r.hits? (toPacket f)) := by
  have hp : (toPacket f).ports = selPorts f.tcp f.udp := by
    simp only [toPacket, selPorts]
  simp only [permitFrameCheck, g_proto, g_addr, g_ports, g_port, ite_pair, Rule.hits?, hp]
  simp [toPacket, beq_as_decide, Bool.and_comm]
end Primaite.Acl
