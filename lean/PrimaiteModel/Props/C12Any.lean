/-
C12, round 6: the composite timing statement for ALL durations (a duration `<= 0` skips the transitional state within the
same operation), and: a session that survives a power cycle cannot be used while the node is not ON.
-/
import PrimaiteModel.Props.C12Cycle
namespace Primaite.Power

/-- the operations of one transitional phase: nothing if the duration is `<= 0` (the request completes the transition
itself), else the given operations (which must contain exactly `d` ticks) and one more tick -/
def phaseOps (d : Int) (X : List Op) : List Op := if 0 < d then X ++ [Op.tick] else []

/-- the assignments of one half: the transitional state only if the duration is positive -/
def viaIf (d : Int) (s : PState) : List PState := if 0 < d then [s] else []

/-- **the shut-down half, any duration.** From ON (no reset pending): after the request and the phase, the node is OFF;
if `d_s > 0` it was SHUTTING_DOWN after the request and after every prefix of `A` -/
theorem shutdown_half {tbl : List Route} (hg : allGuarded tbl = true) (n : Node) (hst : n.st = .on) (hr : n.resetting = false)
    (h1 : (tbl.find? (fun r => r.key == "shutdown")).isSome = true) (sub : Sub)
    (A : List Op) (hA : 0 < n.downDur → (ticksIn A : Int) = n.downDur) :
    let n1 := (request tbl n "shutdown" sub).1
    let n3 := run tbl n1 (phaseOps n.downDur A)
    (0 < n.downDur → ∀ A', A' <+: A → (run tbl n1 A').st = .shuttingDown) ∧
    n3.st = .off ∧ n3.hist = .off :: (viaIf n.downDur .shuttingDown ++ n.hist) ∧ n3.upDur = n.upDur ∧ n3.downDur = n.downDur := by
  intro n1 n3
  have e1 : n1 = (powerOff n).1 := by
    show (request tbl n "shutdown" sub).1 = _
    rw [request_accepted hg n "shutdown" sub h1 (Or.inr ⟨by decide, hst⟩), handle_shutdown]
  by_cases hd : 0 < n.downDur
  · obtain ⟨q1, q2, q3, q4, q5, q6, _⟩ := powerOff_timed n hst hd
    rw [← e1] at q1 q2 q3 q4 q5 q6
    have hheld : ∀ A', A' <+: A → Frozen n1 (run tbl n1 A') ∧ (run tbl n1 A').downCd = n1.downCd - ticksIn A' := by
      intro A' hp
      have : (ticksIn A' : Int) ≤ n1.downCd := by
        rw [q2, ← hA hd]; exact_mod_cast ticksIn_prefix hp
      exact C12_shutdown_held hg n1 q1 A' this
    obtain ⟨fA, cA⟩ := hheld A (List.prefix_refl A)
    have hz := (tick_shutting_zero (run tbl n1 A) (by rw [fA.1, q1]) (by rw [cA, q2, hA hd]; omega)).1
      (by rw [fA.2.2.2.2.2.1, q4, hr])
    have e3 : n3 = tick (run tbl n1 A) := by
      show run tbl n1 (phaseOps n.downDur A) = _
      unfold phaseOps; rw [if_pos hd, run_snoc_tick]
    refine ⟨fun _ A' hp => by rw [(hheld A' hp).1.1, q1], ?_, ?_, ?_, ?_⟩
    · rw [e3]; exact hz.1
    · rw [e3, hz.2, fA.2.1, q3]; unfold viaIf; rw [if_pos hd]; rfl
    · rw [e3, (tick_dur _).1, fA.2.2.2.2.2.2.1, q5]
    · rw [e3, (tick_dur _).2, fA.2.2.2.2.2.2.2, q6]
  · have hd' : n.downDur ≤ 0 := by omega
    have e3 : n3 = n1 := by
      show run tbl n1 (phaseOps n.downDur A) = _
      unfold phaseOps; rw [if_neg hd]; rfl
    obtain ⟨i1, i2⟩ := (powerOff_instant n hd').2.1 hr
    rw [← e1] at i1 i2
    refine ⟨fun h => absurd h hd, ?_, ?_, ?_, ?_⟩
    · rw [e3]; exact i1
    · rw [e3, i2]; unfold viaIf; rw [if_neg hd]; rfl
    · rw [e3, e1]; exact (powerOff_dur n).1
    · rw [e3, e1]; exact (powerOff_dur n).2

/-- **the start-up half, any duration.** From OFF: after the request and the phase the node is ON with everything up;
if `d_u > 0` it was BOOTING after the request and after every prefix of `C` -/
theorem startup_half {tbl : List Route} (hg : allGuarded tbl = true) (m : Node) (hst : m.st = .off)
    (h2 : (tbl.find? (fun r => r.key == "startup")).isSome = true) (sub : Sub)
    (C : List Op) (hC : 0 < m.upDur → (ticksIn C : Int) = m.upDur) :
    let n5 := (request tbl m "startup" sub).1
    let n7 := run tbl n5 (phaseOps m.upDur C)
    (0 < m.upDur → ∀ C', C' <+: C → (run tbl n5 C').st = .booting) ∧
    n7.st = .on ∧ n7.hist = .on :: (viaIf m.upDur .booting ++ m.hist) ∧ AllUp n7 := by
  intro n5 n7
  have e5 : n5 = (powerOn m).1 := by
    show (request tbl m "startup" sub).1 = _
    rw [request_accepted hg _ "startup" sub h2 (Or.inl ⟨rfl, hst⟩), handle_startup]
  obtain ⟨p1, p2, _, p4, _, _, _⟩ := powerOn_from_off m hst
  rw [← e5] at p1 p2 p4
  by_cases hu : 0 < m.upDur
  · have hT : startTarget m = .booting := by unfold startTarget; rw [if_neg (by omega)]
    rw [hT] at p1 p2
    have cd5 : n5.upCd = m.upDur := p4 hu
    have hheld : ∀ C', C' <+: C → Frozen n5 (run tbl n5 C') ∧ (run tbl n5 C').upCd = n5.upCd - ticksIn C' := by
      intro C' hp
      have : (ticksIn C' : Int) ≤ n5.upCd := by
        rw [cd5, ← hC hu]; exact_mod_cast ticksIn_prefix hp
      exact C12_boot_held hg n5 p1 C' this
    obtain ⟨fC, cC⟩ := hheld C (List.prefix_refl C)
    have hon := tick_booting_zero (run tbl n5 C) (by rw [fC.1, p1]) (by rw [cC, cd5, hC hu]; omega)
    have e7 : n7 = tick (run tbl n5 C) := by
      show run tbl n5 (phaseOps m.upDur C) = _
      unfold phaseOps; rw [if_pos hu, run_snoc_tick]
    refine ⟨fun _ C' hp => by rw [(hheld C' hp).1.1, p1], ?_, ?_, ?_⟩
    · rw [e7]; exact hon.1
    · rw [e7, hon.2, fC.2.1, p2]; unfold viaIf; rw [if_pos hu]; rfl
    · rw [e7]
      exact tick_allUp (run tbl n5 C) hon.1 (by rw [hon.2]; intro h; exact absurd (congrArg List.length h) (by simp))
  · have hT : startTarget m = .on := by unfold startTarget; rw [if_pos (by omega)]
    rw [hT] at p1 p2
    have e7 : n7 = n5 := by
      show run tbl n5 (phaseOps m.upDur C) = _
      unfold phaseOps; rw [if_neg hu]; rfl
    refine ⟨fun h => absurd h hu, ?_, ?_, ?_⟩
    · rw [e7]; exact p1
    · rw [e7, p2]; unfold viaIf; rw [if_neg hu]; rfl
    · rw [e7, e5]
      exact powerOn_allUp m (by rw [← e5]; exact p1)
        (by rw [← e5, p2]; intro h; exact absurd (congrArg List.length h) (by simp))

/-- **one power cycle, ANY durations** (`C12_timed_power_cycle` is the case `d_s, d_u > 0`). A node that is ON with no
reset pending gets `shutdown`; if `shut_down_duration = d_s > 0`: any operations `A` with exactly `d_s` ticks and one more
tick (if `d_s <= 0` nothing: the request itself reaches OFF); any operations `B` without a start-up request; `startup`;
if `start_up_duration = d_u > 0`: any operations `C` with exactly `d_u` ticks and one more tick (if `d_u <= 0` nothing: the
request itself reaches ON). Then: a transitional state is visited — and held through every prefix of its phase — exactly
if its duration is positive, and skipped within the request otherwise; the node is OFF after the shut-down phase and
every prefix of `B`, ON at the end with everything up; `operating_state` was assigned exactly
`[SHUTTING_DOWN if d_s > 0] OFF [BOOTING if d_u > 0] ON`. -/
theorem C12_power_cycle_any_durations {tbl : List Route} (hg : allGuarded tbl = true) (n : Node) (hst : n.st = .on)
    (hr : n.resetting = false)
    (h1 : (tbl.find? (fun r => r.key == "shutdown")).isSome = true)
    (h2 : (tbl.find? (fun r => r.key == "startup")).isSome = true) (sub sub' : Sub)
    (A B C : List Op) (hA : 0 < n.downDur → (ticksIn A : Int) = n.downDur) (hB : NoStartup B)
    (hC : 0 < n.upDur → (ticksIn C : Int) = n.upDur) :
    let n1 := (request tbl n "shutdown" sub).1
    let n3 := run tbl n1 (phaseOps n.downDur A)
    let n5 := (request tbl (run tbl n3 B) "startup" sub').1
    let n7 := run tbl n5 (phaseOps n.upDur C)
    (0 < n.downDur → ∀ A', A' <+: A → (run tbl n1 A').st = .shuttingDown) ∧
    (∀ B', B' <+: B → (run tbl n3 B').st = .off) ∧
    (0 < n.upDur → ∀ C', C' <+: C → (run tbl n5 C').st = .booting) ∧
    n7.st = .on ∧
    n7.hist = .on :: (viaIf n.upDur .booting ++ (.off :: (viaIf n.downDur .shuttingDown ++ n.hist))) ∧ AllUp n7 := by
  intro n1 n3 n5 n7
  obtain ⟨a1, a2, a3, a4, _⟩ := shutdown_half hg n hst hr h1 sub A hA
  have hheldB : ∀ B', B' <+: B → Frozen n3 (run tbl n3 B') := by
    intro B' hp
    obtain ⟨t, rfl⟩ := hp
    exact off_run_frozen hg n3 a2 B' (fun o ho => hB o (List.mem_append_left _ ho))
  have fB := hheldB B (List.prefix_refl B)
  have s4 : (run tbl n3 B).st = .off := by rw [fB.1]; exact a2
  have up4 : (run tbl n3 B).upDur = n.upDur := by rw [fB.2.2.2.2.2.2.1]; exact a4
  obtain ⟨c1, c2, c3, c4⟩ := startup_half hg (run tbl n3 B) s4 h2 sub' C (by rw [up4]; exact hC)
  rw [up4] at c1 c3
  refine ⟨a1, fun B' hp => by rw [(hheldB B' hp).1]; exact a2, c1, ?_, ?_, ?_⟩
  · show (run tbl n5 (phaseOps n.upDur C)).st = .on
    rw [← up4]; exact c2
  · show (run tbl n5 (phaseOps n.upDur C)).hist = _
    have := c3
    rw [fB.2.1, a3] at this
    rw [← up4] at this ⊢
    exact this
  · show AllUp (run tbl n5 (phaseOps n.upDur C))
    rw [← up4]; exact c4

/-- **one reset, ANY durations**: `reset`; the shut-down phase (skipped if `d_s <= 0`); the start-up phase (skipped if
`d_u <= 0`): the automatic start happens in the very operation that reaches OFF, so OFF is never seen between two
operations; assignments `[SHUTTING_DOWN if d_s > 0] OFF [BOOTING if d_u > 0] ON`; flag clear and everything up at the end. -/
theorem C12_reset_any_durations {tbl : List Route} (hg : allGuarded tbl = true) (n : Node) (hst : n.st = .on)
    (h1 : (tbl.find? (fun r => r.key == "reset")).isSome = true) (sub : Sub)
    (A C : List Op) (hA : 0 < n.downDur → (ticksIn A : Int) = n.downDur) (hC : 0 < n.upDur → (ticksIn C : Int) = n.upDur) :
    let n1 := (request tbl n "reset" sub).1
    let n3 := run tbl n1 (phaseOps n.downDur A)
    let n7 := run tbl n3 (phaseOps n.upDur C)
    (0 < n.downDur → ∀ A', A' <+: A → (run tbl n1 A').st = .shuttingDown ∧ (run tbl n1 A').resetting = true) ∧
    n3.st = startTarget n ∧ n3.resetting = false ∧
    (0 < n.upDur → ∀ C', C' <+: C → (run tbl n3 C').st = .booting) ∧
    n7.st = .on ∧
    n7.hist = .on :: (viaIf n.upDur .booting ++ (.off :: (viaIf n.downDur .shuttingDown ++ n.hist))) := by
  intro n1 n3 n7
  have e1 : n1 = (powerOff { n with resetting := true }).1 := by
    show (request tbl n "reset" sub).1 = _
    rw [request_accepted hg n "reset" sub h1 (Or.inr ⟨by decide, hst⟩), handle_reset]; rfl
  -- the node after the shut-down phase: start target, flag clear, countdown armed, history
  have hmid : (0 < n.downDur → ∀ A', A' <+: A → (run tbl n1 A').st = .shuttingDown ∧ (run tbl n1 A').resetting = true) ∧
      n3.st = startTarget n ∧ n3.resetting = false ∧ (0 < n.upDur → n3.upCd = n.upDur) ∧
      n3.hist = startTarget n :: .off :: (viaIf n.downDur .shuttingDown ++ n.hist) ∧ n3.upDur = n.upDur := by
    by_cases hd : 0 < n.downDur
    · obtain ⟨q1, q2, q3, q4, q5, _, _⟩ := powerOff_timed { n with resetting := true } hst hd
      rw [← e1] at q1 q2 q3 q4 q5
      have q2' : n1.downCd = n.downDur := q2
      have q3' : n1.hist = .shuttingDown :: n.hist := q3
      have q4' : n1.resetting = true := q4
      have q5' : n1.upDur = n.upDur := q5
      have hheld : ∀ A', A' <+: A → Frozen n1 (run tbl n1 A') ∧ (run tbl n1 A').downCd = n1.downCd - ticksIn A' := by
        intro A' hp
        have : (ticksIn A' : Int) ≤ n1.downCd := by
          rw [q2', ← hA hd]; exact_mod_cast ticksIn_prefix hp
        exact C12_shutdown_held hg n1 q1 A' this
      obtain ⟨fA, cA⟩ := hheld A (List.prefix_refl A)
      have up2 : (run tbl n1 A).upDur = n.upDur := by rw [fA.2.2.2.2.2.2.1, q5']
      have hz := (tick_shutting_zero (run tbl n1 A) (by rw [fA.1, q1]) (by rw [cA, q2', hA hd]; omega)).2
        (by rw [fA.2.2.2.2.2.1, q4'])
      have hT : startTarget (run tbl n1 A) = startTarget n := by unfold startTarget; rw [up2]
      rw [hT] at hz
      obtain ⟨z1, z2, z3, z4⟩ := hz
      have e3 : n3 = tick (run tbl n1 A) := by
        show run tbl n1 (phaseOps n.downDur A) = _
        unfold phaseOps; rw [if_pos hd, run_snoc_tick]
      refine ⟨fun _ A' hp => ⟨by rw [(hheld A' hp).1.1, q1], by rw [(hheld A' hp).1.2.2.2.2.2.1, q4']⟩, ?_, ?_, ?_, ?_, ?_⟩
      · rw [e3]; exact z1
      · rw [e3]; exact z3
      · intro hu; rw [e3, z4 (by rw [up2]; exact hu), up2]
      · rw [e3, z2, fA.2.1, q3']; unfold viaIf; rw [if_pos hd]; rfl
      · rw [e3, (tick_dur _).1, up2]
    · have hd' : n.downDur ≤ 0 := by omega
      have e3 : n3 = n1 := by
        show run tbl n1 (phaseOps n.downDur A) = _
        unfold phaseOps; rw [if_neg hd]; rfl
      obtain ⟨r1, r2, r3, r4, r5, _⟩ := (powerOff_instant { n with resetting := true } hd').2.2 rfl
      rw [← e1] at r1 r2 r3 r4 r5
      refine ⟨fun h => absurd h hd, ?_, ?_, ?_, ?_, ?_⟩
      · rw [e3]; exact r1
      · rw [e3]; exact r3
      · intro hu; rw [e3]; exact r4 hu
      · rw [e3, r2]; unfold viaIf; rw [if_neg hd]; rfl
      · rw [e3]; exact r5
  obtain ⟨m1, m2, m3, m4, m5, m6⟩ := hmid
  by_cases hu : 0 < n.upDur
  · have hT : startTarget n = .booting := by unfold startTarget; rw [if_neg (by omega)]
    rw [hT] at m2 m5
    have cd3 := m4 hu
    have hheld : ∀ C', C' <+: C → Frozen n3 (run tbl n3 C') ∧ (run tbl n3 C').upCd = n3.upCd - ticksIn C' := by
      intro C' hp
      have : (ticksIn C' : Int) ≤ n3.upCd := by
        rw [cd3, ← hC hu]; exact_mod_cast ticksIn_prefix hp
      exact C12_boot_held hg n3 m2 C' this
    obtain ⟨fC, cC⟩ := hheld C (List.prefix_refl C)
    have hon := tick_booting_zero (run tbl n3 C) (by rw [fC.1, m2]) (by rw [cC, cd3, hC hu]; omega)
    have e7 : n7 = tick (run tbl n3 C) := by
      show run tbl n3 (phaseOps n.upDur C) = _
      unfold phaseOps; rw [if_pos hu, run_snoc_tick]
    refine ⟨m1, by rw [hT]; exact m2, m3, fun _ C' hp => by rw [(hheld C' hp).1.1, m2], ?_, ?_⟩
    · rw [e7]; exact hon.1
    · rw [e7, hon.2, fC.2.1, m5]; unfold viaIf; rw [if_pos hu]; rfl
  · have hT : startTarget n = .on := by unfold startTarget; rw [if_pos (by omega)]
    rw [hT] at m2 m5
    have e7 : n7 = n3 := by
      show run tbl n3 (phaseOps n.upDur C) = _
      unfold phaseOps; rw [if_neg hu]; rfl
    refine ⟨m1, by rw [hT]; exact m2, m3, fun h => absurd h hu, ?_, ?_⟩
    · rw [e7]; exact m2
    · rw [e7, m5]; unfold viaIf; rw [if_neg hu]; rfl

/-- non-vacuity: the four duration patterns on the example node (durations set to 0/2, 2/0, 0/0; 3/2 is the build note's) -/
example :
    (run baseRoutes { exOn with downDur := 0, upDur := 2 } [shutdownOp, startupOp, .tick, .tick, .tick]).hist = [.on, .booting, .off] ∧
    (run baseRoutes { exOn with downDur := 2, upDur := 0 } [shutdownOp, .tick, .tick, .tick, startupOp]).hist = [.on, .off, .shuttingDown] ∧
    (run baseRoutes { exOn with downDur := 0, upDur := 0 } [shutdownOp, startupOp]).hist = [.on, .off] ∧
    (run baseRoutes { exOn with downDur := 0, upDur := 2 } [resetOp, .tick, .tick, .tick]).hist = [.on, .booting, .off] ∧
    (run baseRoutes { exOn with downDur := 2, upDur := 0 } [resetOp, .tick, .tick, .tick]).hist = [.on, .off, .shuttingDown] := by
  decide

/-! ### a session that survives a power cycle cannot be used while the node is not ON -/

/-- what can be done TO or WITH the sessions of a node from outside: a request to the node, a login attempt, a frame
arriving at an interface (a remote terminal command, a remote logoff, a remote login are frames), the sweep of a tick -/
inductive SOp
  | req (key : String) (sub : Sub)
  | login (usm : Nat) (remote : Bool)
  | frame (i : Nat)
  | sweep (t : Int)
deriving DecidableEq, Repr

/-- the visible outcome: the request's answer / whether the login succeeded / how far the frame climbed -/
inductive SOut
  | resp (r : Resp) | login (ok : Bool) | climbed (l : List Layer) | swept
deriving DecidableEq, Repr

def sstep (tbl : List Route) (ns : Node × Sessions) : SOp → (Node × Sessions) × SOut
  | .req key sub => (((request tbl ns.1 key sub).1, ns.2), .resp (request tbl ns.1 key sub).2)
  | .login j remote => ((ns.1, (ns.2.login (usmCanPerform ns.1 j) remote).1), .login (ns.2.login (usmCanPerform ns.1 j) remote).2)
  | .frame i => (ns, .climbed (frameClimbs ns.1 i))
  | .sweep t => ((ns.1, ns.2.pre t), .swept)

/-- **a surviving session is inert while its node is not ON.** Nothing in the code ends a session when its node shuts
down, so a session younger than the time-out is still in the (STOPPED) session manager when the node is OFF, and is
there again when the services come back. C12 does not forbid that: its text is about what a node that is not ON DOES —
no service RUNNING once OFF (the session manager is STOPPED: `C12_off_nothing_running`), every request but start-up
refused, no traffic processed — not about what a stopped service remembers. What C12 does demand holds: while the node is
not ON (interfaces down, as they are on every reachable state) the session can be neither used nor refreshed nor joined —
every request other than `startup` is refused and changes neither node nor sessions (`remote_logoff`, terminal and
user-manager requests included), every login is refused, every frame (remote command, remote login, remote logoff) stops
at the interface; the ONLY thing that happens to the sessions is the time-out sweep, which can only end them. -/
theorem C12_session_inert_while_not_on {tbl : List Route} (hg : allGuarded tbl = true) (n : Node) (s : Sessions)
    (hne : n.st ≠ .on) (hnic : NicInv n) (op : SOp) :
    (∀ key sub, op = .req key sub → key ≠ "startup" →
      (sstep tbl (n, s) op).1 = (n, s) ∧ ((sstep tbl (n, s) op).2 = .resp .failure ∨ (sstep tbl (n, s) op).2 = .resp .unreachable)) ∧
    (∀ j remote, op = .login j remote → sstep tbl (n, s) op = ((n, s), .login false)) ∧
    (∀ i, op = .frame i → sstep tbl (n, s) op = ((n, s), .climbed [.iface])) ∧
    (∀ t, op = .sweep t → (sstep tbl (n, s) op).1.1 = n ∧
      ((sstep tbl (n, s) op).1.2.loc = none ∨ (sstep tbl (n, s) op).1.2.loc = s.loc) ∧
      (∀ r ∈ (sstep tbl (n, s) op).1.2.rem, r ∈ s.rem)) := by
  refine ⟨?_, ?_, ?_, ?_⟩
  · intro key sub hop hk
    subst hop
    have := C12_refused_unless_startup hg n hne key sub hk
    simp only [sstep]
    rw [this]
    refine ⟨rfl, ?_⟩
    split
    · exact Or.inl rfl
    · exact Or.inr rfl
  · intro j remote hop
    subst hop
    simp only [sstep]
    rw [C12_login_needs_on n j s remote hne]
  · intro i hop
    subst hop
    have hoff := hnic hne
    have : nicPasses n i = false := by
      unfold nicPasses
      cases hc : n.nics[i]? with
      | none => rfl
      | some c => exact hoff c (List.mem_of_getElem? hc)
    simp [sstep, frameClimbs, this]
  · intro t hop
    subst hop
    refine ⟨rfl, ?_, ?_⟩
    · show (s.pre t).loc = none ∨ (s.pre t).loc = s.loc
      rw [(Sessions.pre_loc s t).1]
      cases hl : s.loc with
      | none => exact Or.inl rfl
      | some l =>
        simp only
        split
        · exact Or.inl rfl
        · exact Or.inr rfl
    · intro r hr
      have : r ∈ s.rem.filter (fun r => !decide (r + s.remoteTimeout ≤ t)) := hr
      exact (List.mem_filter.mp this).1

def srun (tbl : List Route) (ns : Node × Sessions) : List SOp → Node × Sessions
  | [] => ns
  | op :: ops => srun tbl (sstep tbl ns op).1 ops

/-- and over a whole stay in non-ON states: along any sequence of such operations during which the node is never ON
(no start-up request among them: that is what ends the stay), no session is added and none is refreshed — the local
session is the one that was there or gone, the remote sessions are a sub-list of the ones that were there -/
theorem C12_sessions_only_shrink_while_not_on {tbl : List Route} (hg : allGuarded tbl = true) (n : Node) (s : Sessions)
    (hne : n.st ≠ .on) (hnic : NicInv n) (ops : List SOp) (hns : ∀ op ∈ ops, ∀ sub, op ≠ .req "startup" sub) :
    (srun tbl (n, s) ops).1 = n ∧ ((srun tbl (n, s) ops).2.loc = none ∨ (srun tbl (n, s) ops).2.loc = s.loc) ∧
    (∀ x ∈ (srun tbl (n, s) ops).2.rem, x ∈ s.rem) := by
  induction ops generalizing s with
  | nil => exact ⟨rfl, Or.inr rfl, fun _ h => h⟩
  | cons op ops ih =>
    have hstep : (sstep tbl (n, s) op).1.1 = n ∧
        ((sstep tbl (n, s) op).1.2.loc = none ∨ (sstep tbl (n, s) op).1.2.loc = s.loc) ∧
        (∀ x ∈ (sstep tbl (n, s) op).1.2.rem, x ∈ s.rem) := by
      obtain ⟨c1, c2, c3, c4⟩ := C12_session_inert_while_not_on hg n s hne hnic op
      cases op with
      | req key sub =>
        have hk : key ≠ "startup" := by
          intro hk; subst hk; exact hns _ (List.mem_cons_self) sub rfl
        have := (c1 key sub rfl hk).1
        rw [this]; exact ⟨rfl, Or.inr rfl, fun _ h => h⟩
      | login j remote => rw [c2 j remote rfl]; exact ⟨rfl, Or.inr rfl, fun _ h => h⟩
      | frame i => rw [c3 i rfl]; exact ⟨rfl, Or.inr rfl, fun _ h => h⟩
      | sweep t => exact c4 t rfl
    obtain ⟨h1, h2, h3⟩ := hstep
    have e1 : (sstep tbl (n, s) op).1 = (n, (sstep tbl (n, s) op).1.2) := Prod.ext h1 rfl
    have e2 : srun tbl (n, s) (op :: ops) = srun tbl (n, (sstep tbl (n, s) op).1.2) ops := by
      show srun tbl (sstep tbl (n, s) op).1 ops = _
      rw [e1]
    rw [e2]
    obtain ⟨r1, r2, r3⟩ := ih (sstep tbl (n, s) op).1.2 (fun o ho => hns o (List.mem_cons_of_mem _ ho))
    refine ⟨r1, ?_, fun x hx => h3 x (r3 x hx)⟩
    rcases r2 with r2 | r2
    · exact Or.inl r2
    · rcases h2 with h2 | h2
      · exact Or.inl (by rw [r2, h2])
      · exact Or.inr (by rw [r2, h2])

/-- non-vacuity: a local and a remote session on a node that has just been shut down; a login, a terminal request and
a frame bounce; the sweeps keep the young sessions and end them at the time-out -/
example :
    let n := run baseRoutes exOn [shutdownOp]
    let s : Sessions := { now := 2, loc := some 2, rem := [2], localTimeout := 3, remoteTimeout := 3 }
    ((sstep baseRoutes (n, s) (.login 0 true)).2, (sstep baseRoutes (n, s) (.req "service" (.svc 0 .stop))).2,
     (sstep baseRoutes (n, s) (.frame 0)).2, (sstep baseRoutes (n, s) (.sweep 4)).1.2.rem, (sstep baseRoutes (n, s) (.sweep 5)).1.2.rem) =
    (.login false, .resp .failure, .climbed [.iface], [2], []) := by decide

end Primaite.Power
