/-
C14 — visible health changes only by scanning; fixes and scans take their set time.
Property theorems only; the model is `Model/Health.lean`, the item-wise decomposition `Lemmas/HealthEff.lean`.

Reading guide. `n.apply op` is the state after one operation; `n.run ops` after a sequence.  Items are matched
positionally (`n.sws[i]?`, `n.folders[j]?`, `G.files[k]?`): no operation adds, removes or reorders them
(`C14_shape`).  "The moment scans happen" in a tick is after the node's power phase and before the items' own ticks.
-/
import PrimaiteModel.Lemmas.HealthEff
namespace Primaite.Health
set_option linter.unusedSimpArgs false

/-! ## 0. shape -/

theorem powerEff_same (n : Node) (x : Sw) : Sw.Same (powerEff n x) x := by
  have hb : Sw.Same (bootEff n x) x := by
    unfold bootEff; repeat' split
    all_goals first | exact .refl x | exact x.startUp_same
  have hs : ∀ (m : Node) (y : Sw), Sw.Same (shutEff m y) y := by
    intro m y
    unfold shutEff powerOnEff; repeat' split
    all_goals first | exact .refl y | exact y.shutDown_same | exact (y.shutDown.startUp_same).trans y.shutDown_same
  exact (hs _ _).trans hb

theorem Sw.Same.id {y x : Sw} (h : Sw.Same y x) : y.name = x.name ∧ y.isApp = x.isApp := ⟨h.name, h.isApp⟩

theorem powerOnEff_same (n : Node) (x : Sw) : Sw.Same (powerOnEff n x) x := by
  unfold powerOnEff; split
  · exact x.startUp_same
  · exact .refl x

theorem swEff_name (n : Node) (op : Op) (x : Sw) : (swEff n op x).name = x.name ∧ (swEff n op x).isApp = x.isApp := by
  have hp := powerEff_same n x
  cases op <;> simp only [swEff]
  case tick =>
    unfold tickEff
    split
    · split
      · exact ⟨((powerEff n x).scan.tick_same).name.trans hp.name, ((powerEff n x).scan.tick_same).isApp.trans hp.isApp⟩
      · exact ((powerEff n x).tick_same.trans hp).id
    · exact hp.id
  case sw isApp name r =>
    unfold Sw.request
    split
    · split
      · by_cases hr : r = .scan
        · subst hr; exact ⟨rfl, rfl⟩
        · exact (x.handle_same r hr).id
      · exact ⟨rfl, rfl⟩
    · exact ⟨rfl, rfl⟩
  case shutdown =>
    split
    · split
      · exact x.shutDown_same.id
      · exact ⟨rfl, rfl⟩
    · exact ⟨rfl, rfl⟩
  case reset =>
    split
    · split
      · exact x.shutDown_same.id
      · exact ⟨rfl, rfl⟩
    · exact ⟨rfl, rfl⟩
  case startup =>
    split
    · exact (powerOnEff_same n x).id
    · exact ⟨rfl, rfl⟩
  case swSet => split <;> exact ⟨rfl, rfl⟩
  case appInstall =>
    split
    · exact x.install_same.id
    · exact ⟨rfl, rfl⟩
  case appRun =>
    split
    · split
      · exact x.startUp_same.id
      · exact ⟨rfl, rfl⟩
    · exact ⟨rfl, rfl⟩
  all_goals trivial

/-! ## 1. visible software health changes only when a scan covering the item completes -/

/-- the item at the moment scans happen in this step -/
def swMoment (n : Node) (op : Op) (x : Sw) : Sw :=
  match op with
  | .tick => powerEff n x
  | _ => x

/-- A scan covering software item `xm` completes in step `op` from node state `n`: either its own `scan` request is
accepted (node ON, right name and kind, item RUNNING), or the whole-node scan fans out in this tick. -/
def swScanCompletes (n : Node) (op : Op) (xm : Sw) : Bool :=
  match op with
  | .tick => n.powerPhase.scanFires
  | .sw isApp name .scan => n.power = .on && xm.accepts isApp name .scan
  | _ => false

theorem swEff_visible (n : Node) (op : Op) (x : Sw) :
    (swEff n op x).visible =
      if swScanCompletes n op (swMoment n op x) then (swMoment n op x).actual else x.visible := by
  have hp := powerEff_same n x
  cases op <;> simp only [swEff, swScanCompletes, swMoment]
  case tick =>
    unfold tickEff Node.scanFires
    by_cases h1 : n.powerPhase.power = .on
    · by_cases h2 : n.powerPhase.scanCd = 1
      · simp only [h1, h2, if_true, decide_true, Bool.and_self]
        exact ((powerEff n x).scan.tick_same).visible
      · simp only [h1, h2, if_true, if_false, decide_true, decide_false, Bool.and_false, Bool.false_eq_true]
        exact ((powerEff n x).tick_same).visible.trans hp.visible
    · simp only [h1, if_false, decide_false, Bool.false_and, Bool.false_eq_true]
      exact hp.visible
  case sw isApp name r =>
    by_cases hon : n.power = .on
    · simp only [hon, if_true, decide_true, Bool.true_and]
      unfold Sw.request
      by_cases hr : r = .scan
      · subst hr
        by_cases ha : x.accepts isApp name .scan = true
        · simp [ha, Sw.handle]
        · simp [ha]
      · have : (match r with | .scan => x.accepts isApp name .scan | _ => false) = false := by
          cases r <;> first | rfl | exact absurd rfl hr
        split
        · simp only [(x.handle_same r hr).visible]
          cases r <;> first | rfl | exact absurd rfl hr
        · cases r <;> first | rfl | exact absurd rfl hr
    · simp only [hon, if_false]
      cases r <;> simp
  case shutdown =>
    simp only [Bool.false_eq_true, if_false]
    split
    · split
      · exact x.shutDown_same.visible
      · rfl
    · rfl
  case reset =>
    simp only [Bool.false_eq_true, if_false]
    split
    · split
      · exact x.shutDown_same.visible
      · rfl
    · rfl
  case startup =>
    simp only [Bool.false_eq_true, if_false]
    split
    · exact (powerOnEff_same n x).visible
    · rfl
  case swSet => simp only [Bool.false_eq_true, if_false]; split <;> rfl
  case appInstall =>
    simp only [Bool.false_eq_true, if_false]
    split
    · exact x.install_same.visible
    · rfl
  case appRun =>
    simp only [Bool.false_eq_true, if_false]
    split
    · split
      · exact x.startUp_same.visible
      · rfl
    · rfl
  all_goals simp

/-- **C14 (software, one step, any state).** If the visible health of the `i`-th software item differs after an
operation, then a scan covering it completed in that step, and the new visible value is the item's actual health at
the moment of the scan. -/
theorem C14_sw_visible_only_by_scan (n : Node) (op : Op) (i : Nat) (x x' : Sw)
    (hx : n.sws[i]? = some x) (hx' : (n.apply op).sws[i]? = some x') (hne : x'.visible ≠ x.visible) :
    swScanCompletes n op (swMoment n op x) = true ∧ x'.visible = (swMoment n op x).actual ∧ x'.name = x.name := by
  rw [apply_sws, List.getElem?_map, hx] at hx'
  simp only [Option.map_some, Option.some.injEq] at hx'
  subst hx'
  have h := swEff_visible n op x
  by_cases hc : swScanCompletes n op (swMoment n op x) = true
  · simp only [hc, if_true] at h
    exact ⟨hc, h, (swEff_name n op x).1⟩
  · simp only [hc, if_false] at h
    exact absurd h hne

/-- …and conversely a completing scan sets visible := actual-at-that-moment. -/
theorem C14_sw_scan_sets_visible (n : Node) (op : Op) (i : Nat) (x : Sw) (hx : n.sws[i]? = some x)
    (hc : swScanCompletes n op (swMoment n op x) = true) :
    ∃ x', (n.apply op).sws[i]? = some x' ∧ x'.visible = (swMoment n op x).actual := by
  refine ⟨swEff n op x, ?_, ?_⟩
  · rw [apply_sws, List.getElem?_map, hx]; rfl
  · rw [swEff_visible, hc]; rfl

/-- the only thing the power phase can do to an item's actual health is UNUSED → GOOD (first start). -/
theorem swMoment_actual (n : Node) (op : Op) (x : Sw) :
    (swMoment n op x).actual = x.actual ∨ (x.actual = .unused ∧ (swMoment n op x).actual = .good) := by
  have hw : ∀ y : Sw, y.wake.actual = y.actual ∨ (y.actual = .unused ∧ y.wake.actual = .good) := by
    intro y; unfold Sw.wake; split
    · right; exact ⟨by assumption, rfl⟩
    · left; rfl
  have hsu : ∀ y : Sw, y.startUp.actual = y.actual ∨ (y.actual = .unused ∧ y.startUp.actual = .good) := by
    intro y; unfold Sw.startUp; repeat' split
    all_goals first | exact hw y | (left; rfl)
  have hsd : ∀ y : Sw, y.shutDown.actual = y.actual := by
    intro y; unfold Sw.shutDown; repeat' split
    all_goals rfl
  by_cases hop : op = .tick
  case neg => cases op <;> first | exact absurd rfl hop | exact Or.inl rfl
  subst hop
  simp only [swMoment]
  unfold powerEff
  have hb : (bootEff n x).actual = x.actual ∨ (x.actual = .unused ∧ (bootEff n x).actual = .good) := by
    unfold bootEff; repeat' split
    all_goals first | exact hsu x | (left; rfl)
  have hs : ∀ (m : Node) (y : Sw), (shutEff m y).actual = y.actual ∨ (y.actual = .unused ∧ (shutEff m y).actual = .good) := by
    intro m y; unfold shutEff powerOnEff; repeat' split
    all_goals first | (left; rfl) | (left; exact hsd y) | skip
    · have := hsu y.shutDown; rw [hsd y] at this; exact this
  rcases hb with hb | ⟨hb1, hb2⟩
  · rcases hs n.bootPhase (bootEff n x) with h | ⟨h1, h2⟩
    · left; rw [h, hb]
    · right; exact ⟨by rw [← hb]; exact h1, h2⟩
  · rcases hs n.bootPhase (bootEff n x) with h | ⟨h1, _⟩
    · right; exact ⟨hb1, by rw [h, hb2]⟩
    · rw [hb2] at h1; cases h1

end Primaite.Health
