/-
C14 — visible health changes only by scanning; fixes and scans take their set time.
Property theorems only; the model is `Model/Health.lean`, the item-wise decomposition `Lemmas/HealthEff.lean`.

Reading guide. `n.apply op` is the state after one operation; `n.run ops` after a sequence.  Items are matched
positionally (`n.sws[i]?`, `n.folders[j]?`, `G.files[k]?`): no operation adds, removes or reorders them
(`C14_shape`).  "The moment scans happen" in a tick is after the node's power phase and before the items' own ticks.
-/
import PrimaiteModel.Lemmas.HealthEff
namespace Primaite.Health
set_option linter.unusedSimpArgs false

/-! ## 0. shape -/

theorem powerEff_same (n : Node) (x : Sw) : Sw.Same (powerEff n x) x := (powerEff_rel n x).same

/-- what `reset` with `shut_down_duration <= 0` does to an item: stopped / closed, then started again if the node boots at once -/
theorem resetNowEff_rel (n : Node) (x : Sw) : Sw.PowerRel (powerOnEff n x.shutDown) x :=
  (powerOnEff_rel n x.shutDown).trans x.shutDown_rel

theorem Sw.Same.id {y x : Sw} (h : Sw.Same y x) : y.name = x.name ∧ y.isApp = x.isApp := ⟨h.name, h.isApp⟩

theorem powerOnEff_same (n : Node) (x : Sw) : Sw.Same (powerOnEff n x) x := by
  unfold powerOnEff; split
  · exact x.startUp_same
  · exact .refl x

theorem swEff_name (n : Node) (op : Op) (x : Sw) : (swEff n op x).name = x.name ∧ (swEff n op x).isApp = x.isApp := by
  have hp := powerEff_same n x
  cases op <;> simp only [swEff]
  case tick =>
    unfold tickEff
    split
    · split
      · exact ⟨((powerEff n x).scan.tick_same).name.trans hp.name, ((powerEff n x).scan.tick_same).isApp.trans hp.isApp⟩
      · exact ((powerEff n x).tick_same.trans hp).id
    · exact hp.id
  case sw isApp name r =>
    unfold Sw.request
    split
    · split
      · by_cases hr : r = .scan
        · subst hr; exact ⟨rfl, rfl⟩
        · exact (x.handle_same r hr).id
      · exact ⟨rfl, rfl⟩
    · exact ⟨rfl, rfl⟩
  case shutdown =>
    split
    · split
      · exact (offNowEff_rel n x).same.id
      · exact ⟨rfl, rfl⟩
    · exact ⟨rfl, rfl⟩
  case reset =>
    split
    · split
      · exact (resetNowEff_rel n x).same.id
      · exact ⟨rfl, rfl⟩
    · exact ⟨rfl, rfl⟩
  case startup =>
    split
    · exact (powerOnEff_same n x).id
    · exact ⟨rfl, rfl⟩
  case swSet => split <;> exact ⟨rfl, rfl⟩
  case appInstall =>
    split
    · exact x.install_same.id
    · exact ⟨rfl, rfl⟩
  case appRun =>
    split
    · split
      · exact x.startUp_same.id
      · exact ⟨rfl, rfl⟩
    · exact ⟨rfl, rfl⟩
  all_goals trivial

/-! ## 1. visible software health changes only when a scan covering the item completes -/

/-- the item at the moment scans happen in this step -/
def swMoment (n : Node) (op : Op) (x : Sw) : Sw :=
  match op with
  | .tick => powerEff n x
  | _ => x

/-- A scan covering software item `xm` completes in step `op` from node state `n`: either its own `scan` request is
accepted (node ON, right name and kind, item RUNNING), or the whole-node scan fans out in this tick. -/
def swScanCompletes (n : Node) (op : Op) (xm : Sw) : Bool :=
  match op with
  | .tick => n.powerPhase.scanFires
  | .sw isApp name .scan => n.power = .on && xm.accepts isApp name .scan
  | _ => false

theorem swEff_visible (n : Node) (op : Op) (x : Sw) :
    (swEff n op x).visible =
      if swScanCompletes n op (swMoment n op x) then (swMoment n op x).actual else x.visible := by
  have hp := powerEff_same n x
  cases op <;> simp only [swEff, swScanCompletes, swMoment]
  case tick =>
    unfold tickEff Node.scanFires
    by_cases h1 : n.powerPhase.power = .on
    · by_cases h2 : n.powerPhase.scanCd = 1
      · simp only [h1, h2, if_true, decide_true, Bool.and_self]
        exact ((powerEff n x).scan.tick_same).visible
      · simp only [h1, h2, if_true, if_false, decide_true, decide_false, Bool.and_false, Bool.false_eq_true]
        exact ((powerEff n x).tick_same).visible.trans hp.visible
    · simp only [h1, if_false, decide_false, Bool.false_and, Bool.false_eq_true]
      exact hp.visible
  case sw isApp name r =>
    by_cases hon : n.power = .on
    · simp only [hon, if_true, decide_true, Bool.true_and]
      unfold Sw.request
      by_cases hr : r = .scan
      · subst hr
        by_cases ha : x.accepts isApp name .scan = true
        · simp [ha, Sw.handle]
        · simp [ha]
      · have : (match r with | .scan => x.accepts isApp name .scan | _ => false) = false := by
          cases r <;> first | rfl | exact absurd rfl hr
        split
        · simp only [(x.handle_same r hr).visible]
          cases r <;> first | rfl | exact absurd rfl hr
        · cases r <;> first | rfl | exact absurd rfl hr
    · simp only [hon, if_false]
      cases r <;> simp
  case shutdown =>
    simp only [Bool.false_eq_true, if_false]
    split
    · split
      · exact (offNowEff_rel n x).same.visible
      · rfl
    · rfl
  case reset =>
    simp only [Bool.false_eq_true, if_false]
    split
    · split
      · exact (resetNowEff_rel n x).same.visible
      · rfl
    · rfl
  case startup =>
    simp only [Bool.false_eq_true, if_false]
    split
    · exact (powerOnEff_same n x).visible
    · rfl
  case swSet => simp only [Bool.false_eq_true, if_false]; split <;> rfl
  case appInstall =>
    simp only [Bool.false_eq_true, if_false]
    split
    · exact x.install_same.visible
    · rfl
  case appRun =>
    simp only [Bool.false_eq_true, if_false]
    split
    · split
      · exact x.startUp_same.visible
      · rfl
    · rfl
  all_goals simp

/-- **C14 (software, one step, any state).** If the visible health of the `i`-th software item differs after an
operation, then a scan covering it completed in that step, and the new visible value is the item's actual health at
the moment of the scan. -/
theorem C14_sw_visible_only_by_scan (n : Node) (op : Op) (i : Nat) (x x' : Sw)
    (hx : n.sws[i]? = some x) (hx' : (n.apply op).sws[i]? = some x') (hne : x'.visible ≠ x.visible) :
    swScanCompletes n op (swMoment n op x) = true ∧ x'.visible = (swMoment n op x).actual ∧ x'.name = x.name := by
  rw [apply_sws, List.getElem?_map, hx] at hx'
  simp only [Option.map_some, Option.some.injEq] at hx'
  subst hx'
  have h := swEff_visible n op x
  by_cases hc : swScanCompletes n op (swMoment n op x) = true
  · simp only [hc, if_true] at h
    exact ⟨hc, h, (swEff_name n op x).1⟩
  · simp only [hc, if_false] at h
    exact absurd h hne

/-- …and conversely a completing scan sets visible := actual-at-that-moment. -/
theorem C14_sw_scan_sets_visible (n : Node) (op : Op) (i : Nat) (x : Sw) (hx : n.sws[i]? = some x)
    (hc : swScanCompletes n op (swMoment n op x) = true) :
    ∃ x', (n.apply op).sws[i]? = some x' ∧ x'.visible = (swMoment n op x).actual := by
  refine ⟨swEff n op x, ?_, ?_⟩
  · rw [apply_sws, List.getElem?_map, hx]; rfl
  · rw [swEff_visible, hc]; rfl

/-- the only thing the power phase can do to an item's actual health is UNUSED → GOOD (first start). -/
theorem swMoment_actual (n : Node) (op : Op) (x : Sw) :
    (swMoment n op x).actual = x.actual ∨ (x.actual = .unused ∧ (swMoment n op x).actual = .good) := by
  by_cases hop : op = .tick
  case neg => cases op <;> first | exact absurd rfl hop | exact Or.inl rfl
  subst hop
  exact (powerEff_rel n x).actual


/-! ## 2. visible file health changes only when a scan covering the file completes -/

theorem fileEff_name (n : Node) (op : Op) (G : Folder) (f : File) : (fileEff n op G f).name = f.name := by
  cases op <;> simp only [fileEff]
  case tick =>
    split
    · by_cases h1 : G.restoreCd = 1 <;> by_cases h2 : G.scanCd = 1 <;> by_cases h3 : n.powerPhase.scanCd = 1 <;>
        simp [h1, h2, h3]
    · rfl
  case folder F r => split <;> cases r <;> simp
  case file F nm r =>
    split
    · exact f.handle_name r
    · rfl
  all_goals (first | rfl | (split <;> simp))

/-- A scan covering file `f` of folder `G` completes in step `op`: its own `scan` request is accepted (node ON, folder
and file live), or — in a tick of a powered-on node, for a live file of a live folder — the whole-node scan fans out
or the folder's timed scan reaches its last step. -/
def fileScanCompletes (n : Node) (op : Op) (G : Folder) (f : File) : Bool :=
  match op with
  | .tick =>
    n.powerPhase.power = .on && !G.deleted && !f.deleted && (n.powerPhase.scanCd = 1 || G.scanCd = 1)
  | .file F nm .scan => n.power = .on && G.name = F && !G.deleted && f.name = nm && !f.deleted
  | _ => false

theorem fileEff_visible (n : Node) (op : Op) (G : Folder) (f : File) :
    (fileEff n op G f).visible = if fileScanCompletes n op G f then f.actual else f.visible := by
  cases op <;> simp only [fileEff, fileScanCompletes]
  case tick =>
    by_cases hon : n.powerPhase.power = .on <;> by_cases hd : G.deleted = false <;>
      by_cases h1 : G.restoreCd = 1 <;> by_cases h2 : G.scanCd = 1 <;> by_cases h3 : n.powerPhase.scanCd = 1 <;>
      by_cases hfd : f.deleted = true <;> simp [hon, hd, h1, h2, h3, hfd, File.scan_visible]
  case folder F r => split <;> cases r <;> simp
  case file F nm r =>
    by_cases hr : r = .scan
    · subst hr
      by_cases hon : n.power = .on <;> by_cases hn : G.name = F <;> by_cases hd : G.deleted = false <;>
        by_cases hf : f.name = nm <;> by_cases hfd : f.deleted = true <;>
        simp [hon, hn, hd, hf, hfd, File.handle, File.scan_visible]
    · have : (match r with | .scan => (decide (n.power = .on) && decide (G.name = F) && !G.deleted && decide (f.name = nm) && !f.deleted) | _ => false) = false := by
        cases r <;> first | rfl | exact absurd rfl hr
      split
      · rw [f.handle_visible r hr]
        cases r <;> first | rfl | exact absurd rfl hr
      · cases r <;> first | rfl | exact absurd rfl hr
  all_goals (first | (simp; done) | (split <;> simp))

theorem folderEff_name (n : Node) (op : Op) (G : Folder) : (folderEff n op G).name = G.name := by
  cases op <;> simp only [folderEff]
  case tick =>
    unfold folderTickEff Folder.tick
    split
    · simp only []
      split
      · split
        · simp
        · rw [(Folder.restoreTick_rest _).1, (Folder.scanTick_rest _).1]; simp
      · split
        · rfl
        · rw [(Folder.restoreTick_rest _).1, (Folder.scanTick_rest _).1]
    · rfl
  case folder F r =>
    split
    · split
      · cases r <;> simp [Folder.handle, Folder.scan, Folder.repair, Folder.restore, Folder.corrupt] <;>
          (repeat' split) <;> rfl
      · rfl
    · rfl
  case fsRestoreFolder F =>
    split
    · split
      · rcases Folder.restoreIn_cases n.folders G with e | e <;> rw [e]
        unfold Folder.restore; split <;> rfl
      · rfl
    · rfl
  all_goals (first | rfl | ((repeat' split) <;> rfl))

/-- **C14 shape.** No operation adds, removes, renames or reorders software items, folders or files. -/
theorem C14_shape (n : Node) (op : Op) :
    (n.apply op).sws.map (·.name) = n.sws.map (·.name) ∧
    (n.apply op).folders.map (fun G => (G.name, G.files.map (·.name))) =
      n.folders.map (fun G => (G.name, G.files.map (·.name))) := by
  constructor
  · rw [apply_sws, List.map_map]
    apply List.map_congr_left
    intro x _
    exact (swEff_name n op x).1
  · rw [apply_folders, List.map_map]
    apply List.map_congr_left
    intro G _
    simp only [Function.comp_def, folderEff_name, folderEff_files, List.map_map, Prod.mk.injEq, true_and]
    apply List.map_congr_left
    intro f _
    exact fileEff_name n op G f

/-- **C14 (files, one step, any state).** If the visible health of the `k`-th file of the `j`-th folder differs after
an operation, then a scan covering that file completed in that step, and the new visible value is the file's actual
health before the step (no operation changes a file's actual health before scanning it within the same step). -/
theorem C14_file_visible_only_by_scan (n : Node) (op : Op) (j k : Nat) (G G' : Folder) (f f' : File)
    (hG : n.folders[j]? = some G) (hG' : (n.apply op).folders[j]? = some G')
    (hf : G.files[k]? = some f) (hf' : G'.files[k]? = some f') (hne : f'.visible ≠ f.visible) :
    fileScanCompletes n op G f = true ∧ f'.visible = f.actual ∧ f'.name = f.name ∧ G'.name = G.name := by
  rw [apply_folders, List.getElem?_map, hG] at hG'
  simp only [Option.map_some, Option.some.injEq] at hG'
  subst hG'
  rw [folderEff_files, List.getElem?_map, hf] at hf'
  simp only [Option.map_some, Option.some.injEq] at hf'
  subst hf'
  have h := fileEff_visible n op G f
  by_cases hc : fileScanCompletes n op G f = true
  · simp only [hc, if_true] at h
    exact ⟨hc, h, fileEff_name n op G f, folderEff_name n op G⟩
  · simp only [hc, if_false] at h
    exact absurd h hne

theorem C14_file_scan_sets_visible (n : Node) (op : Op) (j k : Nat) (G : Folder) (f : File)
    (hG : n.folders[j]? = some G) (hf : G.files[k]? = some f) (hc : fileScanCompletes n op G f = true) :
    ∃ G' f', (n.apply op).folders[j]? = some G' ∧ G'.files[k]? = some f' ∧ f'.visible = f.actual := by
  refine ⟨folderEff n op G, fileEff n op G f, ?_, ?_, ?_⟩
  · rw [apply_folders, List.getElem?_map, hG]; rfl
  · rw [folderEff_files, List.getElem?_map, hf]; rfl
  · rw [fileEff_visible, hc]; rfl


/-! ## 2b. a folder's visible health changes only when a scan of it completes -/

/-- A scan of folder `G` completes in step `op`: in a tick of a powered-on node, for a live folder, the whole-node scan
fans out (instant scan) or the folder's own timed scan reaches its last step. -/
def folderScanCompletes (n : Node) (op : Op) (G : Folder) : Bool :=
  match op with
  | .tick => n.powerPhase.power = .on && !G.deleted && (n.powerPhase.scanCd = 1 || G.scanCd = 1)
  | _ => false

theorem Folder.handle_visible (G : Folder) (r : ItemReq) : (G.handle r).1.visible = G.visible := by
  cases r <;> simp only [Folder.handle, Folder.scan, Folder.repair, Folder.restore, Folder.corrupt] <;>
    (repeat' split) <;> rfl

theorem folderEff_visible (n : Node) (op : Op) (G : Folder) :
    (folderEff n op G).visible =
      if folderScanCompletes n op G then
        (if G.scanCd = 1 then worstLive G.files else if anyLiveCorrupt G.files then .corrupt else G.visible)
      else G.visible := by
  cases op <;> simp only [folderEff, folderScanCompletes]
  case tick =>
    unfold folderTickEff Folder.tick
    by_cases hon : n.powerPhase.power = .on
    · by_cases hd : G.deleted = true
      · by_cases hs : n.powerPhase.scanCd = 1
        · simp [hon, hd, hs, Folder.instantScan_visible]
        · simp [hon, hd, hs]
      · have hd' : G.deleted = false := by simpa using hd
        by_cases hs : n.powerPhase.scanCd = 1
        · simp only [hon, hs, if_true, Folder.instantScan_deleted, hd', Bool.false_eq_true, if_false]
          rw [(Folder.restoreTick_rest _).2.1, Folder.scanTick_visible, Folder.instantScan_scanCd,
            Folder.instantScan_visible, Folder.instantScan_files]
          simp only [hd', Bool.false_eq_true, if_false, worstLive_map_scan, true_and]
          by_cases h2 : G.scanCd = 1 <;> simp [h2]
        · simp only [hon, hs, if_true, if_false, hd', Bool.false_eq_true]
          rw [(Folder.restoreTick_rest _).2.1, Folder.scanTick_visible]
          by_cases h2 : G.scanCd = 1 <;> simp [h2]
    · simp [hon]
  case folder F r =>
    simp only [Bool.false_eq_true, if_false]
    split
    · split
      · exact G.handle_visible r
      · rfl
    · rfl
  case fsRestoreFolder F =>
    simp only [Bool.false_eq_true, if_false]
    split
    · split
      · rcases Folder.restoreIn_cases n.folders G with e | e <;> rw [e]
        unfold Folder.restore; split <;> rfl
      · rfl
    · rfl
  all_goals (simp only [Bool.false_eq_true, if_false]; try ((repeat' split) <;> rfl))

/-- **C14 (folders, one step, any state).** A folder's visible health differs after an operation only if a scan of
it completed in that step; the new value is then the worst health among its live files (timed scan) or CORRUPT
because a live file is CORRUPT (whole-node scan). -/
theorem C14_folder_visible_only_by_scan (n : Node) (op : Op) (j : Nat) (G G' : Folder)
    (hG : n.folders[j]? = some G) (hG' : (n.apply op).folders[j]? = some G') (hne : G'.visible ≠ G.visible) :
    folderScanCompletes n op G = true ∧
      ((G.scanCd = 1 ∧ G'.visible = worstLive G.files) ∨
       (G.scanCd ≠ 1 ∧ anyLiveCorrupt G.files = true ∧ G'.visible = .corrupt)) := by
  rw [apply_folders, List.getElem?_map, hG] at hG'
  simp only [Option.map_some, Option.some.injEq] at hG'
  subst hG'
  have h := folderEff_visible n op G
  by_cases hc : folderScanCompletes n op G = true
  · simp only [hc, if_true] at h
    refine ⟨hc, ?_⟩
    by_cases h2 : G.scanCd = 1
    · simp only [h2, if_true] at h
      exact Or.inl ⟨h2, h⟩
    · simp only [h2, if_false] at h
      by_cases h3 : anyLiveCorrupt G.files = true
      · simp only [h3, if_true] at h
        exact Or.inr ⟨h2, h3, h⟩
      · simp only [h3, if_false] at h
        exact absurd h hne
  · simp only [hc, if_false] at h
    exact absurd h hne


/-! ## 3. actual health changes only through explicit events and their timed completion -/

/-- The explicit events that can write the actual health of software item `x` (state before the step) in step `op`,
with the value they write. Everything else is `False`. -/
def swActualCause (n : Node) (op : Op) (x : Sw) (new : SwH) : Prop :=
  match op with
  /- attack / external writer (connection capacity, web-server dependency, database restore) -/
  | .swSet nm h => nm = x.name ∧ new = h.toSwH
  | .sw _ nm .compromise => n.power = .on ∧ nm = x.name ∧ new = .compromised
  /- fix accepted -/
  | .sw _ nm .fix => n.power = .on ∧ nm = x.name ∧ x.op = .running ∧ x.canFix = true ∧ new = .fixing
  /- first start / run -/
  | .sw _ nm .start => n.power = .on ∧ nm = x.name ∧ x.actual = .unused ∧ new = .good
  | .sw _ nm .execute => n.power = .on ∧ nm = x.name ∧ x.actual = .unused ∧ new = .good
  | .appRun nm => n.power = .on ∧ nm = x.name ∧ x.actual = .unused ∧ new = .good
  | .startup => x.actual = .unused ∧ new = .good
  /- a node that shuts down at once (`shut_down_duration <= 0`) while resetting is powered on again in the same call -/
  | .shutdown | .reset => n.power = .on ∧ n.shutDur ≤ 0 ∧ x.actual = .unused ∧ new = .good
  /- a timestep: first start at the end of booting, timed completion of a fix, timed completion of an installation -/
  | .tick =>
    new = .good ∧
      (x.actual = .unused ∨ (x.actual = .fixing ∧ ∃ c, x.fixCd = some c ∧ c ≤ 1) ∨
       (x.isApp = true ∧ x.op = .installing ∧ ∃ c, x.auxCd = some c ∧ c ≤ 1))
  | _ => False

theorem Sw.shutDown_actual (x : Sw) : x.shutDown.actual = x.actual := by
  unfold Sw.shutDown; (repeat' split) <;> rfl

theorem Sw.startUp_actual (x : Sw) : x.startUp.actual = x.actual ∨ (x.actual = .unused ∧ x.startUp.actual = .good) :=
  x.startUp_rel.actual

theorem Sw.fixTick_actual (x : Sw) :
    x.fixTick.actual = x.actual ∨ (x.actual = .fixing ∧ (∃ c, x.fixCd = some c ∧ c ≤ 1) ∧ x.fixTick.actual = .good) := by
  unfold Sw.fixTick
  split
  · rename_i hf
    unfold Sw.updateFix
    split
    · rename_i c hc
      split
      · exact Or.inr ⟨hf, ⟨c, hc, by omega⟩, rfl⟩
      · exact Or.inl rfl
    · exact Or.inl rfl
  · exact Or.inl rfl

theorem Sw.fixTick_rest (x : Sw) :
    x.fixTick.isApp = x.isApp ∧ x.fixTick.op = x.op ∧ x.fixTick.auxCd = x.auxCd := by
  unfold Sw.fixTick Sw.updateFix; (repeat' split) <;> exact ⟨rfl, rfl, rfl⟩

theorem Sw.auxTick_actual (x : Sw) :
    x.auxTick.actual = x.actual ∨
      (x.isApp = true ∧ x.op = .installing ∧ (∃ c, x.auxCd = some c ∧ c ≤ 1) ∧ x.auxTick.actual = .good) := by
  unfold Sw.auxTick
  split
  · rename_i ha
    split
    · rename_i hi
      split
      · rename_i c hc
        split
        · exact Or.inr ⟨ha, hi, ⟨c, hc, by omega⟩, rfl⟩
        · exact Or.inl rfl
      · exact Or.inl rfl
    · exact Or.inl rfl
  · (repeat' split) <;> exact Or.inl rfl

theorem tickEff_actual (n : Node) (x : Sw) (h : (tickEff n x).actual ≠ x.actual) :
    (tickEff n x).actual = .good ∧
      (x.actual = .unused ∨ (x.actual = .fixing ∧ ∃ c, x.fixCd = some c ∧ c ≤ 1) ∨
       (x.isApp = true ∧ x.op = .installing ∧ ∃ c, x.auxCd = some c ∧ c ≤ 1)) := by
  have hp := powerEff_rel n x
  -- y = the item after the power phase and the (possible) node scan; scanning does not touch anything used below
  have key : ∀ y : Sw, y.actual = (powerEff n x).actual → y.fixCd = (powerEff n x).fixCd → y.auxCd = (powerEff n x).auxCd →
      y.isApp = (powerEff n x).isApp → y.op = (powerEff n x).op → y.tick.actual ≠ x.actual →
      y.tick.actual = .good ∧
        (x.actual = .unused ∨ (x.actual = .fixing ∧ ∃ c, x.fixCd = some c ∧ c ≤ 1) ∨
         (x.isApp = true ∧ x.op = .installing ∧ ∃ c, x.auxCd = some c ∧ c ≤ 1)) := by
    intro y ha hf hx hi ho hne
    unfold Sw.tick at hne ⊢
    have h1 := y.fixTick_actual
    have h2 := y.fixTick.auxTick_actual
    have hr := y.fixTick_rest
    rcases h2 with e2 | ⟨a2, i2, ⟨c, c2, cle⟩, g2⟩
    · rcases h1 with e1 | ⟨f1, ⟨c, c1, cle⟩, g1⟩
      · -- nothing happened in the item tick: the change came from the power phase
        rcases hp.actual with e | ⟨u, g⟩
        · exact absurd (by rw [e2, e1, ha, e]) hne
        · exact ⟨by rw [e2, e1, ha, g], Or.inl u⟩
      · rcases hp.actual with e | ⟨u, g⟩
        · exact ⟨by rw [e2, g1], Or.inr (Or.inl ⟨by rw [← e, ← ha]; exact f1, c, by rw [← hp.fixCd, ← hf]; exact c1, cle⟩)⟩
        · exact ⟨by rw [e2, g1], Or.inl u⟩
    · refine ⟨g2, ?_⟩
      rcases hp.actual with _ | ⟨u, _⟩
      · refine Or.inr (Or.inr ⟨?_, ?_, c, ?_, cle⟩)
        · rw [← hp.same.isApp, ← hi, ← hr.1]; exact a2
        · rw [← hp.installing, ← ho, ← hr.2.1]; exact i2
        · rw [← hp.auxCd, ← hx, ← hr.2.2]; exact c2
      · exact Or.inl u
  unfold tickEff at h ⊢
  split at h
  · rename_i hon
    simp only [hon, if_true]
    split at h
    · rename_i hs
      simp only [hs, if_true]
      exact key (powerEff n x).scan rfl rfl rfl rfl rfl h
    · rename_i hs
      simp only [hs, if_false]
      exact key (powerEff n x) rfl rfl rfl rfl rfl h
  · rename_i hon
    simp only [hon, if_false]
    rcases hp.actual with e | ⟨u, g⟩
    · exact absurd e h
    · exact ⟨g, Or.inl u⟩

/-- **C14 (software actual health, one step, any state).** The actual health of a software item differs after an
operation only if the operation is one of the enumerated writers for that item (`swActualCause`): an attack or
another external `set_health_state`, an accepted fix, a first start/run, or a timestep that starts it, completes
its fix, or completes its installation — and the new value is the one that writer sets. -/
theorem C14_sw_actual_only_by_event (n : Node) (op : Op) (i : Nat) (x x' : Sw)
    (hx : n.sws[i]? = some x) (hx' : (n.apply op).sws[i]? = some x') (hne : x'.actual ≠ x.actual) :
    swActualCause n op x x'.actual := by
  rw [apply_sws, List.getElem?_map, hx] at hx'
  simp only [Option.map_some, Option.some.injEq] at hx'
  subst hx'
  cases op <;> simp only [swEff, swActualCause] at hne ⊢
  case tick => exact tickEff_actual n x hne
  case shutdown =>
    split at hne
    · rename_i hon
      split at hne
      · rename_i hd
        rcases (offNowEff_rel n x).actual with e | ⟨u, g⟩
        · exact absurd e hne
        · rw [if_pos hon, if_pos hd]; exact ⟨hon, hd, u, g⟩
      · exact absurd rfl hne
    · exact absurd rfl hne
  case reset =>
    split at hne
    · rename_i hon
      split at hne
      · rename_i hd
        rcases (resetNowEff_rel n x).actual with e | ⟨u, g⟩
        · exact absurd e hne
        · rw [if_pos hon, if_pos hd]; exact ⟨hon, hd, u, g⟩
      · exact absurd rfl hne
    · exact absurd rfl hne
  case startup =>
    split at hne
    · rcases (powerOnEff_rel n x).actual with e | ⟨u, g⟩
      · exact absurd e hne
      · rename_i hoff; rw [if_pos hoff]; exact ⟨u, g⟩
    · exact absurd rfl hne
  case osScan => exact hne rfl
  case sw isApp nm r =>
    split at hne
    · rename_i hon
      simp only [hon, if_true] at ⊢
      unfold Sw.request at hne ⊢
      split at hne
      · rename_i hacc
        simp only [hacc, if_true]
        simp only [Sw.accepts, Bool.and_eq_true, decide_eq_true_eq] at hacc
        obtain ⟨⟨⟨hn, _⟩, _⟩, hal⟩ := hacc
        cases r <;> simp only [Sw.handle] at hne ⊢
        case scan => exact absurd rfl hne
        case fix =>
          have hrun : x.op = .running := by simpa [SwReq.allowed, SwReq.guard] using hal
          unfold Sw.fix at hne ⊢
          split at hne
          · rename_i hc; rw [if_pos hc]; exact ⟨trivial, hn.symm, hrun, hc, rfl⟩
          · exact absurd rfl hne
        case compromise => exact ⟨trivial, hn.symm, rfl⟩
        case start =>
          split at hne
          · rename_i hs
            simp only [hs, if_true] at ⊢
            rcases x.wake_rel.actual with e | ⟨u, g⟩
            · exact absurd e hne
            · exact ⟨trivial, hn.symm, u, g⟩
          · exact absurd rfl hne
        case execute =>
          split at hne
          · rename_i hs
            simp only [hs, if_true] at ⊢
            rcases x.wake_rel.actual with e | ⟨u, g⟩
            · exact absurd e hne
            · exact ⟨trivial, hn.symm, u, g⟩
          · exact absurd rfl hne
        all_goals (exfalso; apply hne; (repeat' split) <;> rfl)
      · exact absurd rfl hne
    · exact absurd rfl hne
  case swSet nm h =>
    split at hne
    · rename_i hn; rw [if_pos hn]; exact ⟨hn.symm, rfl⟩
    · exact absurd rfl hne
  case appInstall nm =>
    exfalso; apply hne
    split
    · unfold Sw.install; split <;> rfl
    · rfl
  case appRun nm =>
    split at hne
    · rename_i hon
      split at hne
      · rename_i hn
        rw [if_pos hon, if_pos hn]
        rcases x.startUp_rel.actual with e | ⟨u, g⟩
        · exact absurd e hne
        · exact ⟨hon, hn.1.symm, u, g⟩
      · exact absurd rfl hne
    · exact absurd rfl hne
  all_goals exact hne rfl


/-- the quirk of the completing folder restore: a deleted file that is un-deleted AND has a deleted twin gets a second `restore()` -/
def File.twiceRestored (fs : List File) (f : File) : Bool :=
  f.deleted && !hasLive f.name fs && firstDeleted fs f && deadTwin fs f

/-- The explicit events that can write the actual health of file `f` of folder `G` in step `op`. -/
def fileActualCause (n : Node) (op : Op) (G : Folder) (f : File) (new : FsH) : Prop :=
  match op with
  /- attack / external writer (database queries, FTP transfer) -/
  | .fileSet F nm h => G.name = F ∧ f.name = nm ∧ new = h
  | .file F nm .corrupt =>
    n.power = .on ∧ G.name = F ∧ G.deleted = false ∧ f.name = nm ∧ f.deleted = false ∧ f.actual = .good ∧ new = .corrupt
  | .folder F .corrupt => n.power = .on ∧ G.name = F ∧ G.deleted = false ∧ f.deleted = false ∧ f.actual = .good ∧ new = .corrupt
  /- repair / restore -/
  | .file F nm .repair | .file F nm .restore | .fsRestoreFile F nm =>
    n.power = .on ∧ G.name = F ∧ G.deleted = false ∧ f.name = nm ∧ f.deleted = false ∧ f.actual = .corrupt ∧ new = .good
  | .folder F .repair => n.power = .on ∧ G.name = F ∧ G.deleted = false ∧ f.deleted = false ∧ f.actual = .corrupt ∧ new = .good
  /- timed completion of a folder restore -/
  | .tick =>
    n.powerPhase.power = .on ∧ G.deleted = false ∧ G.restoreCd = 1 ∧
      (f.deleted = false ∨ File.twiceRestored G.files f = true) ∧ f.actual = .corrupt ∧ new = .good
  | _ => False

theorem File.repair_actual (f : File) (h : f.repair.actual ≠ f.actual) :
    f.deleted = false ∧ f.actual = .corrupt ∧ f.repair.actual = .good := by
  unfold File.repair at h ⊢
  split at h
  · exact absurd rfl h
  · rename_i hd
    split at h
    · rename_i hc; rw [if_neg hd, if_pos hc]; exact ⟨by simpa using hd, hc, rfl⟩
    · exact absurd rfl h
theorem File.restore_actual (f : File) (h : f.restore.actual ≠ f.actual) :
    f.deleted = false ∧ f.actual = .corrupt ∧ f.restore.actual = .good := by
  unfold File.restore at h ⊢
  split at h
  · exact absurd rfl h
  · rename_i hd
    split at h
    · rename_i hc; rw [if_neg hd, if_pos hc]; exact ⟨by simpa using hd, hc, rfl⟩
    · exact absurd rfl h
theorem File.restoreIn_actual (fs : List File) (f : File) (h : (File.restoreIn fs f).actual ≠ f.actual) :
    f.deleted = false ∧ f.actual = .corrupt ∧ (File.restoreIn fs f).actual = .good := by
  unfold File.restoreIn at h ⊢
  cases hd : f.deleted
  · simp only [hd, Bool.false_eq_true, if_false] at h ⊢
    have := File.restore_actual f h
    exact ⟨trivial, this.2.1, this.2.2⟩
  · exfalso; apply h
    simp only [hd, if_true]
    (repeat' split) <;> first | rfl | (unfold File.restore; simp [hd])

theorem File.restore_restore_actual (f : File) (hd : f.deleted = true) :
    f.restore.restore.actual = if f.actual = .corrupt then .good else f.actual := by
  unfold File.restore
  simp only [hd, if_true, Bool.false_eq_true, if_false]
  split <;> rfl

theorem File.restoreAll_actual (fs : List File) (f : File) (h : (File.restoreAll fs f).actual ≠ f.actual) :
    (f.deleted = false ∨ File.twiceRestored fs f = true) ∧ f.actual = .corrupt ∧ (File.restoreAll fs f).actual = .good := by
  unfold File.restoreAll at h ⊢
  cases hd : f.deleted
  · simp only [hd, Bool.false_eq_true, if_false] at h ⊢
    have := File.restore_actual f h
    exact ⟨Or.inl trivial, this.2.1, this.2.2⟩
  · simp only [hd, if_true] at h ⊢
    by_cases h1 : hasLive f.name fs = true
    · simp only [h1, if_true] at h; exact absurd rfl h
    · by_cases h2 : firstDeleted fs f = true
      · by_cases h3 : deadTwin fs f = true
        · simp only [h1, h2, h3, if_true, if_false, Bool.false_eq_true] at h ⊢
          rw [File.restore_restore_actual f hd] at h ⊢
          by_cases hc : f.actual = .corrupt
          · simp only [hc, if_true] at h ⊢
            refine ⟨Or.inr ?_, trivial, trivial⟩
            simp [File.twiceRestored, hd, h1, h2, h3]
          · simp only [hc, if_false] at h; exact absurd rfl h
        · simp only [h1, h2, h3, if_true, if_false, Bool.false_eq_true] at h
          exfalso; apply h; unfold File.restore; simp [hd]
      · simp only [h1, h2, if_false, Bool.false_eq_true] at h; exact absurd rfl h

theorem File.corrupt_actual (f : File) (h : f.corrupt.actual ≠ f.actual) :
    f.deleted = false ∧ f.actual = .good ∧ f.corrupt.actual = .corrupt := by
  unfold File.corrupt at h ⊢
  split at h
  · exact absurd rfl h
  · rename_i hd
    split at h
    · rename_i hc; rw [if_neg hd, if_pos hc]; exact ⟨by simpa using hd, hc, rfl⟩
    · exact absurd rfl h

/-- **C14 (file actual health, one step, any state).** A file's actual health differs after an operation only if
the operation is one of the enumerated writers for that file: corrupt (file or folder request) or an external write;
repair / restore (file, folder or file-system request); or the timestep in which its folder's restore completes. -/
theorem C14_file_actual_only_by_event (n : Node) (op : Op) (j k : Nat) (G G' : Folder) (f f' : File)
    (hG : n.folders[j]? = some G) (hG' : (n.apply op).folders[j]? = some G')
    (hf : G.files[k]? = some f) (hf' : G'.files[k]? = some f') (hne : f'.actual ≠ f.actual) :
    fileActualCause n op G f f'.actual := by
  rw [apply_folders, List.getElem?_map, hG] at hG'
  simp only [Option.map_some, Option.some.injEq] at hG'
  subst hG'
  rw [folderEff_files, List.getElem?_map, hf] at hf'
  simp only [Option.map_some, Option.some.injEq] at hf'
  subst hf'
  cases op <;> simp only [fileEff, fileActualCause] at hne ⊢
  case tick =>
    split at hne
    · rename_i hc
      rw [if_pos hc]
      by_cases h1 : G.restoreCd = 1
      · simp only [h1, if_true] at hne ⊢
        -- the two possible scans leave `actual` and `deleted` alone
        have ha : ((fun f1 : File => if G.scanCd = 1 then f1.scan else f1)
            (if n.powerPhase.scanCd = 1 then f.scan else f)).actual = f.actual := by
          by_cases h2 : G.scanCd = 1 <;> by_cases h3 : n.powerPhase.scanCd = 1 <;> simp [h2, h3]
        have hd : ((fun f1 : File => if G.scanCd = 1 then f1.scan else f1)
            (if n.powerPhase.scanCd = 1 then f.scan else f)).deleted = f.deleted := by
          by_cases h2 : G.scanCd = 1 <;> by_cases h3 : n.powerPhase.scanCd = 1 <;> simp [h2, h3]
        have ht : File.twiceRestored G.files ((fun f1 : File => if G.scanCd = 1 then f1.scan else f1)
            (if n.powerPhase.scanCd = 1 then f.scan else f)) = File.twiceRestored G.files f := by
          by_cases h2 : G.scanCd = 1 <;> by_cases h3 : n.powerPhase.scanCd = 1 <;>
            simp [h2, h3, File.twiceRestored, firstDeleted, deadTwin]
        have := File.restoreAll_actual G.files _ (by rw [ha]; exact hne)
        exact ⟨hc.1, hc.2, trivial, by rw [← hd, ← ht]; exact this.1, by rw [← ha]; exact this.2.1, this.2.2⟩
      · exfalso; apply hne
        simp only [h1, if_false]
        by_cases h2 : G.scanCd = 1 <;> by_cases h3 : n.powerPhase.scanCd = 1 <;> simp [h2, h3]
    · exact absurd rfl hne
  case folder F r =>
    split at hne
    · rename_i hc
      rw [if_pos hc]
      cases r <;> simp only [] at hne ⊢
      case repair => have := f.repair_actual hne; exact ⟨hc.1, hc.2.1, hc.2.2, this⟩
      case corrupt => have := f.corrupt_actual hne; exact ⟨hc.1, hc.2.1, hc.2.2, this⟩
      all_goals exact hne rfl
    · exact absurd rfl hne
  case file F nm r =>
    split at hne
    · rename_i hc
      rw [if_pos hc]
      cases r <;> simp only [File.handle] at hne ⊢
      case scan => exact hne (by simp)
      case checkhash => exact hne rfl
      case repair => have := f.repair_actual hne; exact ⟨hc.1, hc.2.1, hc.2.2.1, hc.2.2.2.1, this⟩
      case restore => have := f.restore_actual hne; exact ⟨hc.1, hc.2.1, hc.2.2.1, hc.2.2.2.1, this⟩
      case corrupt => have := f.corrupt_actual hne; exact ⟨hc.1, hc.2.1, hc.2.2.1, hc.2.2.2.1, this⟩
    · exact absurd rfl hne
  case fsRestoreFile F nm =>
    split at hne
    · rename_i hc
      rw [if_pos hc]
      have := File.restoreIn_actual G.files f hne
      exact ⟨hc.1, hc.2.1, hc.2.2.1, hc.2.2.2, this⟩
    · exact absurd rfl hne
  case fileSet F nm h =>
    split at hne
    · rename_i hc; rw [if_pos hc]; exact ⟨hc.1, hc.2, rfl⟩
    · exact absurd rfl hne
  all_goals first | exact hne rfl | (exfalso; apply hne; split <;> simp)


/-! ## 4. timing: a fix takes exactly `max(1, fixing_duration)` timesteps of a powered-on node -/

/-- The items of the node are ticked in this step: it is a timestep and the node is ON after its power phase
(a node that is OFF, BOOTING or SHUTTING_DOWN ticks nothing below it — timers freeze). -/
def effTick (n : Node) (op : Op) : Bool := op = .tick && n.powerPhase.power = .on

/-- number of timesteps of a trace that reach the node's items -/
def effTicks (n : Node) : List Op → Nat
  | [] => 0
  | op :: ops => (if effTick n op then 1 else 0) + effTicks (n.apply op) ops

/-- operations that write the health of item `name` from outside (attack, external `set_health_state`), or
re-install it. A running fix is only guaranteed to take its time if none of these hits the item meanwhile. -/
def touchesSw (name : String) : Op → Bool
  | .swSet nm _ => nm = name
  | .sw _ nm .compromise => nm = name
  | .appInstall nm => nm = name
  | _ => false

/-- `x` is being fixed with `c` left on its countdown -/
def Sw.Fixing (x : Sw) (c : Int) : Prop := x.actual = .fixing ∧ x.fixCd = some c ∧ x.op ≠ .installing

theorem Sw.Fixing.of_rel {y x : Sw} {c : Int} (h : Sw.PowerRel y x) (hf : x.Fixing c) : y.Fixing c := by
  refine ⟨?_, h.fixCd.trans hf.2.1, fun hi => hf.2.2 (h.installing.mp hi)⟩
  rcases h.actual with e | ⟨u, _⟩
  · exact e.trans hf.1
  · rw [hf.1] at u; cases u

theorem Sw.Fixing.scan {x : Sw} {c : Int} (hf : x.Fixing c) : x.scan.Fixing c := hf

theorem Sw.handle_fixing (x : Sw) (c : Int) (r : SwReq) (hr : r ≠ .compromise) (hf : x.Fixing c) :
    (x.handle r).1.Fixing c := by
  obtain ⟨ha, hc, ho⟩ := hf
  have hw : x.wake = x := by unfold Sw.wake; simp [ha]
  cases r <;> simp only [Sw.handle]
  case scan => exact ⟨ha, hc, ho⟩
  case fix => unfold Sw.fix Sw.canFix; simp [ha]; exact ⟨ha, hc, ho⟩
  case compromise => exact absurd rfl hr
  case start => rw [hw]; split <;> first | exact ⟨ha, hc, ho⟩ | exact ⟨ha, hc, by simp⟩
  case execute => rw [hw]; split <;> first | exact ⟨ha, hc, ho⟩ | exact ⟨ha, hc, by simp⟩
  all_goals ((repeat' split) <;> first | exact ⟨ha, hc, ho⟩ | exact ⟨ha, hc, by simp⟩)

theorem Sw.auxTick_not_installing (x : Sw) (h : x.op ≠ .installing) :
    x.auxTick.actual = x.actual ∧ x.auxTick.fixCd = x.fixCd ∧ x.auxTick.op ≠ .installing := by
  unfold Sw.auxTick
  split
  · simp [h]
  · split
    · rename_i hr
      split
      · refine ⟨rfl, rfl, ?_⟩
        simp only []
        split
        · simp
        · exact h
      · exact ⟨rfl, rfl, h⟩
    · exact ⟨rfl, rfl, h⟩

/-- one item tick of an item that is being fixed -/
theorem Sw.tick_fixing (x : Sw) (c : Int) (hf : x.Fixing c) :
    (c ≤ 1 → x.tick.actual = .good) ∧ (1 < c → x.tick.Fixing (c - 1)) := by
  obtain ⟨ha, hc, ho⟩ := hf
  unfold Sw.tick
  have h1 : x.fixTick = if c - 1 ≤ 0 then { x with actual := .good, fixCd := none } else { x with fixCd := some (c - 1) } := by
    unfold Sw.fixTick Sw.updateFix; simp [ha, hc]
  constructor
  · intro hle
    have : c - 1 ≤ 0 := by omega
    rw [h1, if_pos this]
    exact (Sw.auxTick_not_installing { x with actual := .good, fixCd := none } ho).1
  · intro hlt
    have : ¬ c - 1 ≤ 0 := by omega
    rw [h1, if_neg this]
    have := Sw.auxTick_not_installing { x with fixCd := some (c - 1) } ho
    exact ⟨this.1.trans ha, this.2.1, this.2.2⟩

/-- one step of any operation that does not touch the item from outside -/
theorem swEff_fixing (n : Node) (op : Op) (x : Sw) (c : Int) (hf : x.Fixing c) (hq : touchesSw x.name op = false) :
    (effTick n op = true → (c ≤ 1 → (swEff n op x).actual = .good) ∧ (1 < c → (swEff n op x).Fixing (c - 1))) ∧
    (effTick n op = false → (swEff n op x).Fixing c) := by
  have hp := Sw.Fixing.of_rel (powerEff_rel n x) hf
  cases op <;> simp only [swEff, effTick, decide_true, decide_false, Bool.true_and, Bool.false_and, Bool.false_eq_true,
    false_implies, true_and, true_implies, reduceCtorEq, decide_eq_true_eq, decide_eq_false_iff_not]
  case tick =>
    unfold tickEff
    constructor
    · intro hon
      simp only [hon, if_true]
      split
      · exact Sw.tick_fixing _ c hp.scan
      · exact Sw.tick_fixing _ c hp
    · intro hoff
      simp only [hoff, if_false]
      exact hp
  case shutdown =>
    (repeat' split) <;> first | exact hf | exact .of_rel (offNowEff_rel n x) hf
  case reset =>
    (repeat' split) <;> first | exact hf | exact .of_rel (resetNowEff_rel n x) hf
  case startup =>
    split
    · exact .of_rel (powerOnEff_rel n x) hf
    · exact hf
  case sw isApp nm r =>
    split
    · unfold Sw.request
      split
      · rename_i hacc
        apply Sw.handle_fixing x c r _ hf
        intro hr; subst hr
        simp only [Sw.accepts, Bool.and_eq_true, decide_eq_true_eq] at hacc
        simp [touchesSw, hacc.1.1.1] at hq
      · exact hf
    · exact hf
  case swSet nm h =>
    have : ¬ x.name = nm := by simpa [touchesSw, eq_comm] using hq
    simp [this]; exact hf
  case appInstall nm =>
    have : ¬ x.name = nm := by simpa [touchesSw, eq_comm] using hq
    simp [this]; exact hf
  case appRun nm =>
    (repeat' split) <;> first | exact hf | exact .of_rel x.startUp_rel hf
  all_goals exact hf

/-- **C14 fix timing, part 1 (not early).** Take any state in which the `i`-th software item is FIXING with `c` on
its countdown, and any operation sequence that does not hit that item with an external health write, a compromise or
a re-installation (everything else is allowed: other items' events, scans, repeated fix requests, lifecycle
requests, power loss …). As long as fewer than `max(1,c)` timesteps have reached the node's items, the item is still
FIXING and its countdown is `c` minus that number. -/
theorem C14_fix_not_early (ops : List Op) : ∀ (n : Node) (i : Nat) (x : Sw) (c : Int),
    n.sws[i]? = some x → x.Fixing c → (∀ op ∈ ops, touchesSw x.name op = false) →
    (effTicks n ops : Int) < max 1 c →
    ∃ x', (n.run ops).sws[i]? = some x' ∧ x'.name = x.name ∧ x'.Fixing (c - effTicks n ops) := by
  induction ops with
  | nil => intro n i x c hx hf _ _; exact ⟨x, hx, rfl, by simpa [effTicks] using hf⟩
  | cons op ops ih =>
    intro n i x c hx hf hq hk
    have hx1 : (n.apply op).sws[i]? = some (swEff n op x) := by rw [apply_sws, List.getElem?_map, hx]; rfl
    have hn1 := (swEff_name n op x).1
    have hstep := swEff_fixing n op x c hf (hq op (List.mem_cons_self))
    have hq' : ∀ o ∈ ops, touchesSw (swEff n op x).name o = false := by
      intro o ho; rw [hn1]; exact hq o (List.mem_cons_of_mem _ ho)
    simp only [effTicks] at hk ⊢
    simp only [Node.run]
    by_cases he : effTick n op = true
    · simp only [he, if_true] at hk ⊢
      have hc1 : 1 < c := by omega
      have hf1 := (hstep.1 he).2 hc1
      obtain ⟨x', h1, h2, h3⟩ := ih (n.apply op) i (swEff n op x) (c - 1) hx1 hf1 hq' (by omega)
      refine ⟨x', h1, h2.trans hn1, ?_⟩
      have : c - 1 - (effTicks (n.apply op) ops : Int) = c - ((1 + effTicks (n.apply op) ops : Nat) : Int) := by omega
      rw [← this]; exact h3
    · have he' : effTick n op = false := by simpa using he
      simp only [he', Bool.false_eq_true, if_false, Nat.zero_add] at hk ⊢
      have hf1 := hstep.2 he'
      obtain ⟨x', h1, h2, h3⟩ := ih (n.apply op) i (swEff n op x) c hx1 hf1 hq' hk
      exact ⟨x', h1, h2.trans hn1, h3⟩

/-- **C14 fix timing, part 2 (on time).** … and the `max(1,c)`-th timestep that reaches the node's items makes the
item GOOD. Together: a fix returns the software to GOOD after exactly `max(1, c)` timesteps of a powered-on node. -/
theorem C14_fix_completes_on_time (ops : List Op) (n : Node) (i : Nat) (x : Sw) (c : Int)
    (hx : n.sws[i]? = some x) (hf : x.Fixing c) (hq : ∀ op ∈ ops, touchesSw x.name op = false)
    (hk : (effTicks n ops : Int) + 1 = max 1 c) (ht : effTick (n.run ops) .tick = true) :
    ∃ x', ((n.run ops).apply .tick).sws[i]? = some x' ∧ x'.name = x.name ∧ x'.actual = .good := by
  obtain ⟨x1, h1, h2, h3⟩ := C14_fix_not_early ops n i x c hx hf hq (by omega)
  refine ⟨swEff (n.run ops) .tick x1, ?_, ((swEff_name _ _ _).1).trans h2, ?_⟩
  · rw [apply_sws, List.getElem?_map, h1]; rfl
  · exact ((swEff_fixing (n.run ops) .tick x1 _ h3 rfl).1 ht).1 (by omega)

/-- An accepted `fix` request puts the item into FIXING with the configured duration on the countdown; `fix` is
accepted exactly for a RUNNING item of a powered-on node whose actual health is GOOD or COMPROMISED. -/
theorem C14_fix_request (n : Node) (k : Bool) (i : Nat) (x : Sw) (hx : n.sws[i]? = some x) (hon : n.power = .on)
    (hk : x.isApp = k) (hr : x.op = .running) (hc : x.canFix = true) :
    ∃ x', (n.apply (.sw k x.name .fix)).sws[i]? = some x' ∧ x'.name = x.name ∧ x'.Fixing x.fixDur := by
  refine ⟨swEff n (.sw k x.name .fix) x, ?_, (swEff_name _ _ _).1, ?_⟩
  · rw [apply_sws, List.getElem?_map, hx]; rfl
  · simp only [swEff, hon, if_true, Sw.request, Sw.accepts, hk, hr, SwReq.known, SwReq.allowed, SwReq.guard, Sw.handle,
      Sw.fix, hc, decide_true, Bool.and_self]
    exact ⟨rfl, rfl, by simp [hr]⟩


/-! ## 5. timing: folder scan and folder restore take exactly `max(1, duration)` timesteps of a live folder -/

/-- The folder is ticked in this step: a timestep, node ON after its power phase, folder not deleted. -/
def folderTicking (n : Node) (op : Op) (G : Folder) : Bool := op = .tick && n.powerPhase.power = .on && !G.deleted

/-- number of timesteps of a trace that reach the `j`-th folder -/
def effFolderTicks (n : Node) (j : Nat) : List Op → Nat
  | [] => 0
  | op :: ops =>
    (match n.folders[j]? with
     | some G => if folderTicking n op G then 1 else 0
     | none => 0) + effFolderTicks (n.apply op) j ops

theorem Folder.handle_cds (G : Folder) (r : ItemReq) :
    (1 ≤ G.scanCd → (G.handle r).1.scanCd = G.scanCd) ∧ (1 ≤ G.restoreCd → (G.handle r).1.restoreCd = G.restoreCd) := by
  cases r <;> simp only [Folder.handle, Folder.scan, Folder.repair, Folder.restore, Folder.corrupt] <;> constructor <;>
    intro h <;> (repeat' split) <;> first | rfl | omega | trivial

/-- while a folder scan runs (`scanCd ≥ 1`) nothing but a timestep that reaches the folder moves its countdown —
in particular a second scan request is ignored, and deleting / restoring the folder or power loss only pause it -/
theorem folderEff_scanCd_running (n : Node) (op : Op) (G : Folder) (h : 1 ≤ G.scanCd) :
    (folderEff n op G).scanCd = if folderTicking n op G then G.scanCd - 1 else G.scanCd := by
  cases op <;> simp only [folderEff, folderTicking, decide_true, decide_false, Bool.true_and, Bool.false_and,
    Bool.false_eq_true, if_false, reduceCtorEq]
  case tick =>
    unfold folderTickEff Folder.tick
    by_cases hon : n.powerPhase.power = .on
    · by_cases hd : G.deleted = true
      · by_cases hs : n.powerPhase.scanCd = 1 <;> simp [hon, hd, hs]
      · have hd' : G.deleted = false := by simpa using hd
        have h0 : G.scanCd ≥ 0 := by omega
        by_cases hs : n.powerPhase.scanCd = 1
        · simp only [hon, hs, if_true, Folder.instantScan_deleted, hd', Bool.false_eq_true, if_false, decide_true,
            Bool.not_false, Bool.and_self]
          rw [(Folder.restoreTick_rest _).2.2.1, Folder.scanTick_scanCd, Folder.instantScan_scanCd, if_pos h0]
        · simp only [hon, hs, if_true, if_false, hd', Bool.false_eq_true, decide_true, Bool.not_false, Bool.and_self]
          rw [(Folder.restoreTick_rest _).2.2.1, Folder.scanTick_scanCd, if_pos h0]
    · simp [hon]
  case folder F r =>
    (repeat' split) <;> first | rfl | exact (G.handle_cds r).1 h
  case fsRestoreFolder F =>
    split
    · split
      · rcases Folder.restoreIn_cases n.folders G with e | e <;> rw [e]
        unfold Folder.restore; split <;> rfl
      · rfl
    · rfl
  all_goals ((repeat' split) <;> rfl)

theorem folderEff_restoreCd_running (n : Node) (op : Op) (G : Folder) (h : 1 ≤ G.restoreCd) :
    (folderEff n op G).restoreCd = if folderTicking n op G then G.restoreCd - 1 else G.restoreCd := by
  cases op <;> simp only [folderEff, folderTicking, decide_true, decide_false, Bool.true_and, Bool.false_and,
    Bool.false_eq_true, if_false, reduceCtorEq]
  case tick =>
    unfold folderTickEff Folder.tick
    by_cases hon : n.powerPhase.power = .on
    · by_cases hd : G.deleted = true
      · by_cases hs : n.powerPhase.scanCd = 1 <;> simp [hon, hd, hs]
      · have hd' : G.deleted = false := by simpa using hd
        have h0 : G.restoreCd ≥ 0 := by omega
        by_cases hs : n.powerPhase.scanCd = 1
        · simp only [hon, hs, if_true, Folder.instantScan_deleted, hd', Bool.false_eq_true, if_false, decide_true,
            Bool.not_false, Bool.and_self]
          rw [Folder.restoreTick_restoreCd, (Folder.scanTick_rest _).2.2.1, Folder.instantScan_restoreCd, if_pos h0]
        · simp only [hon, hs, if_true, if_false, hd', Bool.false_eq_true, decide_true, Bool.not_false, Bool.and_self]
          rw [Folder.restoreTick_restoreCd, (Folder.scanTick_rest _).2.2.1, if_pos h0]
    · simp [hon]
  case folder F r =>
    (repeat' split) <;> first | rfl | exact (G.handle_cds r).2 h
  case fsRestoreFolder F =>
    split
    · split
      · rcases Folder.restoreIn_cases n.folders G with e | e <;> rw [e]
        unfold Folder.restore; split <;> first | rfl | omega
      · rfl
    · rfl
  all_goals ((repeat' split) <;> rfl)

/-- generic countdown argument shared by folder scan and folder restore -/
theorem folder_cd_not_early (cd : Folder → Int)
    (hstep : ∀ n op G, 1 ≤ cd G → cd (folderEff n op G) = if folderTicking n op G then cd G - 1 else cd G)
    (ops : List Op) : ∀ (n : Node) (j : Nat) (G : Folder) (c : Int),
    n.folders[j]? = some G → cd G = c → (effFolderTicks n j ops : Int) < c →
    ∃ G', (n.run ops).folders[j]? = some G' ∧ G'.name = G.name ∧ cd G' = c - effFolderTicks n j ops := by
  induction ops with
  | nil => intro n j G c hG hc _; exact ⟨G, hG, rfl, by simpa [effFolderTicks] using hc⟩
  | cons op ops ih =>
    intro n j G c hG hc hk
    have hG1 : (n.apply op).folders[j]? = some (folderEff n op G) := by
      rw [apply_folders, List.getElem?_map, hG]; rfl
    simp only [effFolderTicks, hG] at hk ⊢
    simp only [Node.run]
    have hc1 : 1 ≤ cd G := by
      have : (0 : Int) ≤ (effFolderTicks (n.apply op) j ops : Int) := Int.natCast_nonneg _
      split at hk <;> omega
    have hs := hstep n op G hc1
    by_cases ht : folderTicking n op G = true
    · simp only [ht, if_true] at hk hs ⊢
      obtain ⟨G', h1, h2, h3⟩ := ih (n.apply op) j (folderEff n op G) (c - 1) hG1 (by rw [hs, hc]) (by omega)
      refine ⟨G', h1, h2.trans (folderEff_name n op G), ?_⟩
      rw [h3]; omega
    · have ht' : folderTicking n op G = false := by simpa using ht
      simp only [ht', Bool.false_eq_true, if_false, Nat.zero_add] at hk hs ⊢
      obtain ⟨G', h1, h2, h3⟩ := ih (n.apply op) j (folderEff n op G) c hG1 (by rw [hs, hc]) hk
      exact ⟨G', h1, h2.trans (folderEff_name n op G), h3⟩

/-- **C14 folder scan timing, part 1 (not early).** From any state in which the `j`-th folder has `c` on its scan
countdown, for ANY operation sequence: while fewer than `c` timesteps have reached the folder, the countdown is `c`
minus that number (so the scan has not completed; a second scan request in between is ignored). -/
theorem C14_folder_scan_not_early (ops : List Op) (n : Node) (j : Nat) (G : Folder) (c : Int)
    (hG : n.folders[j]? = some G) (hc : G.scanCd = c) (hk : (effFolderTicks n j ops : Int) < c) :
    ∃ G', (n.run ops).folders[j]? = some G' ∧ G'.name = G.name ∧ G'.scanCd = c - effFolderTicks n j ops :=
  folder_cd_not_early (·.scanCd) folderEff_scanCd_running ops n j G c hG hc hk

/-- **C14 folder scan timing, part 2 (on time).** The `c`-th timestep that reaches the folder completes the scan:
the folder's visible health becomes the worst health of its live files, and every live file's visible health becomes
its actual health. With `C14_folder_scan_request` (`c = max(1, scan_duration)`): exactly `max(1, d)` timesteps. -/
theorem C14_folder_scan_completes_on_time (ops : List Op) (n : Node) (j : Nat) (G : Folder) (c : Int)
    (hG : n.folders[j]? = some G) (hc : G.scanCd = c) (hk : (effFolderTicks n j ops : Int) + 1 = c) :
    ∃ G', (n.run ops).folders[j]? = some G' ∧ G'.scanCd = 1 ∧
      (folderTicking (n.run ops) .tick G' = true →
        ∃ G'', ((n.run ops).apply .tick).folders[j]? = some G'' ∧ G''.name = G.name ∧ G''.scanCd = 0 ∧
          G''.visible = worstLive G'.files ∧
          G''.files.map (·.visible) = G'.files.map (fun f => if f.deleted then f.visible else f.actual)) := by
  obtain ⟨G', h1, h2, h3⟩ := C14_folder_scan_not_early ops n j G c hG hc (by omega)
  have hcd : G'.scanCd = 1 := by rw [h3]; omega
  refine ⟨G', h1, hcd, fun ht => ⟨folderEff (n.run ops) .tick G', ?_, (folderEff_name _ _ _).trans h2, ?_, ?_, ?_⟩⟩
  · rw [apply_folders, List.getElem?_map, h1]; rfl
  · rw [folderEff_scanCd_running _ _ _ (by omega), ht, hcd]; rfl
  · simp only [folderTicking, decide_true, Bool.true_and, Bool.and_eq_true, decide_eq_true_eq, Bool.not_eq_true'] at ht
    rw [folderEff_visible]
    simp [folderScanCompletes, ht.1, ht.2, hcd]
  · simp only [folderTicking, decide_true, Bool.true_and, Bool.and_eq_true, decide_eq_true_eq, Bool.not_eq_true'] at ht
    rw [folderEff_files, List.map_map]
    apply List.map_congr_left
    intro f _
    simp only [Function.comp_def, fileEff_visible, fileScanCompletes, ht.1, ht.2, hcd, decide_true, Bool.not_false,
      Bool.true_and, Bool.or_true, Bool.and_true]
    by_cases hd : f.deleted = true <;> simp [hd]

/-- A `scan` request on a live folder of a powered-on node loads `max(scan_duration, 1)` — unless a scan is already
running, in which case it changes nothing. -/
theorem C14_folder_scan_request (n : Node) (F : String) (G : Folder) :
    (folderEff n (.folder F .scan) G).scanCd =
      if n.power = .on ∧ G.name = F ∧ G.deleted = false ∧ G.scanCd ≤ 0 then max G.scanDur 1 else G.scanCd := by
  simp only [folderEff, Folder.handle, Folder.scan]
  by_cases h1 : n.power = .on <;> by_cases h2 : G.name = F <;> by_cases h3 : G.deleted = false <;>
    by_cases h4 : G.scanCd ≤ 0 <;> simp [h1, h2, h3, h4]

/-- **C14 folder restore timing, part 1 (not early).** -/
theorem C14_folder_restore_not_early (ops : List Op) (n : Node) (j : Nat) (G : Folder) (c : Int)
    (hG : n.folders[j]? = some G) (hc : G.restoreCd = c) (hk : (effFolderTicks n j ops : Int) < c) :
    ∃ G', (n.run ops).folders[j]? = some G' ∧ G'.name = G.name ∧ G'.restoreCd = c - effFolderTicks n j ops :=
  folder_cd_not_early (·.restoreCd) folderEff_restoreCd_running ops n j G c hG hc hk

/-- **C14 folder restore timing, part 2 (on time).** The `c`-th timestep that reaches the folder completes the
restore: every file is live again — except a deleted file that has a LIVE namesake or is not the first deleted file of its name in
deletion order, which `restore_file` never reaches —,
every file that was live and CORRUPT is GOOD (a deleted file comes back with the health it had), and the folder itself is no longer CORRUPT / RESTORING. -/
theorem C14_folder_restore_completes_on_time (ops : List Op) (n : Node) (j : Nat) (G : Folder) (c : Int)
    (hG : n.folders[j]? = some G) (hc : G.restoreCd = c) (hk : (effFolderTicks n j ops : Int) + 1 = c) :
    ∃ G', (n.run ops).folders[j]? = some G' ∧ G'.restoreCd = 1 ∧
      (folderTicking (n.run ops) .tick G' = true →
        ∃ G'', ((n.run ops).apply .tick).folders[j]? = some G'' ∧ G''.name = G.name ∧ G''.restoreCd = 0 ∧
          G''.actual ≠ .corrupt ∧ G''.actual ≠ .restoring ∧
          G''.files.map (fun f => (f.deleted, f.actual)) =
            G'.files.map (fun f => (f.deleted && (hasLive f.name G'.files || !firstDeleted G'.files f),
              if (f.deleted = false ∨ File.twiceRestored G'.files f = true) ∧ f.actual = .corrupt then FsH.good
              else f.actual))) := by
  obtain ⟨G', h1, h2, h3⟩ := C14_folder_restore_not_early ops n j G c hG hc (by omega)
  have hcd : G'.restoreCd = 1 := by rw [h3]; omega
  refine ⟨G', h1, hcd, fun ht => ⟨folderEff (n.run ops) .tick G', ?_, (folderEff_name _ _ _).trans h2, ?_, ?_⟩⟩
  · rw [apply_folders, List.getElem?_map, h1]; rfl
  · rw [folderEff_restoreCd_running _ _ _ (by omega), ht, hcd]; rfl
  · simp only [folderTicking, decide_true, Bool.true_and, Bool.and_eq_true, decide_eq_true_eq, Bool.not_eq_true'] at ht
    obtain ⟨hon, hd⟩ := ht
    have hact : ∀ H : Folder, H.deleted = false → H.restoreCd = 1 →
        H.tick.actual ≠ .corrupt ∧ H.tick.actual ≠ .restoring := by
      intro H hHd hHc
      unfold Folder.tick
      rw [Folder.restoreTick_actual, (Folder.scanTick_rest H).2.1, (Folder.scanTick_rest H).2.2.1]
      simp only [hHc, hHd, true_and]
      split
      · exact ⟨by simp, by simp⟩
      · rename_i hn
        exact ⟨fun h => hn (Or.inl h), fun h => hn (Or.inr h)⟩
    refine ⟨?_, ?_, ?_⟩
    · simp only [folderEff, folderTickEff, hon, if_true]
      by_cases hs : (n.run ops).powerPhase.scanCd = 1
      · simp only [hs, if_true, Folder.instantScan_deleted, hd, Bool.false_eq_true, if_false]
        exact (hact _ (by simp [hd]) (by simp [hcd])).1
      · simp only [hs, if_false, hd, Bool.false_eq_true]
        exact (hact _ hd hcd).1
    · simp only [folderEff, folderTickEff, hon, if_true]
      by_cases hs : (n.run ops).powerPhase.scanCd = 1
      · simp only [hs, if_true, Folder.instantScan_deleted, hd, Bool.false_eq_true, if_false]
        exact (hact _ (by simp [hd]) (by simp [hcd])).2
      · simp only [hs, if_false, hd, Bool.false_eq_true]
        exact (hact _ hd hcd).2
    · rw [folderEff_files, List.map_map]
      apply List.map_congr_left
      intro f _
      simp only [Function.comp_def, fileEff, hon, hd, and_self, if_true, hcd]
      have hr : ∀ g : File, g.name = f.name → g.deleted = f.deleted → g.actual = f.actual → g.delSeq = f.delSeq →
          ((File.restoreAll G'.files g).deleted, (File.restoreAll G'.files g).actual) =
            (f.deleted && (hasLive f.name G'.files || !firstDeleted G'.files f),
              if (f.deleted = false ∨ File.twiceRestored G'.files f = true) ∧ f.actual = .corrupt then FsH.good
              else f.actual) := by
        intro g hn hdl ha hs
        have hfd : firstDeleted G'.files g = firstDeleted G'.files f := by unfold firstDeleted; rw [hn, hs]
        have hdt : deadTwin G'.files g = deadTwin G'.files f := by unfold deadTwin; rw [hn]
        unfold File.restoreAll File.twiceRestored
        rw [hn, hdl, hfd, hdt]
        cases hfdel : f.deleted <;> cases hl : hasLive f.name G'.files <;> cases hf1 : firstDeleted G'.files f <;>
          cases hf2 : deadTwin G'.files f
        all_goals simp only [Bool.and_self, Bool.and_true, Bool.and_false, Bool.false_and, Bool.true_and, Bool.false_eq_true,
          if_false, if_true, true_and, false_and, Bool.or_false, Bool.or_true, Bool.not_true, Bool.not_false, true_or, false_or,
          or_false, or_true, reduceCtorEq, Bool.true_eq_false]
        all_goals (try unfold File.restore)
        all_goals (by_cases hgc : f.actual = .corrupt <;> simp [hgc, ha, hdl, hfdel])
      by_cases h2 : G'.scanCd = 1 <;> by_cases h3 : (n.run ops).powerPhase.scanCd = 1 <;>
        simp only [h2, h3, if_true, if_false] <;> apply hr <;> simp

/-- A `restore` request (folder route; or file-system route, which reaches the live folder of that name, else the first deleted one
in deletion order) loads `max(restore_duration, 1)` and marks the folder RESTORING — unless a restore is already running, in
which case the countdown is left alone. -/
theorem C14_folder_restore_request (n : Node) (F : String) (G : Folder) (hon : n.power = .on) (hn : G.name = F) :
    ((G.deleted = false ∨ (hasLiveFolder G.name n.folders = false ∧ firstDeletedFolder n.folders G = true)) →
      (folderEff n (.fsRestoreFolder F) G).restoreCd = (if G.restoreCd ≤ 0 then max G.restoreDur 1 else G.restoreCd)) ∧
    (G.deleted = false →
      (folderEff n (.folder F .restore) G).restoreCd = (if G.restoreCd ≤ 0 then max G.restoreDur 1 else G.restoreCd)) := by
  constructor
  · intro hreach
    have hr : Folder.restoreIn n.folders G = G.restore := by
      unfold Folder.restoreIn
      rcases hreach with hd | ⟨h1, h2⟩
      · simp [hd]
      · simp [h1, h2]
    simp only [folderEff, hon, hn, if_true, hr, Folder.restore]
    split <;> rfl
  · intro hd
    simp only [folderEff, Folder.handle, Folder.restore, hon, hn, if_true, true_and, hd]
    split <;> rfl


/-! ## 6. timing: the whole-node scan fans out after exactly `max(1, node_scan_duration)` timesteps of a powered-on node -/

theorem powerOn_scanCd (n : Node) : n.powerOn.scanCd = n.scanCd := by
  unfold Node.powerOn; (repeat' split) <;> rfl
theorem offNow_scanCd (n : Node) : n.offNow.scanCd = n.scanCd := by
  unfold Node.offNow
  simp only []
  split
  · rw [powerOn_scanCd]; rfl
  · rfl
theorem powerOff_scanCd (n : Node) : n.powerOff.scanCd = n.scanCd := by
  unfold Node.powerOff
  split
  · exact offNow_scanCd n
  · split <;> rfl
theorem powerPhase_scanCd (n : Node) : n.powerPhase.scanCd = n.scanCd := by
  have hb : n.bootPhase.scanCd = n.scanCd := by unfold Node.bootPhase; (repeat' split) <;> rfl
  have hs : ∀ m : Node, m.shutPhase.scanCd = m.scanCd := by
    intro m
    unfold Node.shutPhase
    split
    · rfl
    · split
      · exact offNow_scanCd m
      · rfl
  unfold Node.powerPhase; rw [hs, hb]

theorem apply_scanCd (n : Node) (op : Op) :
    (n.apply op).scanCd =
      match op with
      | .tick => if n.powerPhase.power = .on ∧ n.scanCd > 0 then n.scanCd - 1 else n.scanCd
      | .osScan => if n.power = .on then max n.scanDur 1 else n.scanCd
      | _ => n.scanCd := by
  cases op <;> simp only [Node.apply]
  case tick =>
    unfold Node.tick
    simp only []
    by_cases hon : n.powerPhase.power = .on
    · simp only [hon, if_true, true_and, Node.itemPhase, mapFolders_scanCd, mapSws_scanCd, redPhase_scanCd]
      have hps := powerPhase_scanCd n
      unfold Node.scanPhase
      (repeat' split) <;> (try simp only [mapFolders_scanCd, mapSws_scanCd]) <;> omega
    · simp only [hon, if_false, false_and]
      exact powerPhase_scanCd n
  case shutdown => split <;> first | exact powerOff_scanCd n | rfl
  case startup => split <;> first | exact powerOn_scanCd n | rfl
  case reset => split <;> first | exact powerOff_scanCd _ | rfl
  case osScan => split <;> rfl
  all_goals ((repeat' split) <;> rfl)

/-- **C14 node scan timing, part 1 (not early).** With `c` on the node-scan countdown and no new `os scan` request
in between (a new request restarts the countdown — unlike folders it is not ignored), the countdown is `c` minus the
number of timesteps that reached the node's items, as long as that number is below `c`. -/
theorem C14_node_scan_not_early (ops : List Op) : ∀ (n : Node) (c : Int),
    n.scanCd = c → (∀ op ∈ ops, op ≠ .osScan) → (effTicks n ops : Int) < c →
    (n.run ops).scanCd = c - effTicks n ops := by
  induction ops with
  | nil => intro n c hc _ _; simpa [effTicks, Node.run] using hc
  | cons op ops ih =>
    intro n c hc hq hk
    simp only [effTicks] at hk ⊢
    simp only [Node.run]
    have hq' : ∀ o ∈ ops, o ≠ .osScan := fun o ho => hq o (List.mem_cons_of_mem _ ho)
    have hop : op ≠ .osScan := hq op List.mem_cons_self
    have h0 : (0 : Int) ≤ (effTicks (n.apply op) ops : Int) := Int.natCast_nonneg _
    by_cases he : effTick n op = true
    · simp only [he, if_true] at hk ⊢
      have hop' : op = .tick ∧ n.powerPhase.power = .on := by
        simpa [effTick] using he
      have h1 : (n.apply op).scanCd = c - 1 := by
        rw [apply_scanCd, hop'.1]
        simp only [hop'.2, true_and]
        rw [if_pos (by omega), hc]
      rw [ih (n.apply op) (c - 1) h1 hq' (by omega)]
      omega
    · have he' : effTick n op = false := by simpa using he
      simp only [he', Bool.false_eq_true, if_false, Nat.zero_add] at hk ⊢
      have h1 : (n.apply op).scanCd = c := by
        rw [apply_scanCd]
        cases op <;> simp only [] <;> try exact hc
        · have : ¬ n.powerPhase.power = .on := by simpa [effTick] using he'
          simp [this, hc]
        · exact absurd rfl hop
      exact ih (n.apply op) c h1 hq' hk

/-- **C14 node scan fan-out.** In the timestep in which the countdown stands at 1 on a node that is ON after its power
phase, the scan covers EVERY software item (services and applications alike, whatever their operating state) and
every live file of every live folder: their visible health becomes their actual health at that moment; the countdown
returns to 0. -/
theorem C14_node_scan_fans_out (n : Node) (hc : n.scanCd = 1) (ht : effTick n .tick = true) :
    (n.apply .tick).scanCd = 0 ∧
    (∀ (i : Nat) (x : Sw), n.sws[i]? = some x →
      ∃ x' : Sw, (n.apply .tick).sws[i]? = some x' ∧ x'.name = x.name ∧ x'.visible = (powerEff n x).actual) ∧
    (∀ (j : Nat) (G : Folder) (k : Nat) (f : File), n.folders[j]? = some G → G.files[k]? = some f →
      G.deleted = false → f.deleted = false →
      ∃ (G' : Folder) (f' : File), (n.apply .tick).folders[j]? = some G' ∧ G'.files[k]? = some f' ∧ f'.name = f.name ∧
        f'.visible = f.actual) := by
  have hon : n.powerPhase.power = .on := by simpa [effTick] using ht
  refine ⟨?_, ?_, ?_⟩
  · rw [apply_scanCd]; simp [hon, hc]
  · intro i x hx
    have hf : swScanCompletes n .tick (swMoment n .tick x) = true := by
      simp [swScanCompletes, Node.scanFires, hon, powerPhase_scanCd, hc]
    obtain ⟨x', h1, h2⟩ := C14_sw_scan_sets_visible n .tick i x hx hf
    refine ⟨x', h1, ?_, h2⟩
    rw [apply_sws, List.getElem?_map, hx] at h1
    simp only [Option.map_some, Option.some.injEq] at h1
    rw [← h1]; exact (swEff_name n .tick x).1
  · intro j G k f hG hf hGd hfd
    have hc' : fileScanCompletes n .tick G f = true := by
      simp [fileScanCompletes, hon, hGd, hfd, powerPhase_scanCd, hc]
    obtain ⟨G', f', h1, h2, h3⟩ := C14_file_scan_sets_visible n .tick j k G f hG hf hc'
    refine ⟨G', f', h1, h2, ?_, h3⟩
    rw [apply_folders, List.getElem?_map, hG] at h1
    simp only [Option.map_some, Option.some.injEq] at h1
    subst h1
    rw [folderEff_files, List.getElem?_map, hf] at h2
    simp only [Option.map_some, Option.some.injEq] at h2
    rw [← h2]; exact fileEff_name n .tick G f

/-- **C14 node scan timing, part 2 (on time).** -/
theorem C14_node_scan_completes_on_time (ops : List Op) (n : Node) (c : Int) (hc : n.scanCd = c)
    (hq : ∀ op ∈ ops, op ≠ .osScan) (hk : (effTicks n ops : Int) + 1 = c) (ht : effTick (n.run ops) .tick = true) :
    (n.run ops).scanCd = 1 ∧ (n.run ops).powerPhase.scanFires = true ∧ ((n.run ops).apply .tick).scanCd = 0 := by
  have h1 : (n.run ops).scanCd = 1 := by rw [C14_node_scan_not_early ops n c hc hq (by omega)]; omega
  have hon : (n.run ops).powerPhase.power = .on := by simpa [effTick] using ht
  exact ⟨h1, by simp [Node.scanFires, hon, powerPhase_scanCd, h1], (C14_node_scan_fans_out _ h1 ht).1⟩

/-- An accepted `os scan` request loads `max(node_scan_duration, 1)` (also while a scan is running). -/
theorem C14_node_scan_request (n : Node) (hon : n.power = .on) :
    (n.apply .osScan).scanCd = max n.scanDur 1 := by
  rw [apply_scanCd]; simp [hon]


/-! ## 7. the shadow record: along every trace, visible = "actual value at the last completed scan" -/

theorem zipWith_map_self {α β γ : Type} (l : List α) (f : α → β → γ) (g : α → β) :
    List.zipWith f l (l.map g) = l.map (fun a => f a (g a)) := by
  induction l with
  | nil => rfl
  | cons a l ih => simp [ih]

/-- one step of the ghost record for software: overwritten exactly when a scan covering the item completes -/
def swShadowStep (n : Node) (op : Op) (sh : List SwH) : List SwH :=
  List.zipWith (fun x h => if swScanCompletes n op (swMoment n op x) then (swMoment n op x).actual else h) n.sws sh

/-- the ghost record along a trace -/
def swShadow (n : Node) : List Op → List SwH → List SwH
  | [], sh => sh
  | op :: ops, sh => swShadow (n.apply op) ops (swShadowStep n op sh)

/-- **C14 (software, all traces).** For every state and every operation sequence, the visible health of every
software item equals the shadow record "its actual health at the moment of the last scan that covered it" (and its
initial visible value if none did). -/
theorem C14_sw_visible_eq_shadow (ops : List Op) : ∀ n : Node,
    (n.run ops).sws.map (·.visible) = swShadow n ops (n.sws.map (·.visible)) := by
  induction ops with
  | nil => intro n; rfl
  | cons op ops ih =>
    intro n
    simp only [Node.run, swShadow]
    rw [ih (n.apply op)]
    congr 1
    rw [apply_sws, List.map_map, swShadowStep, zipWith_map_self]
    apply List.map_congr_left
    intro x _
    exact swEff_visible n op x

/-- one step of the ghost record for files (per folder, per file) -/
def fileShadowStep (n : Node) (op : Op) (sh : List (List FsH)) : List (List FsH) :=
  List.zipWith (fun G hs => List.zipWith (fun f h => if fileScanCompletes n op G f then f.actual else h) G.files hs)
    n.folders sh

def fileShadow (n : Node) : List Op → List (List FsH) → List (List FsH)
  | [], sh => sh
  | op :: ops, sh => fileShadow (n.apply op) ops (fileShadowStep n op sh)

/-- **C14 (files, all traces).** Same for every file of every folder. -/
theorem C14_file_visible_eq_shadow (ops : List Op) : ∀ n : Node,
    (n.run ops).folders.map (fun G => G.files.map (·.visible)) =
      fileShadow n ops (n.folders.map (fun G => G.files.map (·.visible))) := by
  induction ops with
  | nil => intro n; rfl
  | cons op ops ih =>
    intro n
    simp only [Node.run, fileShadow]
    rw [ih (n.apply op)]
    congr 1
    rw [apply_folders, List.map_map, fileShadowStep, zipWith_map_self]
    apply List.map_congr_left
    intro G _
    simp only [Function.comp_def]
    rw [folderEff_files, List.map_map, zipWith_map_self]
    apply List.map_congr_left
    intro f _
    exact fileEff_visible n op G f

/-! ## 8. end-to-end corollaries: request, then exactly `max(1, d)` timesteps -/

/-- **C14 fix timing.** After an accepted `fix` request on the `i`-th item, for every continuation that does not hit
the item from outside: it is still FIXING while fewer than `max(1, fixing_duration)` timesteps have reached it, and
the `max(1, fixing_duration)`-th such timestep makes it GOOD. -/
theorem C14_fix_exact (n : Node) (k : Bool) (i : Nat) (x : Sw) (ops : List Op)
    (hx : n.sws[i]? = some x) (hon : n.power = .on) (hk : x.isApp = k) (hr : x.op = .running) (hc : x.canFix = true)
    (hq : ∀ op ∈ ops, touchesSw x.name op = false) :
    let n1 := n.apply (.sw k x.name .fix)
    ((effTicks n1 ops : Int) < max 1 x.fixDur →
      ∃ x', (n1.run ops).sws[i]? = some x' ∧ x'.actual = .fixing) ∧
    ((effTicks n1 ops : Int) + 1 = max 1 x.fixDur → effTick (n1.run ops) .tick = true →
      ∃ x', ((n1.run ops).apply .tick).sws[i]? = some x' ∧ x'.actual = .good) := by
  obtain ⟨x1, h1, h2, h3⟩ := C14_fix_request n k i x hx hon hk hr hc
  have hq1 : ∀ op ∈ ops, touchesSw x1.name op = false := by intro o ho; rw [h2]; exact hq o ho
  refine ⟨fun hlt => ?_, fun heq ht => ?_⟩
  · obtain ⟨x', g1, _, g3⟩ := C14_fix_not_early ops _ i x1 x.fixDur h1 h3 hq1 hlt
    exact ⟨x', g1, g3.1⟩
  · obtain ⟨x', g1, _, g3⟩ := C14_fix_completes_on_time ops _ i x1 x.fixDur h1 h3 hq1 heq ht
    exact ⟨x', g1, g3⟩

/-- **C14 folder scan timing.** After a `scan` request on an idle live folder of a powered-on node, for EVERY
continuation: the scan completes at exactly the `max(1, scan_duration)`-th timestep that reaches the folder
(duration 0 included — F-24 repaired). -/
theorem C14_folder_scan_exact (n : Node) (j : Nat) (G : Folder) (ops : List Op)
    (hG : n.folders[j]? = some G) (hon : n.power = .on) (hl : G.deleted = false) (hidle : G.scanCd ≤ 0)
    (hk : (effFolderTicks (n.apply (.folder G.name .scan)) j ops : Int) + 1 = max G.scanDur 1) :
    let n1 := (n.apply (.folder G.name .scan)).run ops
    ∃ G', n1.folders[j]? = some G' ∧ G'.scanCd = 1 ∧
      (folderTicking n1 .tick G' = true →
        ∃ G'', (n1.apply .tick).folders[j]? = some G'' ∧ G''.scanCd = 0 ∧ G''.visible = worstLive G'.files ∧
          G''.files.map (·.visible) = G'.files.map (fun f => if f.deleted then f.visible else f.actual)) := by
  have h0 : (n.apply (.folder G.name .scan)).folders[j]? = some (folderEff n (.folder G.name .scan) G) := by
    rw [apply_folders, List.getElem?_map, hG]; rfl
  have hcd : (folderEff n (.folder G.name .scan) G).scanCd = max G.scanDur 1 := by
    rw [C14_folder_scan_request]; simp [hon, hl, hidle]
  obtain ⟨G', g1, g2, g3⟩ := C14_folder_scan_completes_on_time ops _ j _ _ h0 hcd hk
  exact ⟨G', g1, g2, fun ht => by
    obtain ⟨G'', a, _, b, c, d⟩ := g3 ht
    exact ⟨G'', a, b, c, d⟩⟩

/-- **C14 node scan timing.** After an accepted `os scan` request, for every continuation without a new `os scan`
request: the fan-out happens at exactly the `max(1, node_scan_duration)`-th timestep that reaches the node's items. -/
theorem C14_node_scan_exact (n : Node) (ops : List Op) (hon : n.power = .on) (hq : ∀ op ∈ ops, op ≠ .osScan) :
    let n1 := n.apply .osScan
    ((effTicks n1 ops : Int) < max n.scanDur 1 → (n1.run ops).scanCd = max n.scanDur 1 - effTicks n1 ops) ∧
    ((effTicks n1 ops : Int) + 1 = max n.scanDur 1 → effTick (n1.run ops) .tick = true →
      (n1.run ops).powerPhase.scanFires = true ∧ ((n1.run ops).apply .tick).scanCd = 0) := by
  have h := C14_node_scan_request n hon
  refine ⟨fun hlt => C14_node_scan_not_early ops _ _ h hq hlt, fun heq ht => ?_⟩
  have := C14_node_scan_completes_on_time ops _ _ h hq heq ht
  exact ⟨this.2.1, this.2.2⟩

/-! ## 9. non-vacuity and concrete interleavings (evaluated by the kernel on the model) -/

/-- a small node: one COMPROMISED running service (fix 2), one closed application, one folder (scan 0, restore 2)
with a CORRUPT live file and a GOOD deleted file; node scan duration 0; shut-down 1, start-up 1. -/
def exDns : Sw :=
  { name := "dns", isApp := false, op := .running, actual := .compromised, visible := .unused, fixDur := 2,
    fixCd := none, auxDur := 5, auxCd := none }
def exNode : Node :=
  { power := .on, startDur := 1, startCd := 0, shutDur := 1, shutCd := 0, resetting := false, scanDur := 0, scanCd := 0,
    sws := [exDns,
            { name := "browser", isApp := true, op := .closed, actual := .unused, visible := .unused, fixDur := 0,
              fixCd := none, auxDur := 2, auxCd := none }],
    folders := [{ name := "d", deleted := false, actual := .good, visible := .none, scanDur := 0, scanCd := 0,
                  restoreDur := 2, restoreCd := 0,
                  files := [{ name := "a", actual := .corrupt, visible := .none, deleted := false },
                            { name := "b", actual := .good, visible := .none, deleted := true }] }] }

example : exNode.wf = true := by decide
/-- hypotheses of `C14_fix_exact` are satisfiable -/
example : exNode.sws[0]? = some exDns ∧ exNode.power = .on ∧ exDns.op = .running ∧ exDns.canFix = true := by decide
/-- a scan request completes a scan of its item, and of nothing else -/
example : (exNode.sws.map (swScanCompletes exNode (.sw false "dns" .scan))) = [true, false] := by decide
/-- fix with duration 2, a second compromise after one tick, a new fix: two more ticks — FIXING, COMPROMISED,
FIXING, FIXING, GOOD -/
example :
    ([[Op.sw false "dns" .fix, .tick], [.sw false "dns" .fix, .tick, .sw false "dns" .compromise, .tick],
      [.sw false "dns" .fix, .tick, .sw false "dns" .compromise, .tick, .sw false "dns" .fix, .tick],
      [.sw false "dns" .fix, .tick, .sw false "dns" .compromise, .tick, .sw false "dns" .fix, .tick, .tick]].map
        (fun ops => ((exNode.run ops).sws.map (·.actual)).take 1)) = [[.fixing], [.compromised], [.fixing], [.good]] := by
  decide
/-- power loss in the middle of a fix: the countdown freezes while the node is not ON (shut-down 1, start-up 1:
the node is ON again — and ticks its items — in the 2nd timestep after `startup`) -/
example :
    ((exNode.run [.sw false "dns" .fix, .tick, .shutdown, .tick, .tick, .tick, .startup, .tick]).sws.map
        (fun x => (x.actual, x.fixCd))).take 1 = [(.fixing, some 1)] ∧
    ((exNode.run [.sw false "dns" .fix, .tick, .shutdown, .tick, .tick, .tick, .startup, .tick, .tick]).sws.map
        (fun x => (x.actual, x.fixCd))).take 1 = [(.good, none)] := by decide
/-- durations 0 (folder scan, node scan): complete at the next timestep; the deleted file is not scanned; the
application (closed, never run) is scanned by the node scan all the same -/
example :
    (exNode.run [.folder "d" .scan, .tick]).folders.map (fun G => (G.visible, G.files.map (·.visible))) =
      [(.corrupt, [.corrupt, .none])] ∧
    (exNode.run [.osScan, .tick]).sws.map (·.visible) = [.compromised, .unused] ∧
    (exNode.run [.osScan, .tick]).folders.map (fun G => (G.visible, G.files.map (·.visible))) =
      [(.corrupt, [.corrupt, .none])] := by decide
/-- nothing but a scan moves a visible value: compromise, fix, corrupt, repair, restore, delete, power events, ticks
without a completing scan -/
example :
    let n := exNode.run [.sw false "dns" .fix, .file "d" "a" .repair, .folder "d" .corrupt, .fsDeleteFile "d" "a",
      .fsRestoreFile "d" "a", .folder "d" .restore, .tick, .tick, .tick, .shutdown, .tick, .tick, .startup, .tick, .tick]
    (n.sws.map (·.visible), n.folders.map (fun G => (G.visible, G.files.map (·.visible)))) =
      ([.unused, .unused], [(.none, [.none, .none])]) := by decide


/-! ## 10. the model's one silent branch is unreachable -/

/-- FIXING implies a countdown is present (`_update_fix_status` would raise `TypeError` on `None -= 1`). -/
def Sw.FixOk (x : Sw) : Prop := x.actual = .fixing → x.fixCd.isSome = true

theorem Sw.FixOk.of_rel {y x : Sw} (h : Sw.PowerRel y x) (hx : x.FixOk) : y.FixOk := by
  intro hy
  rcases h.actual with e | ⟨_, g⟩
  · rw [h.fixCd]; exact hx (e ▸ hy)
  · rw [g] at hy; cases hy

theorem Sw.tick_fixOk (x : Sw) (hx : x.FixOk) : x.tick.FixOk := by
  have h1 : x.fixTick.FixOk := by
    unfold Sw.fixTick
    split
    · unfold Sw.updateFix
      split
      · split
        · intro h; cases h
        · intro _; rfl
      · exact hx
    · exact hx
  unfold Sw.tick Sw.auxTick
  (repeat' split) <;> first | exact h1 | (intro h; cases h) | (intro h; exact h1 h)

theorem Sw.handle_fixOk (x : Sw) (r : SwReq) (hx : x.FixOk) : (x.handle r).1.FixOk := by
  cases r <;> simp only [Sw.handle]
  case scan => exact hx
  case fix =>
    unfold Sw.fix; split
    · intro _; rfl
    · exact hx
  case compromise => intro h; cases h
  case start =>
    split
    · intro h
      have := Sw.FixOk.of_rel x.wake_rel hx h
      exact this
    · exact hx
  case execute =>
    split
    · intro h
      have := Sw.FixOk.of_rel x.wake_rel hx h
      exact this
    · exact hx
  all_goals ((repeat' split) <;> exact hx)

theorem swEff_fixOk (n : Node) (op : Op) (x : Sw) (hx : x.FixOk) : (swEff n op x).FixOk := by
  cases op <;> simp only [swEff]
  case tick =>
    have hp := Sw.FixOk.of_rel (powerEff_rel n x) hx
    unfold tickEff
    split
    · split
      · exact Sw.tick_fixOk _ hp
      · exact Sw.tick_fixOk _ hp
    · exact hp
  case shutdown => (repeat' split) <;> first | exact hx | exact .of_rel (offNowEff_rel n x) hx
  case reset => (repeat' split) <;> first | exact hx | exact .of_rel (resetNowEff_rel n x) hx
  case startup => split <;> first | exact hx | exact .of_rel (powerOnEff_rel n x) hx
  case sw isApp nm r =>
    unfold Sw.request
    (repeat' split) <;> first | exact hx | exact x.handle_fixOk r hx
  case swSet nm h =>
    split
    · intro hh; cases h <;> cases hh
    · exact hx
  case appInstall nm =>
    split
    · unfold Sw.install; split <;> exact hx
    · exact hx
  case appRun nm => (repeat' split) <;> first | exact hx | exact .of_rel x.startUp_rel hx
  all_goals exact hx

/-- **Invariant.** From any state in which every FIXING item has a countdown (in particular every state the rig
starts from), every reachable state has the property: the `none` branch of `Sw.updateFix` is never taken. -/
theorem C14_fixing_has_countdown (ops : List Op) : ∀ n : Node,
    (∀ x ∈ n.sws, x.FixOk) → ∀ x ∈ (n.run ops).sws, x.FixOk := by
  induction ops with
  | nil => intro n h; exact h
  | cons op ops ih =>
    intro n h
    apply ih (n.apply op)
    intro y hy
    rw [apply_sws, List.mem_map] at hy
    obtain ⟨x, hx, rfl⟩ := hy
    exact swEff_fixOk n op x (h x hx)

end Primaite.Health
