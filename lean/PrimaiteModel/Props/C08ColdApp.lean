/-
C08, part 13 — the SERVICE exchange with COLD caches across one router: a request of any application / service identified by its
(port, protocol) key — DNS look-up, database connect or query, HTTP request … — from host A to the server on host B, host —
router — host over direct cables, every ARP cache empty, and the answer back.  The same three ARP cascades as for the ping
(`C08ColdRouter.lean`) are part of the statement; what differs is who decides: the router's rule list must permit the service,
the port must be open on both hosts (`HostNode.receive_frame`), the server software must be there
(`port_protocol_mapping.get((port, protocol))`), and the answer goes to the request's source.
-/
import PrimaiteModel.Props.C08ColdRouter
namespace Primaite.Forward
open Primaite.Route (findBestRoute Table)

theorem addArp_ports (nd : Node) (ip : Ip) (mac : Mac) (i : Nat) : (nd.addArp ip mac i).ports = nd.ports := by
  unfold Node.addArp; split
  · rfl
  · split <;> rfl
theorem addArp_serves (nd : Node) (ip : Ip) (mac : Mac) (i : Nat) : (nd.addArp ip mac i).serves = nd.serves := by
  unfold Node.addArp; split
  · rfl
  · split <;> rfl
theorem addArp_got (nd : Node) (ip : Ip) (mac : Mac) (i : Nat) : (nd.addArp ip mac i).got = nd.got := by
  unfold Node.addArp; split
  · rfl
  · split <;> rfl

/-- the server side: the port is open, the software registered under the key is there: it records the request and answers to
the frame's source address. -/
theorem host_app_req (fuel : Nat) (X : St) (b : Nat) (nd : Node) (ifc : Iface) (f : Frame) (svc : Nat)
    (hn : X.node? b = some nd) (hon : nd.on = true) (hifs : nd.ifaces = [ifc]) (hpl : f.pl = .appReq svc true)
    (hport : nd.ports.contains svc = true) (hserve : nd.serves.contains svc = true) :
    hostRecv (fuel + 1) X b 0 f =
      (sendIcmp fuel ((((X.modNode b (fun nd => nd.addArp f.srcIp f.srcMac 0)).emit (.sw b f.id f.dstIp (f.dstMac == bcastMac))).modNode b
        (fun nd => { nd with acks := svc :: nd.acks }))) b f.srcIp (.appRep svc), f) := by
  have hi := iface0_of X b nd ifc hn hifs
  simp only [hostRecv, portClosed, hn, hi, hon, if_true, hpl, hport, hserve, Bool.not_true, Bool.false_eq_true, if_false]

/-- the client side: the port is open: the answer is recorded. -/
theorem host_app_rep (fuel : Nat) (X : St) (a : Nat) (nd : Node) (ifc : Iface) (f : Frame) (svc : Nat)
    (hn : X.node? a = some nd) (hon : nd.on = true) (hifs : nd.ifaces = [ifc]) (hpl : f.pl = .appRep svc)
    (hport : nd.ports.contains svc = true) :
    hostRecv (fuel + 1) X a 0 f =
      (((X.modNode a (fun nd => nd.addArp f.srcIp f.srcMac 0)).emit (.sw a f.id f.dstIp (f.dstMac == bcastMac))).modNode a
        (fun nd => { nd with got := svc :: nd.got }), f) := by
  have hi := iface0_of X a nd ifc hn hifs
  simp only [hostRecv, portClosed, hn, hi, hon, if_true, hpl, hport, Bool.not_true, Bool.false_eq_true, if_false]

/-- **A PERMITTED SERVICE EXCHANGE SUCCEEDS WITH COLD CACHES ACROSS ONE ROUTER.**  `ColdRouted` (host A — plain router — host B,
direct cables, different subnets, all three ARP caches empty), the service's port open on both hosts, its server software on B,
a rule for it on the router: `requestApp` (one request that is answered with a frame) returns `True` — A resolves its gateway,
the router resolves B while it holds the request, B's software is found under the key and answers to the request's source
through B's (already learned) gateway, the router forwards the answer from its cache, A's software records it.  Any service
key, every fuel ≥ 16. -/
theorem C08_permitted_app_exchange_succeeds_cold_routed (fuel : Nat) (st : St) (a r b ia ib : Nat) (ndA ndR ndB : Node)
    (ifA ifB ra rb ownA ownB : Iface) (h : ColdRouted st a r b ia ib ndA ndR ndB ifA ifB ra rb ownA ownB) (svc : Nat)
    (hpA : ndA.ports.contains svc = true) (hpB : ndB.ports.contains svc = true) (hsB : ndB.serves.contains svc = true)
    (hsR : ndR.serves.contains svc = true) :
    (requestApp (fuel + 16) st a ifB.ip svc true).2 = true := by
  generalize hst0 : st = st0
  have S0 : Snap st0 (cfgOf st) a b r ndA ndB ndR := by rw [← hst0]; exact ⟨rfl, h.nodeA, h.nodeB, h.nodeR⟩
  have cgA := arpGet_nil ndA h.coldA
  have cgR := arpGet_nil ndR h.coldR
  have cgB := arpGet_nil ndB h.coldB
  have hgne : ifB.ip ≠ ra.ip := by intro e; have := h.offAB; rw [e, h.netAg] at this; cases this
  have hgne2 : ifA.ip ≠ rb.ip := by intro e; have := h.offBA; rw [e, h.netBg] at this; cases this
  -- (1) A resolves its gateway
  obtain ⟨Y1, hY1, SY1⟩ := host_router_arp (fuel + 3) st0 (cfgOf st) a r b ia ndA ndR ndB ifA ra ownA S0 h.ab h.ar h.ifsA h.enA h.peerA
    h.kindA h.onA (cgA ra.ip) h.netAg h.gNotNet h.gNotBc h.macA h.kindR h.onR h.fwR h.portA h.raEn h.raPeer h.ownA h.feA h.br
  have hgA : (ndA.addArp ra.ip ra.mac 0).arpGet ra.ip = some { ip := ra.ip, mac := ra.mac, ifc := 0 } :=
    arpGet_addArp_new ndA ra.ip ra.mac 0 (by rw [h.ifsA]; exact ifaceWithIp_single ifA ra.ip h.ipAg) (cgA ra.ip)
  rw [addArp_known _ _ _ _ _ hgA] at SY1
  generalize hA1 : ndA.addArp ra.ip ra.mac 0 = A1 at SY1 hgA
  have A1ifs : A1.ifaces = [ifA] := by rw [← hA1, addArp_ifaces]; exact h.ifsA
  have A1kind : A1.kind = .host := by rw [← hA1, addArp_kind]; exact h.kindA
  have A1on : A1.on = true := by rw [← hA1, addArp_on]; exact h.onA
  have A1gw : A1.gateway = some ra.ip := by rw [← hA1]; unfold Node.addArp; split; exact h.gwA; split <;> exact h.gwA
  have A1ports : A1.ports = ndA.ports := by rw [← hA1]; exact addArp_ports _ _ _ _
  have A1got : A1.got = ndA.got := by rw [← hA1]; exact addArp_got _ _ _ _
  have hgR1 : (ndR.addArp ifA.ip ifA.mac ia).arpGet ifA.ip = some { ip := ifA.ip, mac := ifA.mac, ifc := ia } :=
    arpGet_addArp_new ndR ifA.ip ifA.mac ia h.notOwnA (cgR ifA.ip)
  generalize hR1 : ndR.addArp ifA.ip ifA.mac ia = R1 at SY1 hgR1
  have R1ifs : R1.ifaces = ndR.ifaces := by rw [← hR1]; exact addArp_ifaces _ _ _ _
  have R1kind : R1.kind = .router := by rw [← hR1, addArp_kind]; exact h.kindR
  have R1on : R1.on = true := by rw [← hR1, addArp_on]; exact h.onR
  have R1serves : R1.serves = ndR.serves := by rw [← hR1]; exact addArp_serves _ _ _ _
  have R1fw : R1.fw = none := by rw [← hR1]; unfold Node.addArp; split; exact h.fwR; split <;> exact h.fwR
  have R1coldB : R1.arpGet ifB.ip = none := by rw [← hR1, arpGet_addArp_other _ _ _ _ _ (Ne.symm h.ipAB)]; exact cgR ifB.ip
  have hfeA : firstEnabledIn ndA.ifaces ifB.ip 0 = none := by simp [h.ifsA, firstEnabledIn, h.offAB]
  have hnext : hostArpNext ndA ra.ip false false = .go ra.ip true true := by
    unfold hostArpNext; simp [h.gwA]
  have hany1 : A1.ifaces.any (·.enabled) = true := by simp [A1ifs, h.enA]
  have hmac0 : arpMac (fuel + 14) st0 a ra.ip false false = (Y1, some ra.mac) := by
    rw [arpMac]
    simp only [S0.na, cgA ra.ip, h.kindA, arpNext, hnext, hY1]
    rw [arpMac]
    simp only [SY1.na, hgA]
  have hifc0 : arpIfc (fuel + 14) Y1 a ra.ip false false = (Y1, some 0) := by
    simp only [arpIfc, SY1.na, hgA]
  have hrd0 : resolveDetails (fuel + 15) st0 a ifB.ip = (Y1, some ra.mac, some 0) := by
    simp only [resolveDetails, S0.na, hfeA, h.kindA, h.gwA, hmac0, SY1.na, hany1, if_true, hifc0]
  have hrdY : resolveDetails (fuel + 15) Y1 a ifB.ip = (Y1, some ra.mac, some 0) :=
    C08_host_resolves_gateway (fuel + 13) Y1 a A1 ifB.ip ra.ip _ SY1.na A1kind (by rw [A1ifs]; simpa [h.ifsA] using hfeA) A1gw hgA hany1
  have hsame : sendIcmp (fuel + 16) st0 a ifB.ip (.appReq svc true) = sendIcmp (fuel + 16) Y1 a ifB.ip (.appReq svc true) := by
    simp only [sendIcmp, hrd0, hrdY]
  -- (2) A sends the echo request to the router's MAC
  have hY1ra : Y1.iface? r ia = some ra := by
    unfold St.iface?; have := SY1.ns; unfold St.node? at this; rw [this, Option.bind_some, R1ifs]; exact h.portA
  have hsend := host_send_warm (fuel + 13) Y1 a A1 ifA ra ifB.ip { ip := ra.ip, mac := ra.mac, ifc := 0 } (.appReq svc true) r ia
    SY1.na A1kind A1ifs h.enA (Or.inr ⟨h.offAB, ra.ip, A1gw, h.netAg, hgA⟩) rfl h.peerA hY1ra h.raEn
  -- (3) the router asks for B and forwards
  generalize hX2 : ({ Y1 with nextId := Y1.nextId + 1 } : St) = X2 at hsend
  have SX2 : Snap X2 (cfgOf st) a b r A1 ndB R1 := by rw [← hX2]; exact SY1.nextId _
  generalize hE : mkFrame Y1 ifA ra.mac ifB.ip (.appReq svc true) = E at hsend
  have Es : E.srcMac = ifA.mac ∧ E.dstMac = ra.mac ∧ E.srcIp = ifA.ip ∧ E.dstIp = ifB.ip ∧ E.ttl = 64 ∧ E.pl = .appReq svc true := by
    rw [← hE]; exact ⟨rfl, rfl, rfl, rfl, rfl, rfl⟩
  obtain ⟨e1, e2, e3, e4, e5, e6⟩ := Es
  obtain ⟨Y2, hfwd, SY2⟩ := router_forward_cold fuel X2 (cfgOf st) a r b ia ib A1 R1 ndB ifB ra rb ownB E _ SX2 h.ab h.br h.ar
    R1kind R1on R1fw (by rw [R1ifs]; exact h.portA) (by rw [R1ifs]; exact h.portB) h.rbEn h.rbPeer (by rw [R1ifs]; exact h.ownB) h.macRb
    e2 h.macRa e4 (by rw [e6]; exact plain_router_permits R1 ia _ R1fw ⟨by simp, by simp, by simpa [appDenied, R1serves] using hsR⟩) (by rw [e3]; exact hgR1) (by rw [e5]; decide) (by rw [R1ifs]; exact h.notOwnB) R1coldB
    (by rw [R1ifs]; exact h.fiB) (by rw [R1ifs]; exact h.feB) h.rbB h.bNotNet h.bNotBc h.ifsB h.enB h.peerB h.kindB h.onB h.netBg
  have hf14 : fuel + 13 + 1 = fuel + 14 := rfl
  rw [hf14, hfwd] at hsend
  -- what the nodes know now
  have hgB1 : (ndB.addArp rb.ip rb.mac 0).arpGet rb.ip = some { ip := rb.ip, mac := rb.mac, ifc := 0 } :=
    arpGet_addArp_new ndB rb.ip rb.mac 0 (by rw [h.ifsB]; exact ifaceWithIp_single ifB rb.ip h.ipBg) (cgB rb.ip)
  have hgR2 : (R1.addArp ifB.ip ifB.mac ib).arpGet ifB.ip = some { ip := ifB.ip, mac := ifB.mac, ifc := ib } :=
    arpGet_addArp_new R1 ifB.ip ifB.mac ib (by rw [R1ifs]; exact h.notOwnB) R1coldB
  rw [addArp_known _ _ _ _ _ hgR2] at SY2
  generalize hB1 : ndB.addArp rb.ip rb.mac 0 = B1 at SY2 hgB1
  have B1ifs : B1.ifaces = [ifB] := by rw [← hB1, addArp_ifaces]; exact h.ifsB
  have B1kind : B1.kind = .host := by rw [← hB1, addArp_kind]; exact h.kindB
  have B1on : B1.on = true := by rw [← hB1, addArp_on]; exact h.onB
  have B1ports : B1.ports = ndB.ports := by rw [← hB1]; exact addArp_ports _ _ _ _
  have B1serves : B1.serves = ndB.serves := by rw [← hB1]; exact addArp_serves _ _ _ _
  have B1gw : B1.gateway = some rb.ip := by rw [← hB1]; unfold Node.addArp; split; exact h.gwB; split <;> exact h.gwB
  have B1coldA : B1.arpGet ifA.ip = none := by rw [← hB1, arpGet_addArp_other _ _ _ _ _ hgne2]; exact cgB ifA.ip
  generalize hR2 : R1.addArp ifB.ip ifB.mac ib = R2 at SY2 hgR2
  have R2ifs : R2.ifaces = ndR.ifaces := by rw [← hR2, addArp_ifaces]; exact R1ifs
  have R2kind : R2.kind = .router := by rw [← hR2, addArp_kind]; exact R1kind
  have R2on : R2.on = true := by rw [← hR2, addArp_on]; exact R1on
  have R2serves : R2.serves = ndR.serves := by rw [← hR2, addArp_serves]; exact R1serves
  have R2fw : R2.fw = none := by rw [← hR2]; unfold Node.addArp; split; exact R1fw; split <;> exact R1fw
  have R2A : R2.arpGet ifA.ip = some { ip := ifA.ip, mac := ifA.mac, ifc := ia } := by
    rw [← hR2, arpGet_addArp_other _ _ _ _ _ h.ipAB]; exact hgR1
  -- (4) B receives the request, learns "A ↦ the router", answers through its gateway
  generalize hX3 : Y2.emit (.hop r E.id E.dec.ttl) = X3 at hsend
  have SX3 : Snap X3 (cfgOf st) a b r A1 B1 R2 := by rw [← hX3]; exact SY2.emit _
  generalize hE2 : E.dec.dec.stamp rb.mac ifB.mac = E2 at hsend
  have E2s : E2.srcMac = rb.mac ∧ E2.dstMac = ifB.mac ∧ E2.srcIp = ifA.ip ∧ E2.dstIp = ifB.ip ∧ E2.ttl = 62 ∧ E2.pl = .appReq svc true := by
    rw [← hE2]
    refine ⟨rfl, rfl, e3, e4, ?_, e6⟩
    show E.ttl - 1 - 1 = 62
    rw [e5]; rfl
  obtain ⟨g1, g2, g3, g4, g5, g6⟩ := E2s
  rw [host_end (fuel + 9) X3 b B1 ifB E2 SX3.nb B1kind B1ifs g2 h.macB g4 (by rw [g5]; decide)] at hsend
  rw [host_app_req (fuel + 8) (X3.emit (.rx b 0 E2.id E2.ttl)) b B1 ifB E2.dec svc (SX3.emit _).nb B1on B1ifs g6 (by rw [B1ports]; exact hpB)
    (by rw [B1serves]; exact hsB)] at hsend
  have hs1 : E2.dec.srcIp = ifA.ip := g3
  have hs2 : E2.dec.srcMac = rb.mac := g1
  rw [hs1, hs2] at hsend
  generalize hX4 : ((((X3.emit (.rx b 0 E2.id E2.ttl)).modNode b (fun nd => nd.addArp ifA.ip rb.mac 0)).emit
    (.sw b E2.dec.id E2.dec.dstIp (E2.dec.dstMac == bcastMac))).modNode b (fun nd => { nd with acks := svc :: nd.acks })) = X4 at hsend
  have SX4 : Snap X4 (cfgOf st) a b r A1 { (B1.addArp ifA.ip rb.mac 0) with acks := svc :: (B1.addArp ifA.ip rb.mac 0).acks } R2 := by
    rw [← hX4]
    exact ((((SX3.emit _).modB _ (fun nd => addArp_cfg nd _ _ _) h.ab h.br).emit _).modB _ (fun _ => rfl) h.ab h.br)
  generalize hB2 : ({ (B1.addArp ifA.ip rb.mac 0) with acks := svc :: (B1.addArp ifA.ip rb.mac 0).acks } : Node) = B2 at SX4
  have B2ifs : B2.ifaces = [ifB] := by
    rw [← hB2]; exact (by rw [addArp_ifaces]; exact B1ifs : (B1.addArp ifA.ip rb.mac 0).ifaces = [ifB])
  have B2kind : B2.kind = .host := by
    rw [← hB2]; exact (by rw [addArp_kind]; exact B1kind : (B1.addArp ifA.ip rb.mac 0).kind = .host)
  have B2gw : B2.gateway = some rb.ip := by
    rw [← hB2]
    exact (by unfold Node.addArp; split; exact B1gw; split <;> exact B1gw : (B1.addArp ifA.ip rb.mac 0).gateway = some rb.ip)
  have B2g : B2.arpGet rb.ip = some { ip := rb.ip, mac := rb.mac, ifc := 0 } := by
    rw [← hB2]
    exact (by rw [arpGet_addArp_other _ _ _ _ _ (Ne.symm hgne2)]; exact hgB1 :
      (B1.addArp ifA.ip rb.mac 0).arpGet rb.ip = some { ip := rb.ip, mac := rb.mac, ifc := 0 })
  have hrouteB : HostRoute B2 ifB ifA.ip { ip := rb.ip, mac := rb.mac, ifc := 0 } := Or.inr ⟨h.offBA, rb.ip, B2gw, h.netBg, B2g⟩
  have hX4rb : X4.iface? r ib = some rb := by
    unfold St.iface?; have := SX4.ns; unfold St.node? at this; rw [this, Option.bind_some, R2ifs]; exact h.portB
  rw [host_send_warm (fuel + 5) X4 b B2 ifB rb ifA.ip _ (.appRep svc) r ib SX4.nb B2kind B2ifs h.enB hrouteB rfl h.peerB hX4rb
    h.rbEn] at hsend
  -- (5) the router forwards the reply from its cache
  have hopR : Hop X4.nodes (.appRep svc) ifB.ip ifA.ip r ib rb.mac a 0 ra.mac ifA.mac :=
    ⟨⟨R2, rb, _, { ip := ifA.ip, mac := ifA.mac, ifc := ia }, ra, ifA, SX4.ns, R2kind,
      by unfold transitOk; rw [R2fw]; simp [R2on, plain_router_permits R2 ib (.appRep svc) R2fw ⟨by simp, by simp, by simpa [appDenied, R2serves] using hsR⟩],
      by rw [R2ifs]; exact h.portB, rfl, hgR2, by rw [R2ifs]; exact h.notOwnA, Or.inr (Or.inl ⟨R2A, h.raA⟩),
      by rw [R2ifs]; exact h.portA, h.raEn, h.raPeer,
      by have := SX4.na; unfold St.node? at this; rw [this, Option.bind_some, A1ifs]; rfl, h.enA, rfl, rfl⟩⟩
  have pBA : Path X4.nodes (.appRep svc) ifB.ip ifA.ip r ib ifB.mac rb.mac a 0 ra.mac ifA.mac (0 + 4) (0 + 2) :=
    Path.router hopR h.macA Path.arrive
  obtain ⟨L2, G, j2, Gs, Gd, Gp, _, Gm, Gt, _⟩ := journey pBA (fuel + 1) { X4 with nextId := X4.nextId + 1 }
    (mkFrame X4 ifB rb.mac ifA.ip (.appRep svc)) rfl rfl rfl rfl rfl h.macRb rfl (by simp [mkFrame, initTtl])
  have hfj : fuel + 5 + 1 = fuel + 1 + (0 + 4) + 1 := by omega
  rw [hfj, j2] at hsend
  -- (6) A counts the reply
  generalize hX6 : ({ ({ X4 with nextId := X4.nextId + 1 } : St) with
    log := L2 ++ ({ X4 with nextId := X4.nextId + 1 } : St).log } : St) = X6 at hsend
  have SX6 : Snap X6 (cfgOf st) a b r A1 B2 R2 := by rw [← hX6]; exact ⟨SX4.cfg, SX4.na, SX4.nb, SX4.ns⟩
  have Gttl : 2 ≤ G.ttl := by rw [Gt]; simp [mkFrame, initTtl]
  rw [host_end (fuel + 1) X6 a A1 ifA G SX6.na A1kind A1ifs Gm h.macA Gd Gttl] at hsend
  rw [host_app_rep fuel (X6.emit (.rx a 0 G.id G.ttl)) a A1 ifA G.dec svc (SX6.emit _).na A1on A1ifs Gp (by rw [A1ports]; exact hpA)] at hsend
  -- (7) `requestApp` sees the answer
  have hfinal : (sendIcmp (fuel + 16) st0 a ifB.ip (.appReq svc true)).node? a =
      some { (A1.addArp G.dec.srcIp G.dec.srcMac 0) with got := svc :: (A1.addArp G.dec.srcIp G.dec.srcMac 0).got } := by
    have hf16 : fuel + 16 = fuel + 13 + 3 := by omega
    rw [hsame, hf16, hsend]
    simp only [node?_modNode, if_true, node?_emit, SX6.na, Option.map_some]
  subst hst0
  unfold requestApp
  simp only [h.nodeA, Option.any_some, h.onA, Bool.not_true, Bool.false_eq_true, if_false, hfinal, Option.map_some, Option.getD_some]
  rw [addArp_got, A1got]
  simp


/-! ### groundwork for chains of routers: the ROUTER-TO-ROUTER ARP exchange -/

/-- ROUTER ASKS ROUTER: the plain, powered-on router `r1` asks, out of its interface `i1` (cabled to interface `i2` of the plain,
powered-on router `r2`), for `r2`'s address there (e.g. the next hop of a route); `r2` learns `r1`'s pair and answers; `r1`
learns `r2` (twice: frame source and ARP payload).  The third tracked node is untouched. -/
theorem router_router_arp (fuel : Nat) (X : St) (c : List NodeCfg) (o r1 r2 i1 i2 k0 : Nat) (ndO nd1 nd2 : Node)
    (if1 if2 own1 own2 : Iface)
    (S : Snap X c o r1 r2 ndO nd1 nd2) (ho1 : o ≠ r1) (h12 : r1 ≠ r2) (ho2 : o ≠ r2)
    (hk1 : nd1.kind = .router) (hon1 : nd1.on = true) (hfw1 : nd1.fw = none) (hi1 : nd1.ifaces[i1]? = some if1)
    (hen1 : if1.enabled = true) (hpeer1 : if1.peer = some (r2, i2)) (hown1 : ifaceWithIp nd1.ifaces if1.ip = some own1)
    (hmac1 : if1.mac ≠ bcastMac)
    (hcold : nd1.arpGet if2.ip = none) (hfi : firstIn nd1.ifaces if2.ip 0 = some k0) (hfe : firstEnabledIn nd1.ifaces if2.ip 0 = some i1)
    (hnn : if2.ip ≠ if1.netAddr) (hnb : if2.ip ≠ if1.bcastAddr)
    (hk2 : nd2.kind = .router) (hon2 : nd2.on = true) (hfw2 : nd2.fw = none) (hi2 : nd2.ifaces[i2]? = some if2)
    (hen2 : if2.enabled = true) (hpeer2 : if2.peer = some (r1, i1)) (hown2 : ifaceWithIp nd2.ifaces if2.ip = some own2)
    (hfe2 : firstEnabledIn nd2.ifaces if1.ip 0 = some i2) :
    ∃ Y, sendArpReq (fuel + 10) X r1 if2.ip = Y ∧
      Snap Y c o r1 r2 ndO ((nd1.addArp if2.ip if2.mac i1).addArp if2.ip if2.mac i1) (nd2.addArp if1.ip if1.mac i2) := by
  have ifR1 : X.iface? r1 i1 = some if1 := by unfold St.iface?; have := S.nb; unfold St.node? at this; rw [this]; exact hi1
  have ifR2 : X.iface? r2 i2 = some if2 := by unfold St.iface?; have := S.ns; unfold St.node? at this; rw [this]; exact hi2
  refine ⟨_, rfl, ?_⟩
  rw [router_arp_request (fuel + 7) X r1 i1 nd1 if1 if2.ip k0 S.nb hcold hfi hfe ifR1 hnn hnb]
  generalize hX1 : ({ X with nextId := X.nextId + 1 } : St) = X1
  have S1 : Snap X1 c o r1 r2 ndO nd1 nd2 := by rw [← hX1]; exact S.nextId _
  generalize hQ : mkArpReq X if1 if2.ip = Q
  have Qs : Q.srcMac = if1.mac ∧ Q.dstMac = bcastMac ∧ Q.srcIp = if1.ip ∧ Q.dstIp = if2.ip ∧ Q.ttl = 64 ∧
      Q.pl = .arpReq if1.ip if1.mac if2.ip := by rw [← hQ]; exact ⟨rfl, rfl, rfl, rfl, rfl, rfl⟩
  obtain ⟨q1, q2, q3, q4, q5, q6⟩ := Qs
  rw [link_step (fuel + 7) X1 r1 i1 r2 i2 if1 if2 Q (by rw [S.iface S1]; exact ifR1) hen1 hpeer1 (by rw [S.iface S1]; exact ifR2) hen2]
  rw [router_arp_req (fuel + 5) X1 r2 i2 nd2 if2 own2 Q if1.ip if1.mac S1.ns hk2 hon2 hfw2 (by rw [S.iface S1]; exact ifR2) hen2 hown2 q6 q2 q4
    (by rw [q5]; decide)]
  show Snap (sendArpReply (fuel + 5) _ r2 _) c o r1 r2 _ _ _
  generalize hX2 : ((X1.emit (.rx r2 i2 Q.id Q.ttl)).modNode r2 (fun nd => nd.addArp Q.srcIp Q.srcMac i2)).emit (.sw r2 Q.id if2.ip true) = X2
  have S2 : Snap X2 c o r1 r2 ndO nd1 (nd2.addArp if1.ip if1.mac i2) := by
    rw [← hX2, q3, q1]
    exact ((S1.emit _).modS _ (fun nd => addArp_cfg nd _ _ _) ho2 h12).emit _
  rw [router_arp_reply_send (fuel + 2) X2 r2 i2 (nd2.addArp if1.ip if1.mac i2) if2 if2.ip if2.mac if1.ip if1.mac S2.ns
    (by rw [addArp_ifaces]; exact hfe2) (by rw [S.iface S2]; exact ifR2)]
  generalize hX3 : ({ X2 with nextId := X2.nextId + 1 } : St) = X3
  have S3 : Snap X3 c o r1 r2 ndO nd1 (nd2.addArp if1.ip if1.mac i2) := by rw [← hX3]; exact S2.nextId _
  generalize hP : mkArpRep X2 if2 if2.ip if2.mac if1.ip if1.mac = P
  have Ps : P.srcMac = if2.mac ∧ P.dstMac = if1.mac ∧ P.srcIp = if2.ip ∧ P.dstIp = if1.ip ∧ P.ttl = 64 ∧
      P.pl = .arpRep if2.ip if2.mac if1.ip if1.mac := by rw [← hP]; exact ⟨rfl, rfl, rfl, rfl, rfl, rfl⟩
  obtain ⟨p1, p2, p3, p4, p5, p6⟩ := Ps
  rw [link_step (fuel + 2) X3 r2 i2 r1 i1 if2 if1 P (by rw [S.iface S3]; exact ifR2) hen2 hpeer2 (by rw [S.iface S3]; exact ifR1) hen1]
  rw [router_arp_rep fuel X3 r1 i1 nd1 if1 own1 P if2.ip if2.mac if1.mac S3.nb hk1 hon1 hfw1 (by rw [S.iface S3]; exact ifR1) hown1 p6 p2
    hmac1 p4 (by rw [p5]; decide)]
  rw [p3, p1]
  exact ((((S3.emit _).modB _ (fun nd => addArp_cfg nd _ _ _) ho1 h12).emit _).modB _ (fun nd => addArp_cfg nd _ _ _) ho1 h12)

/-! ### non-vacuity: `exNet` with a DNS-like service (key 53) on host 2, its port open on both hosts, a rule on the router -/

def caSt (routerRule clientPort server : Bool) : St :=
  { nodes := [
      { exNet.nodes[0] with ports := if clientPort then [53] else [] },
      { exNet.nodes[1] with serves := if routerRule then [53] else [] },
      { exNet.nodes[2] with ports := [53], serves := if server then [53] else [] } ] }

theorem caRouted : ColdRouted (caSt true true true) 0 1 2 0 1 (caSt true true true).nodes[0] (caSt true true true).nodes[1]
    (caSt true true true).nodes[2] crA crB crRa crRb crRa crRb :=
  { nodeA := rfl, kindA := rfl, onA := rfl, ifsA := rfl, enA := rfl, peerA := rfl, gwA := rfl, nodeB := rfl, kindB := rfl, onB := rfl,
    ifsB := rfl, enB := rfl, peerB := rfl, gwB := rfl, nodeR := rfl, kindR := rfl, onR := rfl, fwR := rfl, portA := rfl, raEn := rfl,
    raPeer := rfl, portB := rfl, rbEn := rfl, rbPeer := rfl, ownA := by decide, ownB := by decide, ab := by decide, ar := by decide,
    br := by decide, netAg := by decide, offAB := by decide, netBg := by decide, offBA := by decide, raA := by decide, rbB := by decide,
    feA := by decide, feB := by decide, fiB := by decide, notOwnA := by decide, notOwnB := by decide, macA := by decide,
    macB := by decide, macRa := by decide, macRb := by decide, gNotNet := by decide, gNotBc := by decide, bNotNet := by decide,
    bNotBc := by decide, ipAg := by decide, ipBg := by decide, ipAB := by decide, coldA := rfl, coldR := rfl, coldB := rfl }

/-- the theorem applies at its smallest budget and agrees with evaluation; 15 levels are not enough; … -/
example : (requestApp 16 (caSt true true true) 0 crB.ip 53 true).2 = true :=
  C08_permitted_app_exchange_succeeds_cold_routed 0 _ 0 1 2 0 1 _ _ _ crA crB crRa crRb crRa crRb caRouted 53 rfl rfl rfl rfl
example : (requestApp 16 (caSt true true true) 0 crB.ip 53 true).2 = true := by decide +kernel
example : (requestApp 15 (caSt true true true) 0 crB.ip 53 true).1.oof = true := by decide +kernel
/-- … and every hypothesis matters: no rule on the router, the client's port closed, no server software — no answer. -/
example : (requestApp 200 (caSt false true true) 0 crB.ip 53 true).2 = false := by decide +kernel
example : (requestApp 200 (caSt true false true) 0 crB.ip 53 true).2 = false := by decide +kernel
example : (requestApp 200 (caSt true true false) 0 crB.ip 53 true).2 = false := by decide +kernel

end Primaite.Forward
