/-
C06, fourth layer of the model: what a ROUTER or FIREWALL does above its rule lists, concretely enough to say which frames
it can put on a wire — without deciding WHERE (the ARP cache and the route table stay opaque):

* `rtrStd hops x`: `process_frame` / `route_frame` emit forwarded COPIES of the frame being handled (packet and ARP payload
  unchanged; TTL, MACs rewritten) and ARP requests for the frame's destination or a configured next hop; the device's own
  services (RouterICMP, NMAP, user / session managers: everything shipped but the Terminal's command execution) answer TO THE
  SOURCE of the frame they were handed, with the outbound interface's own address as source; the ARP service as in
  Model/FilterClass.lean; the DMZ look-ups of a firewall emit ARP requests for configured next hops only;
* `TerminalGate`: the Terminal on such a device — it applies a request only for a frame that carries valid credentials of an
  enabled account or the id of a live remote session (C16's theorems), otherwise it answers to the source like the others;
* the decidable scan `denyDstCheck` (a list denies every packet addressed to one of the given addresses);
* B-topologies `TopoB` and the certificate `certifyB` for the reachability-style theorem of Props/C06Reach.lean:
  "every frame addressed to B is denied by every guard between the attacker side and B's zone ⇒ B's state never changes,
  whatever else circulates and wherever the guards' other traffic goes".
Core Lean only.
-/
import PrimaiteModel.Model.FilterNet
namespace Primaite.Filter
open Primaite Primaite.Acl Primaite.Cut

variable {W : Type}

/-! ### emissions of a router's software -/

/-- the ARP target a resolution may ask for: a configured next hop, else the address the caller is resolving -/
def resolveTgt (hops : List Ip) (dflt : Ip) (g : Frame) : Ip := if hops.contains g.arpTgt then g.arpTgt else dflt

/-- own services answering frame `f` (RouterICMP echo reply, NMAP, …): built by the session manager on interface `q` — own
source; the destination is the source of the frame being answered; address resolution for it asks for that source or a hop -/
def replyStamp (hops : List Ip) (f : Frame) (s : Node W) (q : Nat) (g : Frame) : Frame :=
  match s.ifaces[q]? with
  | none => g
  | some i =>
    if g.arp then arpRequestFrame i (resolveTgt hops f.pkt.srcIp g)
    else { g with srcMac := i.mac, pkt := { g.pkt with srcIp := i.ip, dstIp := f.pkt.srcIp } }

/-- `process_frame` / `route_frame` handling frame `f`: what leaves on interface `q` is `f` itself (`frame.decrement_ttl()`,
source MAC := the interface's, destination MAC := the resolved one) or an ARP request for `f`'s destination or a next hop -/
def fwdStamp (hops : List Ip) (f : Frame) (s : Node W) (q : Nat) (g : Frame) : Frame :=
  match s.ifaces[q]? with
  | none => g
  | some i =>
    if g.arp then arpRequestFrame i (resolveTgt hops f.pkt.dstIp g)
    else { f with ttl := f.ttl - 1, srcMac := i.mac, dstMac := g.dstMac }

/-- the DMZ look-ups (`RouterARP._get_arp_cache_network_interface` for a destination outside every interface network):
ARP requests for configured next hops only; anything else the opaque part asks for is not sent -/
def lookupSends (hops : List Ip) : Script W → Script W
  | .done s => .done s
  | .send s q g k =>
    match s.ifaces[q]? with
    | some i =>
      if hops.contains g.arpTgt then .send s q (arpRequestFrame i g.arpTgt) (fun s' => lookupSends hops (k s'))
      else lookupSends hops (k s)
    | none => lookupSends hops (k s)

/-- the opaque parts of a router / firewall above the rule lists -/
structure RtrOpaque (W : Type) where
  learn : Node W → Nat → Frame → W
  openPorts : Node W → List Nat
  /-- the ARP service (`arpSession`) -/
  arp : RouterArp W
  /-- own services handed a frame addressed to the device: scripts over the software state; every send goes back to the source -/
  own : Node W → Nat → Frame → SwScript W
  /-- `process_frame` / `route_frame` with the ARP resolution they trigger -/
  fwd : Node W → Nat → Frame → SwScript W
  /-- the DMZ look-ups and the port they resolve to -/
  lookup : Node W → Nat → Frame → SwScript W
  outNic : Node W → Frame → Option Nat

/-- the software of a router or firewall; `hops` = every next-hop address configured on it (routes, default route) -/
def rtrStd (hops : List Ip) (x : RtrOpaque W) : Soft W :=
  { capture := fun s _ _ => s.sw, learn := x.learn, hostAccept := fun _ _ => false,
    toSession := stdToSession x.openPorts,
    session := fun s p f =>
      if isArpExempt f then arpSession x.arp s p f else stampSends (replyStamp hops f) (liftSw s (x.own s p f)),
    process := fun s p f =>
      if f.dstMac == bcastMac then .done s
      else if isOwnIp s f.pkt.dstIp then .done s
      else stampSends (fwdStamp hops f) (liftSw s (x.fwd s p f)),
    dmzLookup := fun s p f => lookupSends hops (liftSw s (x.lookup s p f)),
    dmzOutNic := x.outNic,
    switchFwd := fun s _ _ => .done s }

/-! ### the Terminal on a blocking element -/

/-- The Terminal service: `authorised s f` = "`f` is an SSH login request whose credentials pass `_login` on this node
(existing enabled account, current password), or a command that carries the id of a live remote session of this node" —
exactly the two situations in which C16 shows a terminal applies anything (`C16_command_runs_only_live`,
`C16_remote_command_outcomes`).  Then it may do ANYTHING (`apply_request`); otherwise it answers to the source. -/
structure TerminalGate (W : Type) where
  authorised : Node W → Frame → Bool
  exec : Node W → Nat → Frame → Script W
  refuse : Node W → Nat → Frame → SwScript W

/-- the frame is for the terminal port -/
def isTermPort (termPort : Nat) (f : Frame) : Bool :=
  match f.pkt.ports with
  | some (_, d) => d == termPort
  | none => false

/-- a router / firewall with a Terminal: frames for the terminal port go to it, the rest as in `rtrStd` -/
def rtrWithTerminal (hops : List Ip) (x : RtrOpaque W) (t : TerminalGate W) (termPort : Nat) : Soft W :=
  { rtrStd hops x with
    session := fun s p f =>
      if !isArpExempt f && isTermPort termPort f then
        (if t.authorised s f then t.exec s p f else stampSends (replyStamp hops f) (liftSw s (t.refuse s p f)))
      else (rtrStd hops x).session s p f }

/-- the same device seen by someone who holds no live session: the Terminal's refusal is just one more own service -/
def withRefuse (x : RtrOpaque W) (t : TerminalGate W) (termPort : Nat) : RtrOpaque W :=
  { x with own := fun s p f =>
      if isTermPort termPort f then t.refuse s p f else x.own s p f }

/-- `Terminal.receive`: where `self.execute(command)` (the only caller of `apply_request` in the software layer) sits -/
def terminalExecGuards : List String :=
  ["execute:1-call-site", "branch:payload.transport_message == SSHTransportMessage.SSH_MSG_SERVICE_REQUEST",
   "guard:valid_connection = self._check_client_connection(payload.connection_uuid)"]

/-! ### "denies every packet addressed to `a`" -/

/-- the four values `frame.ip.protocol` can take (`VALID_PROTOCOLS`) -/
def allProtos : List Proto := [.none, .tcp, .udp, .icmp]

/-- rule `r` matches every packet of protocol `pr` whose destination is `a`, whatever else it carries: the protocol is
unspecified or literally `pr` -/
def dstCovers (r : Rule) (a : Ip) (pr : Proto) : Bool :=
  (r.proto.isNone || r.proto == some pr) && r.srcIp.isNone && r.srcPort.isNone && r.dstPort.isNone && addrMatches r.dstIp r.dstWc a

/-- DENY rules are skipped until one covers `(a, pr)`; a PERMIT rule ahead fails the scan; exhausted list → implicit action -/
def denyDstScan (a : Ip) (pr : Proto) : List (Option Rule) → Action → Bool
  | [], imp => imp == .deny
  | none :: rest, imp => denyDstScan a pr rest imp
  | some r :: rest, imp => r.action == .deny && (dstCovers r a pr || denyDstScan a pr rest imp)

/-- the list denies every packet addressed to an address of `ba`: for EVERY protocol value (one any-protocol rule, or one rule
per protocol — `none` included: a list with DENY tcp, DENY udp, DENY icmp alone lets a protocol-`none` frame through) -/
def denyDstCheck (ba : List Ip) (acl : Acl) : Bool :=
  ba.all (fun a => allProtos.all (fun pr => denyDstScan a pr acl.rules acl.implicit))

/-! ### B-topologies and their certificate -/

inductive RoleTagB | free | host | switch | rtr | fw | deaf
deriving DecidableEq, Repr

/-- A network seen from the protected hosts: `zoneB` marks the nodes on their side of the guards (the hosts themselves, the
switches and forwarding routers between them and the guards); `ba` = every address a protected host answers to (interface
addresses and their subnets' broadcast addresses); `rtrIfs` = (MAC, address) of every router / firewall interface; `hops` =
every next-hop address configured on a router / firewall. -/
structure TopoB where
  roles : List RoleTagB
  zoneB : List Bool
  wires : List ((Nat × Nat) × (Nat × Nat))
  ba : List Ip
  rtrIfs : List (Mac × Ip)
  hops : List Ip
deriving Repr

def TopoB.role (t : TopoB) (n : Nat) : RoleTagB := t.roles.getD n .free
def TopoB.inB (t : TopoB) (n : Nat) : Bool := t.zoneB.getD n false
def TopoB.wire (t : TopoB) (n q : Nat) : Option (Nat × Nat) :=
  (t.wires.find? (fun w => w.1.1 == n && w.1.2 == q)).map (·.2)

/-- every node that can send to port `p` of `n` is inside the protected zone -/
def TopoB.fromB (t : TopoB) (n p : Nat) : Bool := t.wires.all (fun w => !(w.2.1 == n && w.2.2 == p) || t.inB w.1.1)

/-- frames arriving at `(n, p)` have been handled by the zone: `n` is inside it, or only zone nodes can send there -/
def TopoB.zone (t : TopoB) (n p : Nat) : Bool := t.inB n || t.fromB n p

/-- the arrival port of a first-stage entry point -/
def portOf : FwEntry → Nat
  | .extIn => extPort | .intOut => intPort | .dmzOut => dmzPort | _ => 99

/-- no wire of `n` leads into the protected zone -/
def TopoB.outside (t : TopoB) (n : Nat) : Bool := t.wires.all (fun w => w.1.1 != n || !t.inB w.2.1)

/-- `dst in self.dmz_port.ip_network` over a fixed interface list -/
def inDmzL (ifs : List Iface) (a : Ip) : Bool :=
  match ifs[dmzPort]? with
  | some i => i.inNet a
  | none => false

/-- the second entry point the external-inbound / internal-outbound entry point selects for destination `a` -/
def selE (ifs : List Iface) (e : FwEntry) (a : Ip) : FwEntry :=
  if inDmzL ifs a then .dmzIn else (if e == .extIn then .intIn else .extOut)

/-- a firewall guards the zone: for every arrival port that nodes outside the zone can send to (`need`), a frame addressed to a protected address is denied by the first list
or by the list of the second entry point the code selects for that address (DMZ-outbound: by both candidates) -/
def fwGuards (need : FwEntry → Bool) (ba : List Ip) (s : Node W) : Bool :=
  [FwEntry.extIn, FwEntry.intOut, FwEntry.dmzOut].all fun e =>
    !need e || denyDstCheck ba (s.acls (entryAcl e)) ||
      match e with
      | .dmzOut => denyDstCheck ba (s.acls .extOut) && denyDstCheck ba (s.acls .intIn)
      | _ => ba.all fun a => denyDstCheck [a] (s.acls (entryAcl (selE s.ifaces e a)))

def ifaceClean (t : TopoB) (i : Iface) : Bool := !t.ba.contains i.ip

def certifyNodeB (t : TopoB) (n : Nat) (s : Node W) : Bool :=
  match t.role n with
  | .free => !t.inB n && t.outside n
  | .host => s.kind == .host && !t.inB n && t.outside n &&
      s.ifaces.all (fun i => ifaceClean t i && bindOK t.rtrIfs i.mac i.ip)
  | .switch => s.kind == .switch && (t.inB n || t.outside n)
  | .rtr => s.kind == .router && s.ifaces.all (fun i => ifaceClean t i && t.rtrIfs.contains (i.mac, i.ip) && bindOK t.rtrIfs i.mac i.ip) &&
      (t.inB n || t.outside n || denyDstCheck t.ba (s.acls .router))
  | .fw => s.kind == .firewall && s.ifaces.all (fun i => ifaceClean t i && t.rtrIfs.contains (i.mac, i.ip) && bindOK t.rtrIfs i.mac i.ip) &&
      (t.inB n || t.outside n || fwGuards (fun e => !t.fromB n (portOf e)) t.ba s)
  | .deaf => s.kind == .host && t.inB n &&
      s.ifaces.all (fun i => t.ba.contains i.ip && t.ba.contains i.bcastAddr)

def certifyB (t : TopoB) (σ : Nat → Node W) : Bool :=
  t.hops.all (fun h => !t.ba.contains h) && t.wires.all (fun w => decide (w.2.1 < t.roles.length)) &&
  (List.range t.roles.length).all (fun n => certifyNodeB t n (σ n))

def certifyFailB (t : TopoB) (σ : Nat → Node W) : Option Nat :=
  if !(t.hops.all (fun h => !t.ba.contains h) && t.wires.all (fun w => decide (w.2.1 < t.roles.length))) then some 9999 else
  (List.range t.roles.length).find? (fun n => !certifyNodeB t n (σ n))

/-! ### literal tables tied to the source by Gen/FilterSoft.lean -/

/-- for which addresses the two RouterARP look-ups send an ARP request, in source order: the looked-up address (only under the
interface-subnet test: unreachable in `_get_arp_cache_network_interface`, whose loop has returned the interface by then), a
route's next hop, the default route's next hop -/
def routerArpTargets : List String :=
  ["_get_arp_cache_network_interface:ip_address", "_get_arp_cache_network_interface:route.next_hop_ip_address",
   "_get_arp_cache_network_interface:self.router.route_table.default_route.next_hop_ip_address",
   "_get_arp_cache_network_interface:self.router.route_table.default_route.next_hop_ip_address",
   "_get_arp_cache_mac_address:ip_address", "_get_arp_cache_mac_address:route.next_hop_ip_address",
   "_get_arp_cache_mac_address:self.router.route_table.default_route.next_hop_ip_address",
   "_get_arp_cache_mac_address:self.router.route_table.default_route.next_hop_ip_address"]

/-- `process_frame` / `route_frame`: the frame object that was received is what is sent; only its TTL and MACs are written -/
def forwardWrites : List String :=
  ["process_frame:frame.decrement_ttl()", "process_frame:frame.ethernet.dst_mac_addr = target_mac",
   "process_frame:frame.ethernet.src_mac_addr = network_interface.mac_address", "process_frame:send(frame)",
   "route_frame:frame.decrement_ttl()", "route_frame:frame.ethernet.dst_mac_addr = target_mac",
   "route_frame:frame.ethernet.src_mac_addr = network_interface.mac_address", "route_frame:send(frame)"]

/-- `RouterICMP._process_icmp_echo_request`: the reply goes to the source of the request -/
def routerIcmpReplyDst : String := "frame.ip.src_ip_address"

end Primaite.Filter
