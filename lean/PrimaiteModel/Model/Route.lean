/-
Model of `RouteTable.find_best_route` (src/primaite/simulator/network/hardware/nodes/network/router.py).

The loop is modelled AS WRITTEN: three loop variables `best_route`, `longest_prefix = -1`,
`lowest_metric = float("inf")`, updated when
`prefix_len > longest_prefix or (prefix_len == longest_prefix and route.metric < lowest_metric)`;
after the loop `if not best_route and self.default_route` falls back to the default route.

Each iteration builds `IPv4Network(f"{route.address}/{route.subnet_mask}", strict=False)`.  `ipaddress` accepts a
netmask (1*0*) or, failing that, a hostmask (0*1*); anything else raises `NetmaskValueError` out of
`find_best_route` (`add_route` does not validate masks).  Raising is an explicit outcome here.
Metrics are `Int` (the code uses floats; `inf`/`nan` metrics are outside the model, see design note).
-/
import PrimaiteModel.Model.Basic
namespace Primaite.Route

/-- the netmask with `p` leading ones (`p ≤ 32`). -/
def netmask (p : Nat) : Ip := (BitVec.allOnes 32) <<< (32 - p)

/-- `_prefix_from_ip_int`: `some p` iff `m` is exactly `p` ones followed by zeroes. -/
def prefixOfNetmask (m : Ip) : Option Nat := (List.range 33).find? (fun p => netmask p == m)

/-- `_prefix_from_ip_string` on a dotted mask: netmask reading first, then hostmask (bits inverted), else raise. -/
def maskPrefix (m : Ip) : Option Nat :=
  match prefixOfNetmask m with
  | some p => some p
  | none => prefixOfNetmask (~~~m)

/-- `destination_ip in IPv4Network(addr/mask, strict=False)`: `dst & netmask == addr & netmask`. -/
def inNet (dst addr : Ip) (p : Nat) : Bool := (dst &&& netmask p) == (addr &&& netmask p)

structure Route where
  addr : Ip
  mask : Ip
  nextHop : Ip
  metric : Int
deriving DecidableEq, Repr

/-- `routes` in insertion order (`add_route` appends); `default` = next hop of `default_route` when set. -/
structure Table where
  routes : List Route := []
  default : Option Ip := none
deriving DecidableEq, Repr

/-- loop variables of `find_best_route`; `lowest = none` is `float("inf")`. -/
structure Acc where
  best : Option (Nat × Route) := none
  longest : Int := -1
  lowest : Option Int := none
deriving DecidableEq, Repr

/-- `route.metric < lowest_metric`. -/
def ltLowest (m : Int) : Option Int → Bool
  | none => true
  | some l => decide (m < l)

/-- the update test of the loop:
`prefix_len > longest_prefix or (prefix_len == longest_prefix and route.metric < lowest_metric)`. -/
def betterCond (p l m : Int) (lo : Option Int) : Bool := decide (p > l) || (p == l && ltLowest m lo)

/-- one loop iteration; `none` = `IPv4Network(...)` raised. -/
def iter (dst : Ip) (acc : Acc) (i : Nat) (r : Route) : Option Acc :=
  match maskPrefix r.mask with
  | none => none
  | some p =>
    if inNet dst r.addr p then
      if betterCond p acc.longest r.metric acc.lowest then
        some { best := some (i, r), longest := p, lowest := some r.metric }
      else some acc
    else some acc

/-- the `for route in self.routes` loop; `i` is the index of the head of the remaining list. -/
def scan (dst : Ip) : List Route → Nat → Acc → Option Acc
  | [], _, acc => some acc
  | r :: rs, i, acc =>
    match iter dst acc i r with
    | none => none
    | some acc' => scan dst rs (i + 1) acc'

inductive Result
  | raised
  | noRoute
  | route (i : Nat) (r : Route)
  | default (nextHop : Ip)
deriving DecidableEq, Repr

/-- `find_best_route`. -/
def findBestRoute (t : Table) (dst : Ip) : Result :=
  match scan dst t.routes 0 {} with
  | none => .raised
  | some acc =>
    match acc.best with
    | some (i, r) => .route i r
    | none =>
      match t.default with
      | some nh => .default nh
      | none => .noRoute

/-- `add_route`. -/
def addRoute (t : Table) (r : Route) : Table := { t with routes := t.routes ++ [r] }

/-- `set_default_route_next_hop_ip_address`. -/
def setDefault (t : Table) (nh : Ip) : Table := { t with default := some nh }

/-- next hop the router uses for `dst` (`route.next_hop_ip_address` of the result). -/
def Result.nextHop? : Result → Option Ip
  | .route _ r => some r.nextHop
  | .default nh => some nh
  | _ => none

end Primaite.Route
