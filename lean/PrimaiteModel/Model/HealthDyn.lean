/-
Dynamic item sets for the health model of one node (property C14, deepening round).

`Model/Health.lean` has a fixed set of software items, folders and files (files/folders carry a `deleted` flag).
This layer adds the operations that CREATE and REMOVE items, as the code has them:

* `["software_manager","application","install",name]` / `…"uninstall",name]`         (network/hardware/base.py Node._init_request_manager)
* `SoftwareManager.install(cls, config)` / `SoftwareManager.uninstall(name)` (Python API)  (system/core/software_manager.py)
* `["file_system","create","folder",F]`, `["file_system","create","file",F,f,force]`       (file_system/file_system.py)
* `FileSystem.copy_file` (Python API; `Folder.add_file(force=True)`)                        (file_system/file_system.py)
* the file replacement of `DatabaseService.restore_backup` (delete the live file, copy the downloaded one in, carry
  the old file's visible status over)                                                      (services/database/database_service.py)

Everything else is a `base` operation of `Model/Health.lean`, unchanged.

New items are appended (dict insertion order); an uninstalled software item is removed from the list; files and
folders are never removed from the lists (the code keeps them in `deleted_files` / `deleted_folders`).

Name lookups follow the code: `software_manager.software` is a dict keyed by NAME only (services and applications share
it); `get_folder` / `get_file` return the first LIVE match.

Known inexactness, guarded explicitly (`DNode.restoreAmbiguous`, reported by the driver, counted by the rig): creating a
file/folder whose name equals a DELETED file/folder of the same parent gives two items of one name. The base
FILES are exact: every deleted file carries its place in the folder's `deleted_files` order (`File.delSeq`, from the folder's
deletion counter), and a restore by name reaches the live namesake, else the first deleted one in that order
(`File.restoreIn` / `File.restoreAll`); likewise folders (`Folder.delSeq`, `Node.fdelCtr`, `Folder.restoreIn`). What is left of the
guard concerns two LIVE files of one name (a start state only; no operation produces it). The rig stops comparing a trace there; the implementation-only oracle (by object identity) still runs over the whole trace.
Core Lean only.
-/
import PrimaiteModel.Model.Health
namespace Primaite.Health

/-- What a freshly constructed software object looks like: class defaults / the config it is given. -/
structure SwSpec where
  name : String
  isApp : Bool
  /-- `config.fixing_duration` -/
  fixDur : Int
  /-- `install_duration` / `restart_duration` -/
  auxDur : Int
  /-- `config.starting_health_state` -/
  h0 : SwH
deriving DecidableEq, Repr

/-- `Software.__init__`: actual := starting health, visible := UNUSED; a software that starts FIXING gets the configured
countdown (fix: "software configured with starting_health_state FIXING had no countdown…"). -/
def SwSpec.construct (s : SwSpec) : Sw :=
  { name := s.name, isApp := s.isApp, op := if s.isApp then .closed else .stopped, actual := s.h0, visible := .unused,
    fixDur := s.fixDur, fixCd := if s.h0 = .fixing then some s.fixDur else none, auxDur := s.auxDur, auxCd := none }

/-- `SoftwareManager.install`: a service is started (if the node is ON); an application runs `install()` (INSTALLING,
countdown loaded) and is then forced back to CLOSED — the loaded countdown stays behind. -/
def SwSpec.freshApi (s : SwSpec) (on : Bool) : Sw :=
  if s.isApp then { s.construct with auxCd := some s.auxDur }
  else if on then s.construct.startUp else s.construct

/-- the install REQUEST additionally calls `application_instance.install()`: CLOSED → INSTALLING, countdown reloaded -/
def SwSpec.freshReq (s : SwSpec) : Sw := (s.freshApi true).install

structure DNode where
  n : Node
  /-- `FileSystem._default_folder_scan_duration` / `_default_folder_restore_duration` (None = keep the class default) -/
  defScan : Option Int
  defRestore : Option Int
deriving DecidableEq, Repr

/-- class defaults `Folder.scan_duration`, `Folder.restore_duration` (Gen.Health.folderDurDefaults) -/
def folderScanDefault : Int := 3
def folderRestoreDefault : Int := 3

/-- `Folder(name=F)` as `create_folder` leaves it -/
def DNode.freshFolder (d : DNode) (F : String) : Folder :=
  { name := F, deleted := false, actual := .good, visible := .none, scanDur := d.defScan.getD folderScanDefault, scanCd := 0,
    restoreDur := d.defRestore.getD folderRestoreDefault, restoreCd := 0, files := [] }

/-- `File(name=f)`: GOOD, visible NONE -/
def freshFile (f : String) : File := { name := f, actual := .good, visible := .none, deleted := false }

inductive DOp
  | base (op : Op)
  /-- `["software_manager","application","install",s.name]`; `known` = the name is in `Application._registry` -/
  | appInstallReq (s : SwSpec) (known : Bool)
  /-- `["software_manager","application","uninstall",name]` -/
  | appUninstallReq (name : String)
  /-- Python API `software_manager.install(cls, config)` -/
  | swInstallApi (s : SwSpec)
  /-- Python API `software_manager.uninstall(name)` -/
  | swUninstallApi (name : String)
  /-- `["file_system","create","folder",F]` -/
  | fsCreateFolder (F : String)
  /-- `["file_system","create","file",F,f,force]` -/
  | fsCreateFile (F f : String) (force : Bool)
  /-- Python API `file_system.copy_file(srcF, f, dstF)` -/
  | fsCopyFile (srcF f dstF : String)
  /-- the replacement step of `DatabaseService.restore_backup`: file `f` of folder `F` is replaced by a copy of the live
  file `f` of folder `srcF`; the visible status of the replaced file is carried over -/
  | dbReplace (F f srcF : String)
  /-- external writer of a FOLDER's actual health: `DatabaseService._process_sql` marks the database folder CORRUPT on an
  ENCRYPT query (Python-API stand-in, like `Op.fileSet` for files) -/
  | folderSet (F : String) (h : FsH)
  /-- the whole of `DatabaseService.restore_backup()` as the file system sees it. What the network did is an INPUT:
  `pre` = a leftover `downloads/database.db` was removed before the transfer (tree-dependent), `dl` = health of the copy that
  arrived in `downloads/database.db` (`none` = nothing arrived / the restore gave up before touching the database file). -/
  | dbRestore (pre : Bool) (dl : Option FsH)
  /-- a timestep in which — if the fix of the item named `database-service` completes in it — `restore_backup()` runs right
  after that item's tick and before the file system's tick (`DatabaseService._update_fix_status`); `pre`, `dl` as above -/
  | tickDb (pre : Bool) (dl : Option FsH)
deriving DecidableEq, Repr

/-- `software_manager.software.get(name)` (one dict for services and applications) -/
def Node.hasSw (n : Node) (name : String) : Bool := n.sws.any (fun x => x.name = name)

def Node.liveFolder? (n : Node) (F : String) : Option Folder := n.findLiveFolder F

/-- `create_folder` on an existing live folder re-applies the configured default durations (only if configured) -/
def DNode.redefault (d : DNode) (G : Folder) : Folder :=
  { G with scanDur := d.defScan.getD G.scanDur, restoreDur := d.defRestore.getD G.restoreDur }

/-- `FileSystem.create_folder` -/
def DNode.createFolder (d : DNode) (F : String) : DNode :=
  match d.n.liveFolder? F with
  | some _ => { d with n := d.n.mapLiveFolder F d.redefault }
  | none => { d with n := { d.n with folders := d.n.folders ++ [d.freshFolder F] } }

/-- append a file to the live folder(s) named `F` -/
def Node.addFile (n : Node) (F : String) (x : File) : Node :=
  n.mapLiveFolder F (fun G => { G with files := G.files ++ [x] })

/-- `FileSystem.create_file(folder_name=F, file_name=f, force)` behind the request (the request refuses an existing
live file unless forced; with `force` an existing file is re-added — no change). -/
def DNode.addNewFile (d : DNode) (F f : String) : DNode :=
  match d.n.liveFolder? F with
  | some G => if (findLive f G.files).isSome then d else { d with n := d.n.addFile F (freshFile f) }
  | none => d

def DNode.createFile (d : DNode) (F f : String) : DNode :=
  (match d.n.liveFolder? F with
    | some _ => d
    | none => d.createFolder F).addNewFile F f

/-- the live file `f` of the live folder `F` -/
def Node.liveFile? (n : Node) (F f : String) : Option File :=
  match n.liveFolder? F with
  | some G => findLive f G.files
  | none => none

/-- `FileSystem.copy_file`: the copy has the source's actual AND visible status (`model_dump`), and is added with
`force=True`: a LIVE file of that name in the destination is first moved to `deleted_files` (`Folder.add_file`, after
"fix: add_file(force=True) and copy_file added a second live file of an existing name"), then the copy is added. The
destination folder is created if there is no live one. (Copying into the source's own folder deletes the source.) -/
def DNode.copyFile (d : DNode) (srcF f dstF : String) : DNode :=
  match d.n.liveFile? srcF f with
  | none => d
  | some src =>
    let d1 := match d.n.liveFolder? dstF with
      | some _ => d
      | none => d.createFolder dstF
    { d1 with n := (d1.n.mapLiveFolder dstF (fun G => G.delLive f)).addFile dstF
                     { name := f, actual := src.actual, visible := src.visible, deleted := false } }

/-- `get_file(F, f, include_deleted=True)` within live folder `G`: first live match, else first deleted match -/
def firstAny (f : String) (fs : List File) : Option File :=
  match findLive f fs with
  | some x => some x
  | none => findAny f fs

/-- The replacement step of `restore_backup` (after the download arrived). `get_file("database", "database.db",
include_deleted=True)` looks in the first LIVE folder of that name, else in the first DELETED one; in it for the first live
file of that name, else the first deleted one. Nothing found = "Database file not initialised": nothing changes. Otherwise the
live file (if any) is deleted and a copy of the download is added by `copy_file` — into the live folder, or into a NEW folder of
that name when only a deleted one exists — showing the visible status of the file it stands in for. -/
def DNode.dbReplace (d : DNode) (F f srcF : String) : DNode :=
  match d.n.liveFile? srcF f with
  | none => d
  | some src =>
    match d.n.liveFolder? F with
    | some G =>
      match firstAny f G.files with
      | none => d
      | some old =>
        let n1 := d.n.mapLiveFolder F (fun G => G.delLive f)
        { d with n := n1.addFile F { name := f, actual := src.actual, visible := old.visible, deleted := false } }
    | none =>
      match d.n.folders.find? (fun G => G.name = F && firstDeletedFolder d.n.folders G) with
      | none => d
      | some G =>
        match firstAny f G.files with
        | none => d
        | some old =>
          let d1 := d.createFolder F
          { d1 with n := d1.n.addFile F { name := f, actual := src.actual, visible := old.visible, deleted := false } }

/-- names used by `DatabaseService` -/
def dbSvcName : String := "database-service"
def dbFolder : String := "database"
def dbFile : String := "database.db"
def dlFolder : String := "downloads"

/-- `restore_backup()` after its availability checks, as the file system sees it: [a leftover download is deleted]; the copy
arrives in `downloads/database.db` (`FTPServiceABC._store_data`: `create_file` without force, then `file.health_status = …`;
if a live file of that name is still there `create_file` raises inside `_store_data` and the stale file stays); then the
replacement step `dbReplace`. With `dl = none` nothing arrives and the database file is not touched.
(`dlClear`, `dlArrive`, then `dbReplace`.) -/
def DNode.dlClear (d : DNode) (pre : Bool) : DNode :=
  if pre then { d with n := d.n.mapLiveFolder dlFolder (fun G => G.delLive dbFile) } else d

/-- the file `_store_data` creates: a fresh file (visible NONE) with the delivered health — written on THAT object only -/
def arrivedFile (h : FsH) : File := { freshFile dbFile with actual := h }

def DNode.dlArrive (d : DNode) (h : FsH) : DNode :=
  if (d.n.liveFile? dlFolder dbFile).isSome then d
  else
    let d1 := match d.n.liveFolder? dlFolder with
      | some _ => d
      | none => d.createFolder dlFolder
    { d1 with n := d1.n.addFile dlFolder (arrivedFile h) }

def DNode.dbRestore (d : DNode) (pre : Bool) (dl : Option FsH) : DNode :=
  match dl with
  | none => d.dlClear pre
  | some h => ((d.dlClear pre).dlArrive h).dbReplace dbFolder dbFile dlFolder

/-- does the fix of the database service complete in the item tick that starts from `m` (state after power phase and node
scan) — and is the service then able to act (`_can_perform_action`: RUNNING)? -/
def Node.dbFixCompletes (m : Node) : Bool :=
  m.sws.any (fun x => x.name = dbSvcName && x.actual = .fixing && x.op = .running &&
    (match x.fixCd with | some c => decide (c - 1 ≤ 0) | none => false))

/-- `Node.apply_timestep` with the database restore in its place: power phase, node scan, software ticks, [restore], folder
ticks. -/
def DNode.tickDb (d : DNode) (pre : Bool) (dl : Option FsH) : DNode :=
  let m := d.n.powerPhase
  if m.power = .on then
    let m1 := m.scanPhase.redPhase
    let d2 : DNode := { d with n := m1.mapSws Sw.tick }
    let d3 := if m1.dbFixCompletes then d2.dbRestore pre dl else d2
    { d3 with n := d3.n.mapFolders (fun F => if F.deleted then F else F.tick) }
  else { d with n := m }

/-- `SoftwareManager.uninstall(name)`: the item of that name leaves `node.services` / `node.applications` -/
def Node.uninstall (n : Node) (name : String) : Node := { n with sws := n.sws.eraseP (fun x => x.name = name) }

def DNode.apply (d : DNode) : DOp → DNode
  | .base op => { d with n := d.n.apply op }
  | .appInstallReq s known =>
    if d.n.power = .on ∧ d.n.hasSw s.name = false ∧ known = true then
      { d with n := { d.n with sws := d.n.sws ++ [{ s with isApp := true }.freshReq] } } else d
  | .appUninstallReq name => if d.n.power = .on then { d with n := d.n.uninstall name } else d
  | .swInstallApi s => { d with n := { d.n with sws := d.n.sws ++ [s.freshApi (d.n.power = .on)] } }
  | .swUninstallApi name => { d with n := d.n.uninstall name }
  | .fsCreateFolder F => if d.n.power = .on then d.createFolder F else d
  | .fsCreateFile F f force =>
    if d.n.power = .on then
      (if force = false ∧ (d.n.liveFile? F f).isSome then d else d.createFile F f)
    else d
  | .fsCopyFile srcF f dstF => d.copyFile srcF f dstF
  | .dbReplace F f srcF => d.dbReplace F f srcF
  | .folderSet F h => { d with n := d.n.mapFolder F (fun G => { G with actual := h }) }
  | .dbRestore pre dl => d.dbRestore pre dl
  | .tickDb pre dl => d.tickDb pre dl

def DNode.respond (d : DNode) : DOp → Resp
  | .base op => d.n.respond op
  | .appInstallReq s known =>
    if d.n.power ≠ .on then .failure
    else if d.n.hasSw s.name then .success      -- "already installed"
    else Resp.ofBool known
  | .appUninstallReq name => if d.n.power ≠ .on then .failure else Resp.ofBool (d.n.hasSw name)
  | .swInstallApi _ | .swUninstallApi _ | .fsCopyFile _ _ _ | .dbReplace _ _ _ | .folderSet _ _ | .dbRestore _ _
  | .tickDb _ _ => .ok
  | .fsCreateFolder _ => Resp.ofBool (d.n.power = .on)
  | .fsCreateFile F f force =>
    if d.n.power ≠ .on then .failure else Resp.ofBool (force || !(d.n.liveFile? F f).isSome)

def DNode.step (d : DNode) (op : DOp) : DNode × Resp := (d.apply op, d.respond op)

def DNode.run (d : DNode) : List DOp → DNode
  | [] => d
  | op :: ops => (d.apply op).run ops

/-- Two items of one name under one parent: the by-name restore operations of the base model are then not the code's
first-match semantics (see the header). -/
def Folder.twins (G : Folder) : Bool := !(G.files.map (·.name)).Nodup
def Node.folderTwins (n : Node) : Bool := !(n.folders.map (·.name)).Nodup

/-- two LIVE files named `f` in a live folder named `F`: the by-name file operations of the model would reach both, the code
the first. Since `add_file(force=True)` replaces a live namesake no operation of this model produces such a state any more
(it can only be given as a start state); the guard is kept for that case. -/
def Node.liveTwins (n : Node) (F f : String) : Bool :=
  n.folders.any (fun G => G.name = F && !G.deleted && decide ((G.files.filter (fun x => x.name = f && !x.deleted)).length ≥ 2))

/-- Would this operation address by name a place where two items share the name in a way the model does not resolve like
the code (first match)? -/
def DNode.restoreAmbiguous (d : DNode) : DOp → Bool
  | .base (.file F f _) | .base (.fsDeleteFile F f) | .base (.folderDelete F f) | .dbReplace F f _ => d.n.liveTwins F f
  | .dbRestore _ _ => d.n.liveTwins dbFolder dbFile || d.n.liveTwins dlFolder dbFile
  | _ => false

/-! ### what the agent sees, by NAME

`FileObservation` / `FolderObservation` / `ServiceObservation` read `describe_state()`, which lists the LIVE folders of a file
system by name, the LIVE files of a folder by name, and the installed software by name. (Live names are unique after "fix:
add_file(force=True) … second live file"; the rig compares these views with the real `describe_state()` after every operation.) -/

/-- visible health shown for file `f` of folder `F`; `none` = not present in the state dictionary (the observation shows 0) -/
def Node.seenFile (n : Node) (F f : String) : Option FsH := (n.liveFile? F f).map (·.visible)
def Node.seenFolder (n : Node) (F : String) : Option FsH := (n.liveFolder? F).map (·.visible)
def Node.seenSw (n : Node) (name : String) : Option SwH := (n.sws.find? (fun x => x.name = name)).map (·.visible)

end Primaite.Health
