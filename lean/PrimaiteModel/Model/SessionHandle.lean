/-
Model.SessionHandle — connection OBJECTS kept by a caller (Python API), on top of Model.Session.

Source modelled (read, not guessed), simulator/system/services/terminal/terminal.py:
  LocalTerminalConnection.execute    terminal RUNNING, `is_active`, (repaired code) the node's current local session is the one
                                     this connection was opened on; then `Terminal.execute(command)` = `Node.apply_request(command)`
  RemoteTerminalConnection.execute   terminal RUNNING, `is_active`, then `Terminal.send` of an SSH_MSG_SERVICE_REQUEST carrying
                                     `connection_uuid` (IOSoftware.send: node ON) — what happens at the target is `Terminal.receive`,
                                     the very code the request `send_remote_command` reaches
  TerminalClientConnection.disconnect = `Terminal._disconnect(connection_uuid)`

`Terminal.login(...)` hands the caller a connection object; the request `send_remote_command` looks its object up by IP address
on every call (`_get_connection_from_ip`: the FIRST connection towards that address) and `send_local_command` logs in again on
every call, so through requests a caller can neither use the second connection towards a target nor an object that has left
the dictionary.  A kept object can do both.  This file adds the three operations on kept objects.

`is_active`.  The flag is set False where an object is popped by `_disconnect` or by a received `user_timeout`.  For a
client-side object of a remote session (the only kind `take` accepts besides local ones: the id is not a session of the holder)
these are the only two places that remove its key, and nothing ever re-uses the key, so `is_active` ⇔ "the id is still a key of
the holder's `_connections`": that is what the model tests (`hasConn`).  For a local connection object the flag is a parameter
of `handleExecLocalK` (every theorem holds for both values); `hstep` passes `true`, because no operation of the model other than
`disconnect()` on a local object — outside the operation set, see `hstep` — clears it.
Core Lean only.
-/
import PrimaiteModel.Model.Session
namespace Primaite.Session

/-- `LocalTerminalConnection.execute(command)` on an object with `connection_uuid = cid` created by the terminal of node `y`;
`K` = what `Node.apply_request(command)` does.  `None` (refused) is answered as `failure`. -/
def handleExecLocalK (K : Net → Net × Out) (n : Net) (y cid : Nat) (active : Bool) : Net × Out :=
  match n.node y with
  | none => (n, .unreachable)
  | some nd =>
    if !nd.term.running then (n, .failure) else
    if !active then (n, .failure) else
    match nd.loc with
    | some l => if l.id == cid then K n else (n, .failure)
    | none => (n, .failure)

/-- `RemoteTerminalConnection.execute(command)` on the object with `connection_uuid = cid`, `ip_address = ip(y)` created by the
terminal of node `x`; the answer is what the handler of `send_remote_command` would report (`_last_response` cleared before the
call, `failure` when nothing came back).  From `canDeliver` on this is the body of `opRemoteCmdK` (theorem
`C16_request_is_handle_exec`). -/
def handleExecRemoteK (K : Net → Net × Out) (n : Net) (x y cid : Nat) : Net × Out :=
  match n.node x with
  | none => (n, .unreachable)
  | some a =>
    if !a.term.running then (n, .failure) else
    -- `is_active` (see the header)
    if !a.hasConn cid then (n, .failure) else
    -- IOSoftware.send: `_can_perform_action`
    if !a.isOn then (n, .failure) else
    if !canDeliver n x y then (n, .failure) else
    match n.node y with
    | none => (n, .failure)
    | some b =>
      if b.hasSession cid then
        if b.hasConn cid then
          ((K (n.upd y (Node.touch cid n.time))).1,
           if x == y || canDeliver (K (n.upd y (Node.touch cid n.time))).1 y x then (K (n.upd y (Node.touch cid n.time))).2
           else .failure)
        else (n, .failure)
      else (disconnect n.fuel n y cid, .failure)

/-- `connection.disconnect()` = `Terminal._disconnect(cid)` on node `x`: `True` iff the id was a key of the dictionary
(no guard on power or service state anywhere on this path) -/
def handleDisconnect (n : Net) (x cid : Nat) : Net × Out :=
  match n.node x with
  | none => (n, .unreachable)
  | some a => (disconnect n.fuel n x cid, boolOut (a.hasConn cid))

/-- the network plus the connection objects somebody kept a reference to: (node whose terminal created it, the entry) -/
structure HNet where
  net : Net
  held : List (Nat × Conn) := []
deriving Repr

inductive HOp
  | base (op : Op)
  /-- keep a reference to the `i`-th object (dictionary order) of `Terminal._connections` of node `x`; refused for an object whose
  id is a remote session of `x` itself (a server-side object, or a node logged in to itself): see the header -/
  | take (x i : Nat)
  /-- `held[k].execute(command)` -/
  | hexec (k : Nat) (c : Cmd)
  /-- `held[k].disconnect()` (remote objects only; on a local object: outside the operation set, answered `unreachable` and
  nothing changes — object identity under a re-used key is not modelled) -/
  | hdisc (k : Nat)
deriving Repr

def hstep (h : HNet) : HOp → HNet × Out
  | .base op => ({ h with net := (step h.net op).1 }, (step h.net op).2)
  | .take x i =>
    match h.net.node x with
    | none => (h, .unreachable)
    | some nd =>
      match nd.conns[i]? with
      | none => (h, .failure)
      | some c => if nd.hasSession c.id then (h, .failure) else ({ h with held := h.held ++ [(x, c)] }, .success)
  | .hexec k c =>
    match h.held[k]? with
    | none => (h, .unreachable)
    | some (x, cn) =>
      match cn.peer with
      | none => ({ h with net := (handleExecLocalK (fun m => execCmd c m x) h.net x cn.id true).1 },
                 (handleExecLocalK (fun m => execCmd c m x) h.net x cn.id true).2)
      | some y => ({ h with net := (handleExecRemoteK (fun m => execCmd c m y) h.net x y cn.id).1 },
                   (handleExecRemoteK (fun m => execCmd c m y) h.net x y cn.id).2)
  | .hdisc k =>
    match h.held[k]? with
    | none => (h, .unreachable)
    | some (x, cn) =>
      match cn.peer with
      | none => (h, .unreachable)
      | some _ => ({ h with net := (handleDisconnect h.net x cn.id).1 }, (handleDisconnect h.net x cn.id).2)

def hrun (h : HNet) : List HOp → HNet
  | [] => h
  | op :: ops => hrun (hstep h op).1 ops

end Primaite.Session
