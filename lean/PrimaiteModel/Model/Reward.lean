/-
Model of the reward layer:

* reward components (src/primaite/game/agent/rewards.py): `DummyReward`, `DatabaseFileIntegrity`, `WebServer404Penalty`,
  `WebpageUnavailablePenalty`, `GreenAdminDatabaseUnreachablePenalty`, `SharedReward`, `ActionPenalty`;
  the three sticky ones carry their memory (`self.reward`) inside the component value;
  each `calculate(state, last_action_response)` is modelled on the state DICTIONARY (`PyVal`, Model/RewardState.lean) — the
  component builds its `location_in_state`, fetches that leaf with `access_from_nested_dict` and reads the leaf and the
  fields `action` / `request` / `response.status` of the agent's latest history item — with the exceptions Python raises on
  a leaf of the wrong shape (`calc…E : Except Err …`);
* `RewardFunction.update` (left fold `total += weight * comp.calculate(...)`);
* `AbstractAgent.process_action_response / update_reward / save_reward_to_history` (src/primaite/game/agent/interface.py);
* `PrimaiteGame.setup_reward_sharing`, `update_agents`, the agent part of `from_config`, and the act/advance/update
  part of a step (src/primaite/game/game.py); `PrimaiteGymEnv.reset` (a fresh game from the same configuration).

Two layers. The `…E` functions are the model of the code, exceptions included (`gameStepE`, what the driver runs). The total
functions without `E` (`calcComp`, `updateComps`, `updOne`, `gameStep`) agree with them whenever no component raises
(`Lemmas/RewardExc.lean`: `gameStepE … = .ok g' → gameStep … = .ok g'`, and `gameStepE` succeeds on a well-formed game
whenever every configured component's leaf has a shape `calculate` accepts); the algebraic development (fixed point, order
irrelevance, totals) is carried out on the total functions.

Values are exact rationals (`Rat`, Lean core): floats are not modelled; the rig drives the code with dyadic weights and
values, for which float arithmetic is exact, and compares `Fraction(float)`; for other literals see Lemmas/RewardRounding.lean.

`WebpageUnavailablePenalty` is modelled as repaired by the `fix:` commit for F-18 (`calcWebpageE`); the code as it was
is kept as `calcWebpageAsWrittenE` for the counterexample theorem.
Core Lean only.
-/
import PrimaiteModel.Model.Basic
import PrimaiteModel.Model.RewardGraph
import PrimaiteModel.Model.RewardState
namespace Primaite.Reward
open Primaite.RewardGraph

abbrev Val := Rat

/-- The post-step `describe_state()` dictionary. -/
abbrev SimState := PyVal

/-- The agent's latest `AgentHistoryItem` (`last_action_response`); `reward` is kept beside the item in `Agent.hist`. -/
structure Item where
  timestep : Nat := 0
  action : String
  parameters : PyVal := .dict []
  /-- the request list sent to the simulator (elements: str, int, float, dict) -/
  request : PyVal
  /-- `response.status` -/
  status : String
  /-- `response.data` -/
  data : PyVal := .dict []
  rewardInfo : PyVal := .dict []
  observation : PyVal := .none
deriving Repr

inductive Comp
  | dummy
  | fileIntegrity (node folder file : Name)
  | web404 (node service : Name) (sticky : Bool) (mem : Val)
  | webpage (node : Name) (sticky : Bool) (mem : Val)
  | greenDb (node : Name) (sticky : Bool) (mem : Val)
  | shared (agent : Name)
  | actionPenalty (actionPen doNothingPen : Val)
deriving DecidableEq, Repr

def browserRequest (node : Name) : List String := ["network", "node", node, "application", "web-browser", "execute"]
def dbClientRequest (node : Name) : List String := ["network", "node", node, "application", "database-client", "execute"]

/-- `location_in_state` of the three components that read the state -/
def fileLoc (node folder file : Name) : List String :=
  ["network", "nodes", node, "file_system", "folders", folder, "files", file]
def web404Loc (node service : Name) : List String := ["network", "nodes", node, "services", service]
def webpageLoc (node : Name) : List String := ["network", "nodes", node, "applications", "web-browser"]

/-- `last_action_response.request == [...]` -/
def Item.requestIs (it : Item) (path : List String) : Bool := PyVal.pyEq it.request (PyVal.strs path)

/-- `last_action_response.response.status == "success"` -/
def Item.ok (it : Item) : Bool := it.status == "success"

/-- `status2rew` as a table (first match) and its default -/
def status2rewTable : List (Int × Rat) := [(200, 1), (404, -1)]

/-- `status2rew` -/
def status2rew (c : PyVal) : Val := PyVal.tableValue status2rewTable 0 c

/-- value of a `health_status` -/
def healthValue (h : PyVal) : Val :=
  if PyVal.pyEq h (.int 2) then -1 else if PyVal.pyEq h (.int 1) then 1 else 0

/-- `DatabaseFileIntegrity.calculate` -/
def calcFileE (s : SimState) (node folder file : Name) : Except Err Val :=
  match PyVal.access s (fileLoc node folder file) with
  | .error e => .error e
  | .ok leaf =>
    if leaf.isNotPresent then .ok 0
    else
      match leaf.getItem "health_status" with
      | .error e => .error e
      | .ok h => .ok (healthValue h)

/-- `WebServer404Penalty.calculate`: value and new memory -/
def calcWeb404E (s : SimState) (node service : Name) (sticky : Bool) (mem : Val) : Except Err (Val × Val) :=
  match PyVal.access s (web404Loc node service) with
  | .error e => .error e
  | .ok leaf =>
    if leaf.isNotPresent then .ok (0, mem)       -- service not in the state: returns 0.0, memory untouched
    else
      match leaf.get "response_codes_this_timestep" with
      | .error e => .error e
      | .ok codes =>
        if codes.truthy then
          match PyVal.avgTable status2rewTable 0 codes with
          | .error e => .error e
          | .ok v => .ok (v, v)
        else if !sticky then .ok (0, 0)
        else .ok (mem, mem)

/-- value of the last browser history entry's `outcome` -/
def outcomeReward (o : PyVal) : Val :=
  if PyVal.pyEq o (.str "PENDING") then 0 else if PyVal.pyEq o (.int 200) then 1 else -1

/-- the branch of `WebpageUnavailablePenalty.calculate` that recomputes the value from the response and the history -/
def webpageFreshE (leaf : PyVal) (it : Item) : Except Err Val :=
  if !it.ok then .ok (-1)
  else if leaf.isNotPresent then .ok 0
  else
    match leaf.getItem "history" with
    | .error e => .error e
    | .ok hist =>
      if !hist.truthy then .ok 0
      else
        match hist.last with
        | .error e => .error e
        | .ok entry =>
          match entry.getItem "outcome" with
          | .error e => .error e
          | .ok o => .ok (outcomeReward o)

/-- `WebpageUnavailablePenalty.calculate` (after the F-18 repair): value = new memory -/
def calcWebpageE (s : SimState) (it : Item) (node : Name) (sticky : Bool) (mem : Val) : Except Err Val :=
  match PyVal.access s (webpageLoc node) with
  | .error e => .error e
  | .ok leaf =>
    let mem1 := if leaf.isNotPresent then 0 else mem
    if !it.requestIs (browserRequest node) then .ok (if sticky then mem1 else 0)
    else webpageFreshE leaf it

/-- `WebpageUnavailablePenalty.calculate` as it was before the repair: a non-sticky component without a new request
falls through to the recomputation. -/
def calcWebpageAsWrittenE (s : SimState) (it : Item) (node : Name) (sticky : Bool) (mem : Val) : Except Err Val :=
  match PyVal.access s (webpageLoc node) with
  | .error e => .error e
  | .ok leaf =>
    let mem1 := if leaf.isNotPresent then 0 else mem
    if !it.requestIs (browserRequest node) && sticky then .ok mem1
    else webpageFreshE leaf it

/-- `GreenAdminDatabaseUnreachablePenalty.calculate`: value = new memory (never raises) -/
def calcGreenDb (it : Item) (node : Name) (sticky : Bool) (mem : Val) : Val :=
  if it.requestIs (dbClientRequest node) then (if it.ok then 1 else -1)
  else if !sticky then 0
  else mem

/-- what `GreenAdminDatabaseUnreachablePenalty.calculate` writes into `last_action_response.reward_info` -/
def greenDbRewardInfo (it : Item) (node : Name) : PyVal :=
  .dict [(.str "connection_attempt_status", .str (if it.requestIs (dbClientRequest node) then it.status else "n/a"))]

/-- `ActionPenalty.calculate` -/
def calcActionPenalty (it : Item) (ap dn : Val) : Val := if it.action == "do-nothing" then dn else ap

/-- `comp.calculate(state, last_action_response)` with the exceptions it may raise: the value and the component afterwards
(memory updated). `cur` answers `SharedReward`'s callback `self.agents[name].reward_function.current_reward`. -/
def calcCompE (s : SimState) (it : Item) (cur : Name → Val) : Comp → Except Err (Val × Comp)
  | .dummy => .ok (0, .dummy)
  | .fileIntegrity n fo fi => (calcFileE s n fo fi).map (fun v => (v, .fileIntegrity n fo fi))
  | .web404 n sv st m => (calcWeb404E s n sv st m).map (fun r => (r.1, .web404 n sv st r.2))
  | .webpage n st m => (calcWebpageE s it n st m).map (fun v => (v, .webpage n st v))
  | .greenDb n st m => let v := calcGreenDb it n st m; .ok (v, .greenDb n st v)
  | .shared a => .ok (cur a, .shared a)
  | .actionPenalty ap dn => .ok (calcActionPenalty it ap dn, .actionPenalty ap dn)

/-- the leaf of the state dictionary a component names (`location_in_state`), if it reads the state at all -/
def Comp.loc : Comp → Option (List String)
  | .fileIntegrity n fo fi => some (fileLoc n fo fi)
  | .web404 n sv _ _ => some (web404Loc n sv)
  | .webpage n _ _ => some (webpageLoc n)
  | _ => none

/-- which fields of the agent's own latest history item a component reads -/
structure Reads where
  action : Bool := false
  request : Bool := false
  status : Bool := false
deriving DecidableEq, Repr

def Comp.reads : Comp → Reads
  | .webpage _ _ _ => { request := true, status := true }
  | .greenDb _ _ _ => { request := true, status := true }
  | .actionPenalty _ _ => { action := true }
  | _ => {}

/-! ### Total versions (the value is only meaningful when the `E` version does not raise) -/

def calcFile (s : SimState) (node folder file : Name) : Val :=
  match calcFileE s node folder file with
  | .ok v => v
  | .error _ => 0

def calcWeb404 (s : SimState) (node service : Name) (sticky : Bool) (mem : Val) : Val × Val :=
  match calcWeb404E s node service sticky mem with
  | .ok r => r
  | .error _ => (0, mem)

def calcWebpage (s : SimState) (it : Item) (node : Name) (sticky : Bool) (mem : Val) : Val :=
  match calcWebpageE s it node sticky mem with
  | .ok v => v
  | .error _ => mem

def calcWebpageAsWritten (s : SimState) (it : Item) (node : Name) (sticky : Bool) (mem : Val) : Val :=
  match calcWebpageAsWrittenE s it node sticky mem with
  | .ok v => v
  | .error _ => mem

/-- `comp.calculate(state, last_action_response)`: the value and the component afterwards (memory updated).
`cur` answers `SharedReward`'s callback `self.agents[name].reward_function.current_reward`. -/
def calcComp (s : SimState) (it : Item) (cur : Name → Val) : Comp → Val × Comp
  | .dummy => (0, .dummy)
  | .fileIntegrity n fo fi => (calcFile s n fo fi, .fileIntegrity n fo fi)
  | .web404 n sv st m => let r := calcWeb404 s n sv st m; (r.1, .web404 n sv st r.2)
  | .webpage n st m => let v := calcWebpage s it n st m; (v, .webpage n st v)
  | .greenDb n st m => let v := calcGreenDb it n st m; (v, .greenDb n st v)
  | .shared a => (cur a, .shared a)
  | .actionPenalty ap dn => (calcActionPenalty it ap dn, .actionPenalty ap dn)

/-- `RewardFunction.update`'s loop: accumulator `total`, components rebuilt with their new memories. -/
def updateComps (s : SimState) (it : Item) (cur : Name → Val) :
    Val → List (Comp × Val) → Val × List (Comp × Val)
  | acc, [] => (acc, [])
  | acc, (c, w) :: rest =>
    let r := calcComp s it cur c
    let t := updateComps s it cur (acc + w * r.1) rest
    (t.1, (r.2, w) :: t.2)

/-- names this reward function shares from, in component order (what `setup_reward_sharing` adds to the set) -/
def sharedNames : List (Comp × Val) → List Name
  | [] => []
  | (.shared a, _) :: rest => a :: sharedNames rest
  | _ :: rest => sharedNames rest

structure Agent where
  comps : List (Comp × Val)
  current : Val := 0
  total : Val := 0
  /-- `history`, newest first, with the `reward` field of each item (`none` until `save_reward_to_history`) -/
  hist : List (Item × Option Val) := []
deriving Repr

structure Game where
  /-- `game.agents`: a dict, in insertion order -/
  agents : List (Name × Agent)
  /-- `_reward_calculation_order` -/
  order : List Name
  stepCounter : Nat := 0
deriving Repr

def agentKeys (as : List (Name × Agent)) : List Name := as.map (·.1)

/-- dict assignment to an existing key: the value changes, the position does not -/
def setAgent (n : Name) (a : Agent) (as : List (Name × Agent)) : List (Name × Agent) :=
  as.map (fun p => if p.1 = n then (p.1, a) else p)

/-- `game.agents[ref] = new_agent` -/
def insertAgent (as : List (Name × Agent)) (n : Name) (a : Agent) : List (Name × Agent) :=
  if n ∈ agentKeys as then setAgent n a as else as ++ [(n, a)]

/-- the callback installed by `setup_reward_sharing` (only called for names that the caller has checked to exist) -/
def curOf (as : List (Name × Agent)) (n : Name) : Val :=
  match as.lookup n with
  | some a => a.current
  | none => 0

/-- one iteration of `update_agents`' loop -/
def updOne (s : SimState) (g : Game) (name : Name) : Except Err Game :=
  match g.agents.lookup name with
  | none => .error .keyError                                   -- `self.agents[agent_name]`
  | some a =>
    if g.stepCounter > 0 then
      match a.hist with
      | [] => .error .indexError                               -- `self.history[-1]`
      | (it, _) :: older =>
        if (sharedNames a.comps).all (fun v => v ∈ agentKeys g.agents) then
          let r := updateComps s it (curOf g.agents) 0 a.comps
          let a' : Agent := { comps := r.2, current := r.1, total := a.total + r.1, hist := (it, some r.1) :: older }
          .ok { g with agents := setAgent name a' g.agents }
        else .error .keyError                                  -- the callback's `self.agents[agent_name]`
    else
      .ok { g with agents := setAgent name { a with total := a.total + a.current } g.agents }

def foldE {σ β ε} (f : σ → β → Except ε σ) : σ → List β → Except ε σ
  | s, [] => .ok s
  | s, b :: bs =>
    match f s b with
    | .ok s' => foldE f s' bs
    | .error e => .error e

/-- `PrimaiteGame.update_agents(state)` -/
def updateAgents (s : SimState) (g : Game) : Except Err Game := foldE (updOne s) g g.order

/-- the graph `setup_reward_sharing` builds; `σ` is the iteration order of a Python `set` built by adding the given names
in sequence (same elements, unspecified order) -/
def sharingGraph (σ : List Name → List Name) (as : List (Name × Agent)) : Graph Name :=
  as.map (fun p => (p.1, σ (sharedNames p.2.comps)))

/-- The set-iteration oracle the driver runs the model with. `table` = the iteration orders the rig observed on the very
`set` objects handed to `graph_has_cycle`, keyed by the insertion sequence (the agent's shared names in component order).
An observation is used only if it has exactly the elements that were inserted; anything else (a neighbour collection
that lost or gained a name) is NOT followed — the model then iterates first occurrences in insertion order, so the
implementation's deviation shows up as a disagreement instead of being copied into the model.
`C10_sigmaOf_setLike` proves every such oracle is `SetLike`, i.e. inside the hypotheses of the game-level theorems. -/
def sigmaOf (table : List (List Name × List Name)) (l : List Name) : List Name :=
  match table.lookup l with
  | some o => if o.all (fun x => decide (x ∈ l)) && l.all (fun x => decide (x ∈ o)) then o else l.eraseDups
  | none => l.eraseDups

/-- weight of a component whose configuration omits `weight` (`_SingleComponentConfig.weight: float = 1.0`) -/
def defaultWeight : Val := 1

structure AgentCfg where
  ref : Name
  comps : List (Comp × Val)
deriving Repr

def buildAgents (cfgs : List AgentCfg) : List (Name × Agent) :=
  cfgs.foldl (fun acc c => insertAgent acc c.ref { comps := c.comps }) []

/-- the agent part of `PrimaiteGame.from_config`: build the dict, `setup_reward_sharing`, first `update_agents` -/
def fromConfig (σ : List Name → List Name) (cfgs : List AgentCfg) : Except Err Game :=
  let as := buildAgents cfgs
  let graph := sharingGraph σ as
  if hasCycle graph then .error .cycle
  else updateAgents (.dict []) { agents := as, order := topoSort graph, stepCounter := 0 }

/-- a reward component as the configuration file declares it -/
inductive CompCfg
  /-- a registered type with options its schema accepts -/
  | known (c : Comp)
  /-- a `type` that is not in `AbstractReward._registry` (no such component, or a plugin that was not imported) -/
  | unknownType (type : String)
  /-- a registered type whose entry violates the schema (missing / extra / ill-typed option or weight, no `type` key) -/
  | invalid
deriving Repr

def CompCfg.isUnknown : CompCfg → Bool
  | .unknownType _ => true
  | _ => false

def CompCfg.isInvalid : CompCfg → Bool
  | .invalid => true
  | _ => false

def CompCfg.isKnown : CompCfg → Bool
  | .known _ => true
  | _ => false

def CompCfg.toComp? : CompCfg → Option Comp
  | .known c => some c
  | _ => none

structure AgentCfgRaw where
  ref : Name
  comps : List (CompCfg × Val)
deriving Repr

/-- constructing one agent's `RewardFunction.ConfigSchema`: an unregistered type raises `KeyError` out of the `before` validator
at once (`AbstractReward._registry[rew_type]`), wherever it stands in the list; otherwise schema violations are collected into a
pydantic `ValidationError` -/
def checkAgent (a : AgentCfgRaw) : Except Err AgentCfg :=
  if a.comps.any (fun cw => cw.1.isUnknown) then .error .keyError
  else if a.comps.any (fun cw => cw.1.isInvalid) then .error .validationError
  else .ok { ref := a.ref, comps := a.comps.filterMap (fun cw => cw.1.toComp?.map (fun c => (c, cw.2))) }

/-- the agents are constructed in declaration order, before any reward sharing is set up: the first one that cannot be built
ends `from_config` -/
def checkCfg : List AgentCfgRaw → Except Err (List AgentCfg)
  | [] => .ok []
  | a :: rest =>
    match checkAgent a with
    | .error e => .error e
    | .ok c =>
      match checkCfg rest with
      | .error e => .error e
      | .ok cs => .ok (c :: cs)

/-- `PrimaiteGame.from_config` on a configuration as written (component types not yet resolved) -/
def fromConfigRaw (σ : List Name → List Name) (raw : List AgentCfgRaw) : Except Err Game :=
  match checkCfg raw with
  | .error e => .error e
  | .ok cfgs => fromConfig σ cfgs

/-- what the agent's newest history item holds in `reward_info` after `update_reward`: every `GreenAdminDatabaseUnreachablePenalty`
overwrites it, in component order (the last one wins); no such component leaves it as `process_action_response` made it (`{}`) -/
def rewardInfoAfter (it : Item) : List (Comp × Val) → PyVal
  | [] => it.rewardInfo
  | (.greenDb n _ _, _) :: rest => rewardInfoAfter { it with rewardInfo := greenDbRewardInfo it n } rest
  | _ :: rest => rewardInfoAfter it rest

/-- `apply_agent_actions`: every agent (dict order) gets exactly one new history item; `items` is what each agent's
`get_action` / `format_request` / the simulator's response produce this step -/
def act (items : Name → Item) (g : Game) : Game :=
  { g with agents := g.agents.map (fun p => (p.1, { p.2 with hist := (items p.1, none) :: p.2.hist })) }

/-- `advance_timestep` (only the counter matters here) -/
def advance (g : Game) : Game := { g with stepCounter := g.stepCounter + 1 }

/-- the reward-relevant part of one `PrimaiteGame.step` / `PrimaiteGymEnv.step`:
actions, counter, then `update_agents` on the post-step state -/
def gameStep (g : Game) (items : Name → Item) (s : SimState) : Except Err Game :=
  updateAgents s (advance (act items g))

/-! ### The same pipeline with the exceptions a component may raise (what the driver runs) -/

/-- `RewardFunction.update`'s loop; the first component that raises ends it -/
def updateCompsE (s : SimState) (it : Item) (cur : Name → Val) :
    Val → List (Comp × Val) → Except Err (Val × List (Comp × Val))
  | acc, [] => .ok (acc, [])
  | acc, (c, w) :: rest =>
    match calcCompE s it cur c with
    | .error e => .error e
    | .ok r =>
      match updateCompsE s it cur (acc + w * r.1) rest with
      | .error e => .error e
      | .ok t => .ok (t.1, (r.2, w) :: t.2)

/-- one iteration of `update_agents`' loop, a raising component included -/
def updOneE (s : SimState) (g : Game) (name : Name) : Except Err Game :=
  match g.agents.lookup name with
  | none => .error .keyError
  | some a =>
    if g.stepCounter > 0 then
      match a.hist with
      | [] => .error .indexError
      | (it, _) :: older =>
        if (sharedNames a.comps).all (fun v => v ∈ agentKeys g.agents) then
          match updateCompsE s it (curOf g.agents) 0 a.comps with
          | .error e => .error e
          | .ok r =>
            let a' : Agent := { comps := r.2, current := r.1, total := a.total + r.1, hist := (it, some r.1) :: older }
            .ok { g with agents := setAgent name a' g.agents }
        else .error .keyError
    else
      .ok { g with agents := setAgent name { a with total := a.total + a.current } g.agents }

def updateAgentsE (s : SimState) (g : Game) : Except Err Game := foldE (updOneE s) g g.order

/-! ### `update_agents` as the program its source is (Gen/Reward.lean `updateAgentsProgram`, translated on every run) -/

/-- what the body of `update_agents`' loop does to the agent it has looked up, statement by statement -/
inductive AOp
  /-- `agent.update_reward(state=state)`: `reward_function.update(state, self.history[-1])` -/
  | updateReward
  /-- `agent.save_reward_to_history()`: `self.history[-1].reward = current_reward` -/
  | saveRewardToHistory
  /-- `agent.update_observation(state=state)` (no effect on rewards) -/
  | updateObservation
  /-- `agent.reward_function.total_reward += agent.reward_function.current_reward` -/
  | addCurrentToTotal
deriving DecidableEq, Repr

/-- run the statements of the loop body on the agent, in order; `(true, op)` = `op` stands under `if self.step_counter > 0:` -/
def runOps (s : SimState) (g : Game) (positive : Bool) : List (Bool × AOp) → Agent → Except Err Agent
  | [], a => .ok a
  | (guarded, op) :: rest, a =>
    if guarded && !positive then runOps s g positive rest a
    else
      match op with
      | .updateReward =>
        match a.hist with
        | [] => .error .indexError
        | (it, _) :: _ =>
          if (sharedNames a.comps).all (fun v => v ∈ agentKeys g.agents) then
            match updateCompsE s it (curOf g.agents) 0 a.comps with
            | .error e => .error e
            | .ok r => runOps s g positive rest { a with comps := r.2, current := r.1 }
          else .error .keyError
      | .saveRewardToHistory =>
        match a.hist with
        | [] => .error .indexError
        | (it, _) :: older => runOps s g positive rest { a with hist := (it, some a.current) :: older }
      | .updateObservation => runOps s g positive rest a
      | .addCurrentToTotal => runOps s g positive rest { a with total := a.total + a.current }

/-- one iteration of the loop of a translated `update_agents`: `agent = self.agents[agent_name]`, then the statements -/
def updOneProg (prog : List (Bool × AOp)) (s : SimState) (g : Game) (name : Name) : Except Err Game :=
  match g.agents.lookup name with
  | none => .error .keyError
  | some a =>
    match runOps s g (decide (g.stepCounter > 0)) prog a with
    | .error e => .error e
    | .ok a' => .ok { g with agents := setAgent name a' g.agents }


/-! ### `setup_reward_sharing` as the program its source is (Gen/Reward.lean `setupSharingProgram`, extracted on every run) -/

/-- a statement under `if isinstance(comp, SharedReward):` in the loop over an agent's components -/
inductive SOp
  /-- `graph[name].add(comp.config.agent_name)` -/
  | addArc
  /-- `comp.callback = lambda agent_name: self.agents[agent_name].reward_function.current_reward` -/
  | setCallback
deriving DecidableEq, Repr

/-- a statement after the loops -/
inductive TOp
  /-- `if graph_has_cycle(graph): raise RuntimeError(…)` -/
  | raiseIfCycle
  /-- `self._reward_calculation_order = topological_sort(graph)` -/
  | assignOrder
deriving DecidableEq, Repr

/-- `graph = {}`; `for name, agent in self.agents.items(): graph[name] = set(); for comp, weight in …reward_components:
if isinstance(comp, SharedReward): <perShared>`; then `<tail>` — the statements in source order -/
structure SetupProg where
  perShared : List SOp
  tail : List TOp
deriving Repr

/-- what one shared component named `a` adds to the agent's set, statement by statement -/
def addsOf (a : Name) : List SOp → List Name
  | [] => []
  | .addArc :: r => a :: addsOf a r
  | .setCallback :: r => addsOf a r

/-- the names added to `graph[name]`, in the order of the `add` calls -/
def insertedNames (ops : List SOp) : List (Comp × Val) → List Name
  | [] => []
  | (.shared a, _) :: rest => addsOf a ops ++ insertedNames ops rest
  | _ :: rest => insertedNames ops rest

/-- the graph the translated loops build (`σ` = iteration order of the Python `set` built by these `add` calls) -/
def progGraph (σ : List Name → List Name) (prog : SetupProg) (as : List (Name × Agent)) : Graph Name :=
  as.map (fun p => (p.1, σ (insertedNames prog.perShared p.2.comps)))

/-- the statements after the loops: `none` = `_reward_calculation_order` not assigned so far -/
def runTail (g : Graph Name) : List TOp → Option (List Name) → Except Err (Option (List Name))
  | [], o => .ok o
  | .raiseIfCycle :: r, o => if hasCycle g then .error .cycle else runTail g r o
  | .assignOrder :: r, _ => runTail g r (some (topoSort g))

/-- a translated `setup_reward_sharing`: the evaluation order it leaves in `_reward_calculation_order`, or what it raises
(`attributeError`: the order is never assigned — the first `update_agents` would fail) -/
def setupProg (σ : List Name → List Name) (prog : SetupProg) (as : List (Name × Agent)) : Except Err (List Name) :=
  match runTail (progGraph σ prog as) prog.tail none with
  | .error e => .error e
  | .ok none => .error .attributeError
  | .ok (some o) => .ok o

/-! ### The three step pipelines (`PrimaiteGame.step`, `PrimaiteGymEnv.step`, `PrimaiteRayMARLEnv.step`) as the sequences of calls
their sources are (Gen/Reward.lean `stepPipelines`, extracted on every run): WHEN the rewards are computed relative to the
simulator's tick, on WHICH snapshot of the state, and WHAT the environment returns as the reward. -/

/-- one top-level statement of a `step` method, as far as rewards are concerned -/
inductive POp
  /-- the RL agents' chosen actions are stored -/
  | storeAction
  /-- `pre_timestep()` -/
  | preTimestep
  /-- `apply_agent_actions()` -/
  | applyActions
  /-- `advance_timestep()`: the simulator's tick -/
  | advance
  /-- `x = get_sim_state()`: a snapshot (`describe_state()`) of the simulation as it is now -/
  | getState (x : String)
  /-- `update_agents(x)`: every agent's reward is computed on snapshot `x` -/
  | updateAgents (x : String)
  /-- `for agent in self.agents.values(): agent.update_observation(state=x)` (observations only) -/
  | updateObservations (x : String)
  /-- the value the method returns as reward(s) is read now: `current_reward` (`false`) or `total_reward` (`true`) -/
  | readReward (total : Bool)
  /-- a statement that touches neither the simulation nor the rewards (observations, truncation, info, logging) -/
  | other
deriving DecidableEq, Repr

/-- what matters of a run of a pipeline: how many ticks happened, which snapshot each variable holds (tick count when taken), on
which snapshots `update_agents` ran (in order), and when the returned reward was read (kind, number of `update_agents` done) -/
structure PSt where
  ticks : Nat := 0
  vars : List (String × Nat) := []
  updates : List Nat := []
  reads : List (Bool × Nat) := []
deriving DecidableEq, Repr

/-- run a pipeline; `(true, op)` = `op` stands under `if self.step_counter == 0:`; `none` = an unbound snapshot variable -/
def runPipe (first : Bool) : List (Bool × POp) → PSt → Option PSt
  | [], st => some st
  | (guarded, op) :: rest, st =>
    if guarded && !first then runPipe first rest st
    else
      match op with
      | .advance => runPipe first rest { st with ticks := st.ticks + 1 }
      | .getState x => runPipe first rest { st with vars := (x, st.ticks) :: st.vars }
      | .updateAgents x =>
        match st.vars.lookup x with
        | some v => runPipe first rest { st with updates := st.updates ++ [v] }
        | none => none
      | .updateObservations x =>
        match st.vars.lookup x with
        | some _ => runPipe first rest st
        | none => none
      | .readReward t => runPipe first rest { st with reads := st.reads ++ [(t, st.updates.length)] }
      | _ => runPipe first rest st

/-- the property's "evaluated on the post-step state … reward returned by env.step": in the first step of an episode and in every
later one, exactly one tick; `update_agents` runs exactly once, on a snapshot taken AFTER that tick; and (environments) the returned
reward is `current_reward`, read once, AFTER `update_agents` -/
def pipeOK (returnsReward : Bool) (p : List (Bool × POp)) : Bool :=
  [true, false].all fun first =>
    match runPipe first p {} with
    | some st => st.ticks == 1 && st.updates == [1] && (st.reads == if returnsReward then [(false, 1)] else [])
    | none => false

/-- one `PrimaiteGame.step` / `PrimaiteGymEnv.step`, reward-relevant part, exceptions included -/
def gameStepE (g : Game) (items : Name → Item) (s : SimState) : Except Err Game :=
  updateAgentsE s (advance (act items g))

/-- `PrimaiteGymEnv.reset`: a fresh game from the (same) configuration — `from_config` runs `update_agents` once, `reset`
runs it a second time, both with `step_counter == 0` (no reward is computed; `total += current` adds the fresh 0). -/
def resetEnv (σ : List Name → List Name) (cfgs : List AgentCfg) (s0 : SimState) : Except Err Game :=
  match fromConfig σ cfgs with
  | .error e => .error e
  | .ok g => updateAgents s0 g

/-- `reset` with an episode schedule: episode `ep` is built from the configuration the scheduler returns for it -/
def resetEnvRaw (σ : List Name → List Name) (schedule : Nat → List AgentCfgRaw) (ep : Nat) (s0 : SimState) : Except Err Game :=
  match checkCfg (schedule ep) with
  | .error e => .error e
  | .ok cfgs => resetEnv σ cfgs s0

end Primaite.Reward
