/-
Model of the reward layer:

* reward components (src/primaite/game/agent/rewards.py): `DummyReward`, `DatabaseFileIntegrity`, `WebServer404Penalty`,
  `WebpageUnavailablePenalty`, `GreenAdminDatabaseUnreachablePenalty`, `SharedReward`, `ActionPenalty`;
  the three sticky ones carry their memory (`self.reward`) inside the component value;
* `RewardFunction.update` (left fold `total += weight * comp.calculate(...)`);
* `AbstractAgent.process_action_response / update_reward / save_reward_to_history` (src/primaite/game/agent/interface.py);
* `PrimaiteGame.setup_reward_sharing`, `update_agents`, the agent part of `from_config`, and the act/advance/update
  part of a step (src/primaite/game/game.py).

Values are exact rationals (`Rat`, Lean core): floats are not modelled; the rig drives the code with dyadic weights and
values, for which float arithmetic is exact, and compares `Fraction(float)`.

The simulation state is abstracted to exactly what the components read from `describe_state()`:
file health, a service's `response_codes_this_timestep`, a web browser's history outcomes (absent = the path is
`NOT_PRESENT_IN_STATE`).  Where Python raises (`KeyError` for an unknown agent name, `IndexError` for an empty history,
`RuntimeError` for cyclic sharing) the model returns an explicit error.

`WebpageUnavailablePenalty` is modelled as repaired by the `fix:` commit for F-18 (`calcWebpage`); the code as it was
is kept as `calcWebpageAsWritten` for the counterexample theorem.
Core Lean only.
-/
import PrimaiteModel.Model.Basic
import PrimaiteModel.Model.RewardGraph
namespace Primaite.Reward
open Primaite.RewardGraph

abbrev Val := Rat

/-- `outcome` of a web-browser history entry: `"PENDING"`, an int status code, or any other value
(e.g. `"SERVER_UNREACHABLE"`). -/
inductive Outcome | pending | code (n : Nat) | other
deriving DecidableEq, Repr

/-- What the reward components read from the post-step `describe_state()` dictionary. A missing key = the path is
`NOT_PRESENT_IN_STATE`. -/
structure SimState where
  /-- (node, folder, file) ↦ `health_status` -/
  files : List ((Name × Name × Name) × Nat) := []
  /-- (node, service) ↦ `response_codes_this_timestep` (`[]` when the key is missing, `None` or empty: all falsy) -/
  services : List ((Name × Name) × List Nat) := []
  /-- node ↦ outcomes of `applications/web-browser/history`, oldest first -/
  browsers : List (Name × List Outcome) := []
deriving Repr

/-- The fields of the agent's latest `AgentHistoryItem` that components read. -/
structure Item where
  action : String
  request : List String
  /-- `response.status == "success"` -/
  ok : Bool
deriving DecidableEq, Repr

inductive Comp
  | dummy
  | fileIntegrity (node folder file : Name)
  | web404 (node service : Name) (sticky : Bool) (mem : Val)
  | webpage (node : Name) (sticky : Bool) (mem : Val)
  | greenDb (node : Name) (sticky : Bool) (mem : Val)
  | shared (agent : Name)
  | actionPenalty (actionPen doNothingPen : Val)
deriving DecidableEq, Repr

def browserRequest (node : Name) : List String := ["network", "node", node, "application", "web-browser", "execute"]
def dbClientRequest (node : Name) : List String := ["network", "node", node, "application", "database-client", "execute"]

/-- `status2rew` -/
def status2rew (c : Nat) : Val := if c = 200 then 1 else if c = 404 then -1 else 0

/-- `sum(map(status2rew, codes)) / len(codes)` -/
def codesReward (codes : List Nat) : Val := (codes.map status2rew).sum / (codes.length : Rat)

/-- `DatabaseFileIntegrity.calculate` -/
def calcFile (s : SimState) (node folder file : Name) : Val :=
  match s.files.lookup (node, folder, file) with
  | none => 0
  | some h => if h = 2 then -1 else if h = 1 then 1 else 0

/-- `WebServer404Penalty.calculate`: value and new memory -/
def calcWeb404 (s : SimState) (node service : Name) (sticky : Bool) (mem : Val) : Val × Val :=
  match s.services.lookup (node, service) with
  | none => (0, mem)                       -- service not in the state: returns 0.0, memory untouched
  | some codes =>
    if codes ≠ [] then (codesReward codes, codesReward codes)
    else if !sticky then (0, 0)
    else (mem, mem)

/-- value of the last browser history entry -/
def outcomeReward : Outcome → Val
  | .pending => 0
  | .code n => if n = 200 then 1 else -1
  | .other => -1

/-- the branch of `WebpageUnavailablePenalty.calculate` that recomputes the value from the response and the history -/
def webpageFresh (hist : Option (List Outcome)) (it : Item) : Val :=
  if !it.ok then -1
  else match hist with
    | none => 0
    | some h =>
      match h.getLast? with
      | none => 0
      | some o => outcomeReward o

/-- `WebpageUnavailablePenalty.calculate` (after the F-18 repair): value = new memory -/
def calcWebpage (s : SimState) (it : Item) (node : Name) (sticky : Bool) (mem : Val) : Val :=
  let hist := s.browsers.lookup node
  let mem1 := if hist.isNone then 0 else mem
  if it.request ≠ browserRequest node then
    (if sticky then mem1 else 0)
  else webpageFresh hist it

/-- `WebpageUnavailablePenalty.calculate` as it was before the repair: a non-sticky component without a new request
falls through to the recomputation. -/
def calcWebpageAsWritten (s : SimState) (it : Item) (node : Name) (sticky : Bool) (mem : Val) : Val :=
  let hist := s.browsers.lookup node
  let mem1 := if hist.isNone then 0 else mem
  if it.request ≠ browserRequest node ∧ sticky then mem1
  else webpageFresh hist it

/-- `GreenAdminDatabaseUnreachablePenalty.calculate`: value = new memory -/
def calcGreenDb (it : Item) (node : Name) (sticky : Bool) (mem : Val) : Val :=
  if it.request = dbClientRequest node then (if it.ok then 1 else -1)
  else if !sticky then 0
  else mem

/-- `comp.calculate(state, last_action_response)`: the value and the component afterwards (memory updated).
`cur` answers `SharedReward`'s callback `self.agents[name].reward_function.current_reward`. -/
def calcComp (s : SimState) (it : Item) (cur : Name → Val) : Comp → Val × Comp
  | .dummy => (0, .dummy)
  | .fileIntegrity n fo fi => (calcFile s n fo fi, .fileIntegrity n fo fi)
  | .web404 n sv st m => let r := calcWeb404 s n sv st m; (r.1, .web404 n sv st r.2)
  | .webpage n st m => let v := calcWebpage s it n st m; (v, .webpage n st v)
  | .greenDb n st m => let v := calcGreenDb it n st m; (v, .greenDb n st v)
  | .shared a => (cur a, .shared a)
  | .actionPenalty ap dn => ((if it.action = "do-nothing" then dn else ap), .actionPenalty ap dn)

/-- `RewardFunction.update`'s loop: accumulator `total`, components rebuilt with their new memories. -/
def updateComps (s : SimState) (it : Item) (cur : Name → Val) :
    Val → List (Comp × Val) → Val × List (Comp × Val)
  | acc, [] => (acc, [])
  | acc, (c, w) :: rest =>
    let r := calcComp s it cur c
    let t := updateComps s it cur (acc + w * r.1) rest
    (t.1, (r.2, w) :: t.2)

/-- names this reward function shares from, in component order (what `setup_reward_sharing` adds to the set) -/
def sharedNames : List (Comp × Val) → List Name
  | [] => []
  | (.shared a, _) :: rest => a :: sharedNames rest
  | _ :: rest => sharedNames rest

structure Agent where
  comps : List (Comp × Val)
  current : Val := 0
  total : Val := 0
  /-- `history`, newest first, with the `reward` field of each item (`none` until `save_reward_to_history`) -/
  hist : List (Item × Option Val) := []
deriving Repr

inductive Err | cycle | keyError | indexError
deriving DecidableEq, Repr

structure Game where
  /-- `game.agents`: a dict, in insertion order -/
  agents : List (Name × Agent)
  /-- `_reward_calculation_order` -/
  order : List Name
  stepCounter : Nat := 0
deriving Repr

def agentKeys (as : List (Name × Agent)) : List Name := as.map (·.1)

/-- dict assignment to an existing key: the value changes, the position does not -/
def setAgent (n : Name) (a : Agent) (as : List (Name × Agent)) : List (Name × Agent) :=
  as.map (fun p => if p.1 = n then (p.1, a) else p)

/-- `game.agents[ref] = new_agent` -/
def insertAgent (as : List (Name × Agent)) (n : Name) (a : Agent) : List (Name × Agent) :=
  if n ∈ agentKeys as then setAgent n a as else as ++ [(n, a)]

/-- the callback installed by `setup_reward_sharing` (only called for names that the caller has checked to exist) -/
def curOf (as : List (Name × Agent)) (n : Name) : Val :=
  match as.lookup n with
  | some a => a.current
  | none => 0

/-- one iteration of `update_agents`' loop -/
def updOne (s : SimState) (g : Game) (name : Name) : Except Err Game :=
  match g.agents.lookup name with
  | none => .error .keyError                                   -- `self.agents[agent_name]`
  | some a =>
    if g.stepCounter > 0 then
      match a.hist with
      | [] => .error .indexError                               -- `self.history[-1]`
      | (it, _) :: older =>
        if (sharedNames a.comps).all (fun v => v ∈ agentKeys g.agents) then
          let r := updateComps s it (curOf g.agents) 0 a.comps
          let a' : Agent := { comps := r.2, current := r.1, total := a.total + r.1, hist := (it, some r.1) :: older }
          .ok { g with agents := setAgent name a' g.agents }
        else .error .keyError                                  -- the callback's `self.agents[agent_name]`
    else
      .ok { g with agents := setAgent name { a with total := a.total + a.current } g.agents }

def foldE {σ β ε} (f : σ → β → Except ε σ) : σ → List β → Except ε σ
  | s, [] => .ok s
  | s, b :: bs =>
    match f s b with
    | .ok s' => foldE f s' bs
    | .error e => .error e

/-- `PrimaiteGame.update_agents(state)` -/
def updateAgents (s : SimState) (g : Game) : Except Err Game := foldE (updOne s) g g.order

/-- the graph `setup_reward_sharing` builds; `σ` is the iteration order of a Python `set` built by adding the given names
in sequence (same elements, unspecified order) -/
def sharingGraph (σ : List Name → List Name) (as : List (Name × Agent)) : Graph Name :=
  as.map (fun p => (p.1, σ (sharedNames p.2.comps)))

/-- The set-iteration oracle the driver runs the model with. `table` = the iteration orders the rig observed on the very
`set` objects handed to `graph_has_cycle`, keyed by the insertion sequence (the agent's shared names in component order).
An observation is used only if it has exactly the elements that were inserted; anything else (a neighbour collection
that lost or gained a name) is NOT followed — the model then iterates first occurrences in insertion order, so the
implementation's deviation shows up as a disagreement instead of being copied into the model.
`C10_sigmaOf_setLike` proves every such oracle is `SetLike`, i.e. inside the hypotheses of the game-level theorems. -/
def sigmaOf (table : List (List Name × List Name)) (l : List Name) : List Name :=
  match table.lookup l with
  | some o => if o.all (fun x => decide (x ∈ l)) && l.all (fun x => decide (x ∈ o)) then o else l.eraseDups
  | none => l.eraseDups

/-- weight of a component whose configuration omits `weight` (`_SingleComponentConfig.weight: float = 1.0`) -/
def defaultWeight : Val := 1

structure AgentCfg where
  ref : Name
  comps : List (Comp × Val)
deriving Repr

def buildAgents (cfgs : List AgentCfg) : List (Name × Agent) :=
  cfgs.foldl (fun acc c => insertAgent acc c.ref { comps := c.comps }) []

/-- the agent part of `PrimaiteGame.from_config`: build the dict, `setup_reward_sharing`, first `update_agents` -/
def fromConfig (σ : List Name → List Name) (cfgs : List AgentCfg) : Except Err Game :=
  let as := buildAgents cfgs
  let graph := sharingGraph σ as
  if hasCycle graph then .error .cycle
  else updateAgents {} { agents := as, order := topoSort graph, stepCounter := 0 }

/-- `apply_agent_actions`: every agent (dict order) gets exactly one new history item; `items` is what each agent's
`get_action` / `format_request` / the simulator's response produce this step -/
def act (items : Name → Item) (g : Game) : Game :=
  { g with agents := g.agents.map (fun p => (p.1, { p.2 with hist := (items p.1, none) :: p.2.hist })) }

/-- `advance_timestep` (only the counter matters here) -/
def advance (g : Game) : Game := { g with stepCounter := g.stepCounter + 1 }

/-- the reward-relevant part of one `PrimaiteGame.step` / `PrimaiteGymEnv.step`:
actions, counter, then `update_agents` on the post-step state -/
def gameStep (g : Game) (items : Name → Item) (s : SimState) : Except Err Game :=
  updateAgents s (advance (act items g))

end Primaite.Reward
