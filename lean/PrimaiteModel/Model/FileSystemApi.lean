/-
Second layer of the file-system model (property C15, deepening round).

1. The Python-API entry points that are not request handlers but are called by services/applications
   (`FileSystem.create_file(force=…)`, `copy_file`, `move_file`, `delete_file_by_id`, `delete_folder_by_id`,
   `Folder.add_file(File(...), force)`, `Folder.remove_file_by_id`) as operations `ApiOp` over the same `State`,
   modelled as the code is on branch fix2-DC15 (after the two repairs: `move_file` really moves, a forced `add_file`
   replaces a live namesake).  `.success` = the call returned, `.raised` = it raised.
2. A ledger `XState` beside the structural state that carries what the structural model deliberately leaves out but
   C15's counters need: `File.num_access` per file uuid, and the folder scan countdown/duration (the completion of a
   folder scan accesses every live file).  The ledger never influences the structure or an answer.
-/
import PrimaiteModel.Model.FileSystem
namespace Primaite.FileSystem

/-! ### `Folder.add_file` as the code is -/

/-- `Folder.add_file` past its two refusals: a live namesake with another uuid is removed first (forced overwrite),
then `files[uuid] = file` and the route is registered. -/
def Folder.addFileForced (g : Folder) (f : File) : Folder :=
  match g.getFile f.name with
  | some e => if e.id != f.id then (g.removeFile e).addFile f else g.addFile f
  | none => g.addFile f

/-- `Folder.add_file(file, force)`: `none` = raises (`File with name … already exists` / `… uuid …`). -/
def Folder.addFileApi (g : Folder) (f : File) (force : Bool) : Option Folder :=
  if (g.getFile f.name).isSome && !force then none
  else if g.files.any (fun y => y.id == f.id) && !force then none
  else some (g.addFileForced f)

/-! ### the API operations -/

inductive ApiOp
  /-- `FileSystem.create_file(file_name=x, folder_name=F, force=force)` (FTP server, database service, web server) -/
  | createFile (F x : Name) (force : Bool)
  /-- `FileSystem.copy_file(F, x, G)` (database restore) -/
  | copyFile (F x G : Name)
  /-- `FileSystem.move_file(F, x, G)` -/
  | moveFile (F x G : Name)
  /-- `get_folder(F).add_file(File(name=x), force)` -/
  | addFile (F x : Name) (force : Bool)
  /-- `FileSystem.delete_file_by_id(folder_uuid=i, file_uuid=j)` -/
  | deleteFileById (i j : Nat)
  /-- `FileSystem.delete_folder_by_id(i)` -/
  | deleteFolderById (i : Nat)
  /-- `folders[i].remove_file_by_id(j)` -/
  | removeFileById (i j : Nat)
deriving DecidableEq, Repr

/-- `create_file` called directly: the same as the request except that an unforced duplicate is not refused up front
but raises out of `Folder.add_file` (nothing has changed by then: the folder existed). -/
def apiCreateFile (s : State) (F x : Name) (force : Bool) : State × Out :=
  match createFileTarget s F with
  | (s1, none) => (s1, .raised)
  | (s1, some g) => if (g.getFile x).isSome && !force then (s1, .raised) else createFileIn s1 g x

/-- `get_folder(G) or create_folder(G)` as `copy_file` / `move_file` do it. -/
def getOrCreateFolder (s : State) (G : Name) : State × Folder :=
  match getFolder s G with
  | some g => (s, g)
  | none => createFolder s G

/-- `copy_file`: the copy is `File(**file.model_dump(exclude={uuid, folder_id, folder_name, sim_path}))`, i.e. the source
with a fresh uuid (name, flag and `num_access` copied); the creation is counted; `add_file(copy, force=True)`. -/
def apiCopyFile (s : State) (F x G : Name) : State × Out :=
  match getFile s F x with
  | none => (s, .success)
  | some f =>
    let r := getOrCreateFolder s G
    let cp : File := { f with id := r.1.next }
    ({ updFolder r.1 r.2.id (fun g => g.addFileForced cp) with
        numCreations := r.1.numCreations + 1, next := r.1.next + 1 }, .success)

/-- `move_file` (repaired): nothing happens when the destination has a live file of that name (this covers a move
within one folder); otherwise the file leaves `src.files` altogether, is added to `dst` (same uuid, not flagged),
one deletion and one creation are counted. -/
def apiMoveFile (s : State) (F x G : Name) : State × Out :=
  match getFolder s F with
  | none => (s, .success)
  | some src =>
    match src.getFile x with
    | none => (s, .success)
    | some f =>
      let r := getOrCreateFolder s G
      if (r.2.getFile f.name).isSome then (r.1, .success) else
      let s2 := updFolder r.1 src.id (fun g => { g with files := dictPop File.id g.files f.id })
      let s3 := updFolder s2 r.2.id (fun g => g.addFile f)
      ({ s3 with numDeletions := s3.numDeletions + 1, numCreations := s3.numCreations + 1 }, .success)

/-- `folder.add_file(File(name=x), force)` on the live folder `F` (nothing to call when there is none). -/
def apiAddFile (s : State) (F x : Name) (force : Bool) : State × Out :=
  match getFolder s F with
  | none => (s, .success)
  | some g =>
    match g.addFileApi { id := s.next, name := x } force with
    | none => (s, .raised)
    | some _ => ({ updFolder s g.id (fun g => g.addFileForced { id := s.next, name := x }) with next := s.next + 1 }, .success)

/-- `delete_file_by_id`: both lookups are live-only and by uuid; the deletion itself goes by the two *names*. -/
def apiDeleteFileById (s : State) (i j : Nat) : State × Out :=
  match s.folders.find? (fun g => g.id == i) with
  | none => (s, .success)
  | some g =>
    match g.files.find? (fun f => f.id == j) with
    | none => (s, .success)
    | some f => ((deleteFile s g.name f.name).1, .success)

/-- `delete_folder_by_id`: `folder.name` on `None` raises for an unknown (or deleted) uuid. -/
def apiDeleteFolderById (s : State) (i : Nat) : State × Out :=
  match s.folders.find? (fun g => g.id == i) with
  | none => (s, .raised)
  | some g => ((deleteFolder s g.name).1, .success)

/-- `Folder.remove_file_by_id`: `remove_file(None)` raises for a uuid that is not live in that folder. -/
def apiRemoveFileById (s : State) (i j : Nat) : State × Out :=
  match s.folders.find? (fun g => g.id == i) with
  | none => (s, .success)
  | some g =>
    match g.files.find? (fun f => f.id == j) with
    | none => (s, .raised)
    | some f => (updFolder s g.id (fun g => g.removeFile f), .success)

def stepApi (s : State) : ApiOp → State × Out
  | .createFile F x force => apiCreateFile s F x force
  | .copyFile F x G => apiCopyFile s F x G
  | .moveFile F x G => apiMoveFile s F x G
  | .addFile F x force => apiAddFile s F x force
  | .deleteFileById i j => apiDeleteFileById s i j
  | .deleteFolderById i => apiDeleteFolderById s i
  | .removeFileById i j => apiRemoveFileById s i j

/-- A request / tick, or an API call. -/
inductive AnyOp
  | req (op : Op)
  | api (op : ApiOp)
deriving DecidableEq, Repr

def stepAny (s : State) : AnyOp → State × Out
  | .req op => step s op
  | .api op => stepApi s op

def runAny (s : State) : List AnyOp → State × List Out
  | [] => (s, [])
  | op :: ops =>
    let r := stepAny s op
    let r2 := runAny r.1 ops
    (r2.1, r.2 :: r2.2)

/-! ### the ledger: `num_access` and the folder scan countdown -/

structure XState where
  s : State
  /-- `File.num_access` by file uuid -/
  acc : Nat → Nat
  /-- `Folder.scan_countdown` / `Folder.scan_duration` by folder uuid -/
  scanCd : Nat → Int
  scanDur : Nat → Int
  /-- `FileSystem._default_folder_scan_duration` -/
  defaultScan : Option Int

def xinit (defaultRestore defaultScan : Option Int := none) : XState :=
  { s := init defaultRestore, acc := fun _ => 0, scanCd := fun _ => 0, scanDur := fun _ => 3, defaultScan := defaultScan }

/-- `num_access += 1` for every uuid of the list (with multiplicity). -/
def bump (acc : Nat → Nat) (ids : List Nat) : Nat → Nat := fun i => acc i + ids.count i

/-- What `scan() / repair() / corrupt() / restore() / delete()` of a file do to `num_access`: an access unless the
file is flagged deleted (`restore()` of a deleted file only clears the flag). -/
def touch (f : File) : List Nat := if f.deleted then [] else [f.id]

def verbTouch (f : File) : Verb → List Nat
  | .scan | .repair | .corrupt | .restore => touch f
  | .checkhash | .other => []

/-- The folder the `folder` route reaches (guard, then the name route). -/
def routedFolder (s : State) (F : Name) : Option Folder :=
  if !folderGuard s F then none else (lookupRoute s.folderRoutes F).bind (findFolderById s)

/-- The file the `file` route of a folder reaches. -/
def Folder.routedFile (g : Folder) (x : Name) : Option File :=
  if !g.fileGuard x then none
  else (lookupRoute g.fileRoutes x).bind (fun i => (g.files ++ g.deletedFiles).find? (fun f => f.id == i))

/-- The file `Folder.restore_file(name)` calls `restore()` on. -/
def Folder.restoreFileTouch (g : Folder) (n : Name) : List Nat :=
  match g.getFile n true with
  | some f => touch f
  | none => []

/-- The accesses of one loop of `_restoring_timestep` (the folder changes while the loop runs). -/
def restoreLoopTouch (fs : List File) (g : Folder) : Folder × List Nat :=
  fs.foldl (fun (a : Folder × List Nat) f => ((a.1.restoreFile f.name).1, a.2 ++ a.1.restoreFileTouch f.name)) (g, [])

/-- The accesses of `Folder.apply_timestep`: a completing scan scans every live file, a completing restore restores
every live file and then every deleted one by name. -/
def Folder.tickTouch (g : Folder) (scanCd : Int) : List Nat :=
  let a := if scanCd ≥ 0 ∧ scanCd - 1 = 0 then g.files.flatMap touch else []
  let b :=
    if g.restoreCountdown ≥ 0 ∧ g.restoreCountdown - 1 = 0 then
      let g1 := { g with restoreCountdown := g.restoreCountdown - 1 }
      let r1 := restoreLoopTouch g1.files g1
      let r2 := restoreLoopTouch r1.1.deletedFiles r1.1
      r1.2 ++ r2.2
    else []
  a ++ b

/-- The files whose `num_access` a request / tick increments (computed in the state BEFORE the operation). -/
def reqTouch (x : XState) : Op → List Nat
  | .createFile _ _ _ | .createFolder _ | .restoreFolder _ | .preTick => []
  | .deleteFile F n =>
    match getFile x.s F n with
    | some f => touch f
    | none => []
  | .deleteFolder F =>
    match getFolder x.s F with
    | some g => if F = "root" then [] else g.files.flatMap touch
    | none => []
  | .restoreFile F n =>
    match getFolder x.s F with
    | some g => g.restoreFileTouch n
    | none => []
  | .access F n =>
    match getFile x.s F n with
    | some f => [f.id]
    | none => []
  | .folderVerb F v =>
    match routedFolder x.s F with
    | some g =>
      match v with
      | .repair | .corrupt => if g.deleted then [] else g.files.flatMap touch
      | _ => []
    | none => []
  | .folderDelete F n =>
    match routedFolder x.s F with
    | some g =>
      match g.files.find? (fun f => f.name == n) with
      | some f => touch f
      | none => []
    | none => []
  | .fileVerb F n v =>
    match routedFolder x.s F with
    | some g =>
      match g.routedFile n with
      | some f => verbTouch f v
      | none => []
    | none => []
  | .fsFileVerb F n v =>
    match getFile x.s F n with
    | some f => verbTouch f v
    | none => []
  | .tick => x.s.folders.flatMap (fun g => g.tickTouch (x.scanCd g.id))

/-- `Folder.scan()` through the request: starts the countdown unless one is running. -/
def scanStart (x : XState) (F : Name) : Nat → Int :=
  match routedFolder x.s F with
  | some g =>
    if g.deleted then x.scanCd
    else fun i => if i = g.id then (if x.scanCd i ≤ 0 then max (x.scanDur i) 1 else x.scanCd i) else x.scanCd i
  | none => x.scanCd

/-- `create_folder` applies the default scan duration to the folder it returns (new or existing). -/
def durAfterCreate (x : XState) (g : Folder) : Nat → Int :=
  match x.defaultScan with
  | some d => fun i => if i = g.id then d else x.scanDur i
  | none => x.scanDur

/-- The folder `create_folder` is called for by a request, if any. -/
def reqCreates (s : State) : Op → Option Name
  | .createFolder F => some F
  | .createFile F n force =>
    if !force && (getFile s (if F = "" then "root" else F) n).isSome then none
    else if F ≠ "" ∧ (getFolder s F).isNone then some F else none
  | _ => none

def stepX (x : XState) (op : Op) : XState × Out :=
  let r := step x.s op
  let acc1 := bump x.acc (reqTouch x op)
  let acc2 : Nat → Nat :=
    match op with
    | .preTick => fun i => if x.s.folders.any (fun g => g.files.any (fun f => f.id == i)) then 0 else acc1 i
    | _ => acc1
  let cd : Nat → Int :=
    match op with
    | .folderVerb F .scan => scanStart x F
    | .tick => fun i => if x.s.folders.any (fun g => g.id == i) ∧ x.scanCd i ≥ 0 then x.scanCd i - 1 else x.scanCd i
    | _ => x.scanCd
  let dur : Nat → Int :=
    match reqCreates x.s op with
    | some F => durAfterCreate x (createFolder x.s F).2
    | none => x.scanDur
  ({ x with s := r.1, acc := acc2, scanCd := cd, scanDur := dur }, r.2)

/-- The live namesake a forced `add_file` removes (it is `delete()`d, which is an access). -/
def Folder.addForcedTouch (g : Folder) (f : File) : List Nat :=
  match g.getFile f.name with
  | some e => if e.id != f.id then touch e else []
  | none => []

def apiTouch (s : State) : ApiOp → List Nat
  | .createFile _ _ _ => []
  | .copyFile F n G =>
    match getFile s F n with
    | some f =>
      let r := getOrCreateFolder s G
      f.id :: r.2.addForcedTouch { f with id := r.1.next }
    | none => []
  | .moveFile F n G =>
    match getFile s F n with
    | some f => if ((getOrCreateFolder s G).2.getFile f.name).isSome then [] else [f.id]
    | none => []
  | .addFile F n force =>
    match getFolder s F with
    | some g =>
      match g.addFileApi { id := s.next, name := n } force with
      | some _ => g.addForcedTouch { id := s.next, name := n }
      | none => []
    | none => []
  | .deleteFileById i j =>
    match s.folders.find? (fun g => g.id == i) with
    | some g =>
      match g.files.find? (fun f => f.id == j) with
      | some f => reqTouch { s := s, acc := fun _ => 0, scanCd := fun _ => 0, scanDur := fun _ => 3, defaultScan := none } (.deleteFile g.name f.name)
      | none => []
    | none => []
  | .deleteFolderById i =>
    match s.folders.find? (fun g => g.id == i) with
    | some g => reqTouch { s := s, acc := fun _ => 0, scanCd := fun _ => 0, scanDur := fun _ => 3, defaultScan := none } (.deleteFolder g.name)
    | none => []
  | .removeFileById i j =>
    match s.folders.find? (fun g => g.id == i) with
    | some g =>
      match g.files.find? (fun f => f.id == j) with
      | some f => touch f
      | none => []
    | none => []

/-- The folder `create_folder` is called for by an API call, if any. -/
def apiCreates (s : State) : ApiOp → Option Name
  | .createFile F _ _ => if F ≠ "" ∧ (getFolder s F).isNone then some F else none
  | .copyFile F n G => if (getFile s F n).isSome ∧ (getFolder s G).isNone then some G else none
  | .moveFile F n G => if (getFile s F n).isSome ∧ (getFolder s G).isNone then some G else none
  | _ => none

def stepXApi (x : XState) (op : ApiOp) : XState × Out :=
  let r := stepApi x.s op
  let acc0 : Nat → Nat :=
    match op with
    | .copyFile F n G =>
      match getFile x.s F n with
      | some f => fun i => if i = (getOrCreateFolder x.s G).1.next then x.acc f.id else x.acc i
      | none => x.acc
    | _ => x.acc
  let dur : Nat → Int :=
    match apiCreates x.s op with
    | some F => durAfterCreate x (createFolder x.s F).2
    | none => x.scanDur
  ({ x with s := r.1, acc := bump acc0 (apiTouch x.s op), scanDur := dur }, r.2)

def stepXAny (x : XState) : AnyOp → XState × Out
  | .req op => stepX x op
  | .api op => stepXApi x op

/-! ### every request path gets an answer: truncated, over-long and unknown paths -/

/-- What a request path below `file_system` denotes: an operation (trailing extra elements are ignored by every leaf
handler), or — for a path that ends early or names an unknown request — the answer alone (the state is untouched).
`RequestManager.__call__` answers `unreachable` for an empty path or an unknown key, a validator answers `failure` when
the options it needs are missing, and a leaf handler that reads an option the request does not carry (`create file/folder`,
`restore file/folder`, `access`, `folder/F/delete` have no validator) is answered `failure` as well: handlers get their options as
`_RequestOptions`, whose out-of-range read raises `RequestOptionsError`, which `__call__` turns into a `failure` response (repair
F-C05-2; every such handler reads its options before it changes anything). No request path raises any more; `raised` remains
an outcome of the direct Python API only (`ApiOp`). -/
def resolve (s : State) : List String → Sum Op Out
  | [] => .inr .unreachable
  | "create" :: rest =>
    match rest with
    | [] => .inr .unreachable
    | "file" :: F :: x :: force :: _ => .inl (.createFile F x (force == "1"))
    | "file" :: _ => .inr .failure
    | "folder" :: F :: _ => .inl (.createFolder F)
    | "folder" :: _ => .inr .failure
    | _ => .inr .unreachable
  | "delete" :: rest =>
    match rest with
    | [] => .inr .unreachable
    | "file" :: F :: x :: _ => .inl (.deleteFile F x)
    | "file" :: _ => .inr .failure
    | "folder" :: F :: _ => .inl (.deleteFolder F)
    | "folder" :: _ => .inr .failure
    | _ => .inr .unreachable
  | "restore" :: rest =>
    match rest with
    | [] => .inr .unreachable
    | "file" :: F :: x :: _ => .inl (.restoreFile F x)
    | "file" :: _ => .inr .failure
    | "folder" :: F :: _ => .inl (.restoreFolder F)
    | "folder" :: _ => .inr .failure
    | _ => .inr .unreachable
  | "access" :: F :: x :: _ => .inl (.access F x)
  | "access" :: _ => .inr .failure
  | "folder" :: [] => .inr .failure
  | "folder" :: F :: rest =>
    match rest with
    | [] => .inl (.folderVerb F .other)
    | "delete" :: x :: _ => .inl (.folderDelete F x)
    | "delete" :: [] => .inr (viaFolder s F (fun g => some (g, .failure))).2
    | "file" :: [] => .inr (viaFolder s F (fun g => some (g, .failure))).2
    | "file" :: x :: [] => .inl (.fileVerb F x .other)
    | "file" :: x :: v :: _ => .inl (.fileVerb F x (verbOf v))
    | v :: _ => .inl (.folderVerb F (verbOf v))
  | "file" :: F :: x :: [] => .inl (.fsFileVerb F x .other)
  | "file" :: F :: x :: v :: _ => .inl (.fsFileVerb F x (verbOf v))
  | "file" :: _ => .inr .failure
  | _ => .inr .unreachable

end Primaite.FileSystem
