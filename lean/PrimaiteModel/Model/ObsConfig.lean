/-
Construction of the observation objects from what the SCENARIO FILE says (C02 / C09).

`Model/Obs.lean` models the constructed objects.  This file models how they come to be:

* the `ConfigSchema`s as the scenario file fills them (`Fld α`: absent / explicit `null` / value) and their defaults;
* `NodesObservation.from_config`: the push-down of every nodes-level option into hosts / routers / firewalls
  (`if child.x is None: child.x = parent.x`, `if not child.thresholds: …`) and the `force_optional_fields` validator;
* `HostObservation.from_config` / `FolderObservation.from_config`: the UNCONDITIONAL overwrite of the children's own options,
  the automatically numbered NICs; `RouterObservation.from_config`: ACL sub-configuration, automatically numbered ports;
* every `__init__`: padding with `where=None` objects and truncation to `num_*` (`padTo`), Python truthiness of the stored flags;
* `NestedObservation.from_config` (thresholds handed to every component).

Where Python raises during construction (`len(x) < None`, `range(None)`, `dict.fromkeys(None)`, the validator) the result is `none`.
Core Lean only.
-/
import PrimaiteModel.Model.Obs
namespace Primaite.Obs

/-- A field of a ConfigSchema as the scenario gives it: absent (`none`), explicit `null` (`some none`), or a value. -/
abbrev Fld (α : Type) := Option (Option α)

/-- pydantic: an absent field takes the schema default `d` -/
def fld {α} (d : Option α) (f : Fld α) : Option α :=
  match f with
  | none => d
  | some v => v

/-- `if child.x is None: child.x = parent.x` -/
def inherit {α} (own parent : Option α) : Option α :=
  match own with
  | some v => some v
  | none => parent

/-- truthiness of a stored `Optional[bool]` (`if self.flag:`): `None` is false -/
def pyTruthy (b : Option Bool) : Bool :=
  match b with
  | some v => v
  | none => false

/-- `monitored_traffic` after validation: protocol (lower case) ↦ ports -/
abbrev Traffic := List (String × List Nat)

/-- `if self.monitored_traffic:` — `None` and `{}` both mean "nothing monitored" -/
def trafficOf (t : Option Traffic) : Traffic :=
  match t with
  | some v => v
  | none => []

/-! ## thresholds -/

/-- a non-empty `thresholds` dictionary: the three entries the observations look up (`.get(k) is None` → class defaults) -/
structure ThrD where
  app : Option Thr := none
  file : Option Thr := none
  nmne : Option Thr := none
  deriving Repr

/-- `none` = `{}` (falsy) -/
abbrev ThrCfg := Option ThrD

def thrDefault : Thr := {}

def thrApp (t : ThrCfg) : Thr :=
  match t with
  | some d => (match d.app with | some x => x | none => thrDefault)
  | none => thrDefault
def thrFile (t : ThrCfg) : Thr :=
  match t with
  | some d => (match d.file with | some x => x | none => thrDefault)
  | none => thrDefault
def thrNmne (t : ThrCfg) : Thr :=
  match t with
  | some d => (match d.nmne with | some x => x | none => thrDefault)
  | none => thrDefault

/-- `if not child.thresholds: child.thresholds = parent.thresholds` -/
def inheritThr (own parent : ThrCfg) : ThrCfg :=
  match own with
  | some d => some d
  | none => parent

/-! ## the schemas as written in the scenario -/

structure SvcCfg where
  name : String
  /-- own `services_requires_scan` (overwritten by the host, see `HostCfg.obs`) -/
  scan : Fld Bool := none
  deriving Repr

structure AppCfg where
  name : String
  scan : Fld Bool := none
  deriving Repr

structure FileCfg where
  name : String
  numAccess : Fld Bool := none
  scan : Fld Bool := none
  deriving Repr

structure FolderCfg where
  name : String
  files : List FileCfg := []
  numFiles : Fld Nat := none
  numAccess : Fld Bool := none
  scan : Fld Bool := none
  deriving Repr

structure NicCfg where
  num : Nat
  includeNmne : Fld Bool := none
  /-- the interface's OWN `monitored_traffic`: the one option of a configured child that the host does not overwrite -/
  traffic : Fld Traffic := none
  deriving Repr

structure HostCfg where
  hostname : String
  services : List SvcCfg := []
  apps : List AppCfg := []
  folders : List FolderCfg := []
  nics : List NicCfg := []
  numServices : Fld Nat := none
  numApps : Fld Nat := none
  numFolders : Fld Nat := none
  numFiles : Fld Nat := none
  numNics : Fld Nat := none
  includeNmne : Fld Bool := none
  traffic : Fld Traffic := none
  numAccess : Fld Bool := none
  fsScan : Fld Bool := none
  svcScan : Fld Bool := none
  appScan : Fld Bool := none
  users : Fld Bool := none
  thr : ThrCfg := none
  deriving Repr

structure AclCfg where
  ips : Fld (List String) := none
  wcs : Fld (List String) := none
  ports : Fld (List Nat) := none
  protos : Fld (List String) := none
  numRules : Fld Nat := none
  deriving Repr

structure RouterCfg where
  hostname : String
  /-- `ports:` — the `port_id`s of the listed port observations -/
  portIds : Fld (List Nat) := none
  numPorts : Fld Nat := none
  acl : Fld AclCfg := none
  ips : Fld (List String) := none
  wcs : Fld (List String) := none
  ports : Fld (List Nat) := none
  protos : Fld (List String) := none
  numRules : Fld Nat := none
  users : Fld Bool := none
  deriving Repr

structure FirewallCfg where
  hostname : String
  ips : Fld (List String) := none
  wcs : Fld (List String) := none
  ports : Fld (List Nat) := none
  protos : Fld (List String) := none
  numRules : Fld Nat := none
  users : Fld Bool := none
  deriving Repr

structure NodesCfg where
  hosts : List HostCfg := []
  routers : List RouterCfg := []
  firewalls : List FirewallCfg := []
  numServices : Fld Nat := none
  numApps : Fld Nat := none
  numFolders : Fld Nat := none
  numFiles : Fld Nat := none
  numNics : Fld Nat := none
  includeNmne : Fld Bool := none
  traffic : Fld Traffic := none
  numAccess : Fld Bool := none
  /-- `file_system_requires_scan: bool = True` — not Optional: absent or a value -/
  fsScan : Option Bool := none
  svcScan : Option Bool := none
  appScan : Option Bool := none
  users : Fld Bool := none
  numPorts : Fld Nat := none
  ips : Fld (List String) := none
  wcs : Fld (List String) := none
  ports : Fld (List Nat) := none
  protos : Fld (List String) := none
  numRules : Fld Nat := none
  deriving Repr

/-! ## schema defaults (tied to the source by `C09_gen_schema_defaults`) -/

/-- `NodesObservation.ConfigSchema.{file_system,services,applications}_requires_scan : bool = True` -/
def nodesScanDefault : Bool := true
/-- `NodesObservation.ConfigSchema.include_users : Optional[bool] = True` -/
def nodesUsersDefault : Option Bool := some true
/-- `HostObservation.ConfigSchema.include_users : Optional[bool] = None` (since the F-C09-3 repair; it was `True`, which made the
nodes-level value unreachable) -/
def hostUsersDefault : Option Bool := none
/-- every other Optional field of every observation ConfigSchema defaults to `None` -/
def noDefault {α} : Option α := none

/-- `bool = True` field: the value when given, else the default -/
def scanOf (b : Option Bool) : Bool :=
  match b with
  | some v => v
  | none => nodesScanDefault

/-! ## NodesObservation.from_config: what a host / router / firewall configuration holds after the push-down -/

structure HostEff where
  numServices : Option Nat
  numApps : Option Nat
  numFolders : Option Nat
  numFiles : Option Nat
  numNics : Option Nat
  includeNmne : Option Bool
  traffic : Option Traffic
  numAccess : Option Bool
  fsScan : Option Bool
  svcScan : Option Bool
  appScan : Option Bool
  users : Option Bool
  thr : ThrCfg
  deriving Repr

def HostCfg.eff (thr : ThrCfg) (c : NodesCfg) (h : HostCfg) : HostEff :=
  { numServices := inherit (fld noDefault h.numServices) (fld noDefault c.numServices)
    numApps := inherit (fld noDefault h.numApps) (fld noDefault c.numApps)
    numFolders := inherit (fld noDefault h.numFolders) (fld noDefault c.numFolders)
    numFiles := inherit (fld noDefault h.numFiles) (fld noDefault c.numFiles)
    numNics := inherit (fld noDefault h.numNics) (fld noDefault c.numNics)
    includeNmne := inherit (fld noDefault h.includeNmne) (fld noDefault c.includeNmne)
    traffic := inherit (fld noDefault h.traffic) (fld noDefault c.traffic)
    numAccess := inherit (fld noDefault h.numAccess) (fld noDefault c.numAccess)
    fsScan := inherit (fld noDefault h.fsScan) (some (scanOf c.fsScan))
    svcScan := inherit (fld noDefault h.svcScan) (some (scanOf c.svcScan))
    appScan := inherit (fld noDefault h.appScan) (some (scanOf c.appScan))
    users := inherit (fld hostUsersDefault h.users) (fld nodesUsersDefault c.users)
    thr := inheritThr h.thr thr }

/-! ## HostObservation.from_config + `__init__` -/

def FolderCfg.obs (host : String) (e : HostEff) (numFiles : Nat) (f : FolderCfg) : FolderObs :=
  let na := pyTruthy e.numAccess
  let sc := pyTruthy e.fsScan
  let t := thrFile e.thr
  { wh := some (host, f.name), scan := sc, cached := 0,
    files := padTo numFiles ({ wh := none, numAccess := na, scan := sc, thr := t } : FileObs)
      (f.files.map (fun x => ({ wh := some (host, f.name, x.name), numAccess := na, scan := sc, thr := t } : FileObs))) }

/-- the padding folder of `HostObservation.__init__` (no thresholds are handed to it) -/
def padFolder (e : HostEff) (numFiles : Nat) : FolderObs :=
  { wh := none, scan := pyTruthy e.fsScan, cached := 0,
    files := List.replicate numFiles
      ({ wh := none, numAccess := pyTruthy e.numAccess, scan := pyTruthy e.fsScan, thr := thrDefault } : FileObs) }

def NicCfg.obs (host : String) (e : HostEff) (n : NicCfg) : NicObs :=
  { wh := some (host, n.num), includeNmne := pyTruthy e.includeNmne, traffic := trafficOf (fld noDefault n.traffic),
    thr := thrNmne e.thr }

/-- the interfaces `from_config` adds while fewer than `num_nics` are listed: numbered 1, 2, … with the HOST's monitored traffic -/
def autoNics (host : String) (e : HostEff) (k : Nat) : List NicObs :=
  (rangeFrom 1 k).map (fun i =>
    ({ wh := some (host, i), includeNmne := pyTruthy e.includeNmne, traffic := trafficOf e.traffic, thr := thrNmne e.thr } : NicObs))

def padNic (e : HostEff) : NicObs :=
  { wh := none, includeNmne := pyTruthy e.includeNmne, traffic := trafficOf e.traffic, thr := thrDefault }

def HostCfg.obs (h : HostCfg) (e : HostEff) (ns na nf nfi nn : Nat) : HostObs :=
  { wh := some h.hostname
    services := padTo ns ({ wh := none, scan := pyTruthy e.svcScan } : ServiceObs)
      (h.services.map (fun s => ({ wh := some (h.hostname, s.name), scan := pyTruthy e.svcScan } : ServiceObs)))
    apps := padTo na ({ wh := none, scan := pyTruthy e.appScan, thr := thrDefault } : AppObs)
      (h.apps.map (fun a => ({ wh := some (h.hostname, a.name), scan := pyTruthy e.appScan, thr := thrApp e.thr } : AppObs)))
    folders := padTo nf (padFolder e nfi) (h.folders.map (FolderCfg.obs h.hostname e nfi))
    nics := padTo nn (padNic e)
      (h.nics.map (NicCfg.obs h.hostname e) ++ autoNics h.hostname e (nn - h.nics.length))
    numAccess := pyTruthy e.numAccess
    users := pyTruthy e.users }

/-- `none`: a count is still `None` after the push-down (`len(x) < None` raises TypeError) -/
def HostCfg.build (thr : ThrCfg) (c : NodesCfg) (h : HostCfg) : Option HostObs :=
  match (h.eff thr c).numServices, (h.eff thr c).numApps, (h.eff thr c).numFolders, (h.eff thr c).numFiles, (h.eff thr c).numNics with
  | some ns, some na, some nf, some nfi, some nn => some (h.obs (h.eff thr c) ns na nf nfi nn)
  | _, _, _, _, _ => none

/-! ## RouterObservation.from_config + `__init__` -/

structure RouterEff where
  numPorts : Option Nat
  ips : Option (List String)
  wcs : Option (List String)
  ports : Option (List Nat)
  protos : Option (List String)
  numRules : Option Nat
  users : Option Bool
  deriving Repr

def RouterCfg.eff (c : NodesCfg) (r : RouterCfg) : RouterEff :=
  { numPorts := inherit (fld noDefault r.numPorts) (fld noDefault c.numPorts)
    ips := inherit (fld noDefault r.ips) (fld noDefault c.ips)
    wcs := inherit (fld noDefault r.wcs) (fld noDefault c.wcs)
    ports := inherit (fld noDefault r.ports) (fld noDefault c.ports)
    protos := inherit (fld noDefault r.protos) (fld noDefault c.protos)
    numRules := inherit (fld noDefault r.numRules) (fld noDefault c.numRules)
    users := inherit (fld noDefault r.users) (fld nodesUsersDefault c.users) }

/-- `if config.acl is None: config.acl = ACLObservation.ConfigSchema()`, then each ACL option falls back to the router's -/
def RouterCfg.aclEff (r : RouterCfg) (e : RouterEff) : RouterEff :=
  let a : AclCfg := match fld noDefault r.acl with
    | some a => a
    | none => {}
  { e with
    ips := inherit (fld noDefault a.ips) e.ips
    wcs := inherit (fld noDefault a.wcs) e.wcs
    ports := inherit (fld noDefault a.ports) e.ports
    protos := inherit (fld noDefault a.protos) e.protos
    numRules := inherit (fld noDefault a.numRules) e.numRules }

/-- the listed ports, or `[PortObservation.ConfigSchema(port_id=i + 1) for i in range(num_ports)]` when `ports` is not given -/
def RouterCfg.listed (r : RouterCfg) (np : Nat) : List Nat :=
  match fld noDefault r.portIds with
  | some ids => ids
  | none => rangeFrom 1 np

def RouterCfg.build (c : NodesCfg) (r : RouterCfg) : Option RouterObs :=
  match (r.eff c).numPorts, (r.aclEff (r.eff c)).ips, (r.aclEff (r.eff c)).wcs, (r.aclEff (r.eff c)).ports,
        (r.aclEff (r.eff c)).protos, (r.aclEff (r.eff c)).numRules with
  | some np, some ips, some wcs, some ports, some protos, some nr =>
    some { wh := some r.hostname
           ports := padTo np ({ wh := none } : PortObs) ((r.listed np).map (fun i => ({ wh := some (r.hostname, i) } : PortObs)))
           acl := AclObs.fromConfig (some (r.hostname, "acl")) nr ips wcs ports protos
           users := pyTruthy (r.eff c).users }
  | _, _, _, _, _, _ => none

/-! ## FirewallObservation.from_config -/

def FirewallCfg.build (c : NodesCfg) (f : FirewallCfg) : Option FirewallObs :=
  match inherit (fld noDefault f.ips) (fld noDefault c.ips), inherit (fld noDefault f.wcs) (fld noDefault c.wcs),
        inherit (fld noDefault f.ports) (fld noDefault c.ports), inherit (fld noDefault f.protos) (fld noDefault c.protos),
        inherit (fld noDefault f.numRules) (fld noDefault c.numRules) with
  | some ips, some wcs, some ports, some protos, some nr =>
    some { wh := f.hostname, numRules := nr, ips := ips, wcs := wcs, ports := ports, protos := protos,
           users := pyTruthy (inherit (fld noDefault f.users) (fld nodesUsersDefault c.users)) }
  | _, _, _, _, _ => none

/-! ## NodesObservation: validator and construction -/

/-- `force_optional_fields`: with hosts (routers, firewalls) listed, their shared options must all be given at nodes level -/
def NodesCfg.valid (c : NodesCfg) : Bool :=
  (c.hosts.isEmpty ||
    ((fld noDefault c.numServices).isSome && (fld noDefault c.numApps).isSome && (fld noDefault c.numFolders).isSome &&
     (fld noDefault c.numFiles).isSome && (fld noDefault c.numNics).isSome && (fld noDefault c.includeNmne).isSome &&
     (fld noDefault c.numAccess).isSome)) &&
  (c.routers.isEmpty ||
    ((fld noDefault c.numPorts).isSome && (fld noDefault c.ips).isSome && (fld noDefault c.wcs).isSome &&
     (fld noDefault c.ports).isSome && (fld noDefault c.protos).isSome && (fld noDefault c.numRules).isSome)) &&
  (c.firewalls.isEmpty ||
    ((fld noDefault c.ips).isSome && (fld noDefault c.wcs).isSome && (fld noDefault c.ports).isSome &&
     (fld noDefault c.protos).isSome && (fld noDefault c.numRules).isSome))

/-- `[f(x) for x in xs]` where `f` may raise -/
def allSome {α β} (f : α → Option β) : List α → Option (List β)
  | [] => some []
  | x :: xs =>
    match f x, allSome f xs with
    | some y, some ys => some (y :: ys)
    | _, _ => none

def NodesCfg.build (thr : ThrCfg) (c : NodesCfg) : Option NodesObs :=
  if c.valid then
    match allSome (HostCfg.build thr c) c.hosts, allSome (RouterCfg.build c) c.routers, allSome (FirewallCfg.build c) c.firewalls with
    | some hs, some rs, some fs => some { hosts := hs, routers := rs, firewalls := fs }
    | _, _, _ => none
  else none

/-! ## the whole observation space of an agent -/

inductive RawObs where
  | null
  | nodes (c : NodesCfg)
  | links (refs : List (String × String))
  | nested (cs : List (String × RawObs))

mutual
/-- `ObservationManager.obs` for the agent's `observation_space` with the game's `thresholds` -/
def RawObs.build (thr : ThrCfg) : RawObs → Option Obs
  | .null => some .null
  | .nodes c => (c.build thr).map Obs.nodes
  | .links refs => some (.links (refs.map (fun r => ({ a := r.1, b := r.2 } : LinkObs))))
  | .nested cs => (RawObs.buildL thr cs).map Obs.nested
def RawObs.buildL (thr : ThrCfg) : List (String × RawObs) → Option (List (String × Obs))
  | [] => some []
  | c :: cs =>
    match c.2.build thr, RawObs.buildL thr cs with
    | some o, some os => some ((c.1, o) :: os)
    | _, _ => none
end

/-! ## threshold validation (`AbstractObservation._validate_thresholds`, reached from the constructors' setters)

Every `ApplicationObservation` / `FileObservation` / `NICObservation` that is constructed with a `thresholds` dictionary holding its
key (`app_executions` / `file_access` / `nmne`) hands `[low, medium, high]` to `_validate_thresholds`, which RAISES unless the
triple is strictly ascending; a component constructed without the key (padding slots: no dictionary is handed on) takes the class
defaults 0 / 5 / 10.  So the construction of a whole tree succeeds exactly when the triple held by EVERY constructed component is
strictly ascending (`Obs.thrValid`; the defaults are).  `Gen/ObsTables.validateThresholds` is the translated method body,
`C09_gen_validate_thresholds` proves it equal to `Thr.valid` on every triple. -/

def Thr.valid (t : Thr) : Bool := decide (t.low < t.med) && decide (t.med < t.high)

def HostObs.thrValid (o : HostObs) : Bool :=
  o.apps.all (fun a => a.thr.valid) && o.folders.all (fun f => f.files.all (fun x => x.thr.valid)) && o.nics.all (fun n => n.thr.valid)

mutual
def Obs.thrValid : Obs → Bool
  | .app o => o.thr.valid
  | .file o => o.thr.valid
  | .nic o => o.thr.valid
  | .folder o => o.files.all (fun x => x.thr.valid)
  | .host o => o.thrValid
  | .nodes o => o.hosts.all (fun h => h.thrValid)
  | .nested cs => Obs.thrValidL cs
  | _ => true
def Obs.thrValidL : List (String × Obs) → Bool
  | [] => true
  | c :: cs => c.2.thrValid && Obs.thrValidL cs
end

/-- the validation happens where components are CONSTRUCTED — before `HostObservation.__init__` truncates its lists to `num_*`: every
listed application is constructed with the host's thresholds (so one listed application suffices, even with `num_applications: 0`),
every listed folder constructs its listed files and its padding files with them, every listed and every automatically added
interface likewise; the host's own padding slots are constructed without a thresholds dictionary -/
def HostCfg.ctorThrValid (h : HostCfg) (e : HostEff) : Bool :=
  (h.apps.isEmpty || (thrApp e.thr).valid) &&
  h.folders.all (fun f => (f.files.isEmpty && e.numFiles.getD 0 == 0) || (thrFile e.thr).valid) &&
  ((h.nics.isEmpty && e.numNics.getD 0 == 0) || (thrNmne e.thr).valid)

def NodesCfg.ctorThrValid (thr : ThrCfg) (c : NodesCfg) : Bool := c.hosts.all (fun h => h.ctorThrValid (h.eff thr c))

mutual
def RawObs.ctorThrValid (thr : ThrCfg) : RawObs → Bool
  | .nodes c => c.ctorThrValid thr
  | .nested cs => RawObs.ctorThrValidL thr cs
  | _ => true
def RawObs.ctorThrValidL (thr : ThrCfg) : List (String × RawObs) → Bool
  | [] => true
  | c :: cs => c.2.ctorThrValid thr && RawObs.ctorThrValidL thr cs
end

/-- `ObservationManager(config).obs` INCLUDING the constructors' threshold validation: `none` when a schema / constructor refuses
the section (`RawObs.build`) or when some component is CONSTRUCTED (kept or truncated away afterwards) with a threshold triple
that is not strictly ascending -/
def RawObs.buildV (thr : ThrCfg) (r : RawObs) : Option Obs :=
  match r.build thr with
  | some o => if r.ctorThrValid thr then some o else none
  | none => none

/-! ## gymnasium `flatten` / `flatten_space` on Discrete / Dict trees (trusted library, modelled to state what it gives)

`flatten` concatenates the children of a `Dict` in the order of the space, a `Discrete(n)` leaf becomes a one-hot vector of length
`n`.  A key of the space that the value lacks makes Python raise KeyError: `none`.  A `Dict` WITHOUT any sub-space cannot be
flattened at all (`np.concatenate([])` raises ValueError, in `flatten` and in `flatten_space` alike): `none` / not `flattenable`. -/

def oneHot (n i : Nat) : List Nat := (List.range n).map (fun j => if j = i then 1 else 0)

mutual
/-- no empty `Dict` anywhere inside: the spaces gymnasium can flatten -/
def Space.flattenable : Space → Bool
  | .discrete _ => true
  | .dict kvs => !kvs.isEmpty && flattenableL kvs
def flattenableL : List (Key × Space) → Bool
  | [] => true
  | p :: rest => p.2.flattenable && flattenableL rest
end

mutual
def flatDim : Space → Nat
  | .discrete n => n
  | .dict kvs => flatDimL kvs
def flatDimL : List (Key × Space) → Nat
  | [] => 0
  | p :: rest => flatDim p.2 + flatDimL rest
end

mutual
def flatten : Space → Val → Option (List Nat)
  | .discrete n, .int i => some (oneHot n i)
  | .dict ss, .dict vs => if ss.isEmpty then none else flattenL ss vs
  | _, _ => none
def flattenL : List (Key × Space) → List (Key × Val) → Option (List Nat)
  | [], _ => some []
  | p :: rest, vs =>
    match lookupK p.1 vs with
    | none => none
    | some v =>
      match flatten p.2 v, flattenL rest vs with
      | some a, some b => some (a ++ b)
      | _, _ => none
end

/-! ## PrimaiteGymEnv: which space is "declared" at which moment

`reset` rebuilds the game from the scheduler's configuration of the new episode; `observation_space` and `_get_obs` both go
through the CURRENT agent (`Gen/ObsCfgTables.env*`).  An episode is modelled by the agent's raw observation configuration and
flatten flag, and by the states its observation manager is updated with. -/

structure EpisodeCfg where
  raw : RawObs
  thr : ThrCfg
  flat : Bool

/-- what the environment hands out: the nested value, or its flattening -/
inductive ApiObs where
  | nested (v : Val)
  | flat (x : List Nat)
  | raised

/-- `env.observation_space` read while the agent built from `e` is current: the nested space, or (flattened) a Box of this length;
`raised` when `flatten_space` cannot flatten the nested space -/
inductive ApiSpace where
  | nested (s : Space)
  | box (n : Nat)
  | raised
  deriving Inhabited

def EpisodeCfg.space (e : EpisodeCfg) (o : Obs) : ApiSpace :=
  if e.flat then (if o.space.flattenable then .box (flatDim o.space) else .raised) else .nested o.space

/-- `ProxyAgent.model_post_init` (since the F-C02-2 repair): an agent whose observations are to be flattened refuses, when it is
built, an observation space that contains a dictionary without entries (`_has_empty_dict`) -/
def EpisodeCfg.accepts (e : EpisodeCfg) (o : Obs) : Bool := !e.flat || o.space.flattenable

/-- the agent's observation object for this episode, or `none` when the configuration is rejected (by an observation schema /
constructor, or by the flatten guard) -/
def EpisodeCfg.build (e : EpisodeCfg) : Option Obs :=
  match e.raw.buildV e.thr with
  | some o => if e.accepts o then some o else none
  | none => none

def EpisodeCfg.getObs (e : EpisodeCfg) (o : Obs) (v : Val) : ApiObs :=
  if e.flat then
    match flatten o.space v with
    | some x => .flat x
    | none => .raised
  else .nested v

def ApiSpace.has : ApiSpace → ApiObs → Bool
  | .nested s, .nested v => contains s v
  | .box n, .flat x => x.length == n && x.all (fun b => b ≤ 1)
  | _, _ => false

/-- the observations handed out during one episode (reset, then one per step): `update_agents` lets the observation manager
observe (the object advances), then `_get_obs` flattens against the space of the object as it is NOW -/
def EpisodeCfg.run (e : EpisodeCfg) : Obs → List SimState → List ApiObs
  | _, [] => []
  | o, st :: rest => e.getObs (o.next st) (o.val st) :: EpisodeCfg.run e (o.next st) rest

end Primaite.Obs
