/-
Element models for C06 (blocking is effective): what an interface, a host, a switch, a router and a firewall
do with an arriving frame *before* any software sees it — the order of the guards, which rule list is asked
on which branch, and where the verdict sits relative to ARP learning, delivery to the session manager and
forwarding.

Sources modelled (src/primaite/simulator/network/hardware):
  base.py                 WiredNetworkInterface.send_frame, Node.receive_frame
  nodes/host/host_node.py NIC.receive_frame, HostNode.receive_frame
  nodes/network/switch.py SwitchPort.receive_frame, Switch.receive_frame
  nodes/network/router.py RouterInterface.receive_frame, Router.subject_to_acl, Router.receive_frame
  nodes/network/firewall.py Firewall.receive_frame, Firewall._process_*_frame

Everything *above* that layer (ARP cache and resolution, the session manager, services and applications,
`process_frame`/`route_frame`, the switch's MAC table) is an arbitrary parameter `Soft`: a family of scripts
over an opaque software state `W`.  The theorems of Props/C06.lean hold for every `Soft`.
Core Lean only.
-/
import PrimaiteModel.Model.Acl
import PrimaiteModel.Model.Cut
namespace Primaite.Filter
open Primaite Primaite.Acl Primaite.Cut

abbrev Mac := Nat
/-- `ff:ff:ff:ff:ff:ff` -/
def bcastMac : Mac := 0xffffffffffff
/-- `PORT_LOOKUP["ARP"]` -/
def arpPort : Nat := 219

/-- What the filtering layer reads from a `Frame`.  `pkt` is exactly what `ACLRule.permit_frame_check` reads
(Model/Acl.lean).  `arp` = "the payload is an `ARPPacket`" (then `arpReq`, `arpSnd`, `arpTgt` are its request flag,
sender and target address).  `tag` stands for the rest of the payload. -/
structure Frame where
  srcMac : Mac
  dstMac : Mac
  pkt : Packet
  ttl : Nat
  arp : Bool
  tag : Nat
  /-- the `ARPPacket` payload, meaningful when `arp`: `request`, `sender_ip_address`, `target_ip_address` -/
  arpReq : Bool := false
  arpSnd : Ip := 0
  arpTgt : Ip := 0
deriving DecidableEq, Repr

/-- `enabled`, MAC, and (layer-3 interfaces) address and subnet mask. Switch ports carry `ip = mask = 0`. -/
structure Iface where
  enabled : Bool
  mac : Mac
  ip : Ip
  mask : Ip
deriving DecidableEq, Repr

/-- `addr in iface.ip_network` -/
def Iface.inNet (i : Iface) (a : Ip) : Bool := (a &&& i.mask) == (i.ip &&& i.mask)
/-- `iface.ip_network.broadcast_address` -/
def Iface.bcastAddr (i : Iface) : Ip := i.ip ||| ~~~i.mask

inductive Kind | host | switch | router | firewall
deriving DecidableEq, Repr

/-- The rule lists a node owns. A router has `router`; a firewall additionally has the six zone lists
(its inherited `router` list exists but is never consulted by `Firewall.receive_frame`). -/
inductive AclId | router | intIn | intOut | dmzIn | dmzOut | extIn | extOut
deriving DecidableEq, Repr

/-- A node as the filtering layer sees it. `sw : W` is everything else (opaque). -/
structure Node (W : Type) where
  kind : Kind
  /-- `operating_state == NodeOperatingState.ON` -/
  on : Bool
  /-- port `p` (0-based; Python's `network_interface[p+1]`) -/
  ifaces : List Iface
  acls : AclId → Acl
  sw : W

def Node.setAcl {W} (s : Node W) (a : AclId) (x : Acl) : Node W :=
  { s with acls := fun b => if b = a then x else s.acls b }

/-- `network_interface.enabled` for the interface-send layer; a port that does not exist cannot send. -/
def portEnabled {W} (s : Node W) (q : Nat) : Bool :=
  match s.ifaces[q]? with
  | some i => i.enabled
  | none => false

/-! ### interface receive -/

/-- Outcome of `X.receive_frame` at the interface, before the node sees the frame. -/
inductive Gate
  | disabled       -- `if self.enabled:` false → `return False`
  | ttlExpired     -- `frame.decrement_ttl(); if frame.ip.ttl < 1: return False`
  | notAddressed   -- wrong MAC / broadcast not for this address → `return False`
  | up (f : Frame) -- handed to `self._connected_node.receive_frame` (TTL already decremented)
deriving DecidableEq, Repr

/-- `NIC.receive_frame` (host), `SwitchPort.receive_frame`, `RouterInterface.receive_frame` (router, firewall).
`ifaces` = all interfaces of the node: a host NIC accepts a unicast frame only when it is for the NIC's MAC *and*
for an IP address of the host (`Node.ip_is_network_interface`, any interface, enabled or not — C08's repair). -/
def ifaceRx (k : Kind) (ifaces : List Iface) (i : Iface) (f : Frame) : Gate :=
  if !i.enabled then .disabled else
  let f' := { f with ttl := f.ttl - 1 }
  if f'.ttl < 1 then .ttlExpired else
  match k with
  | .switch => .up f'
  | .router | .firewall =>
    if f.dstMac == i.mac || f.dstMac == bcastMac then .up f' else .notAddressed
  | .host =>
    if f.dstMac == bcastMac then
      (if f.pkt.dstIp == i.ip || f.pkt.dstIp == i.bcastAddr then .up f' else .notAddressed)
    else if f.dstMac == i.mac && ifaces.any (fun j => j.ip == f.pkt.dstIp) then .up f' else .notAddressed

/-! ### the software layer, abstract -/

abbrev Script (W : Type) := Act (Node W) Nat Frame

/-- Everything above the filtering layer.  Emissions inside these scripts are *attempts*: the element
handler wraps them in `guardSends portEnabled` (= `send_frame`'s `if not self.enabled: return False`). -/
structure Soft (W : Type) where
  /-- `NetworkInterface.receive_frame` of a host NIC: traffic / NMNE capture -/
  capture : Node W → Nat → Frame → W
  /-- `arp.add_arp_cache_entry(src_ip, src_mac, from_interface)` -/
  learn : Node W → Nat → Frame → W
  /-- `HostNode.receive_frame`: `frame.icmp or dst_port in open ports or accept_nmap` -/
  hostAccept : Node W → Frame → Bool
  /-- `Router.check_send_frame_to_session_manager` -/
  toSession : Node W → Frame → Bool
  /-- `session_manager.receive_frame` and everything it triggers (services, applications, replies) -/
  session : Node W → Nat → Frame → Script W
  /-- `Router.process_frame` (+ `route_frame`, nested ARP resolution, forwarding) -/
  process : Node W → Nat → Frame → Script W
  /-- the ARP / route-table look-ups of `_process_dmz_outbound_frame` (may emit ARP requests) … -/
  dmzLookup : Node W → Nat → Frame → Script W
  /-- … and the outbound port they resolve to, read from the state afterwards -/
  dmzOutNic : Node W → Frame → Option Nat
  /-- `Switch.receive_frame`: MAC learning, forward or flood -/
  switchFwd : Node W → Nat → Frame → Script W

variable {W : Type}

/-! ### host, switch -/

/-- `NIC.receive_frame` tail + `Node.receive_frame` + `HostNode.receive_frame`.
`Node.receive_frame` learns the ARP entry only when ON — but its `else: return` returns from the *super* call
only: `HostNode.receive_frame` goes on to the accept test whatever the operating state (F-13). -/
def hostRx (soft : Soft W) (s : Node W) (p : Nat) (f : Frame) : Script W :=
  let s0 := { s with sw := soft.capture s p f }
  let s1 := if s0.on then { s0 with sw := soft.learn s0 p f } else s0
  if soft.hostAccept s1 f then soft.session s1 p f else .done s1

/-- `Switch.receive_frame`: no operating-state test (F-13). -/
def switchRx (soft : Soft W) (s : Node W) (p : Nat) (f : Frame) : Script W :=
  soft.switchFwd s p f

/-! ### router -/

/-- `Router.subject_to_acl` (after the repair of F-33): only a UDP frame to the ARP port *that carries an ARP
packet* is exempt.  `none` = Python raises (`frame.udp` is `None` on a frame whose IP protocol says UDP; not
constructible through the session manager). -/
def subjectToAcl (f : Frame) : Option Bool :=
  if f.pkt.proto == .udp then
    match f.pkt.ports with
    | none => none
    | some (_, d) => some (!(d == arpPort && f.arp))
  else some true

/-- The test as it was on the unchanged tree: every UDP frame to port 219 skipped the rule list. -/
def subjectToAclUnfixed (f : Frame) : Option Bool :=
  if f.pkt.proto == .udp then
    match f.pkt.ports with
    | none => none
    | some (_, d) => some (!(d == arpPort))
  else some true

/-- `Router.check_send_frame_to_session_manager` (inherited unchanged by `Firewall`) as a function of the three facts it
reads: `own` = the destination address is the address of one of the device's interfaces (enabled or not), `icmp` = the
frame carries an ICMP packet, `isOpen` = its TCP/UDP destination port is in `software_manager.get_open_ports()`.
Tied to the source expression (Python's own parse, hence Python's precedence) by `C06_gen_toSession`. -/
def toSessionDecision (own icmp isOpen : Bool) : Bool := own && (icmp || isOpen)

/-- `Router.ip_is_router_interface(ip)` with `enabled_only=False` -/
def isOwnIp (s : Node W) (ip : Ip) : Bool := s.ifaces.any (fun j => j.ip == ip)

/-- `dst_port in open_ports`, where `dst_port` is the TCP / UDP destination port and `None` otherwise -/
def dstPortOpen (openPorts : List Nat) (f : Frame) : Bool :=
  match f.pkt.proto, f.pkt.ports with
  | .tcp, some (_, d) => openPorts.contains d
  | .udp, some (_, d) => openPorts.contains d
  | _, _ => false

/-- the decision as the code takes it; the set of open ports is read from the (opaque) software state -/
def stdToSession (openPorts : Node W → List Nat) (s : Node W) (f : Frame) : Bool :=
  toSessionDecision (isOwnIp s f.pkt.dstIp) (f.pkt.proto == .icmp) (dstPortOpen (openPorts s) f)

/-- After the verdict: learn, then session manager or `process_frame`. -/
def permitted (soft : Soft W) (s : Node W) (p : Nat) (f : Frame) : Script W :=
  let s1 := { s with sw := soft.learn s p f }
  if soft.toSession s1 f then soft.session s1 p f else soft.process s1 p f

/-- `Router.receive_frame`, parametrised by the exemption test. -/
def routerRxWith (subj : Frame → Option Bool) (soft : Soft W) (s : Node W) (p : Nat) (f : Frame) : Script W :=
  if !s.on then .done s else
  match subj f with
  | none => .done s
  | some false => permitted soft s p f
  | some true =>
    let r := isPermitted (s.acls .router) f.pkt
    let s1 := s.setAcl .router r.2.2
    if !r.1 then .done s1 else permitted soft s1 p f

def routerRx (soft : Soft W) : Node W → Nat → Frame → Script W := routerRxWith subjectToAcl soft

/-! ### firewall -/

/-- The six `_process_*_frame` entry points. -/
inductive FwEntry | extIn | extOut | intIn | intOut | dmzIn | dmzOut
deriving DecidableEq, Repr

/-- what an entry point may call after a PERMIT verdict -/
inductive Callee | learn | session | process | lookup | entry (e : FwEntry)
deriving DecidableEq, Repr

/-- which list each entry point asks (tied to the source by `Gen.Filter.entryAcl`) -/
def entryAcl : FwEntry → AclId
  | .extIn => .extIn | .extOut => .extOut | .intIn => .intIn
  | .intOut => .intOut | .dmzIn => .dmzIn | .dmzOut => .dmzOut

/-- calls made after the verdict, in source order (tied by `Gen.Filter.entryCalls`) -/
def entryCalls : FwEntry → List Callee
  | .extIn => [.learn, .session, .entry .dmzIn, .entry .intIn]
  | .intOut => [.learn, .session, .entry .dmzIn, .entry .extOut]
  | .dmzOut => [.learn, .session, .lookup, .lookup, .entry .extOut, .entry .intIn]
  | .extOut => [.process]
  | .intIn => [.process]
  | .dmzIn => [.process]

/-- `_process_dmz_outbound_frame` drops a layer-2 broadcast that is not for the firewall itself before the look-ups -/
def dmzOutDropsBroadcast : Bool := true

/-- 0-based ports: `EXTERNAL_PORT_ID - 1`, `INTERNAL_PORT_ID - 1`, `DMZ_PORT_ID - 1`. -/
def extPort : Nat := 0
def intPort : Nat := 1
def dmzPort : Nat := 2

/-- `Firewall.receive_frame`: entry point by arrival port. -/
def portEntry (p : Nat) : Option FwEntry :=
  if p = extPort then some .extIn else if p = intPort then some .intOut else if p = dmzPort then some .dmzOut
  else none

/-- `frame.ip.dst_ip_address in self.dmz_port.ip_network` -/
def inDmzNet (s : Node W) (f : Frame) : Bool :=
  match s.ifaces[dmzPort]? with
  | some i => i.inNet f.pkt.dstIp
  | none => false

/-- `_process_external_outbound_frame`, `_process_internal_inbound_frame`, `_process_dmz_inbound_frame`:
verdict, then `process_frame`. -/
def fwFinal (soft : Soft W) (e : FwEntry) (s : Node W) (p : Nat) (f : Frame) : Script W :=
  let r := isPermitted (s.acls (entryAcl e)) f.pkt
  let s1 := s.setAcl (entryAcl e) r.2.2
  if !r.1 then .done s1 else soft.process s1 p f

/-- common head of `_process_external_inbound_frame`, `_process_internal_outbound_frame`,
`_process_dmz_outbound_frame`: verdict, learn, session manager or `next`. -/
def fwFirst (soft : Soft W) (e : FwEntry) (next : Node W → Script W) (s : Node W) (p : Nat) (f : Frame) : Script W :=
  let r := isPermitted (s.acls (entryAcl e)) f.pkt
  let s1 := s.setAcl (entryAcl e) r.2.2
  if !r.1 then .done s1 else
  let s2 := { s1 with sw := soft.learn s1 p f }
  if soft.toSession s2 f then soft.session s2 p f else next s2

/-- second stage by entry point -/
def fwNext (soft : Soft W) (e : FwEntry) (p : Nat) (f : Frame) (s2 : Node W) : Script W :=
  match e with
  | .extIn => if inDmzNet s2 f then fwFinal soft .dmzIn s2 p f else fwFinal soft .intIn s2 p f
  | .intOut => if inDmzNet s2 f then fwFinal soft .dmzIn s2 p f else fwFinal soft .extOut s2 p f
  | .dmzOut =>
    -- layer-2 broadcasts are never forwarded: no outbound interface is resolved (no ARP request sent) for them (C08's repair)
    if f.dstMac == bcastMac then .done s2 else
    (soft.dmzLookup s2 p f).bind fun s3 =>
      match soft.dmzOutNic s3 f with
      | some q =>
        if q = extPort then fwFinal soft .extOut s3 p f
        else if q = intPort then fwFinal soft .intIn s3 p f
        else .done s3
      | none => .done s3
  | _ => .done s2

/-- `Firewall.receive_frame`: no operating-state test (F-13), no ARP exemption. -/
def fwRx (soft : Soft W) (s : Node W) (p : Nat) (f : Frame) : Script W :=
  match portEntry p with
  | some e => fwFirst soft e (fwNext soft e p f) s p f
  | none => .done s

/-! ### a whole element: interface gate, node layer, interface-send layer -/

def nodeLayer (soft : Soft W) (s : Node W) (p : Nat) (f : Frame) : Script W :=
  match s.kind with
  | .host => hostRx soft s p f
  | .switch => switchRx soft s p f
  | .router => routerRx soft s p f
  | .firewall => fwRx soft s p f

/-- What node `s` does with frame `f` arriving on its port `p`. -/
def nodeRx (soft : Soft W) (s : Node W) (p : Nat) (f : Frame) : Script W :=
  match s.ifaces[p]? with
  | none => .done s
  | some i =>
    match ifaceRx s.kind s.ifaces i f with
    | .up f' => guardSends portEnabled (nodeLayer soft s p f')
    | _ => .done s

/-- `SessionManager.receive_payload_from_software_manager` builds every frame with the outbound
interface's own MAC and IP as source. -/
def ownSrc (s : Node W) (q : Nat) (g : Frame) : Frame :=
  match s.ifaces[q]? with
  | some i => { g with srcMac := i.mac, pkt := { g.pkt with srcIp := i.ip } }
  | none => g

/-- A local operation of a node's software (an action, an application or attack step): its emissions are
built by the session manager (`ownSrc`) and pass the interface-send layer. -/
def localOp (a : Script W) : Script W := guardSends portEnabled (stampSends ownSrc a)

/-! ### order of guards and calls, as literal tables (tied to the source by Gen/Filter.lean) -/

/-- `Router.receive_frame`, in source order. -/
def routerOrder : List String :=
  ["guard:operating_state", "test:subject_to_acl", "verdict:acl", "deny-return", "call:add_arp_cache_entry",
   "test:check_send_frame_to_session_manager", "call:session_manager.receive_frame", "call:process_frame"]

/-- interface `receive_frame` of NIC / SwitchPort / RouterInterface, in source order -/
def ifaceOrder : List String := ["guard:enabled", "call:decrement_ttl", "test:ttl", "deliver:node.receive_frame"]

/-- the unicast branch of `ifaceRx … .host` also requires the destination IP to be an address of the host -/
def nicUnicastNeedsOwnIp : Bool := true

/-- does `<Class>.receive_frame` itself test `operating_state` before processing? -/
def powerGuard : Kind → Bool
  | .router => true
  | .host => false      -- `Node.receive_frame` tests it, but only to skip the ARP learning
  | .switch => false
  | .firewall => false

/-! ### finite topologies and the decidable cut certificate (used by the R-net rig through the driver) -/

/-- why an attacker-side node lets nothing through (see `Role` in Props/C06.lean) -/
inductive RoleTag | interior | ifaceDown | routerOff | routerDeny | fwDeny | frozen
deriving DecidableEq, Repr

/-- A finite network: per node (attacker side?, role), and directed wire ends `(n, q) ↦ (m, r)`
(a physical link contributes both directions). -/
structure Topo where
  nodes : List (Bool × RoleTag)
  wires : List ((Nat × Nat) × (Nat × Nat))
deriving Repr

def Topo.side (t : Topo) (n : Nat) : Bool :=
  match t.nodes[n]? with
  | some x => x.1
  | none => false

def Topo.role (t : Topo) (n : Nat) : RoleTag :=
  match t.nodes[n]? with
  | some x => x.2
  | none => .interior

def Topo.wire (t : Topo) (n q : Nat) : Option (Nat × Nat) :=
  (t.wires.find? (fun w => w.1.1 == n && w.1.2 == q)).map (·.2)

def firstSome : List (Option Rule) → Option Rule
  | [] => none
  | none :: rest => firstSome rest
  | some r :: _ => some r

def anyAnyDeny (r : Rule) : Bool :=
  r.action == .deny && r.proto.isNone && r.srcIp.isNone && r.dstIp.isNone && r.srcPort.isNone && r.dstPort.isNone

/-- decidable sufficient condition for "denies every packet": the first non-empty slot is an any-any DENY, or
the list is empty and the implicit action is DENY -/
def denyAllCheck (a : Acl) : Bool :=
  match firstSome a.rules with
  | some r => anyAnyDeny r
  | none => a.implicit == .deny

/-- the role condition of node `n` in state `s`, as a decidable check -/
def certifyNode {W : Type} (t : Topo) (n : Nat) (s : Node W) : Bool :=
  match t.role n with
  | .interior => t.wires.all (fun w => w.1.1 != n || t.side w.2.1)
  | .ifaceDown => t.wires.all (fun w => w.1.1 != n || t.side w.2.1 || !portEnabled s w.1.2)
  | .routerOff => s.kind == .router && !s.on
  | .routerDeny => s.kind == .router && denyAllCheck (s.acls .router)
  | .fwDeny => s.kind == .firewall &&
      t.wires.all (fun w => w.2.1 != n || !t.side w.1.1 ||
        match portEntry w.2.2 with
        | some e => denyAllCheck (s.acls (entryAcl e))
        | none => true)
  | .frozen => t.wires.all (fun w => w.2.1 != n || !t.side w.1.1 || !portEnabled s w.2.2)

/-- every attacker-side node meets its role's condition -/
def certify {W : Type} (t : Topo) (σ : Nat → Node W) : Bool :=
  (List.range t.nodes.length).all (fun n => !t.side n || certifyNode t n (σ n))

/-- first attacker-side node that does not (diagnostics for the rig) -/
def certifyFail {W : Type} (t : Topo) (σ : Nat → Node W) : Option Nat :=
  (List.range t.nodes.length).find? (fun n => t.side n && !certifyNode t n (σ n))

end Primaite.Filter
