/-
The small model state the permission rules (`RequestPermissionValidator.__call__`) read, and the SPECIFICATION of every
named rule (`VAtom`) over it.

A validator instance is bound to one component (`node`, `network_interface`, `service`, `application`, `file_system`,
`folder`) and may carry a constructor argument (`state`, `allowed_groups`).  `VSelf` is that binding, field names as in the
Python classes, so that the regenerated translation of the `__call__` bodies (Gen/RequestValidators.lean) can refer to
`self.node.operating_state`, `self.file_system.folders`, … verbatim.  Operating states are member NAMES (strings), as in
`VAtom.serviceState "RUNNING"`; dictionaries keyed by uuid are lists in dictionary order (only `.values()` is ever read).

`holds` is hand-written and declarative (existence / first match); Props/C05Guards.lean proves that every translated
`__call__` computes exactly it, and the rig compares the translation with the real validator objects.

Core Lean only.
-/
import PrimaiteModel.Model.Schema
namespace Primaite.Guards
open Primaite.Request (Key)
open Primaite.Schema (VAtom)

structure FileS where
  name : String
  deleted : Bool
deriving DecidableEq, Repr

structure FolderS where
  name : String
  deleted : Bool
  /-- `Folder.files.values()` in dictionary order -/
  files : List FileS
  /-- `Folder.deleted_files.values()` -/
  deleted_files : List FileS
deriving DecidableEq, Repr

structure FsS where
  folders : List FolderS
  deleted_folders : List FolderS
deriving DecidableEq, Repr

/-- anything with an operating state: a node, a service, an application (member name of its state enum) -/
structure OpS where
  operating_state : String
deriving DecidableEq, Repr

structure NicS where
  enabled : Bool
deriving DecidableEq, Repr

structure GroupS where
  name : String
deriving DecidableEq, Repr

/-- what a validator instance is bound to (only the field its class declares is meaningful) -/
structure VSelf where
  node : OpS := ⟨"ON"⟩
  network_interface : NicS := ⟨true⟩
  service : OpS := ⟨"RUNNING"⟩
  application : OpS := ⟨"RUNNING"⟩
  file_system : FsS := ⟨[], []⟩
  folder : FolderS := ⟨"", false, [], []⟩
  /-- constructor argument of the two `_StateValidator`s (member name) -/
  state : String := ""
  /-- constructor argument of `GroupMembershipValidator` -/
  allowed_groups : List GroupS := []
deriving Repr

/-- the request context as far as a rule reads it: `none` = falsy context (None / {}), `some gs` = the requester's groups -/
abbrev Context := Option (List String)

/-! ### specification of the lookups -/

/-- first live folder of that name; with `inclDeleted`, else the first deleted folder of that name -/
def FsS.folder? (fs : FsS) (k : Key) (inclDeleted : Bool) : Option FolderS :=
  match fs.folders.find? (fun f => f.name == k) with
  | some f => some f
  | none => if inclDeleted then fs.deleted_folders.find? (fun f => f.name == k) else none

/-- first live file of that name in the folder -/
def FolderS.file? (fo : FolderS) (k : Key) : Option FileS := fo.files.find? (fun f => f.name == k)

/-- SPECIFICATION of every named permission rule: its truth on the component it is bound to, for the options it is given. -/
def holds (a : VAtom) (self : VSelf) (opts : List Key) (ctx : Context := none) : Bool :=
  match a with
  | .nodeIsOn => self.node.operating_state == "ON"
  | .nodeIsOff => self.node.operating_state == "OFF"
  | .nicEnabled => self.network_interface.enabled
  | .nicDisabled => !self.network_interface.enabled
  | .serviceState s => self.service.operating_state == s
  | .appState s => self.application.operating_state == s
  | .folderExists =>            -- a LIVE folder carries the name given as first option
    match opts with
    | [] => false
    | k :: _ => self.file_system.folders.any (fun f => f.name == k)
  | .folderNotDeleted =>        -- the folder the name denotes (live first, else deleted) is not flagged deleted
    match opts with
    | [] => false
    | k :: _ => match self.file_system.folder? k true with
      | some f => !f.deleted
      | none => false
  | .fsFileExists =>            -- a live file of the second name in the live folder of the first name
    match opts with
    | k :: k' :: _ => match self.file_system.folder? k false with
      | some f => f.files.any (fun x => x.name == k')
      | none => false
    | _ => false
  | .folderFileExists =>
    match opts with
    | [] => false
    | k :: _ => self.folder.files.any (fun x => x.name == k)
  | .fileNotDeleted =>
    match opts with
    | [] => false
    | k :: _ => match self.folder.file? k with
      | some x => !x.deleted
      | none => false
  | .groupMember =>             -- the requester belongs to one of the allowed groups; a falsy context is refused
    match ctx with
    | none => false
    | some gs => self.allowed_groups.any (fun g => gs.contains g.name)

/-- a (possibly combined) validator holds iff each of its rules does -/
def holdsAll (v : List VAtom) (self : VSelf) (opts : List Key) (ctx : Context := none) : Bool :=
  v.all (fun a => holds a self opts ctx)

end Primaite.Guards
