/-
C17, round 7 — the record over which the TICK path and the two countdown-starting methods of the database service are
translated statement by statement (harness/extract/database_tick_tr.py → Gen/DatabaseTickTr.lean).

The hand-written model keeps the two countdowns as `Nat` (`Server.fixCd`, `Server.restartCd`) and reads "the fix is over" off
the health.  The CODE keeps `_fixing_countdown : Optional[int]` (None = no fix under way; the test the database service makes
after the generic countdown step is `is None`) and `restart_countdown : int` (which runs to -1).  `TickW` carries both as the
code has them; every write goes through `setCd` / `setRcd`, which keep the model's `Nat` fields in step (None ↦ 0,
negative ↦ 0), so that the `Server` inside a `TickW` is at every moment the model's server.
-/
import PrimaiteModel.Model.Database
namespace Primaite.Database

structure TickW where
  s : Server
  b : Backup
  /-- `Software._fixing_countdown` -/
  cd : Option Int
  /-- `Service.restart_countdown` -/
  rcd : Int
deriving DecidableEq, Repr

/-- Vocabulary assumption (validated by the rig's digest, which shows the countdown while the health is FIXING): where the
code reads `_fixing_countdown` as a number — inside `_update_fix_status`, reached only with health FIXING — it IS a number. -/
def TickW.of (s : Server) (b : Backup) : TickW := { s := s, b := b, cd := some (s.fixCd : Int), rcd := (s.restartCd : Int) }

def TickW.setCd (w : TickW) (x : Option Int) : TickW := { w with cd := x, s := { w.s with fixCd := (x.getD 0).toNat } }
def TickW.setRcd (w : TickW) (x : Int) : TickW := { w with rcd := x, s := { w.s with restartCd := x.toNat } }
def TickW.setHealth (w : TickW) (h : Health) : TickW := { w with s := { w.s with health := h } }
def TickW.setOp (w : TickW) (o : SvcState) : TickW := { w with s := { w.s with op := o } }
/-- `self.restore_backup()` / `self.backup_database()`: the results of the TRANSLATED methods (Gen/DatabaseTr.lean) are put back -/
def TickW.afterRestore (w : TickW) (r : Server × Bool) : TickW := { w with s := r.1 }
def TickW.afterBackup (w : TickW) (r : Server × Backup × Bool) : TickW := { w with s := r.1, b := r.2.1 }

/-- Python's `x <= k` etc. on an `Optional[int]` that holds a number (see `TickW.of`) -/
def optCmp (x : Option Int) (p : Int → Bool) : Bool := match x with | some n => p n | none => false
/-- truthiness of an `Optional[int]`: None and 0 are falsy -/
def optTruthy (x : Option Int) : Bool := match x with | some n => n != 0 | none => false

end Primaite.Database
