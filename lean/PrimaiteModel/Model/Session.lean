/-
Model.Session — users, local/remote user sessions and terminal connections over a list of connected host nodes.

Source modelled (read, not guessed):
  simulator/network/hardware/base.py   User, UserManager, UserSession, RemoteUserSession, UserSessionManager,
                                       Node.power_on/power_off/reset/apply_timestep/_start_up_actions/_shut_down_actions
  simulator/system/services/terminal/terminal.py   Terminal (request handlers, receive, _disconnect, _check_client_connection)
  simulator/system/services/service.py             Service lifecycle verbs and their request validators
  simulator/system/software.py                     IOSoftware._can_perform_action / send
  simulator/network/hardware/nodes/host/host_node.py  HostNode.receive_frame (destination port must be open)

Conventions.
* Nodes are addressed by their index in `Net.nodes`; an IP address is the index of the node that owns it
  (an address nobody owns = an index past the end).
* uuids (session ids = connection ids) are fresh naturals from `Net.nextId`.
* A frame from node `x` to node `y` on the terminal's port is delivered iff both NICs are enabled, the terminal
  of `y` is RUNNING (HostNode.receive_frame drops frames for closed ports) and the direction `x → y` is not blocked
  (`Net.blocked`: a per-direction reachability input standing for whatever lies between the two hosts — a router ACL that
  denies port 22 / the address pair in that direction; the rig drives it with DENY rules on a real router).  Requests and
  replies are separate frames, so a request may arrive while its reply is dropped ("half-open" outcomes).  Replies are
  sent synchronously inside the delivery, exactly like the code does.  Switches/links/routers in between are otherwise
  taken to be up and ARP to resolve (validated by the rig on one switch and on a routed topology).
* `Terminal._connections` is ONE dictionary holding client-side, server-side and local connection objects; the model
  keeps one list with dictionary semantics (`putConn` replaces an existing key in place).
* The model follows the repaired code (fix commits on branch fix-C16):
    - `_logout_user` ends every session of the user, forced (independent of the session manager's state);
    - `_timeout_session` tolerates a missing terminal connection;
    - `send_remote_command` clears the last response first and answers `failure` when nothing comes back,
      so `Terminal._last_response` is no longer an input of any answer and is not modelled.
Core Lean only.
-/
import PrimaiteModel.Model.Basic
namespace Primaite.Session

/-! ### vocabulary -/

inductive Power | on | off | booting | shuttingDown
deriving DecidableEq, Repr

/-- `ServiceOperatingState` -/
inductive SvcState | running | stopped | paused | disabled | installing | restarting
deriving DecidableEq, Repr

structure Service where
  st : SvcState := .running
  /-- `restart_countdown` (only read while RESTARTING) -/
  cd : Nat := 0
deriving DecidableEq, Repr

inductive SvcName | terminal | userManager | sessionManager
deriving DecidableEq, Repr

inductive Verb | stop | start | pause | resume | restart | disable | enable
deriving DecidableEq, Repr

structure User where
  name : String
  password : String
  disabled : Bool := false
  admin : Bool := false
deriving DecidableEq, Repr

/-- `RemoteUserSession`: uuid, user (users are never deleted and names are unique, so the name identifies the object),
`last_active_step`, and the node owning `remote_ip_address`. -/
structure RSession where
  id : Nat
  user : String
  last : Nat
  peer : Nat
deriving DecidableEq, Repr

/-- local `UserSession` -/
structure LSession where
  id : Nat
  user : String
  last : Nat
deriving DecidableEq, Repr

/-- An entry of `Terminal._connections`: key (= `connection_uuid`) and `ip_address`
(`none` = `LocalTerminalConnection`, whose address is the string "Local Connection"). -/
structure Conn where
  id : Nat
  peer : Option Nat
deriving DecidableEq, Repr

structure Node where
  power : Power := .on
  nic : Bool := true
  upCd : Nat := 0
  downCd : Nat := 0
  resetting : Bool := false
  startDur : Nat := 3
  shutDur : Nat := 3
  restartDur : Nat := 5
  term : Service := {}
  um : Service := {}
  usm : Service := {}
  users : List User := [{ name := "admin", password := "admin", admin := true }]
  loc : Option LSession := none
  rem : List RSession := []
  conns : List Conn := []
  /-- effect of executed terminal commands: command `k` creates file `k` -/
  files : List Nat := []
  maxRemote : Nat := 3
  localTimeout : Nat := 30
  remoteTimeout : Nat := 30
deriving Repr

structure Net where
  nodes : List Node
  time : Nat := 0
  nextId : Nat := 0
  /-- set if a fuel-bounded recursion ran out of fuel (never observed; printed by the driver so the rig would see it) -/
  stuck : Bool := false
  /-- directed pairs `(x, y)`: frames from node `x` to node `y` are dropped on the way (router ACL) -/
  blocked : List (Nat × Nat) := []
  /-- a frame a host addresses to its own IP comes back to it (routed topology: the host hands it to its default gateway, which
  routes it back — subject to the ACL like any other frame); on one switch nobody answers the ARP request and it is never sent -/
  hairpin : Bool := false
deriving Repr

inductive Out | success | failure | unreachable
deriving DecidableEq, Repr

/-- A request addressed to ONE node (the path below `network/node/<name>/`).  It is what an agent action sends to the
node, and also what a terminal command carries: `Terminal.execute` hands the command to `Node.apply_request`, so a command
may itself be a terminal request (a login, a command, a logoff towards a third node): commands nest. -/
inductive Cmd
  /-- `file_system create file root <k> False` -/
  | file (k : Nat)
  | addUser (u p : String) (admin : Bool)
  | disableUser (u : String)
  | changePassword (u old new : String)
  /-- `service terminal send_local_command u p {command}` -/
  | localCmd (u p : String) (c : Cmd)
  /-- `service terminal node_session_remote_login u p ip(y)` -/
  | remoteLogin (y : Nat) (u p : String)
  /-- `service terminal send_remote_command ip(y) {command}` -/
  | remoteCmd (y : Nat) (c : Cmd)
  /-- `service terminal remote_logoff ip(y)` -/
  | remoteLogoff (y : Nat)
  /-- `service user-session-manager remote_login u p ip(peer)` (direct request; no action builds it) -/
  | usmLogin (u p : String) (peer : Nat)
  /-- `service user-session-manager remote_logout <id>`; the id is that of the `i`-th remote session of the node
  (dictionary order), or an id the node does not know when there is no such session -/
  | usmLogout (i : Nat)
  | svc (s : SvcName) (v : Verb)
  | shutdown
  | startup
  | reset
deriving Repr

inductive Op
  /-- `Simulation.apply_request(["network", "node", <y>, ...])` -/
  | req (y : Nat) (c : Cmd)
  /-- `UserManager.enable_user` (Python API; no request exists) -/
  | enableUser (y : Nat) (u : String)
  /-- `UserManager.add_user(u, p, is_admin, bypass_can_perform_action=True)` (Python API: how `Node.__init__` and
  `PrimaiteGame.from_config` load the configured users; no guard on node power or service state) -/
  | addUserBypass (y : Nat) (u p : String) (admin : Bool)
  /-- `Node.local_login` (Python API) -/
  | localLogin (y : Nat) (u p : String)
  /-- `Node.local_logout` (Python API) -/
  | localLogout (y : Nat)
  /-- end of one environment step and start of the next: `apply_timestep(t+1)` then `pre_timestep(t+1)` -/
  | tick
  /-- the network between the hosts starts (`on = true`) / stops dropping frames from `x` to `y`
  (router `acl add_rule DENY … src = ip(x) dst = ip(y)` / `acl remove_rule`) -/
  | setBlock (x y : Nat) (on : Bool)
deriving Repr

/-! ### list-of-nodes plumbing -/

def updAt (l : List Node) (i : Nat) (f : Node → Node) : List Node :=
  match l, i with
  | [], _ => []
  | a :: t, 0 => f a :: t
  | a :: t, i + 1 => a :: updAt t i f

def Net.node (n : Net) (i : Nat) : Option Node := n.nodes[i]?

def Net.upd (n : Net) (i : Nat) (f : Node → Node) : Net := { n with nodes := updAt n.nodes i f }

/-! ### node-local predicates and edits -/

def Service.running (s : Service) : Bool := s.st == .running

def Node.isOn (nd : Node) : Bool := nd.power == .on

/-- `UserManager._can_perform_action` -/
def Node.canUm (nd : Node) : Bool := nd.isOn && nd.um.running
/-- `UserSessionManager._can_perform_action` -/
def Node.canUsm (nd : Node) : Bool := nd.isOn && nd.usm.running

def Node.findUser (nd : Node) (u : String) : Option User := nd.users.find? (fun w => w.name == u)

/-- `UserManager.authenticate_user` -/
def Node.authenticate (nd : Node) (u p : String) : Bool :=
  nd.canUm && (match nd.findUser u with
    | some w => !w.disabled && w.password == p
    | none => false)

/-- `_login` gets past the session manager's own guard and authentication -/
def Node.loginOk (nd : Node) (u p : String) : Bool := nd.canUsm && nd.authenticate u p

def Node.hasSession (nd : Node) (cid : Nat) : Bool := nd.rem.any (fun s => s.id == cid)
def Node.hasConn (nd : Node) (cid : Nat) : Bool := nd.conns.any (fun c => c.id == cid)

def Node.dropConn (cid : Nat) (nd : Node) : Node := { nd with conns := nd.conns.filter (fun c => c.id != cid) }
def Node.dropSession (cid : Nat) (nd : Node) : Node := { nd with rem := nd.rem.filter (fun s => s.id != cid) }

/-- dictionary assignment `_connections[c.id] = c` -/
def putConn (l : List Conn) (c : Conn) : List Conn :=
  if l.any (fun d => d.id == c.id) then l.map (fun d => if d.id == c.id then c else d) else l ++ [c]

def Node.addConn (c : Conn) (nd : Node) : Node := { nd with conns := putConn nd.conns c }

def Node.clearLoc (nd : Node) : Node := { nd with loc := none }
def Node.setLoc (l : LSession) (nd : Node) : Node := { nd with loc := some l }
def Node.addSession (s : RSession) (nd : Node) : Node := { nd with rem := nd.rem ++ [s] }
def Node.addUser (w : User) (nd : Node) : Node := { nd with users := nd.users ++ [w] }
/-- `self.users[u].<field> = ...`: the dictionary entry of `u`, i.e. the first (and, since `add_user` refuses
duplicates, only) user of that name -/
def updUser (l : List User) (u : String) (f : User → User) : List User :=
  match l with
  | [] => []
  | v :: t => if v.name == u then f v :: t else v :: updUser t u f

def Node.setDisabled (u : String) (nd : Node) : Node :=
  { nd with users := updUser nd.users u (fun v => { v with disabled := true }) }
def Node.setEnabled (u : String) (nd : Node) : Node :=
  { nd with users := updUser nd.users u (fun v => { v with disabled := false }) }
def Node.setPassword (u new : String) (nd : Node) : Node :=
  { nd with users := updUser nd.users u (fun v => { v with password := new }) }
def Node.addFile (k : Nat) (nd : Node) : Node := { nd with files := nd.files ++ [k] }

/-- fresh-id counter -/
def Net.bump (n : Net) (k : Nat) : Net := { n with nextId := k }

/-- `_logout(local=True)`, not forced -/
def Node.localLogout (nd : Node) : Node := if nd.canUsm then nd.clearLoc else nd

/-- `remote_session.last_active_step = current_timestep` -/
def Node.touch (cid t : Nat) (nd : Node) : Node :=
  { nd with rem := nd.rem.map (fun s => if s.id == cid then { s with last := t } else s) }

/-! ### service lifecycle (service.py) -/

def Service.stop (s : Service) : Service := if s.st = .running ∨ s.st = .paused then { s with st := .stopped } else s
def Service.start (s : Service) : Service := if s.st = .stopped then { s with st := .running } else s

/-- the request's state validator (`none` = no validator) -/
def Verb.needs : Verb → Option SvcState
  | .stop => some .running | .start => some .stopped | .pause => some .running | .resume => some .paused
  | .restart => some .running | .disable => none | .enable => some .disabled

def Verb.allowed (v : Verb) (st : SvcState) : Bool :=
  match v.needs with
  | some q => st == q
  | none => true

/-- the method behind the verb (node already known ON); returns the method's boolean -/
def Service.apply (s : Service) (v : Verb) (restartDur : Nat) : Service × Bool :=
  match v with
  | .stop => if s.st = .running ∨ s.st = .paused then ({ s with st := .stopped }, true) else (s, false)
  | .start => if s.st = .stopped then ({ s with st := .running }, true) else (s, false)
  | .pause => if s.st = .running then ({ s with st := .paused }, true) else (s, false)
  | .resume => if s.st = .paused then ({ s with st := .running }, true) else (s, false)
  | .restart => if s.st = .running ∨ s.st = .paused then ({ st := .restarting, cd := restartDur }, true) else (s, false)
  | .disable => ({ s with st := .disabled }, true)
  | .enable => if s.st = .disabled then ({ s with st := .stopped }, true) else (s, false)

/-- `Service.apply_timestep`: test-then-decrement -/
def Service.tick (s : Service) : Service :=
  if s.st = .restarting then
    if s.cd = 0 then { st := .running, cd := 0 } else { s with cd := s.cd - 1 }
  else s

def Node.getSvc (nd : Node) : SvcName → Service
  | .terminal => nd.term | .userManager => nd.um | .sessionManager => nd.usm

def Node.setSvc (nd : Node) (w : SvcName) (s : Service) : Node :=
  match w with
  | .terminal => { nd with term := s } | .userManager => { nd with um := s } | .sessionManager => { nd with usm := s }

/-! ### node power (base.py) -/

def Node.startUpActions (nd : Node) : Node :=
  { nd with term := nd.term.start, um := nd.um.start, usm := nd.usm.start }

def Node.shutDownActions (nd : Node) : Node :=
  { nd with term := nd.term.stop, um := nd.um.stop, usm := nd.usm.stop }

def Node.powerOn (nd : Node) : Node × Bool :=
  if nd.startDur = 0 then ({ ({ nd with power := .on } : Node).startUpActions with nic := true }, true)
  else if nd.power = .off then ({ nd with power := .booting, upCd := nd.startDur }, true)
  else (nd, false)

/-- with `shut_down_duration = 0` the node is OFF at once (NICs disabled, services stopped), and a resetting node powers
on again at once (repaired code: DESIGN F-14 and the reset-with-duration-0 fix) -/
def Node.powerOff (nd : Node) : Node × Bool :=
  if nd.shutDur = 0 then
    let o : Node := { nd.shutDownActions with nic := false, power := .off }
    if o.resetting then (({ o with resetting := false } : Node).powerOn.1, true) else (o, true)
  else if nd.power = .on then ({ nd with nic := false, power := .shuttingDown, downCd := nd.shutDur }, true)
  else (nd, false)

/-- `Node.reset`: flag, then `power_off` -/
def Node.resetOff (nd : Node) : Node := ({ nd with resetting := true } : Node).powerOff.1

/-- count down to boot up -/
def Node.bootPhase (nd : Node) : Node :=
  if nd.upCd > 0 then { nd with upCd := nd.upCd - 1 }
  else if nd.power = .booting then ({ nd with power := .on, nic := true } : Node).startUpActions
  else nd

/-- count down to shut down; a resetting node powers on again -/
def Node.shutPhase (nd : Node) : Node :=
  if nd.downCd > 0 then { nd with downCd := nd.downCd - 1 }
  else if nd.power = .shuttingDown then
    let o : Node := ({ nd with power := .off } : Node).shutDownActions
    if o.resetting then ({ o with resetting := false } : Node).powerOn.1 else o
  else nd

/-- services advance only while the node is ON -/
def Node.svcPhase (nd : Node) : Node :=
  if nd.power = .on then { nd with term := nd.term.tick, um := nd.um.tick, usm := nd.usm.tick } else nd

/-- `Node.apply_timestep`: the three phases in the order of the code -/
def Node.applyTimestep (nd : Node) : Node := nd.bootPhase.shutPhase.svcPhase

/-! ### the network path -/

/-- the direction `x → y` is open -/
def Net.open (n : Net) (x y : Nat) : Bool := !n.blocked.contains (x, y)

/-- a frame from `x` to the terminal port of `y` arrives and is accepted -/
def canDeliver (n : Net) (x y : Nat) : Bool :=
  match n.node x, n.node y with
  | some a, some b => (x != y || n.hairpin) && a.nic && b.nic && b.term.running && n.open x y
  | _, _ => false

def Net.totalConns (n : Net) : Nat := (n.nodes.map (fun nd => nd.conns.length)).sum
def Net.fuel (n : Net) : Nat := 3 * n.totalConns + 4

/-! ### `Terminal._disconnect` and the "disconnect" message it sends (terminal.py) -/

/-- the three mutually recursive procedures of the disconnect chain -/
inductive Hop
  /-- `Terminal._disconnect(cid)` on node `i` -/
  | disconnect
  /-- `Terminal.receive` of `{"type": "disconnect", "connection_id": cid}` on node `j` -/
  | onDisconnect
  /-- `UserSessionManager._logout(local=False, remote_session_id=cid)`, not forced -/
  | remoteLogout
deriving DecidableEq, Repr

/-- One fuel-indexed function (structural recursion on the fuel) for the three procedures, so that it computes by
reduction.  Each `_disconnect` that goes on first removes a connection, so `Net.fuel` is never exhausted; should it be,
`stuck` is set and shown to the rig. -/
def chain : Nat → Hop → Net → Nat → Nat → Net
  | 0, _, n, _, _ => { n with stuck := true }
  | f + 1, .disconnect, n, i, cid =>
    match n.node i with
    | none => n
    | some nd =>
      match nd.conns.find? (fun c => c.id == cid) with
      | none => n
      | some c =>
        match c.peer with
        | none => (n.upd i (Node.dropConn cid)).upd i Node.localLogout
        | some p =>
          if canDeliver (n.upd i (Node.dropConn cid)) i p then chain f .onDisconnect (n.upd i (Node.dropConn cid)) p cid
          else n.upd i (Node.dropConn cid)
  | f + 1, .onDisconnect, n, j, cid =>
    match n.node j with
    | none => n
    | some nd =>
      if nd.hasSession cid then
        if nd.hasConn cid then chain f .remoteLogout (chain f .disconnect n j cid) j cid else n
      else chain f .disconnect n j cid
  | f + 1, .remoteLogout, n, j, cid =>
    match n.node j with
    | none => n
    | some nd => if nd.canUsm then (chain f .disconnect n j cid).upd j (Node.dropSession cid) else n

/-- `Terminal._disconnect(cid)` on node `i` -/
def disconnect (f : Nat) (n : Net) (i cid : Nat) : Net := chain f .disconnect n i cid

/-- `_logout(local=False, cid, force=True)` -/
def forceLogout (n : Net) (j cid : Nat) : Net := (disconnect n.fuel n j cid).upd j (Node.dropSession cid)

/-- the local part of `_logout_user` -/
def Node.endLocalOf (u : String) (nd : Node) : Node :=
  match nd.loc with
  | some l => if l.user == u then nd.clearLoc else nd
  | none => nd

/-- `UserSessionManager._logout_user(user)` (repaired): every remote session of the user, then the local one -/
def logoutUser (n : Net) (j : Nat) (u : String) : Net :=
  match n.node j with
  | none => n
  | some nd =>
    let n1 := ((nd.rem.filter (fun s => s.user == u)).map (·.id)).foldl (fun m cid => forceLogout m j cid) n
    n1.upd j (Node.endLocalOf u)

/-! ### inactivity time-out (`UserSessionManager.pre_timestep`, `_timeout_session`) -/

def timeoutRemote (n : Net) (y : Nat) (s : RSession) : Net :=
  let n1 := n.upd y (fun nd => (nd.dropSession s.id).dropConn s.id)
  if canDeliver n1 y s.peer then n1.upd s.peer (Node.dropConn s.id) else n1

def Node.localExpired (nd : Node) (t : Nat) : Bool :=
  match nd.loc with
  | some l => decide (l.last + nd.localTimeout ≤ t)
  | none => false

def Node.expired (nd : Node) (t : Nat) : List RSession := nd.rem.filter (fun s => decide (s.last + nd.remoteTimeout ≤ t))

def preTimestepNode (n : Net) (y : Nat) : Net :=
  match n.node y with
  | none => n
  | some nd =>
    let n0 := if nd.localExpired n.time then n.upd y Node.clearLoc else n
    (nd.expired n.time).foldl (fun m s => timeoutRemote m y s) n0

def tick (n : Net) : Net :=
  let n1 : Net := { n with time := n.time + 1, nodes := n.nodes.map Node.applyTimestep }
  (List.range n1.nodes.length).foldl preTimestepNode n1

/-! ### logins -/

/-- `_login(local=True)` after the guards: returns the node and the session id handed back -/
def Node.localLoginCore (nd : Node) (u : String) (t fresh : Nat) : Node × Nat × Bool :=
  match nd.loc with
  | some l => if l.user == u then (nd, l.id, false) else (nd.setLoc ⟨fresh, u, t⟩, fresh, true)
  | none => (nd.setLoc ⟨fresh, u, t⟩, fresh, true)

/-- `UserSessionManager.local_login`: `some id` on success -/
def localLogin (n : Net) (y : Nat) (u p : String) : Net × Option Nat :=
  match n.node y with
  | none => (n, none)
  | some nd =>
    if nd.loginOk u p then
      ((n.upd y (fun nd => (nd.localLoginCore u n.time n.nextId).1)).bump
          (if (nd.localLoginCore u n.time n.nextId).2.2 then n.nextId + 1 else n.nextId),
       some (nd.localLoginCore u n.time n.nextId).2.1)
    else (n, none)

/-! ### one operation -/

def boolOut (b : Bool) : Out := if b then .success else .failure

/-
Requests below `network/node/<y>/service/...` (and `shutdown`, `reset`): the node must exist (else `unreachable`)
and be ON (node-is-on validator, else `failure`).
-/

def opAddUser (n : Net) (y : Nat) (u p : String) (adm : Bool) : Net × Out :=
  match n.node y with
  | none => (n, .unreachable)
  | some nd =>
    if !nd.isOn then (n, .failure)
    else if nd.canUm && (nd.findUser u).isNone then
      (n.upd y (Node.addUser { name := u, password := p, admin := adm }), .success)
    else (n, .failure)

def opDisableUser (n : Net) (y : Nat) (u : String) : Net × Out :=
  match n.node y with
  | none => (n, .unreachable)
  | some nd =>
    if !nd.isOn then (n, .failure)
    else if !nd.canUm then (n, .failure) else
    match nd.findUser u with
    | none => (n, .failure)
    | some w =>
      if w.disabled then (n, .failure)
      -- `_is_last_admin`: the user is an enabled admin and the only one
      else if w.admin && (nd.users.filter (fun v => v.admin && !v.disabled)).length == 1 then (n, .failure)
      else (n.upd y (Node.setDisabled u), .success)

def opChangePassword (n : Net) (y : Nat) (u old new : String) : Net × Out :=
  match n.node y with
  | none => (n, .unreachable)
  | some nd =>
    if !nd.isOn then (n, .failure)
    else if !nd.canUm then (n, .failure) else
    match nd.findUser u with
    | none => (n, .failure)
    | some w =>
      if w.password == old then
        (logoutUser (n.upd y (Node.setPassword u new)) y u, .success)
      else (n, .failure)

def opLocalLogin (n : Net) (y : Nat) (u p : String) : Net × Out :=
  match n.node y with
  | none => (n, .unreachable)
  | some _ => ((localLogin n y u p).1, boolOut (localLogin n y u p).2.isSome)

def opLocalLogout (n : Net) (y : Nat) : Net × Out :=
  match n.node y with
  | none => (n, .unreachable)
  | some nd => if nd.canUsm && nd.loc.isSome then (n.upd y Node.localLogout, .success) else (n, .failure)

/-- `file_system create file root <k>` on node `y` (the `file_system` route carries the node-is-on validator) -/
def opFile (n : Net) (y k : Nat) : Net × Out :=
  match n.node y with
  | none => (n, .unreachable)
  | some nd => if !nd.isOn then (n, .failure) else (n.upd y (Node.addFile k), .success)

/-- `UserManager.enable_user` (no guard at all in the code) -/
def opEnableUser (n : Net) (y : Nat) (u : String) : Net × Out :=
  match n.node y with
  | none => (n, .unreachable)
  | some nd =>
    match nd.findUser u with
    | none => (n, .failure)
    | some w => if w.disabled then (n.upd y (Node.setEnabled u), .success) else (n, .failure)

/-- `UserManager.add_user(..., bypass_can_perform_action=True)`: only the name check is left -/
def opAddUserBypass (n : Net) (y : Nat) (u p : String) (adm : Bool) : Net × Out :=
  match n.node y with
  | none => (n, .unreachable)
  | some nd =>
    if (nd.findUser u).isNone then (n.upd y (Node.addUser { name := u, password := p, admin := adm }), .success)
    else (n, .failure)

/-- `_process_local_login`, `_create_local_connection`, `LocalTerminalConnection.execute` (only while the terminal is
RUNNING); `K` = what `Node.apply_request(command)` does; the handler answers "success" whatever happened -/
def opLocalCmdK (K : Net → Net × Out) (n : Net) (y : Nat) (u p : String) : Net × Out :=
  match n.node y with
  | none => (n, .unreachable)
  | some nd =>
    if !nd.isOn then (n, .failure) else
    match (localLogin n y u p).2 with
    | some id =>
      if nd.term.running then ((K ((localLogin n y u p).1.upd y (Node.addConn ⟨id, none⟩))).1, .success)
      else ((localLogin n y u p).1.upd y (Node.addConn ⟨id, none⟩), .success)
    | none => ((localLogin n y u p).1, .success)

def opRemoteLogin (n : Net) (x y : Nat) (u p : String) : Net × Out :=
  match n.node x with
  | none => (n, .unreachable)
  | some a =>
    if !a.isOn then (n, .failure) else
    if !canDeliver n x y then (n, .failure) else
    match n.node y with
    | none => (n, .failure)
    | some b =>
      -- Terminal.receive on y: SSH_MSG_USERAUTH_REQUEST -> remote_login -> _login(local=False)
      if b.loginOk u p && decide (b.rem.length < b.maxRemote) then
        let n1 : Net :=
          (n.upd y (fun b => (b.addSession ⟨n.nextId, u, n.time, x⟩).addConn ⟨n.nextId, some x⟩)).bump (n.nextId + 1)
        -- SSH_MSG_USERAUTH_SUCCESS back to x (x's terminal must be RUNNING to see it)
        if canDeliver n1 y x then (n1.upd x (Node.addConn ⟨n.nextId, some y⟩), .success) else (n1, .failure)
      else (n, .failure)

/-- `send_remote_command`; `K` = what `Node.apply_request(command)` does on the target once `Terminal.receive` accepted
the command (after `last_active_step` was set) -/
def opRemoteCmdK (K : Net → Net × Out) (n : Net) (x y : Nat) : Net × Out :=
  match n.node x with
  | none => (n, .unreachable)
  | some a =>
    if !a.isOn then (n, .failure) else
    -- `_get_connection_from_ip`: first connection in dictionary order whose address is y's
    match a.conns.find? (fun c => c.peer == some y) with
    | none => (n, .failure)
    | some c =>
      -- RemoteTerminalConnection.execute / Terminal.send: the sender's terminal must be RUNNING
      if !a.term.running then (n, .failure) else
      if !canDeliver n x y then (n, .failure) else
      match n.node y with
      | none => (n, .failure)
      | some b =>
        -- Terminal.receive on y: SSH_MSG_SERVICE_REQUEST -> _check_client_connection
        if b.hasSession c.id then
          if b.hasConn c.id then
            ((K (n.upd y (Node.touch c.id n.time))).1,
             -- the answer travels back to x (whose terminal must be RUNNING to see it); a node commanding ITSELF through its gateway
             -- needs no answer frame: client and server are the same Terminal object, whose `_last_response` the server side has set
             if x == y || canDeliver (K (n.upd y (Node.touch c.id n.time))).1 y x then (K (n.upd y (Node.touch c.id n.time))).2
             else .failure)
          else (n, .failure)
        else (disconnect n.fuel n y c.id, .failure)

def opRemoteLogoff (n : Net) (x y : Nat) : Net × Out :=
  match n.node x with
  | none => (n, .unreachable)
  | some a =>
    if !a.isOn then (n, .failure) else
    match a.conns.find? (fun c => c.peer == some y) with
    | none => (n, .failure)
    | some c => (disconnect n.fuel n x c.id, .success)

def opSvc (n : Net) (y : Nat) (w : SvcName) (v : Verb) : Net × Out :=
  match n.node y with
  | none => (n, .unreachable)
  | some nd =>
    if !nd.isOn then (n, .failure) else
    if v.allowed (nd.getSvc w).st then
      (n.upd y (fun nd => nd.setSvc w ((nd.getSvc w).apply v nd.restartDur).1), boolOut ((nd.getSvc w).apply v nd.restartDur).2)
    else (n, .failure)

def opShutdown (n : Net) (y : Nat) : Net × Out :=
  match n.node y with
  | none => (n, .unreachable)
  | some nd => if !nd.isOn then (n, .failure) else (n.upd y (fun nd => nd.powerOff.1), boolOut nd.powerOff.2)

/-- validator: node is OFF -/
def opStartup (n : Net) (y : Nat) : Net × Out :=
  match n.node y with
  | none => (n, .unreachable)
  | some nd => if nd.power == .off then (n.upd y (fun nd => nd.powerOn.1), boolOut nd.powerOn.2) else (n, .failure)

def opReset (n : Net) (y : Nat) : Net × Out :=
  match n.node y with
  | none => (n, .unreachable)
  | some nd =>
    if !nd.isOn then (n, .failure) else (n.upd y Node.resetOff, .success)

/-- direct request `user-session-manager remote_login u p ip(peer)`: `_login(local=False)`; a session, no terminal connection -/
def opUsmLogin (n : Net) (y : Nat) (u p : String) (peer : Nat) : Net × Out :=
  match n.node y with
  | none => (n, .unreachable)
  | some b =>
    if !b.isOn then (n, .failure) else
    if b.loginOk u p && decide (b.rem.length < b.maxRemote) then
      ((n.upd y (Node.addSession ⟨n.nextId, u, n.time, peer⟩)).bump (n.nextId + 1), .success)
    else (n, .failure)

/-- direct request `user-session-manager remote_logout <id>`: `_logout(local=False, id)`, not forced (repaired code: an
unknown id ends nothing and answers failure) -/
def opUsmLogout (n : Net) (y i : Nat) : Net × Out :=
  match n.node y with
  | none => (n, .unreachable)
  | some nd =>
    if !nd.isOn then (n, .failure) else
    if !nd.canUsm then (n, .failure) else
    match nd.rem[i]? with
    | none => (n, .failure)
    | some s =>
      ((disconnect n.fuel n y s.id).upd y (Node.dropSession s.id),
       match (disconnect n.fuel n y s.id).node y with
       | some b => boolOut (b.hasSession s.id)
       | none => .failure)

/-- `Node.apply_request(c)` on node `y` -/
def execCmd : Cmd → Net → Nat → Net × Out
  | .file k, n, y => opFile n y k
  | .addUser u p adm, n, y => opAddUser n y u p adm
  | .disableUser u, n, y => opDisableUser n y u
  | .changePassword u old new, n, y => opChangePassword n y u old new
  | .localCmd u p c, n, y => opLocalCmdK (fun m => execCmd c m y) n y u p
  | .remoteLogin z u p, n, y => opRemoteLogin n y z u p
  | .remoteCmd z c, n, y => opRemoteCmdK (fun m => execCmd c m z) n y z
  | .remoteLogoff z, n, y => opRemoteLogoff n y z
  | .usmLogin u p peer, n, y => opUsmLogin n y u p peer
  | .usmLogout i, n, y => opUsmLogout n y i
  | .svc w v, n, y => opSvc n y w v
  | .shutdown, n, y => opShutdown n y
  | .startup, n, y => opStartup n y
  | .reset, n, y => opReset n y

/-- the ACL edit on the router between the hosts: a set of blocked directions (adding twice = once) -/
def opSetBlock (n : Net) (x y : Nat) (on : Bool) : Net × Out :=
  ({ n with blocked := if on then (if n.blocked.contains (x, y) then n.blocked else n.blocked ++ [(x, y)])
                       else n.blocked.filter (fun p => p != (x, y)) }, .success)

def step (n : Net) : Op → Net × Out
  | .req y c => execCmd c n y
  | .enableUser y u => opEnableUser n y u
  | .addUserBypass y u p adm => opAddUserBypass n y u p adm
  | .localLogin y u p => opLocalLogin n y u p
  | .localLogout y => opLocalLogout n y
  | .tick => (tick n, .success)
  | .setBlock x y on => opSetBlock n x y on

def run (n : Net) : List Op → Net
  | [] => n
  | op :: ops => run (step n op).1 ops

end Primaite.Session
