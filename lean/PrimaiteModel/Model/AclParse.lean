/-
Model of the VALUE layer of ACL rule fields: how a port / protocol written by a caller (a name, a number, a sentinel,
Python `None`) becomes the field of the stored `ACLRule`, on each of the four surfaces the code offers:

* Python API           `AccessControlList.add_rule(src_port=v, …)` under `validate_call` (`Optional[Port]`, `Optional[IPProtocol]`),
                       then `ACLRule(src_port=…)` validates the same annotation once more;
* request API          `_add_rule_action`: `None if request[i] == "ALL" else request[i]`, then the Python API;
* agent action         `ACLAddRuleAbstractAction.ConfigSchema` (`Union[Port, Literal["ALL"]]`), `form_request`, then the request API;
* scenario file        the loaders: `None if not (p := r_cfg.get(key)) else PORT_LOOKUP[p]`, then the Python API.

src/primaite/utils/validation/port.py (`port_validator`, `PORT_LOOKUP`), ip_protocol.py (`protocol_validator`,
`PROTOCOL_LOOKUP`, `VALID_PROTOCOLS`).  The tables are parameters here; `Gen/AclParse.lean` supplies the current ones.
Core Lean only.
-/
import PrimaiteModel.Model.Acl
namespace Primaite.Acl.Parse

/-- A Python value as the validators see it.  `other` = an object that is neither `str` nor `int` nor `None`
(float, list, …; `bool` is NOT represented: it is an `int` for `isinstance`). -/
inductive PyVal | str (s : String) | int (i : Int) | none | other
deriving DecidableEq, Repr

/-- look-up in a `dict(...)` literal (its keys are distinct by construction) -/
def lookup {α} (tbl : List (String × α)) (k : String) : Option α := (tbl.find? (·.1 == k)).map (·.2)

-- the primitives the translated validators are written with
def PyVal.isStr : PyVal → Bool | .str _ => true | _ => false
def PyVal.isInt : PyVal → Bool | .int _ => true | _ => false
/-- `v in TABLE` for a dict with string keys (a non-string hashable is simply not a key) -/
def PyVal.inKeys {α} (tbl : List (String × α)) : PyVal → Bool
  | .str s => (lookup tbl s).isSome
  | _ => false
/-- `v in LIST` for a list of strings -/
def PyVal.inStrs (l : List String) : PyVal → Bool
  | .str s => l.contains s
  | _ => false
/-- `TABLE[v]` for an int-valued table, behind `v in TABLE` -/
def PyVal.getInt (tbl : List (String × Int)) : PyVal → PyVal
  | .str s => match lookup tbl s with | some i => .int i | Option.none => .other
  | _ => .other
def PyVal.getStr (tbl : List (String × String)) : PyVal → PyVal
  | .str s => match lookup tbl s with | some i => .str i | Option.none => .other
  | _ => .other
/-- `a <= v <= b`, behind `isinstance(v, int)` -/
def PyVal.between (a b : Int) : PyVal → Bool
  | .int i => decide (a ≤ i) && decide (i ≤ b)
  | _ => false
/-- `a <(=) v <(=) b` with strict bounds where flagged (a rewritten range test is translated as written) -/
def PyVal.betweenX (a : Int) (sa : Bool) (b : Int) (sb : Bool) : PyVal → Bool
  | .int i => (if sa then decide (a < i) else decide (a ≤ i)) && (if sb then decide (i < b) else decide (i ≤ b))
  | _ => false
/-- Python truthiness -/
def PyVal.truthy : PyVal → Bool
  | .str s => s != "" | .int i => i != 0 | .none => false | .other => true

structure Tables where
  ports : List (String × Int)
  protos : List (String × String)
  valid : List String

def inPortRange (i : Int) : Bool := decide (0 ≤ i) && decide (i ≤ 65535)

/-- SPEC of `port_validator`: a name of the table whose number is a port, or a number that is a port. -/
def portOf (T : Tables) : PyVal → Option Nat
  | .str s => match lookup T.ports s with
    | some i => if inPortRange i then some i.toNat else none
    | none => none
  | .int i => if inPortRange i then some i.toNat else none
  | _ => none

/-- SPEC of `protocol_validator`: a key of the look-up table gives its value; a valid protocol is itself. -/
def protoNameOf (T : Tables) : PyVal → Option String
  | .str s => match lookup T.protos s with
    | some p => some p
    | none => if T.valid.contains s then some s else none
  | _ => none

/-- the protocols the frame model distinguishes, by their `IPProtocol` string -/
def protoOfName : String → Option Proto
  | "none" => some .none | "tcp" => some .tcp | "udp" => some .udp | "icmp" => some .icmp | _ => none
def _root_.Primaite.Acl.Proto.name : Proto → String
  | .none => "none" | .tcp => "tcp" | .udp => "udp" | .icmp => "icmp"

def protoOf (T : Tables) (v : PyVal) : Option Proto := (protoNameOf T v).bind protoOfName

/-! ### the four surfaces.  Outer `none` = the call raises / the request fails (nothing is stored);
`some none` = the field is unspecified (`None`); `some (some x)` = specified. -/

/-- `Optional[T]` of `add_rule` under `validate_call`, then of `ACLRule`: `None` stays `None`, anything else must
pass the validator; what it returns is validated once more when the rule object is built. -/
def apiField {α} (validate : PyVal → Option α) (enc : α → PyVal) : PyVal → Option (Option α)
  | .none => some none
  | v => match validate v with
    | some a => (validate (enc a)).map some   -- ACLRule(field=a)
    | none => none

/-- `_add_rule_action`: `None if request[i] == "ALL" else request[i]`, then `add_rule`. -/
def requestField {α} (validate : PyVal → Option α) (enc : α → PyVal) (v : PyVal) : Option (Option α) :=
  if v = .str "ALL" then some none else apiField validate enc v

/-- `ConfigSchema` field `Union[T, Literal["ALL"]]`: the validated value, else the literal, else a validation error. -/
def actionConfig {α} (validate : PyVal → Option α) (enc : α → PyVal) (v : PyVal) : Option PyVal :=
  match validate v with
  | some a => some (enc a)
  | none => if v = .str "ALL" then some (.str "ALL") else none

/-- agent action: `form_request` hands the config value to the request API unchanged. -/
def actionField {α} (validate : PyVal → Option α) (enc : α → PyVal) (v : PyVal) : Option (Option α) :=
  (actionConfig validate enc v).bind (requestField validate enc)

/-- loaders: `None if not (p := r_cfg.get(key)) else TABLE[p]` (a missing key reads as `None`; `KeyError` otherwise). -/
def loaderValue {β} (tbl : List (String × β)) (wrap : β → PyVal) (v : PyVal) : Option PyVal :=
  if !v.truthy then some .none
  else match v with
    | .str s => (lookup tbl s).map wrap
    | _ => none

def loaderField {α β} (tbl : List (String × β)) (wrap : β → PyVal) (validate : PyVal → Option α) (enc : α → PyVal) (v : PyVal) :
    Option (Option α) :=
  (loaderValue tbl wrap v).bind (apiField validate enc)

def encPort (n : Nat) : PyVal := .int n
def encProto (s : String) : PyVal := .str s

inductive Surface | api | request | action | loader
deriving DecidableEq, Repr

def portVia (T : Tables) : Surface → PyVal → Option (Option Nat)
  | .api => apiField (portOf T) encPort
  | .request => requestField (portOf T) encPort
  | .action => actionField (portOf T) encPort
  | .loader => loaderField T.ports PyVal.int (portOf T) encPort

def protoNameVia (T : Tables) : Surface → PyVal → Option (Option String)
  | .api => apiField (protoNameOf T) encProto
  | .request => requestField (protoNameOf T) encProto
  | .action => actionField (protoNameOf T) encProto
  | .loader => loaderField T.protos PyVal.str (protoNameOf T) encProto

end Primaite.Acl.Parse
