/-
C03 — a small imperative LOOP LANGUAGE for the bodies of the `for` loops / comprehensions that iterate a hash-ordered set.

Until round 7 the discharges `setToSet`, `setNoEffect`, `setLengthOnly`, `setDictByKey` rested on "the code's loop IS this consumer",
established by reading.  Now `harness/extract/nondet_loops.py` translates the REAL loop (statement by statement) into a `Loop`:

  * the body: assignments to locals, `if`/`elif`/`else`, and EMITS — the only effects that outlive an iteration:
    `acc.append(e)`, `acc.add(e)`, `acc[k] = v`, the element/value pair of a dict comprehension, the element of `list(s)`;
    everything else in an expression is an application of an UNINTERPRETED pure function (`Prims`: `isinstance`, `PORT_LOOKUP[...]`,
    `IPv4Address(...)`, `read_text`, …), so a theorem "for all `Prims`" holds whatever those functions compute;
  * the uses: how the function (or the callee / class the accumulator is handed to) consumes each accumulator afterwards
    (`set(acc)`, `len(acc)`, `sorted(acc)`, by key only, not at all, or in ORDER).

Python semantics kept: locals SURVIVE from one iteration to the next (a local read before it is assigned in this iteration
has the value the previous iteration left — this is what makes a loop order-dependent without any visible accumulator);
truthiness of 0 / None (both `0`) in `if`; a dict keeps the LAST value written under a key.

`Loop.wellFormed` is the syntactic check (definite assignment: no loop-carried local; every accumulator has a declared,
order-insensitive use; dict accumulators are keyed by the element itself); `Lemmas/NoninterfLoop.lean` proves
`wellFormed → Invariant (consumer …)` for ALL pure-function interpretations.  Core Lean only.
-/
import PrimaiteModel.Model.Noninterf

namespace Primaite.Noninterf.LoopIR

inductive Expr where
  | const (n : Nat)
  | elem                              -- the element the set hands out in this iteration
  | var (x : String)                  -- a local of the function (the loop variable included: it can be re-bound)
  | app1 (f : String) (a : Expr)      -- a pure function of one / two values (free names are `app1 "free:<name>" (const 0)`)
  | app2 (f : String) (a b : Expr)
  deriving DecidableEq, Repr

inductive Stmt where
  | skip
  | assign (x : String) (e : Expr)
  | seq (a b : Stmt)
  | ite (c : Expr) (t e : Stmt)       -- Python truthiness: the branch `t` is taken iff the value is not 0
  | emit (acc : String) (k v : Expr)  -- `acc.append(v)` / `acc.add(v)` (then `k = v`), `acc[k] = v`
  deriving DecidableEq, Repr

/-- interpretation of the pure functions: arbitrary -/
structure Prims where
  f1 : String → Nat → Nat
  f2 : String → Nat → Nat → Nat

abbrev Store := List (String × Nat)

/-- value of a local. A local that was never assigned raises UnboundLocalError in Python; `wellFormed` (definite assignment)
excludes every such read, so the `0` is never observed by a program the theorem speaks about. -/
def Store.get (s : Store) (x : String) : Nat := (s.lookup x).getD 0

def Expr.eval (P : Prims) (x : Nat) (s : Store) : Expr → Nat
  | .const n => n
  | .elem => x
  | .var v => s.get v
  | .app1 f a => P.f1 f (a.eval P x s)
  | .app2 f a b => P.f2 f (a.eval P x s) (b.eval P x s)

abbrev Emit := String × Nat × Nat

/-- one execution of the body for element `x` in store `s`: the store afterwards and the emits, in program order -/
def Stmt.exec (P : Prims) (x : Nat) : Stmt → Store → Store × List Emit
  | .skip, s => (s, [])
  | .assign v e, s => ((v, e.eval P x s) :: s, [])
  | .seq a b, s => ((b.exec P x (a.exec P x s).1).1, (a.exec P x s).2 ++ (b.exec P x (a.exec P x s).1).2)
  | .ite c t e, s => if c.eval P x s ≠ 0 then t.exec P x s else e.exec P x s
  | .emit acc k v, s => (s, [(acc, k.eval P x s, v.eval P x s)])

/-- the `for` loop: the store is threaded from one iteration to the next -/
def runLoop (P : Prims) (body : Stmt) : List Nat → Store → List Emit
  | [], _ => []
  | x :: t, s => (body.exec P x s).2 ++ runLoop P body t (body.exec P x s).1

/-- how an accumulator is consumed after the loop -/
inductive Use where
  | asSet      -- `set(acc)`, `frozenset(acc)`
  | asSorted   -- `sorted(acc)`
  | lenOnly    -- `len(acc)`
  | byKey      -- `acc[k]`, `acc.get(k)`, `k in acc`
  | dropped    -- never read
  | ordered    -- anything else: iteration, indexing by position, `return acc`, formatting …
  deriving DecidableEq, Repr

structure Loop where
  body : Stmt
  uses : List (String × Use)
  deriving DecidableEq, Repr

def accOf (acc : String) (em : List Emit) : List (Nat × Nat) := (em.filter (·.1 == acc)).map (·.2)

def observe (keys : List Nat) : Use → List (Nat × Nat) → List Nat
  | .asSet, em => canonSet (em.map (·.2))
  | .asSorted, em => sortedIter (em.map (·.2))
  | .lenOnly, em => [em.length]
  | .byKey, em => keys.map fun k => match (em.filter (·.1 == k)).getLast? with
      | some kv => kv.2 + 1
      | none => 0
  | .dropped, _ => []
  | .ordered, em => em.map (·.2)

/-- what the rest of the program can learn from the loop over the set handed out in the order `l` (`keys` = the keys the
program ever looks up in a dict accumulator) -/
def Loop.consumer (P : Prims) (keys : List Nat) (p : Loop) (l : List Nat) : List Nat :=
  p.uses.flatMap fun u => observe keys u.2 (accOf u.1 (runLoop P p.body l []))

/-! ### the syntactic check -/

def Expr.readsOk (A : List String) : Expr → Bool
  | .var v => A.contains v
  | .app1 _ a => a.readsOk A
  | .app2 _ a b => a.readsOk A && b.readsOk A
  | _ => true

/-- locals DEFINITELY assigned after the statement, given those assigned before -/
def Stmt.defs (A : List String) : Stmt → List String
  | .assign v _ => v :: A
  | .seq a b => b.defs (a.defs A)
  | .ite _ t e => (t.defs A).filter fun v => (e.defs A).contains v
  | _ => A

/-- every read of a local is preceded, IN THE SAME ITERATION and on every path, by an assignment -/
def Stmt.readsOk (A : List String) : Stmt → Bool
  | .skip => true
  | .assign _ e => e.readsOk A
  | .seq a b => a.readsOk A && b.readsOk (a.defs A)
  | .ite c t e => c.readsOk A && t.readsOk A && e.readsOk A
  | .emit _ k v => k.readsOk A && v.readsOk A

def Stmt.accs : Stmt → List String
  | .seq a b => a.accs ++ b.accs
  | .ite _ t e => t.accs ++ e.accs
  | .emit acc _ _ => [acc]
  | _ => []

/-- every emit into `acc` is keyed by the element itself -/
def Stmt.keyedByElem (acc : String) : Stmt → Bool
  | .seq a b => a.keyedByElem acc && b.keyedByElem acc
  | .ite _ t e => t.keyedByElem acc && e.keyedByElem acc
  | .emit a k _ => a != acc || k == .elem
  | _ => true

def Loop.wellFormed (p : Loop) : Bool :=
  p.body.readsOk [] &&
  p.body.accs.all (fun a => p.uses.any fun u => u.1 == a) &&
  p.uses.all fun u => u.2 != .ordered && (u.2 != .byKey || p.body.keyedByElem u.1)

end Primaite.Noninterf.LoopIR
