/-
Model of the episode bookkeeping of `PrimaiteGymEnv.step/reset` and `PrimaiteGame.apply_agent_actions /
advance_timestep / update_agents / calculate_truncated` (session/environment.py, game/game.py,
game/agent/interface.py), parametric in an arbitrary total simulator, arbitrary agent policies and an arbitrary
reward function.  The order of the calls is the one regenerated in Gen/Episode.lean.
-/
import PrimaiteModel.Model.Basic
import PrimaiteModel.Model.Request
namespace Primaite.Episode

/-- One `AgentHistoryItem`: the tick it was taken at, what was asked, what was answered, the reward saved later. -/
structure Item (Req Resp : Type) where
  timestep : Nat
  request : Req
  response : Resp
  reward : Option Int := none

structure Agent (Req Resp : Type) where
  hist : List (Item Req Resp) := []
  current : Int := 0
  total : Int := 0

/-- Everything the bookkeeping treats as opaque. `σ` is the simulation, `Act` the RL agent's action. -/
structure Sem (σ Act Req Resp : Type) where
  /-- `Simulation.pre_timestep(t)` -/
  pre : Nat → σ → σ
  /-- `get_action` + `format_request` of agent `i` at tick `t` (the proxy agent uses the stored action) -/
  choose : Nat → Nat → Act → σ → Req
  /-- `Simulation.apply_request` -/
  apply : Req → σ → σ × Resp
  /-- `Simulation.apply_timestep(t)` -/
  tick : Nat → σ → σ
  /-- reward of agent `i` on the post-step state and its own last history item; rewards of agents evaluated earlier
  in the same `update_agents` pass are visible through the list of `(agent, current)` already computed -/
  reward : Nat → σ → Item Req Resp → List (Nat × Int) → Int

structure Game (σ Req Resp : Type) where
  sim : σ
  step : Nat := 0
  agents : List (Agent Req Resp)
  maxLen : Nat

variable {σ Act Req Resp : Type}

/-- `apply_agent_actions`: every agent, in dictionary order, chooses, is applied, and gets exactly one history item
stamped with the current `step_counter`. -/
def applyActions (sem : Sem σ Act Req Resp) (t : Nat) (a : Act) :
    Nat → List (Agent Req Resp) → σ → List (Agent Req Resp) × σ
  | _, [], s => ([], s)
  | i, ag :: rest, s =>
    let req := sem.choose i t a s
    let (s', resp) := sem.apply req s
    let ag' := { ag with hist := ag.hist ++ [{ timestep := t, request := req, response := resp }] }
    let (rest', s'') := applyActions sem t a (i + 1) rest s'
    (ag' :: rest', s'')

def setLastReward (h : List (Item Req Resp)) (r : Int) : List (Item Req Resp) :=
  match h.reverse with
  | [] => []
  | last :: before => (({ last with reward := some r }) :: before).reverse

/-- what `update_agents` does to one agent: `step > 0`: update the reward and save it to the last history item;
always add `current_reward` to `total_reward`. -/
def updOne (sem : Sem σ Act Req Resp) (step : Nat) (s : σ) (i : Nat) (done : List (Nat × Int))
    (ag : Agent Req Resp) : Agent Req Resp :=
  let ag1 :=
    if step > 0 then
      match ag.hist.getLast? with
      | some it =>
        let r := sem.reward i s it done
        { ag with current := r, hist := setLastReward ag.hist r }
      | none => ag
    else ag
  { ag1 with total := ag1.total + ag1.current }

/-- `update_agents` in the given evaluation order (a list of agent indices; the code uses the topological order of
the reward-sharing graph). -/
def updateAgents (sem : Sem σ Act Req Resp) (step : Nat) (s : σ) :
    List Nat → List (Nat × Int) → List (Agent Req Resp) → List (Agent Req Resp)
  | [], _, ags => ags
  | i :: order, done, ags =>
    match ags[i]? with
    | none => updateAgents sem step s order done ags
    | some ag =>
      let ag2 := updOne sem step s i done ag
      updateAgents sem step s order ((i, ag2.current) :: done) (ags.set i ag2)

/-- `calculate_truncated` -/
def truncated (g : Game σ Req Resp) : Bool := decide (g.step ≥ g.maxLen)

structure StepOut where
  truncated : Bool
  terminated : Bool
deriving DecidableEq, Repr

/-- `PrimaiteGymEnv.step`: store action, pre_timestep, apply_agent_actions, advance_timestep
(`step_counter += 1` then `apply_timestep(step_counter)`), update_agents, flags. -/
def envStep (sem : Sem σ Act Req Resp) (order : List Nat) (g : Game σ Req Resp) (a : Act) :
    Game σ Req Resp × StepOut :=
  let s1 := sem.pre g.step g.sim
  let (ags1, s2) := applyActions sem g.step a 0 g.agents s1
  let step' := g.step + 1
  let s3 := sem.tick step' s2
  let ags2 := updateAgents sem step' s3 order [] ags1
  let g' : Game σ Req Resp := { g with sim := s3, step := step', agents := ags2 }
  (g', { truncated := truncated g', terminated := false })

/-- `PrimaiteGymEnv.reset`: throw the game away, build a new one from the episode's configuration
(`build` = `PrimaiteGame.from_config` + `setup_for_episode`), then `update_agents` at step 0. -/
def envReset (sem : Sem σ Act Req Resp) (order : List Nat) (build : Nat → σ) (nAgents maxLen : Nat)
    (episode : Nat) : Game σ Req Resp :=
  let s := build episode
  let ags := updateAgents sem 0 s order [] (List.replicate nAgents ({} : Agent Req Resp))
  { sim := s, step := 0, agents := ags, maxLen := maxLen }

def run (sem : Sem σ Act Req Resp) (order : List Nat) (g : Game σ Req Resp) : List Act → Game σ Req Resp
  | [] => g
  | a :: as => run sem order (envStep sem order g a).1 as

/-! ### the request layer as the simulator's `apply_request`

`Simulation.apply_request` is `RequestManager.__call__` on the tree of the current state (model: `Request.dispatchK`,
C05).  A refusal is built by the manager itself and always carries a documented status; a reached handler hands back
whatever it returns: a `RequestResponse` with one of the four statuses (`some st`), or something else — `None`, a bool —
(`none`), which `AgentHistoryItem(response=…)` rejects (in Python: a ValidationError out of `step`). -/

/-- what `apply_request` may hand to `process_action_response` -/
abbrev RawResp := Option Request.Status

structure ReqSim (σ : Type) where
  /-- the request tree of a simulation state (it changes as software and nodes come and go) -/
  kids : σ → Request.Kids
  /-- the validators, evaluated in a simulation state -/
  env : σ → Request.Env
  /-- the handlers: the only code that touches the simulation state -/
  handler : Request.HId → List Request.Key → σ → σ × RawResp

def ReqSim.apply (R : ReqSim σ) (req : List Request.Key) (s : σ) : σ × RawResp :=
  match Request.dispatchK (R.env s) (R.kids s) req 0 with
  | .unreachable _ => (s, some .unreachable)
  | .failure _ _ => (s, some .failure)
  | .reached h args => R.handler h args s

/-- The four documented statuses as the strings of `RequestResponse.status` (compared with the regenerated Literal). -/
def statusName : Request.Status → String
  | .pending => "pending"
  | .success => "success"
  | .failure => "failure"
  | .unreachable => "unreachable"

def allStatuses : List Request.Status := [.pending, .success, .failure, .unreachable]

end Primaite.Episode
