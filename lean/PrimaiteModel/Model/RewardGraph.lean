/-
Model of `graph_has_cycle` and `topological_sort` (src/primaite/game/science.py), as written:

* the graph is a Python dict `node -> iterable of nodes`; here an association list in key (insertion) order, looked up
  with `graph.get(node, [])` (`nbrs`: first binding, `[]` for a node that is not a key);
* `topological_sort`: recursive `dfs` with a `visited` set and a post-order `stack` (`tdfs`), top level iterates the keys;
* `graph_has_cycle`: recursive `depth_first_search` with `visited` and `currently_visiting`, early `return True` out of the
  neighbour loop (`loopE`), `currently_visiting.remove(node)` on the way out (`cdfs`).

Python's recursion is replaced by structural recursion on a fuel argument; `fuelFor g` (= number of entries of the
node universe + 1) is proved sufficient in Lemmas/RewardGraph*.lean, so the fuel-exhausted branches are unreachable.
Sets are modelled by lists and only ever tested with `∈` (that is all the code does with them), so the model is
independent of set iteration order; the *neighbour* order (the graph values are Python `set`s in `setup_reward_sharing`)
is whatever order the association list carries, and every theorem is for all such orders.

Polymorphic in the node type (agent names are strings; the proofs never use more than decidable equality).
Core Lean only.
-/
namespace Primaite.RewardGraph

variable {α : Type} [DecidableEq α]

abbrev Graph (α : Type) := List (α × List α)

/-- `graph.get(n, [])` -/
def nbrs (g : Graph α) (n : α) : List α := (g.lookup n).getD []

/-- the keys, in dict order: what `for node in graph` iterates -/
def keys (g : Graph α) : List α := g.map (·.1)

/-- every node mentioned: keys, then all neighbour lists -/
def univ (g : Graph α) : List α := g.map (·.1) ++ g.flatMap (·.2)

/-- `topological_sort`'s inner `dfs`, as written (post-order), with fuel. State = (visited, stack). -/
def tdfs (g : Graph α) : Nat → List α × List α → α → List α × List α
  | 0, st, _ => st
  | fuel+1, (vis, stk), n =>
    if n ∈ vis then (vis, stk)
    else
      let r := (nbrs g n).foldl (fun st m => tdfs g fuel st m) (n :: vis, stk)
      (r.1, r.2 ++ [n])

/-- top level of `topological_sort` with explicit fuel -/
def topoSortF (g : Graph α) (fuel : Nat) : List α :=
  ((keys g).foldl (fun st n => tdfs g fuel st n) ([], [])).2

abbrev CSt (α : Type) := List α × List α     -- (visited, currently_visiting)

/-- the `for neighbour in ...: if dfs(neighbour): return True` loop -/
def loopE (f : CSt α → α → Bool × CSt α) : CSt α → List α → Bool × CSt α
  | st, [] => (false, st)
  | st, m :: ms =>
    let r := f st m
    if r.1 then (true, r.2) else loopE f r.2 ms

/-- `graph_has_cycle`'s inner `depth_first_search`, as written, with fuel. -/
def cdfs (g : Graph α) : Nat → CSt α → α → Bool × CSt α
  | 0, st, _ => (false, st)
  | fuel+1, (vis, cur), n =>
    if n ∈ cur then (true, (vis, cur))
    else if n ∈ vis then (false, (vis, cur))
    else
      let r := loopE (cdfs g fuel) (n :: vis, n :: cur) (nbrs g n)
      if r.1 then (true, r.2) else (false, (r.2.1, r.2.2.erase n))

def hasCycleF (g : Graph α) (fuel : Nat) : Bool := (loopE (cdfs g fuel) ([], []) (keys g)).1

/-- enough fuel for any run (proved: `mu g [] < fuelFor g`) -/
def fuelFor (g : Graph α) : Nat := (univ g).length + 1

/-- `graph_has_cycle(graph)` -/
def hasCycle (g : Graph α) : Bool := hasCycleF g (fuelFor g)

/-- `topological_sort(graph)` -/
def topoSort (g : Graph α) : List α := topoSortF g (fuelFor g)

end Primaite.RewardGraph
